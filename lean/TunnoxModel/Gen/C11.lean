/- GENERATED from the Go source by /verif/extract on every run. Do not edit. -/
import TunnoxModel.Model.PredPrelude
open Tunnox.PredPrelude
namespace Gen

namespace c11.cmd
def Connect : Nat := 10
def Disconnect : Nat := 11
def Reconnect : Nat := 12
def HeartbeatCmd : Nat := 13
def KickClient : Nat := 14
def ServerShutdown : Nat := 15
def TcpMapCreate : Nat := 20
def TcpMapDelete : Nat := 21
def TcpMapUpdate : Nat := 22
def TcpMapList : Nat := 23
def TcpMapStatus : Nat := 24
def HttpMapCreate : Nat := 25
def HttpMapDelete : Nat := 26
def HttpMapUpdate : Nat := 27
def HttpMapList : Nat := 28
def HttpMapStatus : Nat := 29
def SocksMapCreate : Nat := 30
def SocksMapDelete : Nat := 31
def SocksMapUpdate : Nat := 32
def SocksMapList : Nat := 33
def SocksMapStatus : Nat := 34
def TunnelOpenRequestCmd : Nat := 35
def TunnelMigrate : Nat := 36
def TunnelMigrateAck : Nat := 37
def TunnelStateSync : Nat := 38
def DataTransferStart : Nat := 40
def DataTransferStop : Nat := 41
def DataTransferStatus : Nat := 42
def ProxyForward : Nat := 43
def DataTransferOut : Nat := 44
def ConfigGet : Nat := 50
def ConfigSet : Nat := 51
def StatsGet : Nat := 52
def LogGet : Nat := 53
def HealthCheck : Nat := 54
def RpcInvoke : Nat := 60
def RpcRegister : Nat := 61
def RpcUnregister : Nat := 62
def RpcList : Nat := 63
def ConnectionCodeGenerate : Nat := 70
def ConnectionCodeList : Nat := 71
def ConnectionCodeActivate : Nat := 72
def ConnectionCodeRevoke : Nat := 73
def MappingList : Nat := 74
def MappingGet : Nat := 75
def MappingDelete : Nat := 76
def HTTPProxyRequest : Nat := 80
def HTTPProxyResponse : Nat := 81
def HTTPDomainGetBaseDomains : Nat := 82
def HTTPDomainCheckSubdomain : Nat := 83
def HTTPDomainGenSubdomain : Nat := 84
def HTTPDomainCreate : Nat := 85
def HTTPDomainDelete : Nat := 86
def HTTPDomainList : Nat := 87
def SOCKS5TunnelRequestCmd : Nat := 90
def TunnelTrafficReport : Nat := 110
def NotifyClient : Nat := 100
def NotifyClientAck : Nat := 101
def SendNotifyToClient : Nat := 102
def DNSResolve : Nat := 120
def DNSQuery : Nat := 121
def all : List (String × Nat) := [("Connect", 10), ("Disconnect", 11), ("Reconnect", 12), ("HeartbeatCmd", 13), ("KickClient", 14), ("ServerShutdown", 15), ("TcpMapCreate", 20), ("TcpMapDelete", 21), ("TcpMapUpdate", 22), ("TcpMapList", 23), ("TcpMapStatus", 24), ("HttpMapCreate", 25), ("HttpMapDelete", 26), ("HttpMapUpdate", 27), ("HttpMapList", 28), ("HttpMapStatus", 29), ("SocksMapCreate", 30), ("SocksMapDelete", 31), ("SocksMapUpdate", 32), ("SocksMapList", 33), ("SocksMapStatus", 34), ("TunnelOpenRequestCmd", 35), ("TunnelMigrate", 36), ("TunnelMigrateAck", 37), ("TunnelStateSync", 38), ("DataTransferStart", 40), ("DataTransferStop", 41), ("DataTransferStatus", 42), ("ProxyForward", 43), ("DataTransferOut", 44), ("ConfigGet", 50), ("ConfigSet", 51), ("StatsGet", 52), ("LogGet", 53), ("HealthCheck", 54), ("RpcInvoke", 60), ("RpcRegister", 61), ("RpcUnregister", 62), ("RpcList", 63), ("ConnectionCodeGenerate", 70), ("ConnectionCodeList", 71), ("ConnectionCodeActivate", 72), ("ConnectionCodeRevoke", 73), ("MappingList", 74), ("MappingGet", 75), ("MappingDelete", 76), ("HTTPProxyRequest", 80), ("HTTPProxyResponse", 81), ("HTTPDomainGetBaseDomains", 82), ("HTTPDomainCheckSubdomain", 83), ("HTTPDomainGenSubdomain", 84), ("HTTPDomainCreate", 85), ("HTTPDomainDelete", 86), ("HTTPDomainList", 87), ("SOCKS5TunnelRequestCmd", 90), ("TunnelTrafficReport", 110), ("NotifyClient", 100), ("NotifyClientAck", 101), ("SendNotifyToClient", 102), ("DNSResolve", 120), ("DNSQuery", 121)]
end c11.cmd

namespace c11
def identityKeys : List (String × Bool) := [("activated_by", false), ("by_client_id", false), ("client_id", false), ("conn_id", true), ("connection_id", true), ("created_by", true), ("listen_client_id", false), ("new_node_id", true), ("node_id", true), ("peer_client_id", false), ("platform_user_id", false), ("revoked_by", true), ("sender_client_id", false), ("source_conn_id", true), ("source_node_id", true), ("target_client_id", false), ("target_node_id", true), ("user_id", true)]
end c11

namespace Sel
def c11_specialCased : List Nat := [c11.cmd.HTTPProxyResponse, c11.cmd.SOCKS5TunnelRequestCmd, c11.cmd.DNSResolve, c11.cmd.DNSQuery, c11.cmd.TunnelTrafficReport, c11.cmd.Disconnect]
def c11_registered : List Nat := [c11.cmd.DNSResolve, c11.cmd.HTTPDomainGenSubdomain, c11.cmd.HTTPDomainCreate, c11.cmd.HTTPDomainDelete, c11.cmd.HTTPDomainGetBaseDomains, c11.cmd.HTTPDomainCheckSubdomain, c11.cmd.HTTPDomainList, c11.cmd.NotifyClientAck, c11.cmd.SendNotifyToClient, c11.cmd.TcpMapCreate, c11.cmd.HttpMapCreate, c11.cmd.SocksMapCreate, c11.cmd.DataTransferStart, c11.cmd.DataTransferOut, c11.cmd.ProxyForward, c11.cmd.Disconnect, c11.cmd.RpcInvoke, c11.cmd.ConfigGet, c11.cmd.ConnectionCodeGenerate, c11.cmd.ConnectionCodeList, c11.cmd.ConnectionCodeActivate, c11.cmd.MappingList, c11.cmd.MappingGet, c11.cmd.MappingDelete]
end Sel

namespace Skel
def c11_ActivateConnectionCode_Handle : List String := ["getClientID", "connCodeService.ActivateConnectionCode"]
def c11_ConfigGet_Handle : List String := ["getClientID", "sessionMgr.GetControlConnection", "authHandler.GetClientConfig"]
def c11_DeleteMapping_Handle : List String := ["getClientID", "connCodeService.GetMapping", "DeletePortMapping"]
def c11_Execute : List String := ["createCommandContext", "registry.GetHandler", "executeOneway", "executeDuplex"]
def c11_GenerateConnectionCode_Handle : List String := ["getClientID", "connCodeService.CreateConnectionCode"]
def c11_GetClientIDByConnectionID : List String := ["getControlConnectionByConnID"]
def c11_GetMapping_Handle : List String := ["getClientID", "connCodeService.GetMapping"]
def c11_HTTPDomainCreate_Handle : List String := ["checker.IsBaseDomainAllowed", "checker.IsSubdomainAvailable", "creator.CreateHTTPDomainMapping"]
def c11_HTTPDomainDelete_Handle : List String := ["deleter.DeleteHTTPDomainMapping"]
def c11_HTTPDomainList_Handle : List String := ["lister.ListHTTPDomainMappings"]
def c11_HTTPDomainRepo_DeleteMapping : List String := ["GetMapping", "storage.Delete", "storage.Delete", "storage.Delete", "removeFromClientMappingList", "removeFromGlobalMappingList"]
def c11_HandleDNSQueryRequest : List String := ["getClientIDFromConnection", "getDefaultTargetClientID", "GetControlConnectionByClientID", "handleDNSQueryCrossNode", "Stream.WritePacket"]
def c11_HandleDNSResolveRequest : List String := ["getClientIDFromConnection", "getDefaultTargetClientID", "GetControlConnectionByClientID", "Stream.WritePacket"]
def c11_HandleSOCKS5TunnelRequest : List String := ["cloudControl.GetPortMapping", "getClientIDFromConnection", "GetControlConnectionByClientID", "bridgeManager.BroadcastTunnelOpen", "Stream.WritePacket"]
def c11_HandleTrafficReport : List String := ["cloudControl.GetPortMapping", "getClientIDFromConnection", "cloudControl.UpdatePortMappingStats"]
def c11_ListConnectionCodes_Handle : List String := ["getClientID", "connCodeService.ListConnectionCodesByTargetClient"]
def c11_ListMappings_Handle : List String := ["getClientID", "connCodeService.ListOutboundMappings", "connCodeService.ListInboundMappings", "connCodeService.ListOutboundMappings", "connCodeService.ListInboundMappings"]
def c11_SendNotifyToClient_Handle : List String := ["router.IsClientOnline", "WithSender", "router.SendToClient"]
def c11_createCommandContext : List String := ["GetClientIDByConnectionID"]
def c11_getClientIDFromConnection : List String := ["clientRegistry.GetByConnID", "getConnectionByConnID", "GetClientID"]
def c11_handleCommandPacket : List String := ["handleHTTPProxyResponsePacket", "HandleSOCKS5TunnelRequest", "HandleDNSResolveResponse", "HandleDNSResolveRequest", "HandleDNSQueryResponse", "HandleDNSQueryRequest", "HandleTrafficReport", "handleDisconnectCommand", "commandExecutor.Execute", "handleDefaultCommand"]
def c11_handleDisconnectCommand : List String := ["clientRegistry.GetByConnID", "CloseConnection"]
def c11_handler_getClientID : List String := ["sessionMgr.GetControlConnection"]
end Skel

end Gen
