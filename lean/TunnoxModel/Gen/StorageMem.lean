/- GENERATED from the Go source by /verif/extract on every run. Do not edit. -/
import TunnoxModel.Model.PredPrelude
open Tunnox.PredPrelude
namespace Gen

namespace cloudconstants
def DefaultDataTTL : Nat := 86400000000000
end cloudconstants

namespace Skel
def Mem_AppendToList : List String := ["mu.Lock", "defer mu.Unlock", "@m.data", "@m.data", "@m.data", "{ret", "@m.data", "Add", "}", "IsZero", "@item.Expiration", "After", "@item.Expiration", "{ret", "@m.data", "Add", "}", "@item.Value", "{ret", "@item.Value", "}"]
def Mem_CleanupExpired : List String := ["mu.Lock", "defer mu.Unlock", "@m.data", "IsZero", "@item.Expiration", "After", "@item.Expiration", "delete", "@m.data"]
def Mem_CompareAndSwap : List String := ["mu.Lock", "defer mu.Unlock", "@m.data", "@m.data", "@m.data", "{ret", "{ret", "@m.data", "expirationFor", "}", "}", "IsZero", "@item.Expiration", "After", "@item.Expiration", "{ret", "delete", "@m.data", "{ret", "@m.data", "expirationFor", "}", "}", "@item.Value", "{ret", "}", "@item.Value", "@item.Expiration", "expirationFor"]
def Mem_Delete : List String := ["mu.Lock", "defer mu.Unlock", "delete", "@m.data"]
def Mem_DeleteHash : List String := ["mu.Lock", "defer mu.Unlock", "@m.data", "{ret", "}", "IsZero", "@item.Expiration", "After", "@item.Expiration", "{ret", "delete", "@m.data", "}", "@hash", "@item.Value", "{ret", "delete", "@hash", "}"]
def Mem_Exists : List String := ["mu.RLock", "defer mu.RUnlock", "@m.data", "{ret", "}", "@m.data", "{ret", "}", "IsZero", "@item.Expiration", "After", "@item.Expiration", "{ret", "}"]
def Mem_Get : List String := ["mu.RLock", "defer mu.RUnlock", "@m.data", "{ret", "}", "@m.data", "{ret", "}", "IsZero", "@item.Expiration", "After", "@item.Expiration", "{ret", "}", "@item.Value"]
def Mem_GetAllHash : List String := ["mu.RLock", "@m.data", "{ret", "mu.RUnlock", "}", "IsZero", "@item.Expiration", "After", "@item.Expiration", "@hash", "@item.Value", "@hash", "@hash", "mu.RUnlock", "{ret", "mu.Lock", "@m.data", "IsZero", "@item.Expiration", "After", "@item.Expiration", "delete", "@m.data", "mu.Unlock", "}", "{ret", "}"]
def Mem_GetExpiration : List String := ["mu.RLock", "@m.data", "{ret", "mu.RUnlock", "}", "IsZero", "@item.Expiration", "After", "@item.Expiration", "@item.Expiration", "mu.RUnlock", "{ret", "mu.Lock", "@m.data", "IsZero", "@item.Expiration", "After", "@item.Expiration", "delete", "@m.data", "mu.Unlock", "}", "IsZero", "{ret", "}"]
def Mem_GetHash : List String := ["mu.RLock", "@m.data", "{ret", "mu.RUnlock", "}", "IsZero", "@item.Expiration", "After", "@item.Expiration", "@hash", "@item.Value", "@hash", "mu.RUnlock", "{ret", "mu.Lock", "@m.data", "IsZero", "@item.Expiration", "After", "@item.Expiration", "delete", "@m.data", "mu.Unlock", "}", "{ret", "}", "{ret", "}"]
def Mem_GetList : List String := ["m.Get", "{ret", "}", "{ret", "}"]
def Mem_Incr : List String := ["m.IncrBy"]
def Mem_IncrBy : List String := ["mu.Lock", "defer mu.Unlock", "@m.data", "@m.data", "@m.data", "Add", "@m.data", "IsZero", "@item.Expiration", "After", "@item.Expiration", "@item.Value", "@item.Expiration", "Add", "@item.Value", "{ret", "@item.Value", "}"]
def Mem_QueryByPrefix : List String := ["mu.RLock", "defer mu.RUnlock", "@m.data", "{ret", "}", "@m.data", "IsZero", "@item.Expiration", "After", "@item.Expiration", "@item.Value", "@item.Value"]
def Mem_RemoveFromList : List String := ["mu.Lock", "defer mu.Unlock", "@m.data", "{ret", "}", "IsZero", "@item.Expiration", "After", "@item.Expiration", "{ret", "delete", "@m.data", "}", "@item.Value", "{ret", "@item.Value", "}"]
def Mem_Set : List String := ["mu.Lock", "defer mu.Unlock", "@m.data", "@m.data", "Add", "@m.data"]
def Mem_SetExpiration : List String := ["mu.Lock", "defer mu.Unlock", "@m.data", "{ret", "}", "IsZero", "@item.Expiration", "After", "@item.Expiration", "{ret", "delete", "@m.data", "}", "@item.Expiration", "expirationFor"]
def Mem_SetHash : List String := ["mu.Lock", "defer mu.Unlock", "@m.data", "@m.data", "@m.data", "Add", "@m.data", "IsZero", "@item.Expiration", "After", "@item.Expiration", "@item.Value", "@item.Expiration", "Add", "@hash", "@item.Value", "{ret", "@hash", "}", "@item.Value", "@hash", "@item.Value", "@hash"]
def Mem_SetList : List String := ["m.Set"]
def Mem_SetNX : List String := ["mu.Lock", "defer mu.Unlock", "@m.data", "@m.data", "@m.data", "IsZero", "@item.Expiration", "After", "@item.Expiration", "{ret", "}", "delete", "@m.data", "Add", "@m.data"]
def Mem_Watch : List String := ["mu.RLock", "@m.data", "IsZero", "@item.Expiration", "After", "@item.Expiration", "@item.Value", "mu.RUnlock"]
def Mem_ZAdd : List String := ["mu.Lock", "defer mu.Unlock", "@m.data", "@m.data", "@m.data", "@m.data", "@item.Value", "{ret", "@item.Value", "}", "@item.Value"]
def Mem_ZCard : List String := ["mu.RLock", "defer mu.RUnlock", "@m.data", "{ret", "}", "@m.data", "{ret", "}", "@item.Value", "{ret", "}"]
def Mem_ZRangeByScore : List String := ["mu.RLock", "defer mu.RUnlock", "@m.data", "{ret", "}", "@m.data", "{ret", "}", "@item.Value", "{ret", "}"]
def Mem_ZRem : List String := ["mu.Lock", "defer mu.Unlock", "@m.data", "{ret", "}", "@m.data", "{ret", "}", "@item.Value", "{ret", "}", "@item.Value"]
def Mem_ZRemRangeByScore : List String := ["mu.Lock", "defer mu.Unlock", "@m.data", "{ret", "}", "@m.data", "{ret", "}", "@item.Value", "{ret", "}", "@item.Value"]
def Mem_ZScore : List String := ["mu.RLock", "defer mu.RUnlock", "@m.data", "{ret", "}", "@m.data", "{ret", "}", "@item.Value", "{ret", "}", "{ret", "}"]
def Mem_expirationFor : List String := ["{ret", "}", "Add"]
def Mem_onClose : List String := ["mu.Lock", "defer mu.Unlock", "@m.data"]
def Red_AppendToList : List String := ["RPush", "LLen", "Expire"]
def Red_IncrBy : List String := ["Exists", "IncrBy", "Expire"]
def Red_SetHash : List String := ["Exists", "HSet", "Expire"]
def Repo_Cleanup_Acquire : List String := ["SetNX", "Get", "Delete", "Delete", "Delete", "Delete", "Delete", "CompareAndSwap", "Delete", "Delete"]
def Repo_Cleanup_Complete : List String := ["Delete", "Get", "Delete", "CompareAndSwap"]
def Repo_Cleanup_Register : List String := ["Exists", "Set"]
def Repo_Generic_AddToList : List String := ["AppendToList"]
def Repo_Generic_Create : List String := ["Get"]
def Repo_Generic_Delete : List String := ["Delete"]
def Repo_Generic_Get : List String := ["Get"]
def Repo_Generic_List : List String := ["GetList"]
def Repo_Generic_RemoveFromList : List String := ["RemoveFromList"]
def Repo_Generic_Save : List String := ["Set"]
def Repo_Generic_Update : List String := ["Get"]
def Repo_Lock_Acquire : List String := ["SetNX"]
def Repo_Lock_IsLocked : List String := ["Exists"]
def Repo_Lock_Release : List String := ["Get", "Delete"]
def Repo_Lock_RenewLock : List String := ["Get", "CompareAndSwap"]
end Skel

end Gen
