/- GENERATED from the Go source by /verif/extract on every run. Do not edit. -/
import TunnoxModel.Model.PredPrelude
open Tunnox.PredPrelude
namespace Gen

namespace cloudconstants
def DefaultDataTTL : Nat := 86400000000000
end cloudconstants

end Gen
