/- GENERATED from the Go source by /verif/extract on every run. Do not edit. -/
import TunnoxModel.Model.PredPrelude
import TunnoxModel.Gen.Packet
open Tunnox.PredPrelude
namespace Gen

namespace Skel
def handleConnection : List String := ["defer b.cleanupConnection", "b.initializeConnection", "b.connectionReadLoop"]
end Skel

def HandlePacket_route (packetType : Nat) : String :=
  if ((packet.Type.IsJsonCommand packetType) || (packet.Type.IsCommandResp packetType)) then "handleCommandPacket" else
  if ((packetType &&& 0x3F) == packet.Handshake) then "handleHandshake" else
  if ((packetType &&& 0x3F) == packet.TunnelOpen) then "handleTunnelOpen" else
  if (packet.Type.IsHeartbeat packetType) then "handleHeartbeat" else
  "default"
namespace Cond
def connectionReadLoop : List String := ["b.checkAndHandleStreamMode(state)", "shouldReturn", "shouldContinue", "b.handlePacketAndCheckModeSwitch(state, pkt)"]
def readPacketWithTimeout : List String := ["err != nil", "b.isTimeoutError(err)", "err != io.EOF"]
end Cond

end Gen
