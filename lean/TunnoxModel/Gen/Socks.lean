/- GENERATED from the Go source by /verif/extract on every run. Do not edit. -/
import TunnoxModel.Model.PredPrelude
open Tunnox.PredPrelude
namespace Gen

namespace socks5
def Version : Nat := 5
def AuthNone : Nat := 0
def AuthNoMatch : Nat := 255
def CmdConnect : Nat := 1
def CmdBind : Nat := 2
def CmdUDPAssoc : Nat := 3
def AddrIPv4 : Nat := 1
def AddrDomain : Nat := 3
def AddrIPv6 : Nat := 4
def RepSuccess : Nat := 0
def RepFailure : Nat := 1
def RepCmdNotSupp : Nat := 7
def RepAddrNotSupp : Nat := 8
def VirtualDNSIP : String := "10.0.0.1"
def DefaultDNSServer : String := "119.29.29.29"
end socks5

namespace adapter
def socks5Version : Nat := 5
def socksAuthNone : Nat := 0
def socksAuthPassword : Nat := 2
def socksAuthNoMatch : Nat := 255
def socksCmdConnect : Nat := 1
def socksCmdBind : Nat := 2
def socksCmdUDPAssociate : Nat := 3
def socksAddrTypeIPv4 : Nat := 1
def socksAddrTypeDomain : Nat := 3
def socksAddrTypeIPv6 : Nat := 4
def socksRepSuccess : Nat := 0
def socksRepServerFailure : Nat := 1
def socksRepCommandNotSupported : Nat := 7
def socksRepAddrTypeNotSupported : Nat := 8
end adapter

namespace Skel
def Listener_Handshake : List String := ["io.ReadFull", "io.ReadFull", "conn.Write", "io.ReadFull", "l.SendError", "l.SendError", "io.ReadFull", "io.ReadFull", "io.ReadFull", "io.ReadFull", "l.SendError", "io.ReadFull"]
def Listener_Handshake_lits : List Nat := [2, 0, 0, 1, 0, 4, 0, 0, 1, 3, 4, 1, 0, 16, 2]
def Listener_SendError : List String := ["conn.Write"]
def Listener_SendError_lits : List Nat := [0, 0, 0, 0, 0, 0, 0]
def Listener_SendSuccess : List String := ["conn.Write"]
def Listener_SendSuccess_lits : List Nat := [0, 0, 0, 0, 0, 0, 0]
def Listener_SendSuccessWithBind : List String := ["bindAddr.IP.To4", "conn.Write"]
def Listener_SendSuccessWithBind_lits : List Nat := [0, 0, 1, 2, 3, 8, 255]
def Listener_handleConnect : List String := ["l.SendError", "conn.Close", "l.SendError", "conn.Close", "l.SendSuccess", "tunnelCreator.CreateSOCKS5Tunnel", "l.SendError", "conn.Close"]
def Listener_handleConnect_lits : List Nat := [853]
def Listener_handleConnection : List String := ["l.Handshake", "conn.Close", "l.handleConnect", "l.handleUDPAssociate", "l.SendError", "conn.Close"]
def Listener_handleUDPAssociate : List String := ["l.SendError", "conn.Close", "udpRelayCreator.CreateUDPRelay", "l.SendError", "conn.Close", "l.SendSuccessWithBind"]
def SocksAdapter_handleHandshake : List String := ["io.ReadFull", "io.ReadFull", "conn.Write", "s.handlePasswordAuth"]
def SocksAdapter_handleHandshake_lits : List Nat := [2, 0, 1]
def SocksAdapter_handlePasswordAuth : List String := ["io.ReadFull", "io.ReadFull", "io.ReadFull", "io.ReadFull", "conn.Write"]
def SocksAdapter_handlePasswordAuth_lits : List Nat := [2, 0, 1, 1, 1, 0, 0, 1, 1]
def SocksAdapter_handleRequest : List String := ["io.ReadFull", "s.sendReply", "io.ReadFull", "io.ReadFull", "io.ReadFull", "io.ReadFull", "s.sendReply", "io.ReadFull"]
def SocksAdapter_handleRequest_lits : List Nat := [4, 0, 1, 3, 0, 4, 1, 0, 16, 0, 2]
def SocksAdapter_handleSocksConnection : List String := ["s.handleHandshake", "s.handleRequest"]
def SocksAdapter_sendReply : List String := ["net.ParseIP", "ip.To4", "ip.To16", "binary.BigEndian.PutUint16", "conn.Write"]
def SocksAdapter_sendReply_lits : List Nat := [0, 22, 0, 2]
def UDPRelay_buildUDPHeader : List String := ["net.ParseIP", "ip.To4", "copy", "binary.BigEndian.PutUint16", "copy", "ip.To16", "copy", "binary.BigEndian.PutUint16", "copy", "copy", "binary.BigEndian.PutUint16", "copy"]
def UDPRelay_buildUDPHeader_lits : List Nat := [10, 0, 0, 1, 0, 2, 0, 3, 4, 8, 8, 10, 10, 22, 0, 0, 1, 0, 2, 0, 3, 4, 20, 20, 22, 22, 5, 2, 0, 0, 1, 0, 2, 0, 3, 4, 5, 5, 5, 5, 2]
def UDPRelay_handleDNSQuery : List String := ["dnsHandler.QueryDNS", "r.buildUDPHeader", "udpConn.WriteToUDP"]
def UDPRelay_handlePacket : List String := ["r.parseUDPHeader", "r.handleDNSQuery", "r.getOrCreateSession", "tunnel.SendPacket"]
def UDPRelay_parseUDPHeader : List String := ["len", "len", "net.IP", "len", "len", "len", "net.IP", "binary.BigEndian.Uint16"]
def UDPRelay_parseUDPHeader_lits : List Nat := [4, 0, 2, 0, 0, 2, 3, 10, 0, 4, 8, 10, 5, 0, 4, 5, 2, 0, 5, 5, 5, 2, 22, 0, 4, 20, 22, 0, 2]
def UDPRelay_readLoop : List String := ["make", "udpConn.ReadFromUDP", "make", "copy", "r.handlePacket"]
def udpSession_receiveLoop : List String := ["tunnel.ReceivePacket", "relay.buildUDPHeader", "udpConn.WriteToUDP"]
end Skel

end Gen
