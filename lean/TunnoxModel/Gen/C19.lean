/- GENERATED from the Go source by /verif/extract on every run. Do not edit. -/
import TunnoxModel.Model.PredPrelude
import TunnoxModel.Gen.Models
import TunnoxModel.Model.C19Types
open Tunnox.PredPrelude
namespace Gen

namespace repos
def KeyPrefixHTTPDomainMapping : String := "tunnox:http_domain:mapping:"
def KeyPrefixHTTPDomainIndex : String := "tunnox:http_domain:index:"
def KeyPrefixHTTPDomainClient : String := "tunnox:http_domain:client:"
def KeyPrefixHTTPDomainDeleting : String := "tunnox:http_domain:deleting:"
def KeyHTTPDomainNextID : String := "tunnox:http_domain:next_id"
def KeyHTTPDomainMappingList : String := "tunnox:http_domain:mappings:list"
def HTTPDomainMappingStatusActive : String := "active"
def HTTPDomainMappingStatusInactive : String := "inactive"
def HTTPDomainMappingStatusExpired : String := "expired"
def HTTPDomainDeleteClaimTTL : Nat := 30000000000
end repos

namespace coreerrors
def CodeNotFound : String := "NOT_FOUND"
def CodeMappingNotFound : String := "MAPPING_NOT_FOUND"
def CodeAlreadyExists : String := "ALREADY_EXISTS"
def CodeConflict : String := "CONFLICT"
def CodeInvalidParam : String := "INVALID_PARAM"
def CodeInvalidRequest : String := "INVALID_REQUEST"
def CodeValidationError : String := "VALIDATION_ERROR"
def CodeForbidden : String := "FORBIDDEN"
def CodeUnavailable : String := "UNAVAILABLE"
def CodeInvalidData : String := "INVALID_DATA"
def CodeStorageError : String := "STORAGE_ERROR"
def CodeNotConfigured : String := "NOT_CONFIGURED"
end coreerrors

namespace repos.HTTPDomainMapping
def IsExpired (now : Nat) (m : Tunnox.C19.HTTPDomainMapping) : Bool :=
  if (m.ExpiresAt == 0) then
    false
  else
    decide (now > m.ExpiresAt)
def IsActive (now : Nat) (m : Tunnox.C19.HTTPDomainMapping) : Bool :=
  ((m.Status == repos.HTTPDomainMappingStatusActive) && (!(IsExpired now m)))
def Validate (m : Tunnox.C19.HTTPDomainMapping) : Bool :=
  if (m.ID == "") then
    false
  else
    if (m.Subdomain == "") then
      false
    else
      if (m.BaseDomain == "") then
        false
      else
        if (m.FullDomain == "") then
          false
        else
          if decide (m.ClientID <= 0) then
            false
          else
            if (m.TargetHost == "") then
              false
            else
              if (decide (m.TargetPort <= 0) || decide (m.TargetPort > 65535)) then
                false
              else
                true
end repos.HTTPDomainMapping

namespace Skel
def Adapter_Create : List String := ["repo.CreateMapping", "@clientID", "repo.UpdateMapping", "repo.UpdateMapping"]
def Adapter_Delete : List String := ["repo.DeleteMapping", "@mappingID", "@clientID", "@mappingID"]
def Adapter_IsSubdomainAvailable : List String := ["repo.CheckSubdomainAvailable"]
def CheckSubdomainAvailable : List String := ["HTTPDomainIndexKey", "storage.Exists"]
def CleanupExpiredMappings : List String := ["ListAllMappings", "IsExpired", "DeleteMapping", "@mapping.ID", "@mapping.ClientID"]
def CreateHandler_Handle : List String := ["@ctx.ClientID", "@ctx.ClientID", "checker.IsBaseDomainAllowed", "checker.IsSubdomainAvailable", "@req.MappingTTL", "creator.CreateHTTPDomainMapping", "@ctx.ClientID"]
def CreateHandler_Handle_lits : List Nat := [0, 80, 443, 0, 7, 24, 3600]
def CreateMapping : List String := ["isBaseDomainSupported", "generateMappingID", "Validate", "HTTPDomainIndexKey", "SetNX", "storage.Delete", "HTTPDomainMappingKey", "storage.Set", "storage.Delete", "addToClientMappingList", "storage.Delete", "storage.Delete", "addToGlobalMappingList"]
def DeleteHandler_Handle : List String := ["@ctx.ClientID", "@ctx.ClientID", "@req.MappingID", "deleter.DeleteHTTPDomainMapping", "@ctx.ClientID", "@req.MappingID", "@req.MappingID"]
def DeleteMapping : List String := ["GetMapping", "HTTPDomainDeleteClaimKey", "SetNX", "storage.Delete", "HTTPDomainIndexKey", "storage.Get", "storage.Delete", "HTTPDomainMappingKey", "storage.Delete", "removeFromClientMappingList", "removeFromGlobalMappingList"]
def GetMapping : List String := ["HTTPDomainMappingKey", "storage.Get"]
def LookupByDomain : List String := ["HTTPDomainIndexKey", "storage.Get", "GetMapping"]
def Registry_IsBaseDomainAllowed : List String := ["mu.RLock", "defer mu.RUnlock", "@r.baseDomains", "@r.baseDomains"]
def Registry_Lookup : List String := ["mu.RLock", "defer mu.RUnlock", "@r.mappings"]
def Registry_LookupByHost : List String := ["Lookup"]
def Registry_Rebuild : List String := ["mu.Lock", "defer mu.Unlock", "@r.mappings", "@r.mappings", "@r.mappings"]
def Registry_Register : List String := ["FullDomain", "IsBaseDomainAllowed", "mu.Lock", "defer mu.Unlock", "@r.mappings", "@r.mappings"]
def Registry_Unregister : List String := ["mu.Lock", "defer mu.Unlock", "@r.mappings", "@r.mappings"]
def Registry_UnregisterByMappingID : List String := ["mu.Lock", "defer mu.Unlock", "@r.mappings", "@r.mappings"]
def UpdateMapping : List String := ["GetMapping", "Validate", "HTTPDomainMappingKey", "storage.Set"]
def generateMappingID : List String := ["Incr"]
def handleLargeRequest : List String := ["lookupMapping", "@r.Host", "@mapping.TargetClientID", "@r.Host", "RequestTunnelForHTTP", "@mapping.TargetClientID"]
def handleSmallRequest : List String := ["lookupMapping", "@r.Host", "GetControlConnectionInterface", "@mapping.TargetClientID", "buildProxyRequest", "SendHTTPProxyRequest", "@mapping.TargetClientID"]
def handleUserWebSocket : List String := ["lookupMapping", "@r.Host", "@mapping.TargetClientID", "@r.Host", "RequestTunnelForHTTP", "@mapping.TargetClientID"]
def lookupFromRepositoryWithRepo : List String := ["repo.LookupByDomain", "IsActive", "IsExpired", "convertHTTPDomainMappingToPortMapping"]
def lookupMapping : List String := ["extractDomain", "lookupFromRepositoryWithRepo", "IsCode", "registry.LookupByHost", "CloudControl.GetPortMappingByDomain", "registry.Register"]
end Skel

end Gen
