/- GENERATED from the Go source by /verif/extract on every run. Do not edit. -/
import TunnoxModel.Model.PredPrelude
import TunnoxModel.Model.C06Rec
open Tunnox.PredPrelude
namespace Gen

namespace c06hybrid.DefaultConfig
def PersistentPrefixes : List String := ["tunnox:user:", "tunnox:client:", "tunnox:config:client:", "tunnox:persist:client:config:", "tunnox:persist:clients:list", "tunnox:mapping:", "tunnox:persist:mapping:", "tunnox:persist:mappings:list", "tunnox:stats:persistent:"]
def SharedPrefixes : List String := ["tunnox:conn_state:", "tunnox:client_conn:", "tunnox:tunnel_waiting:", "tunnox:node:", "tunnox:runtime:conncode:", "tunnox:index:conncode:target:", "tunnox:id:", "tunnox:runtime:client:state:", "tunnox:http_domain:index:", "tunnox:http_domain:next_id", "tunnox:http_domain:deleting:", "lock:"]
def SharedPersistentPrefixes : List String := ["tunnox:client_mappings:", "tunnox:user_mappings:", "tunnox:port_mapping:", "tunnox:mappings:list", "tunnox:http_domain:mapping:", "tunnox:http_domain:client:", "tunnox:http_domain:mappings:list", "webhook:", "webhooks:", "webhook_log:", "webhook_logs:"]
end c06hybrid.DefaultConfig

namespace conncode.DefaultConfig
def MaxActiveCodesPerClient : Nat := 10
def MaxActiveMappingsPerClient : Nat := 50
end conncode.DefaultConfig

namespace constants
def KeyPrefixRuntimeConnectionCodeByCode : String := "tunnox:runtime:conncode:code:"
def KeyPrefixRuntimeConnectionCodeByID : String := "tunnox:runtime:conncode:id:"
def KeyPrefixRuntimeConnectionCodeClaim : String := "tunnox:runtime:conncode:claim:"
def KeyPrefixPortMapping : String := "tunnox:port_mapping"
def KeyPrefixMappingList : String := "tunnox:mappings:list"
def KeyPrefixClientMappings : String := "tunnox:client_mappings"
def KeyPrefixIndexConnectionCodeByTarget : String := "tunnox:index:conncode:target:"
end constants

namespace conncode
def codeClaimTTL : Nat := 30000000000
end conncode

namespace TunnelConnectionCode
def IsExpired (now : Nat) (c : Tunnox.C06.TunnelConnectionCode) : Bool :=
  (timeAfter now c.ActivationExpiresAt)
def IsValidForActivation (now : Nat) (c : Tunnox.C06.TunnelConnectionCode) : Bool :=
  if c.IsRevoked then
    false
  else
    if c.IsActivated then
      false
    else
      if (IsExpired now c) then
        false
      else
        true
def CanBeActivatedBy (now : Nat) (c : Tunnox.C06.TunnelConnectionCode) (listenClientID : Nat) : Bool :=
  if (!(IsValidForActivation now c)) then
    false
  else
    true
end TunnelConnectionCode

namespace Skel
def Activate : List String := ["c.CanBeActivatedBy"]
def ActivateConnectionCode : List String := ["s.claimCode", "release", "connCodeRepo.GetByCode", "connCode.CanBeActivatedBy", "portMappingRepo.GetClientPortMappings", "connCode.Activate", "portMappingService.CreatePortMapping", "connCodeRepo.Update", "portMappingService.DeletePortMapping"]
def GenerateUnique : List String := ["g.Generate", "checkExists"]
def GetByCode : List String := ["storage.Get"]
def ReleaseClaim : List String := ["storage.Delete"]
def RepoCreatePortMapping : List String := ["r.Create", "r.AddMappingToList", "r.Delete"]
def Revoke : List String := []
def RevokeConnectionCode : List String := ["s.claimCode", "release", "connCodeRepo.GetByCode", "connCode.Revoke", "connCodeRepo.Update"]
def SvcCreatePortMapping : List String := ["idManager.GeneratePortMappingID", "HandleErrorWithIDReleaseString", "mappingRepo.CreatePortMapping", "HandleErrorWithIDReleaseString", "mappingRepo.AddMappingToClient", "mappingRepo.AddMappingToClient"]
def TryClaim : List String := ["casStore.SetNX"]
def Update : List String := ["code.TimeRemaining", "r.Delete", "storage.Set", "storage.Set"]
def claimCode : List String := ["connCodeRepo.TryClaim", "connCodeRepo.ReleaseClaim"]
end Skel

end Gen
