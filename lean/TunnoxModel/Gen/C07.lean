/- GENERATED from the Go source by /verif/extract on every run. Do not edit. -/
import TunnoxModel.Model.PredPrelude
open Tunnox.PredPrelude
namespace Gen

namespace session
def DefaultHeartbeatTimeout : Nat := 60000000000
def DefaultCleanupInterval : Nat := 15000000000
def DefaultMaxConnections : Nat := 10000
def DefaultMaxControlConnections : Nat := 5000
end session

namespace Skel
def CleanupStale : List String := ["mu.Lock", "IsStale", "unindexLocked", "delete", "mu.Unlock", "closeFn", "stream.Close"]
def CloseConnection : List String := ["connLock.Lock", "delete", "connLock.Unlock", "Stream.Close", "RawConn.Close", "streamMgr.RemoveStream", "RemoveControlConnection", "RemoveTunnelConnection"]
def CreateConnection : List String := ["streamMgr.CreateStream", "connLock.Lock", "connLock.Unlock", "connLock.Unlock"]
def DropStaleIndex : List String := ["mu.Lock", "mu.Unlock", "delete"]
def GetByClientID : List String := ["mu.RLock", "mu.RUnlock"]
def KickOldConnection : List String := ["mu.Lock", "unindexLocked", "delete", "mu.Unlock", "sendKickFn", "stream.Close"]
def Register : List String := ["mu.Lock", "mu.Unlock", "findOldestConnectionLocked", "removeConnectionLocked", "removeConnectionLocked"]
def Remove : List String := ["mu.Lock", "mu.Unlock", "removeConnectionLocked"]
def RemoveControlConnection : List String := ["clientRegistry.GetByConnID", "clientRegistry.Remove", "cloudControl.DisconnectClientIfMatch"]
def TunnelRemove : List String := ["mu.Lock", "mu.Unlock", "delete", "delete"]
def Unregister : List String := ["mu.Lock", "mu.Unlock", "unindexLocked", "delete"]
def UpdateAuth : List String := ["mu.Lock", "mu.Unlock", "unindexLocked"]
def adapterCleanupConnection : List String := ["session.CloseConnection", "closer.Close"]
def adapterHandleConnection : List String := ["cleanupConnection", "initializeConnection", "connectionReadLoop"]
def adapterHandlePacket : List String := ["session.HandlePacket"]
def adapterInitializeConnection : List String := ["session.AcceptConnection"]
def adapterReadLoop : List String := ["checkAndHandleStreamMode", "readPacketWithTimeout", "handlePacketAndCheckModeSwitch"]
def cleanupStaleConnections : List String := ["clientRegistry.CleanupStale", "cloudControl.DisconnectClientIfMatch", "CloseConnection"]
def handleHandshake : List String := ["getControlConnectionByConnID", "getConnectionByConnID", "RegisterControlConnection", "getControlConnectionByConnID", "getConnectionByConnID", "RegisterControlConnection", "authHandler.HandleHandshake", "sendHandshakeResponse", "clientRegistry.DropStaleIndex", "sendHandshakeResponse", "clientRegistry.GetByClientID", "clientRegistry.Remove", "clientRegistry.UpdateAuth", "getConnectionByConnID", "getConnectionByConnID"]
def handleHeartbeat : List String := ["clientRegistry.GetByConnID", "UpdateActivity"]
def removeConnectionLocked : List String := ["Stream.Close", "unindexLocked", "delete"]
def unindexLocked : List String := ["delete"]
end Skel

namespace Guard
def CleanupStale : List String := ["range r.connMap", "if conn.IsStale(timeout)", "if len(staleInfos) == 0", "range staleInfos", "if closeFn != nil", "if err := closeFn(info.connID, info.clientID, info.authenticated); err != nil", "if info.stream != nil"]
def CloseConnection : List String := ["if exists", "if conn != nil", "if conn.Stream != nil", "if conn.RawConn != nil", "if s.streamMgr != nil", "if s.connStateStore != nil", "if err := s.connStateStore.UnregisterConnection(s.Ctx(), connectionId); err != nil"]
def DropStaleIndex : List String := ["if conn == nil", "range r.clientIDMap", "if indexed == conn && clientID != conn.ClientID"]
def KickOldConnection : List String := ["if oldConn != nil && oldConn.ConnID != newConnID", "if connInfo != nil", "if sendKickFn != nil && oldConnForCallback != nil", "if connInfo.stream != nil"]
def Register : List String := ["if conn == nil", "if conn.ConnID == \"\"", "if r.maxConnections > 0 && len(r.connMap) >= r.maxConnections", "if oldestConn != nil", "if existing, exists := r.connMap[conn.ConnID]; exists", "if conn.Authenticated && conn.ClientID > 0"]
def RemoveControlConnection : List String := ["if conn != nil", "if authenticated && clientID > 0 && s.cloudControl != nil", "if err != nil", "if disconnected"]
def Unregister : List String := ["if !exists"]
def UpdateAuth : List String := ["if !exists"]
def adapterCleanupConnection : List String := ["if state.streamConn != nil", "if state.streamConn != nil && b.session != nil", "if state.shouldCloseConn", "if closer, ok := conn.(interface{ Close() error }); ok"]
def findOldestConnectionLocked : List String := ["range r.connMap", "if oldestConn == nil || conn.CreatedAt.Before(oldestTime)"]
def removeConnectionLocked : List String := ["if conn == nil", "if conn.Stream != nil"]
def unindexLocked : List String := ["range r.clientIDMap", "if indexed == conn"]
end Guard

end Gen
