/- GENERATED from the Go source by /verif/extract on every run. Do not edit. -/
import TunnoxModel.Model.PredPrelude
open Tunnox.PredPrelude
namespace Gen

namespace crossnode
def FrameTypeData : Nat := 1
def FrameTypeTargetReady : Nat := 2
def FrameTypeClose : Nat := 3
def FrameTypeAck : Nat := 4
def FrameTypeHTTPProxy : Nat := 5
def FrameTypeHTTPResponse : Nat := 6
def FrameTypeDNSQuery : Nat := 7
def FrameTypeDNSResponse : Nat := 8
def FrameTypeEOF : Nat := 9
def FrameTypeCommand : Nat := 16
def FrameTypeCommandResponse : Nat := 17
def FrameHeaderSize : Nat := 21
def MaxFrameSize : Nat := 65536
end crossnode

namespace Skel
def FrameStream_Close : List String := ["writeMu.Lock", "writeMu.Unlock", "WriteFrame", "conn.MarkBroken"]
def FrameStream_CloseWrite : List String := ["writeMu.Lock", "writeMu.Unlock", "WriteFrame", "conn.MarkBroken"]
def FrameStream_Read : List String := ["readMu.Lock", "readMu.Unlock", "copy", "ReadFrame", "isConnectionClosedError", "conn.MarkBroken", "isConnectionClosedError", "copy"]
def FrameStream_Write : List String := ["writeMu.Lock", "writeMu.Unlock", "WriteFrame", "conn.MarkBroken", "WriteFrame", "conn.MarkBroken"]
def ReadFrame : List String := ["ReadFrameFromReader"]
def ReadFrameFromReader : List String := ["make", "io.ReadFull", "binary.BigEndian.Uint32", "coreerrors.Newf", "make", "io.ReadFull"]
def WriteFrame : List String := ["coreerrors.Newf", "make", "copy", "binary.BigEndian.PutUint32", "bufs.WriteTo"]
end Skel

namespace Flow
def ReadFrameFromReader : List String := [
  "if r == nil",
  "err = coreerrors.New(coreerrors.CodeNetworkError, \"reader is nil\")",
  "return",
  "end",
  "header := make([]byte, FrameHeaderSize)",
  "if _, err = io.ReadFull(r, header); err != nil",
  "if err == io.EOF",
  "return",
  "end",
  "err = coreerrors.Wrap(err, coreerrors.CodeNetworkError, \"failed to read frame header\")",
  "return",
  "end",
  "copy(tunnelID[:], header[0:16])",
  "frameType = header[16]",
  "length := binary.BigEndian.Uint32(header[17:21])",
  "if length > MaxFrameSize",
  "err = coreerrors.Newf(coreerrors.CodeInvalidPacket, \"frame too large: %d > %d\", length, MaxFrameSize)",
  "return",
  "end",
  "if length > 0",
  "data = make([]byte, length)",
  "if _, err = io.ReadFull(r, data); err != nil",
  "err = coreerrors.Wrap(err, coreerrors.CodeNetworkError, \"failed to read frame data\")",
  "return",
  "end",
  "end",
  "return"
]
def WriteFrame : List String := [
  "if conn == nil",
  "return coreerrors.New(coreerrors.CodeNetworkError, \"connection is nil\")",
  "end",
  "if len(data) > MaxFrameSize",
  "return coreerrors.Newf(coreerrors.CodeInvalidPacket, \"frame too large: %d > %d\", len(data), MaxFrameSize)",
  "end",
  "header := make([]byte, FrameHeaderSize)",
  "copy(header[0:16], tunnelID[:])",
  "header[16] = frameType",
  "binary.BigEndian.PutUint32(header[17:21], uint32(len(data)))",
  "bufs := net.Buffers{header, data}",
  "_, err := bufs.WriteTo(conn)",
  "if err != nil",
  "return coreerrors.Wrap(err, coreerrors.CodeNetworkError, \"failed to write frame\")",
  "end",
  "return nil"
]
def WriteFrameToWriter : List String := [
  "if w == nil",
  "return coreerrors.New(coreerrors.CodeNetworkError, \"writer is nil\")",
  "end",
  "if len(data) > MaxFrameSize",
  "return coreerrors.Newf(coreerrors.CodeInvalidPacket, \"frame too large: %d > %d\", len(data), MaxFrameSize)",
  "end",
  "header := make([]byte, FrameHeaderSize)",
  "copy(header[0:16], tunnelID[:])",
  "header[16] = frameType",
  "binary.BigEndian.PutUint32(header[17:21], uint32(len(data)))",
  "if _, err := w.Write(header); err != nil",
  "return coreerrors.Wrap(err, coreerrors.CodeNetworkError, \"failed to write frame header\")",
  "end",
  "if len(data) > 0",
  "if _, err := w.Write(data); err != nil",
  "return coreerrors.Wrap(err, coreerrors.CodeNetworkError, \"failed to write frame data\")",
  "end",
  "end",
  "return nil"
]
def TunnelIDFromString : List String := [
  "var id [16]byte",
  "if len(s) > 16",
  "s = s[:16]",
  "end",
  "copy(id[:], s)",
  "return id, nil"
]
def TunnelIDToString : List String := [
  "for i, b := range id",
  "if b == 0",
  "return string(id[:i])",
  "end",
  "end",
  "return string(id[:])"
]
def isConnectionClosedError : List String := [
  "if err == nil",
  "return false",
  "end",
  "if err == io.EOF",
  "return true",
  "end",
  "if netErr, ok := err.(net.Error); ok",
  "if netErr.Timeout()",
  "return false",
  "end",
  "end",
  "errStr := err.Error()",
  "closedErrors := []string{ \"connection reset by peer\", \"broken pipe\", \"use of closed network connection\", \"connection refused\", \"EOF\", }",
  "for _, ce := range closedErrors",
  "if strings.Contains(errStr, ce)",
  "return true",
  "end",
  "end",
  "return false"
]
def FrameStream_Read : List String := [
  "s.readMu.Lock()",
  "defer s.readMu.Unlock()",
  "if s.readEOF",
  "return 0, io.EOF",
  "end",
  "if s.readBuf != nil && s.readOff < len(s.readBuf)",
  "n = copy(p, s.readBuf[s.readOff:])",
  "s.readOff += n",
  "if s.readOff >= len(s.readBuf)",
  "s.readBuf = nil",
  "s.readOff = 0",
  "end",
  "return n, nil",
  "end",
  "tcpConn := s.conn.GetTCPConn()",
  "if tcpConn == nil",
  "return 0, coreerrors.New(coreerrors.CodeNetworkError, \"connection is nil\")",
  "end",
  "for",
  "tunnelID, frameType, data, err := ReadFrame(tcpConn)",
  "if err != nil",
  "if !s.writeEOF && !isConnectionClosedError(err)",
  "s.conn.MarkBroken()",
  "end",
  "if isConnectionClosedError(err)",
  "s.readEOF = true",
  "return 0, io.EOF",
  "end",
  "return 0, err",
  "end",
  "if tunnelID != s.tunnelID",
  "otherTunnelIDStr := TunnelIDToString(tunnelID)",
  "if s.tracker != nil && s.tracker.IsTunnelClosed(otherTunnelIDStr)",
  "continue",
  "end",
  "continue",
  "end",
  "switch frameType",
  "case FrameTypeData",
  "if len(data) == 0",
  "continue",
  "end",
  "s.readBuf = data",
  "s.readOff = 0",
  "n = copy(p, s.readBuf)",
  "s.readOff = n",
  "if s.readOff >= len(s.readBuf)",
  "s.readBuf = nil",
  "s.readOff = 0",
  "end",
  "return n, nil",
  "case FrameTypeEOF",
  "s.readEOF = true",
  "return 0, io.EOF",
  "case FrameTypeClose",
  "s.readEOF = true",
  "return 0, io.EOF",
  "default",
  "continue",
  "end",
  "end"
]
def FrameStream_Write : List String := [
  "s.writeMu.Lock()",
  "defer s.writeMu.Unlock()",
  "if s.writeEOF",
  "return 0, io.ErrClosedPipe",
  "end",
  "if len(p) == 0",
  "return 0, nil",
  "end",
  "tcpConn := s.conn.GetTCPConn()",
  "if tcpConn == nil",
  "return 0, coreerrors.New(coreerrors.CodeNetworkError, \"connection is nil\")",
  "end",
  "if len(p) > MaxFrameSize",
  "written := 0",
  "for written < len(p)",
  "chunkSize := MaxFrameSize",
  "if written+chunkSize > len(p)",
  "chunkSize = len(p) - written",
  "end",
  "chunk := p[written : written+chunkSize]",
  "if err := WriteFrame(tcpConn, s.tunnelID, FrameTypeData, chunk); err != nil",
  "s.conn.MarkBroken()",
  "return written, err",
  "end",
  "written += chunkSize",
  "end",
  "return written, nil",
  "end",
  "if err := WriteFrame(tcpConn, s.tunnelID, FrameTypeData, p); err != nil",
  "s.conn.MarkBroken()",
  "return 0, err",
  "end",
  "return len(p), nil"
]
def FrameStream_CloseWrite : List String := [
  "s.writeMu.Lock()",
  "defer s.writeMu.Unlock()",
  "if s.writeEOF",
  "return nil",
  "end",
  "tcpConn := s.conn.GetTCPConn()",
  "if tcpConn == nil",
  "return coreerrors.New(coreerrors.CodeNetworkError, \"connection is nil\")",
  "end",
  "if err := WriteFrame(tcpConn, s.tunnelID, FrameTypeEOF, nil); err != nil",
  "s.conn.MarkBroken()",
  "return err",
  "end",
  "s.writeEOF = true",
  "return nil"
]
def FrameStream_Close : List String := [
  "s.writeMu.Lock()",
  "defer s.writeMu.Unlock()",
  "if s.writeEOF",
  "return nil",
  "end",
  "tcpConn := s.conn.GetTCPConn()",
  "if tcpConn == nil",
  "return coreerrors.New(coreerrors.CodeNetworkError, \"connection is nil\")",
  "end",
  "if err := WriteFrame(tcpConn, s.tunnelID, FrameTypeClose, nil); err != nil",
  "s.conn.MarkBroken()",
  "return err",
  "end",
  "s.writeEOF = true",
  "return nil"
]
def runBidirectionalForward : List String := [
  "done := make(chan struct{}, 2)",
  "var closeOnce sync.Once",
  "var uploadDone, downloadDone int32",
  "logPrefix := config.LogPrefix",
  "if logPrefix == \"\"",
  "logPrefix = \"BidirectionalForward\"",
  "end",
  "closeAll := func",
  "closeOnce.Do(func",
  "if err := config.RemoteConn.Close(); err != nil",
  "end",
  "if config.LocalConnCloser != nil",
  "if err := config.LocalConnCloser.Close(); err != nil",
  "end",
  "else",
  "if closer, ok := config.LocalConn.(io.Closer); ok",
  "if err := closer.Close(); err != nil",
  "end",
  "end",
  "end",
  "end)",
  "end",
  "localConn := config.LocalConn",
  "if config.BytesSentCounter != nil || config.BytesReceivedCounter != nil",
  "localConn = NewCountingReadWriter( config.LocalConn, config.BytesSentCounter, config.BytesReceivedCounter, )",
  "end",
  "go func",
  "defer func",
  "atomic.StoreInt32(&uploadDone, 1)",
  "if halfCloser, ok := config.RemoteConn.(HalfCloser); ok",
  "if err := halfCloser.CloseWrite(); err != nil",
  "else",
  "end",
  "end",
  "if atomic.LoadInt32(&downloadDone) == 1",
  "closeAll()",
  "end",
  "done <- struct{}{}",
  "end()",
  "n, err := io.Copy(config.RemoteConn, localConn)",
  "end()",
  "go func",
  "defer func",
  "atomic.StoreInt32(&downloadDone, 1)",
  "if atomic.LoadInt32(&uploadDone) == 1",
  "closeAll()",
  "end",
  "done <- struct{}{}",
  "end()",
  "n, err := io.Copy(localConn, config.RemoteConn)",
  "end()",
  "<-done",
  "<-done",
  "closeAll()"
]
def Conn_IsHealthy : List String := [
  "c.mu.Lock()",
  "defer c.mu.Unlock()",
  "if c.broken",
  "return false",
  "end",
  "if c.tcpConn == nil",
  "return false",
  "end",
  "maxIdleTime := 5 * time.Minute",
  "if time.Since(c.lastUsed) > maxIdleTime",
  "return false",
  "end",
  "oldDeadline := time.Time{}",
  "c.tcpConn.SetReadDeadline(time.Now().Add(1 * time.Millisecond))",
  "defer c.tcpConn.SetReadDeadline(oldDeadline)",
  "one := make([]byte, 1)",
  "_, err := c.tcpConn.Read(one)",
  "if err != nil",
  "if netErr, ok := err.(net.Error); ok && netErr.Timeout()",
  "return true",
  "end",
  "return false",
  "end",
  "return false"
]
def Conn_Release : List String := [
  "c.mu.Lock()",
  "if !c.inUse",
  "c.mu.Unlock()",
  "return",
  "end",
  "c.inUse = false",
  "c.lastUsed = time.Now()",
  "c.mu.Unlock()",
  "if c.pool != nil && !c.broken",
  "c.pool.Put(c)",
  "else",
  "c.Close()",
  "end"
]
def EncodeTargetReadyMessage : List String := [
  "return []byte(fmt.Sprintf(\"%s|%s\", tunnelID, targetNodeID))"
]
def DecodeTargetReadyMessage : List String := [
  "s := string(data)",
  "for i := len(s) - 1; i >= 0; i--",
  "if s[i] == '|'",
  "tunnelID = s[:i]",
  "targetNodeID = s[i+1:]",
  "return",
  "end",
  "end",
  "err = coreerrors.New(coreerrors.CodeInvalidPacket, \"invalid target ready message format\")",
  "return"
]
def Listener_handleConnection : List String := [
  "shouldCloseConn := true",
  "defer func",
  "if shouldCloseConn",
  "conn.Close()",
  "end",
  "end()",
  "tcpConn, ok := conn.(*net.TCPConn)",
  "if !ok",
  "return",
  "end",
  "tunnelID, frameType, data, err := ReadFrame(tcpConn)",
  "if err != nil",
  "return",
  "end",
  "tunnelIDStr := TunnelIDToString(tunnelID)",
  "switch frameType",
  "case FrameTypeTargetReady",
  "shouldCloseConn = false",
  "l.handleTargetReady(ctx, tcpConn, tunnelIDStr, data)",
  "case FrameTypeHTTPProxy",
  "l.handleHTTPProxy(ctx, tcpConn, data)",
  "case FrameTypeDNSQuery",
  "l.handleDNSQuery(ctx, tcpConn, data)",
  "case FrameTypeCommand",
  "l.handleCommand(ctx, tcpConn, data)",
  "default",
  "end"
]
end Flow

end Gen
