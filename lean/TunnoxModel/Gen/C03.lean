/- GENERATED from the Go source by /verif/extract on every run. Do not edit. -/
import TunnoxModel.Model.PredPrelude
import TunnoxModel.Gen.Security
import TunnoxModel.Model.C03Types
open Tunnox.PredPrelude
namespace Gen

namespace anonymous
def AnonymousExpirationDays : Nat := 30
end anonymous

namespace models.ClientConfig
def IsExpired (now : Nat) (c : Tunnox.C03.ClientConfigT) : Bool :=
  if (c.ExpiresAt).isNone then
    false
  else
    (timeAfter now c.ExpiresAt)
end models.ClientConfig

namespace Skel
def C03_DropStaleIndex : List String := ["mu.Lock", "mu.Unlock", "delete"]
def C03_UpdateAuth : List String := ["mu.Lock", "mu.Unlock", "unindexLocked"]
def C03_handleHandshake : List String := ["json.Unmarshal", "getControlConnectionByConnID", "getConnectionByConnID", "NewControlConnection", "RegisterControlConnection", "getControlConnectionByConnID", "getConnectionByConnID", "NewControlConnection", "RegisterControlConnection", "authHandler.HandleHandshake", "sendHandshakeResponse", "clientRegistry.DropStaleIndex", "sendHandshakeResponse", "clientRegistry.GetByClientID", "clientRegistry.Remove", "clientRegistry.UpdateAuth", "getConnectionByConnID", "getConnectionByConnID"]
def C03_removeConnectionLocked : List String := ["Stream.Close", "unindexLocked", "delete"]
def C03_unindexLocked : List String := ["delete"]
def ComputeResponse : List String := ["hmac.New", "h.Write", "hex.EncodeToString", "h.Sum"]
def GenerateChallenge : List String := ["rand.Read", "hex.EncodeToString"]
def HandleHandshake : List String := ["ipManager.IsAllowed", "bruteForceProtector.IsBanned", "rateLimiter.AllowIP", "handleFirstConnection", "cloudControl.GetClientConfig", "bruteForceProtector.RecordFailure", "config.IsExpired", "handleChallengePhase1", "handleChallengePhase2"]
def RecordFailure : List String := ["cleanupOldFailures", "banIP", "banIP"]
def VerifyResponse : List String := ["Decrypt", "ComputeResponse", "hmac.Equal"]
def handleChallengePhase1 : List String := ["secretKeyMgr.GenerateChallenge", "conn.SetPendingChallenge"]
def handleChallengePhase2 : List String := ["conn.GetPendingChallenge", "bruteForceProtector.RecordFailure", "conn.ClearPendingChallenge", "secretKeyMgr.VerifyResponse", "bruteForceProtector.RecordFailure", "bruteForceProtector.RecordSuccess", "conn.SetClientID", "conn.SetAuthenticated", "updateClientRuntimeState"]
def handleFirstConnection : List String := ["cloudControl.GenerateAnonymousCredentials", "bruteForceProtector.RecordFailure", "bruteForceProtector.RecordSuccess", "conn.SetClientID", "conn.SetAuthenticated", "updateClientRuntimeState"]
end Skel

namespace Cond
def DropStaleIndex : List String := ["conn == nil", "indexed == conn && clientID != conn.ClientID"]
def HandleHandshake : List String := ["remoteAddr != nil", "h.ipManager != nil", "allowed, reason := h.ipManager.IsAllowed(ip); !allowed", "h.bruteForceProtector != nil", "banned, reason := h.bruteForceProtector.IsBanned(ip); banned", "req.ClientID == 0 && h.rateLimiter != nil", "!h.rateLimiter.AllowIP(ip)", "isFirstConnection := req.ClientID == 0 && (req.Token == \"new-client\" || strings.HasPrefix(req.Token, \"anonymous:\"))", "isFirstConnection", "err != nil || config == nil", "h.bruteForceProtector != nil", "config.IsExpired()", "req.ChallengeResponse == \"\""]
def IsAllowed : List String := ["m.isInList(ip, m.whitelist)", "record := m.findInList(ip, m.blacklist); record != nil", "record.isExpired()"]
def IsBanned : List String := ["!exists", "record.isExpired()"]
def RecordFailure : List String := ["!exists", "totalCount >= p.config.PermanentBanAt", "recentFailures >= p.config.MaxFailures"]
def UpdateAuth : List String := ["!exists"]
def VerifyResponse : List String := ["err != nil"]
def banIP : List String := ["duration > 0", "existing, exists := p.bannedIPs[ip]; exists && existing.ExpiresAt.IsZero() && duration > 0", "duration > 0"]
def handleChallengePhase1 : List String := ["h.secretKeyMgr == nil", "config.SecretKeyEncrypted == \"\"", "err != nil"]
def handleChallengePhase2 : List String := ["challenge == \"\"", "h.bruteForceProtector != nil", "!h.secretKeyMgr.VerifyResponse(config.SecretKeyEncrypted, challenge, req.ChallengeResponse)", "h.bruteForceProtector != nil", "h.bruteForceProtector != nil"]
def handleHandshake : List String := ["s.authHandler == nil", "len(connPacket.Packet.Payload) > 0", "err := json.Unmarshal(connPacket.Packet.Payload, req); err != nil", "isControlConnection := req.ConnectionType != \"tunnel\"", "req.ConnectionType == \"\"", "isControlConnection", "existingConn != nil", "conn == nil", "enforcedProtocol == \"\"", "conn.RawConn != nil", "existingConn != nil", "conn == nil", "enforcedProtocol == \"\"", "conn.RawConn != nil", "err != nil", "concreteConn, ok := clientConn.(*ControlConnection); ok", "err := s.sendHandshakeResponse(clientConn, resp); err != nil", "isControlConnection && clientConn.IsAuthenticated() && clientConn.GetClientID() > 0", "oldConn != nil && oldConn.GetConnID() != clientConn.GetConnID()", "s.connStateStore != nil", "err := s.connStateStore.UnregisterConnection(s.Ctx(), oldConn.GetConnID()); err != nil", "concreteConn, ok := clientConn.(*ControlConnection); ok", "err := s.clientRegistry.UpdateAuth(concreteConn.ConnID, clientConn.GetClientID(), concreteConn.UserID); err != nil", "s.connStateStore != nil", "conn != nil && conn.Protocol != \"\"", "err := s.connStateStore.RegisterConnection(s.Ctx(), stateInfo); err != nil", "conn != nil && conn.Stream != nil", "handshakeHandler, ok := reader.(interface{ OnHandshakeComplete(clientID int64) }); ok", "isControlConnection && clientConn.IsAuthenticated() && clientConn.GetClientID() > 0"]
def removeConnectionLocked : List String := ["conn == nil", "conn.Stream != nil"]
def unindexLocked : List String := ["indexed == conn"]
end Cond

end Gen
