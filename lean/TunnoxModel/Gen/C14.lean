/- GENERATED from the Go source by /verif/extract on every run. Do not edit. -/
import TunnoxModel.Model.PredPrelude
import TunnoxModel.Model.C14Types
open Tunnox.PredPrelude
namespace Gen

namespace hybrid.DefaultConfig
def PersistentPrefixes : List String := ["tunnox:user:", "tunnox:client:", "tunnox:config:client:", "tunnox:persist:client:config:", "tunnox:persist:clients:list", "tunnox:mapping:", "tunnox:persist:mapping:", "tunnox:persist:mappings:list", "tunnox:stats:persistent:"]
def SharedPrefixes : List String := ["tunnox:conn_state:", "tunnox:client_conn:", "tunnox:tunnel_waiting:", "tunnox:node:", "tunnox:runtime:conncode:", "tunnox:index:conncode:target:", "tunnox:id:", "tunnox:runtime:client:state:", "tunnox:http_domain:index:", "tunnox:http_domain:next_id", "tunnox:http_domain:deleting:", "lock:"]
def SharedPersistentPrefixes : List String := ["tunnox:client_mappings:", "tunnox:user_mappings:", "tunnox:port_mapping:", "tunnox:mappings:list", "tunnox:http_domain:mapping:", "tunnox:http_domain:client:", "tunnox:http_domain:mappings:list", "webhook:", "webhooks:", "webhook_log:", "webhook_logs:"]
def DefaultCacheTTL : Nat := 3600000000000
def PersistentCacheTTL : Nat := 86400000000000
def SharedCacheTTL : Nat := 3600000000000
def EnablePersistent : Bool := false
end hybrid.DefaultConfig

namespace hybrid
def DataCategoryRuntime : Nat := 0
def DataCategoryPersistent : Nat := 1
def DataCategoryShared : Nat := 2
def DataCategorySharedPersistent : Nat := 3
end hybrid

namespace hybrid.Storage
def isPersistent (h : Tunnox.C14.Storage) (key : String) : Bool :=
  if (h.config.PersistentPrefixes).any (fun prefix_ => (hasPrefix key prefix_)) then true
  else
    false
def isShared (h : Tunnox.C14.Storage) (key : String) : Bool :=
  if (h.config.SharedPrefixes).any (fun prefix_ => (hasPrefix key prefix_)) then true
  else
    false
def isSharedPersistent (h : Tunnox.C14.Storage) (key : String) : Bool :=
  if (h.config.SharedPersistentPrefixes).any (fun prefix_ => (hasPrefix key prefix_)) then true
  else
    false
def getCategory (h : Tunnox.C14.Storage) (key : String) : Nat :=
  if (isSharedPersistent h (key)) then
    hybrid.DataCategorySharedPersistent
  else
    if (isShared h (key)) then
      hybrid.DataCategoryShared
    else
      if (isPersistent h (key)) then
        hybrid.DataCategoryPersistent
      else
        hybrid.DataCategoryRuntime
def getCacheForKey (h : Tunnox.C14.Storage) (key : String) : Option Tunnox.C14.Tier :=
  if ((isShared h (key)) && (h.sharedCache).isSome) then
    h.sharedCache
  else
    h.cache
def cacheTierFor (h : Tunnox.C14.Storage) (key : String) : Option Tunnox.C14.Tier :=
  let category := (getCategory h (key))
  if (category == hybrid.DataCategoryShared) then
    (getCacheForKey h (key))
  else
    if ((category == hybrid.DataCategorySharedPersistent) && (h.sharedCache).isSome) then
      h.sharedCache
    else
      h.cache
end hybrid.Storage

namespace Skel
def Storage_AppendToList : List String := ["lockKey", "getList", "getCategory", "setLocked"]
def Storage_Delete : List String := ["lockKey", "getCategory", "getCacheForKey", "cache.Delete", "cache.Delete", "persistent.Delete", "cache.Delete", "persistent.Delete"]
def Storage_DeleteHash : List String := ["cacheTierFor().Delete", "cacheTierFor"]
def Storage_Exists : List String := ["getCategory", "getCacheForKey", "cache.Exists", "cache.Exists", "persistent.Exists", "cache.Exists", "persistent.Exists"]
def Storage_Get : List String := ["get"]
def Storage_GetHash : List String := ["cacheTierFor().Get", "cacheTierFor"]
def Storage_GetList : List String := ["getList"]
def Storage_Incr : List String := ["IncrBy"]
def Storage_IncrBy : List String := ["cacheTierFor", "counter.IncrBy", "lockKey", "cache.Get", "cache.Set"]
def Storage_RemoveFromList : List String := ["lockKey", "getList", "getCategory", "setLocked"]
def Storage_Set : List String := ["lockKey", "setLocked"]
def Storage_SetExpiration : List String := ["lockKey", "cacheTierFor", "cache.Get", "cache.Set"]
def Storage_SetHash : List String := ["cacheTierFor().Set", "cacheTierFor"]
def Storage_SetNX : List String := ["cacheTierFor", "nxSetter.SetNX", "cache.Exists", "cache.Set"]
def Storage_SetPersistent : List String := ["lockKey", "setPersistent"]
def Storage_SetRuntime : List String := ["lockKey", "setRuntime"]
def Storage_get : List String := ["getCategory", "getCacheForKey", "cache.Get", "getSharedPersistent", "cache.Get", "lockKey", "persistent.Get", "cache.Set"]
def Storage_getList : List String := ["get"]
def Storage_getSharedPersistent : List String := ["cache.Get", "lockKey", "persistent.Get", "cache.Set"]
def Storage_setLocked : List String := ["getCategory", "setPersistent", "setShared", "setSharedPersistent", "setRuntime"]
def Storage_setPersistent : List String := ["persistent.Set", "cache.Set"]
def Storage_setRuntime : List String := ["cache.Set"]
def Storage_setShared : List String := ["getCacheForKey", "cache.Set"]
def Storage_setSharedPersistent : List String := ["persistent.Set", "sharedCache.Set", "cache.Set"]
end Skel

end Gen
