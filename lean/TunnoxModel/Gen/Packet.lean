/- GENERATED from the Go source by /verif/extract on every run. Do not edit. -/
import TunnoxModel.Model.PredPrelude
open Tunnox.PredPrelude
namespace Gen

namespace constants
def PacketTypeSize : Nat := 1
def PacketBodySizeBytes : Nat := 4
def MaxPacketBodySize : Nat := 16777216
def DefaultChunkSize : Nat := 1024
end constants

namespace packet
def Handshake : Nat := 1
def HandshakeResp : Nat := 2
def Heartbeat : Nat := 3
def JsonCommand : Nat := 16
def CommandResp : Nat := 17
def TunnelOpen : Nat := 32
def TunnelOpenAck : Nat := 33
def TunnelData : Nat := 34
def TunnelClose : Nat := 35
def DataStreamEOF : Nat := 36
def Compressed : Nat := 64
def Encrypted : Nat := 128
end packet

namespace Packet
def StreamProcessor_fields : List (String × String × String) := [("*dispose.ManagerBase", "*dispose.ManagerBase", ""), ("reader", "io.Reader", ""), ("writer", "io.Writer", ""), ("readLock", "sync.Mutex", ""), ("writeLock", "sync.Mutex", ""), ("bufferMgr", "*utils.BufferManager", "")]
end Packet

namespace packet.Type
def IsHeartbeat (t : Nat) : Bool :=
  ((t &&& 0x3F) == packet.Heartbeat)
def IsJsonCommand (t : Nat) : Bool :=
  ((t &&& 0x3F) == packet.JsonCommand)
def IsCommandResp (t : Nat) : Bool :=
  ((t &&& 0x3F) == packet.CommandResp)
def IsCompressed (t : Nat) : Bool :=
  ((t &&& packet.Compressed) != 0)
def IsEncrypted (t : Nat) : Bool :=
  ((t &&& packet.Encrypted) != 0)
def IsTunnelPacket (t : Nat) : Bool :=
  let baseType := (t &&& 0x3F)
  (decide (baseType >= packet.TunnelOpen) && decide (baseType <= packet.TunnelClose))
def IsHandshake (t : Nat) : Bool :=
  ((t &&& 0x3F) == packet.Handshake)
end packet.Type

namespace Skel
def C01_ReadPacket : List String := ["acquireReadLock", "defer readLock.Unlock", "readPacketType", "readPacketBodySize", "readPacketBody", "decompressData", "json.Unmarshal"]
def C01_WritePacket : List String := ["acquireWriteLock", "defer writeLock.Unlock", "writer.Write", "json.Marshal", "compressData", "writer.Write", "writeRateLimitedData", "writer.Write"]
end Skel

namespace Cond
def C01_ReadPacket : List String := ["err := ps.acquireReadLock(); err != nil", "err != nil", "packetType.IsHeartbeat()", "err != nil", "err != nil", "packetType.IsEncrypted()", "packetType.IsCompressed()", "err != nil", "packetType.IsJsonCommand() || packetType.IsCommandResp()", "err != nil"]
def C01_decompressData : List String := ["estimatedSize > constants.MaxPacketBodySize", "err != nil", "n > int64(constants.MaxPacketBodySize)"]
def C01_readPacketBody : List String := ["bodySize > constants.MaxPacketBodySize", "err != nil && totalRead < int(bodySize)"]
def C01_readPacketBodySize : List String := ["_, err := io.ReadFull(ps.reader, sizeBuffer[:constants.PacketBodySizeBytes]); err != nil"]
def C01_readPacketType : List String := ["n == constants.PacketTypeSize", "err != nil"]
end Cond

end Gen
