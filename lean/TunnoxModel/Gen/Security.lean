/- GENERATED from the Go source by /verif/extract on every run. Do not edit. -/
import TunnoxModel.Model.PredPrelude
import TunnoxModel.Model.C18Types
open Tunnox.PredPrelude
namespace Gen

namespace security.DefaultBruteForceConfig
def MaxFailures : Nat := 5
def TimeWindow : Nat := 300000000000
def BanDuration : Nat := 1800000000000
def PermanentBanAt : Nat := 20
def CleanupInterval : Nat := 60000000000
end security.DefaultBruteForceConfig

namespace security.DefaultIPRateLimitConfig
def Rate : Nat := 10
def Burst : Nat := 20
def TTL : Nat := 300000000000
end security.DefaultIPRateLimitConfig

namespace security
def DefaultMaxFailures : Nat := 5
def DefaultTimeWindow : Nat := 300000000000
def DefaultBanDuration : Nat := 1800000000000
def DefaultPermanentBanAt : Nat := 20
def DefaultBruteForceCleanupInterval : Nat := 60000000000
end security

namespace security.BanRecord
def isExpired (now : Nat) (r : Tunnox.C18.BanRecord) : Bool :=
  ((!(timeIsZero r.ExpiresAt)) && (timeAfter now r.ExpiresAt))
end security.BanRecord

namespace security.IPRecord
def isExpired (now : Nat) (r : Tunnox.C18.IPRecord) : Bool :=
  ((!(timeIsZero r.ExpiresAt)) && (timeAfter now r.ExpiresAt))
end security.IPRecord

namespace Skel
def BruteForceProtector_IsBanned : List String := ["banMu.RLock", "banMu.RUnlock", "isExpired", "unbanIfExpired"]
def BruteForceProtector_RecordFailure : List String := ["mu.Lock", "cleanupOldFailures", "mu.Unlock", "banIP", "banIP"]
def BruteForceProtector_RecordSuccess : List String := ["mu.Lock", "mu.Unlock"]
def BruteForceProtector_banIP : List String := ["banMu.Lock", "banMu.Unlock", "ExpiresAt.IsZero"]
def BruteForceProtector_cleanup : List String := ["mu.Lock", "cleanupOldFailures", "mu.Unlock", "banMu.Lock", "ExpiresAt.IsZero", "now.After", "banMu.Unlock"]
def BruteForceProtector_unbanIfExpired : List String := ["banMu.Lock", "banMu.Unlock", "isExpired"]
def IPManager_IsAllowed : List String := ["mu.RLock", "mu.RUnlock", "isInList", "findInList", "isExpired", "removeExpiredFromBlacklist"]
def IPManager_cleanup : List String := ["mu.Lock", "mu.Unlock", "ExpiresAt.IsZero", "now.After", "removeFromStorage"]
def IPManager_findInList : List String := ["isExpired", "net.ParseIP", "net.ParseCIDR", "ipNet.Contains", "isExpired"]
def IPManager_removeExpiredFromBlacklist : List String := ["mu.Lock", "mu.Unlock", "isExpired", "removeFromStorage"]
def RateLimiter_AllowIP : List String := ["allow"]
def RateLimiter_allow : List String := ["mu.RLock", "mu.RUnlock", "mu.Lock", "newTokenBucket", "mu.Unlock", "bucket.Take"]
def ServerAuthHandler_HandleHandshake : List String := ["ipManager.IsAllowed", "bruteForceProtector.IsBanned", "rateLimiter.AllowIP", "handleFirstConnection", "cloudControl.GetClientConfig", "bruteForceProtector.RecordFailure", "config.IsExpired", "handleChallengePhase1", "handleChallengePhase2"]
def ServerAuthHandler_handleChallengePhase1 : List String := ["conn.SetPendingChallenge"]
def ServerAuthHandler_handleChallengePhase2 : List String := ["conn.GetPendingChallenge", "bruteForceProtector.RecordFailure", "conn.ClearPendingChallenge", "secretKeyMgr.VerifyResponse", "bruteForceProtector.RecordFailure", "bruteForceProtector.RecordSuccess", "conn.SetAuthenticated"]
def ServerAuthHandler_handleFirstConnection : List String := ["cloudControl.GenerateAnonymousCredentials", "bruteForceProtector.RecordFailure", "bruteForceProtector.RecordSuccess", "conn.SetAuthenticated"]
def TokenBucket_Take : List String := ["mu.Lock", "mu.Unlock", "refill"]
end Skel

end Gen
