/- GENERATED from the Go source by /verif/extract on every run. Do not edit. -/
namespace Gen.Skel


end Gen.Skel
