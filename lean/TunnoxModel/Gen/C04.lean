/- GENERATED from the Go source by /verif/extract on every run. Do not edit. -/
import TunnoxModel.Model.PredPrelude
import TunnoxModel.Gen.Models
import TunnoxModel.Model.C04Types
open Tunnox.PredPrelude
namespace Gen

namespace models.PortMapping
def IsExpired (now : Nat) (m : Tunnox.C04.PortMapping) : Bool :=
  if (m.ExpiresAt).isNone then
    false
  else
    (timeAfter now m.ExpiresAt)
def IsValid (now : Nat) (m : Tunnox.C04.PortMapping) : Bool :=
  if m.IsRevoked then
    false
  else
    if (IsExpired now m) then
      false
    else
      if (m.Status != models.MappingStatusActive) then
        false
      else
        true
def CanBeAccessedBy (now : Nat) (m : Tunnox.C04.PortMapping) (clientID : Nat) : Bool :=
  if (!(IsValid now m)) then
    false
  else
    let result := (m.ListenClientID == clientID)
    if (!result) then
      result
    else
      result
end models.PortMapping

namespace Skel
def ServerTunnelHandler_HandleTunnelOpen : List String := ["resumeTunnel", "connCodeService.ValidateMapping", "connCodeService.RecordMappingUsage", "cloudControl.GetPortMapping", "portMapping.IsValid", "validateWithSecretKey"]
def ServerTunnelHandler_resumeTunnel : List String := ["sessionMgr.ValidateTunnelResumeToken", "connCodeService.ValidateMapping"]
def auth_handleChallengePhase1 : List String := []
def auth_handleChallengePhase2 : List String := ["secretKeyMgr.VerifyResponse", "conn.SetClientID", "conn.SetAuthenticated"]
def auth_handleFirstConnection : List String := ["conn.SetClientID", "conn.SetAuthenticated"]
def conncode_RecordMappingUsage : List String := ["repos.LockPortMapping", "portMappingService.GetPortMapping", "portMappingService.UpdatePortMapping"]
def conncode_RevokeMapping : List String := ["repos.LockPortMapping", "portMappingService.GetPortMapping", "mapping.Revoke", "portMappingService.UpdatePortMapping"]
def conncode_ValidateMapping : List String := ["portMappingService.GetPortMapping", "mapping.CanBeAccessedBy"]
def forwardToSourceNode : List String := ["sendTunnelOpenResponseDirect", "tunnelConnMgr.CreateDedicatedConnection", "crossNodePool.Get", "WriteFrame", "runCrossNodeDataForwardDedicated"]
def handleCrossNodeTargetConnection : List String := ["lookupTunnelRouting", "processCrossNodeForward"]
def handleExistingBridge : List String := ["sendTunnelOpenResponseDirect", "cloudControl.GetPortMapping", "bridge.SetSourceConnection", "bridge.SetTargetConnection"]
def handleTargetBridge : List String := ["bridgeLock.RLock", "handleCrossNodeTargetConnectionAcked", "bridge.GetMappingID", "bridge.SetTargetConnection"]
def handleTunnelOpen : List String := ["json.Unmarshal", "sendTunnelOpenResponseDirect", "findOrCreateControlConnection", "tunnelHandler.HandleTunnelOpen", "sendTunnelOpenResponseDirect", "bridgeLock.Lock", "bridge.GetMappingID", "rejectTunnelOfOtherMapping", "handleExistingBridge", "tunnelRouting.LookupWaitingTunnel", "rejectTunnelOfOtherMapping", "handleCrossNodeTargetConnection", "sendTunnelOpenResponseDirect", "isSourceClient", "handleSourceBridge", "handleTargetBridge"]
def isSourceClient : List String := ["cloudControl.GetPortMapping", "extractClientID", "clientConn.IsAuthenticated", "clientConn.GetClientID"]
def processCrossNodeForward : List String := ["handleLocalBridgeWait", "forwardToSourceNode"]
def repo_UpdatePortMappingStats : List String := ["LockPortMapping", "r.GetPortMapping", "r.UpdatePortMapping"]
def repo_UpdatePortMappingStatus : List String := ["LockPortMapping", "r.GetPortMapping", "r.UpdatePortMapping"]
end Skel

end Gen
