/- GENERATED from the Go source by /verif/extract on every run. Do not edit. -/
import TunnoxModel.Model.PredPrelude
open Tunnox.PredPrelude
namespace Gen

namespace cloudconstants
def CopyBufferSize : Nat := 32768
end cloudconstants

namespace iocopy.UDP
def batchBufSize : Nat := 262144
def flushInterval_0 : Nat := 20000000
def readBuf_0 : Nat := 65536
def batchBuf : Nat := 262144
def fullAt : Nat := 262144
def halfFull : Nat := 131072
def batchSize : Nat := 32
def flushInterval_1 : Nat := 10000000
def readBuf_1 : Nat := 524288
def refill : Nat := 262144
def hdrLen : Nat := 2
def maxPacketLen : Nat := 65535
def batchFlushAt : Nat := 32
end iocopy.UDP

namespace Skel
def Bidirectional : List String := ["wg.Add", "wg.Done", "connA.Close", "connA.Read", "writerB.Write", "writerB.Close", "tryCloseWrite", "wg.Done", "connB.Close", "readerB.Read", "connA.Write", "tryCloseWrite", "wg.Wait", "connA.Close", "connB.Close"]
def UDP : List String := ["wg.Add", "wg.Done", "tunnelConn.Write", "batchMu.Lock", "flushLocked", "batchMu.Unlock", "udpConn.Read", "batchMu.Lock", "flushLocked", "batchMu.Unlock", "batchMu.Lock", "flushLocked", "batchMu.Unlock", "flushLocked", "batchMu.Unlock", "tryCloseWrite", "wg.Done", "udpConn.Close", "flush", "udpConn.Write", "tunnelConn.Read", "flush", "flush", "flush", "flush", "wg.Wait", "udpConn.Close", "tunnelConn.Close"]
def UDPVirtualConn_Write : List String := ["make", "copy", "updateLastActive"]
def UDPVirtualConn_writeLoop : List String := ["listener.WriteTo"]
def readWriteCloser_Close : List String := ["closeFunc"]
def readWriteCloser_CloseWrite : List String := ["closeWriteFunc", "cw.CloseWrite"]
def runDataCopy : List String := ["iocopy.UDP", "iocopy.Bidirectional", "bytesSent.Add", "bytesRecv.Add", "t.Close"]
def tryCloseWrite : List String := ["tcpConn.CloseWrite", "cw.CloseWrite"]
def udpBatchWriter_add : List String := ["len", "len"]
def udpBatchWriter_flush : List String := ["pktConn.WriteBatch", "conn.Write"]
def udpTunnelConn_ReceivePacket : List String := ["GetReader", "make", "io.ReadFull", "make", "io.ReadFull"]
def udpTunnelConn_SendPacket : List String := ["GetWriter", "make", "writer.Write", "writer.Write"]
end Skel

end Gen
