/- GENERATED from the Go source by /verif/extract on every run. Do not edit. -/
import TunnoxModel.Model.PredPrelude
open Tunnox.PredPrelude
namespace Gen

namespace lim_conncode
def MaxActiveCodesPerClient : Nat := 10
def MaxActiveMappingsPerClient : Nat := 50
end lim_conncode

namespace lim_sessioncfg
def MaxConnections : Nat := 10000
def MaxControlConnections : Nat := 5000
end lim_sessioncfg

namespace lim_session
def DefaultMaxConnections : Nat := 10000
def DefaultMaxControlConnections : Nat := 5000
end lim_session

namespace Skel
def L17_ActivateConnectionCode : List String := ["connCodeRepo.GetByCode", "mappingQuotaMu.Lock", "defer mappingQuotaMu.Unlock", "portMappingRepo.GetClientPortMappings", "@s.maxActiveMappingsPerClient", "@s.maxActiveMappingsPerClient", "@s.maxActiveMappingsPerClient", "connCode.Activate", "portMappingService.CreatePortMapping", "connCodeRepo.Update", "portMappingService.DeletePortMapping"]
def L17_CloseConnection : List String := ["connLock.Lock", "delete", "connLock.Unlock", "RemoveControlConnection", "RemoveTunnelConnection"]
def L17_CodeCreate : List String := ["{ret", "}", "{ret", "}", "storage.Set", "{ret", "}", "storage.Set", "{ret", "storage.Delete", "}", "{ret", "}", "listStore.AppendToList", "{ret", "storage.Delete", "storage.Delete", "}"]
def L17_CodeGetByCode : List String := ["storage.Get"]
def L17_CodeGetByID : List String := ["storage.Get"]
def L17_CreateConnectionCode : List String := ["codeQuotaMu.Lock", "defer codeQuotaMu.Unlock", "connCodeRepo.CountActiveByTargetClient", "@s.maxActiveCodesPerClient", "@s.maxActiveCodesPerClient", "generator.GenerateUnique", "connCodeRepo.GetByCode", "generateID", "connCodeRepo.Create"]
def L17_ListByTargetClient : List String := ["listStore.GetList", "r.GetByID", "listStore.RemoveFromList"]
def L17_NewSessionManager : List String := ["NewClientRegistry", "@config.MaxControlConnections", "NewTunnelRegistry"]
def L17_RecordMappingUsage : List String := ["repos.LockPortMapping", "portMappingService.GetPortMapping", "portMappingService.UpdatePortMapping"]
def L17_RegisterControlConnection : List String := ["clientRegistry.Register"]
def L17_ReleaseClaim : List String := ["storage.Delete"]
def L17_RevokeConnectionCode : List String := ["s.claimCode", "defer release", "connCodeRepo.GetByCode", "connCode.Revoke", "connCodeRepo.Update"]
def L17_RevokeMapping : List String := ["repos.LockPortMapping", "portMappingService.GetPortMapping", "mapping.Revoke", "portMappingService.UpdatePortMapping"]
def L17_TryClaim : List String := ["casStore.SetNX"]
def L17_handleConnection : List String := ["acquireConnectionSlot", "sync.OnceFunc", "@h.releaseConnectionSlot", "@slotOwnedByTunnel", "@slotOwnedByTunnel", "releaseSlot", "adapter.PrepareConnection", "client.CheckMappingQuota", "client.DialTunnel", "tunnel.NewTunnel", "releaseSlot", "tunnelManager.RegisterTunnel", "tun.Start", "@slotOwnedByTunnel"]
end Skel

namespace Flow
def L17_CreateConnection : List String := [
  "if s.config != nil && s.config.MaxConnections > 0",
  "s.connLock.RLock()",
  "currentCount := len(s.connMap)",
  "s.connLock.RUnlock()",
  "if currentCount >= s.config.MaxConnections",
  "return nil, coreerrors.Newf(coreerrors.CodeQuotaExceeded, \"connection limit reached: %d/%d\", currentCount, s.config.MaxConnections)",
  "end",
  "end",
  "var connID string",
  "var err error",
  "if connIDProvider, ok := reader.(interface{ GetConnectionID() string }); ok",
  "connID = connIDProvider.GetConnectionID()",
  "else",
  "if connIDProvider, ok := writer.(interface{ GetConnectionID() string }); ok",
  "connID = connIDProvider.GetConnectionID()",
  "end",
  "end",
  "generatedID := false",
  "if connID == \"\"",
  "connID, err = s.idManager.GenerateConnectionID()",
  "if err != nil",
  "return nil, coreerrors.Wrap(err, coreerrors.CodeInternal, \"failed to generate connection ID\")",
  "end",
  "generatedID = true",
  "end",
  "var rawConn net.Conn",
  "if nc, ok := reader.(net.Conn); ok",
  "rawConn = nc",
  "else",
  "if nc, ok := writer.(net.Conn); ok",
  "rawConn = nc",
  "end",
  "end",
  "streamProcessor, err := s.streamMgr.CreateStream(connID, reader, writer)",
  "if err != nil",
  "return nil, coreerrors.Wrap(err, coreerrors.CodeInternal, \"failed to create stream\")",
  "end",
  "conn := &types.Connection{ ID: connID, State: types.StateInitializing, Stream: streamProcessor, RawConn: rawConn, CreatedAt: time.Now(), UpdatedAt: time.Now(), LastHeartbeat: time.Now(), }",
  "s.connLock.Lock()",
  "if s.config != nil && s.config.MaxConnections > 0 && len(s.connMap) >= s.config.MaxConnections",
  "currentCount := len(s.connMap)",
  "s.connLock.Unlock()",
  "_ = s.streamMgr.RemoveStream(connID)",
  "if generatedID",
  "_ = s.idManager.ReleaseConnectionID(connID)",
  "end",
  "return nil, coreerrors.Newf(coreerrors.CodeQuotaExceeded, \"connection limit reached: %d/%d\", currentCount, s.config.MaxConnections)",
  "end",
  "s.connMap[connID] = conn",
  "s.connLock.Unlock()",
  "return conn, nil"
]
def L17_ClientRegister : List String := [
  "if conn == nil",
  "return fmt.Errorf(\"connection cannot be nil\")",
  "end",
  "if conn.ConnID == \"\"",
  "return fmt.Errorf(\"connection ID cannot be empty\")",
  "end",
  "r.mu.Lock()",
  "defer r.mu.Unlock()",
  "if r.maxConnections > 0 && len(r.connMap) >= r.maxConnections",
  "oldestConn := r.findOldestConnectionLocked()",
  "if oldestConn != nil",
  "r.logger.Warnf(\"ClientRegistry: connection limit reached (%d/%d), removing oldest connection %s\", len(r.connMap), r.maxConnections, oldestConn.ConnID)",
  "r.removeConnectionLocked(oldestConn)",
  "else",
  "return fmt.Errorf(\"connection limit reached: %d/%d\", len(r.connMap), r.maxConnections)",
  "end",
  "end",
  "if existing, exists := r.connMap[conn.ConnID]; exists",
  "r.logger.Warnf(\"ClientRegistry: connection %s already exists, replacing\", conn.ConnID)",
  "r.removeConnectionLocked(existing)",
  "end",
  "r.connMap[conn.ConnID] = conn",
  "if conn.Authenticated && conn.ClientID > 0",
  "r.clientIDMap[conn.ClientID] = conn",
  "end",
  "r.logger.Debugf(\"ClientRegistry: registered connection %s (clientID=%d, authenticated=%v)\", conn.ConnID, conn.ClientID, conn.Authenticated)",
  "return nil"
]
def L17_findOldest : List String := [
  "var oldestConn *ControlConnection",
  "var oldestTime time.Time",
  "for _, conn := range r.connMap",
  "if oldestConn == nil || conn.CreatedAt.Before(oldestTime)",
  "oldestConn = conn",
  "oldestTime = conn.CreatedAt",
  "end",
  "end",
  "return oldestConn"
]
def L17_TunnelRegister : List String := [
  "if conn == nil",
  "return coreerrors.New(coreerrors.CodeInvalidParam, \"connection cannot be nil\")",
  "end",
  "if conn.ConnID == \"\"",
  "return coreerrors.New(coreerrors.CodeInvalidParam, \"connection ID cannot be empty\")",
  "end",
  "r.mu.Lock()",
  "defer r.mu.Unlock()",
  "if r.maxTunnels > 0 && len(r.connMap) >= r.maxTunnels",
  "r.logger.Warnf(\"TunnelRegistry: capacity limit reached (max=%d, current=%d)\", r.maxTunnels, len(r.connMap))",
  "return coreerrors.Newf(coreerrors.CodeResourceExhausted, \"tunnel registry capacity limit reached: max %d tunnels\", r.maxTunnels)",
  "end",
  "r.connMap[conn.ConnID] = conn",
  "if conn.TunnelID != \"\"",
  "r.tunnelMap[conn.TunnelID] = conn",
  "end",
  "r.logger.Debugf(\"TunnelRegistry: registered connection %s (tunnelID=%s, mappingID=%s)\", conn.ConnID, conn.TunnelID, conn.MappingID)",
  "return nil"
]
def L17_acquireConnectionSlot : List String := [
  "maxConn := h.connectionLimit()",
  "for",
  "current := h.activeConnCount.Load()",
  "if maxConn > 0 && int(current) >= maxConn",
  "return coreerrors.Newf(coreerrors.CodeResourceExhausted, \"max connections reached: %d/%d\", current, maxConn)",
  "end",
  "if h.activeConnCount.CompareAndSwap(current, current+1)",
  "return nil",
  "end",
  "end"
]
def L17_releaseConnectionSlot : List String := [
  "h.activeConnCount.Add(-1)"
]
def L17_connectionLimit : List String := [
  "maxConn := h.config.MaxConnections",
  "if maxConn <= 0",
  "quota, err := h.client.GetUserQuota()",
  "if err != nil",
  "return 0",
  "end",
  "maxConn = quota.MaxConnections",
  "end",
  "if maxConn < 0",
  "return 0",
  "end",
  "return maxConn"
]
def L17_CountActiveByTargetClient : List String := [
  "codes, err := r.ListByTargetClient(targetClientID)",
  "if err != nil",
  "return 0, err",
  "end",
  "count := 0",
  "for _, code := range codes",
  "if code.IsValidForActivation()",
  "count++",
  "end",
  "end",
  "return count, nil"
]
def L17_CodeUpdate : List String := [
  "if err := code.Validate(); err != nil",
  "return coreerrors.Wrap(err, coreerrors.CodeValidationError, \"invalid connection code\")",
  "end",
  "data, err := json.Marshal(code)",
  "if err != nil",
  "return coreerrors.Wrap(err, coreerrors.CodeInternal, \"failed to marshal connection code\")",
  "end",
  "ttl := code.TimeRemaining()",
  "if ttl <= 0",
  "return r.Delete(code.ID)",
  "end",
  "keyByCode := constants.KeyPrefixRuntimeConnectionCodeByCode + code.Code",
  "if err := r.storage.Set(keyByCode, string(data), ttl); err != nil",
  "return coreerrors.Wrap(err, coreerrors.CodeStorageError, \"failed to update connection code by code\")",
  "end",
  "keyByID := constants.KeyPrefixRuntimeConnectionCodeByID + code.ID",
  "if err := r.storage.Set(keyByID, string(data), ttl); err != nil",
  "return coreerrors.Wrap(err, coreerrors.CodeStorageError, \"failed to update connection code by ID\")",
  "end",
  "return nil"
]
end Flow

end Gen
