/- GENERATED from the Go source by /verif/extract on every run. Do not edit. -/
import TunnoxModel.Model.PredPrelude
open Tunnox.PredPrelude
namespace Gen

namespace idgen
def ClientIDMin : Nat := 10000000
def ClientIDMax : Nat := 99999999
def ClientIDLength : Nat := 8
def RandomPartLength : Nat := 8
def MaxAttempts : Nat := 100
def DefaultIDTTL : Nat := 2592000000000000
def PrefixNodeID : String := "node_"
def PrefixPortMappingID : String := "pmap_"
def PrefixUserID : String := "user_"
end idgen

namespace node
def NodeIDMin : Nat := 1
def NodeIDMax : Nat := 1000
def NodeIDKeyPrefix : String := "tunnox:node:allocated:"
def NodeIDLockTTL : Nat := 90000000000
end node

namespace random
def Charset : String := "ABCDEFGHIJKLMNOPQRSTUVWXYZabcdefghijklmnopqrstuvwxyz0123456789"
end random

namespace Skel
def AllocateNodeID : List String := ["tryAcquireNodeID", "heartbeatLoop"]
def Generate : List String := ["random.String", "random.Int64", "tryMarkAsUsed"]
def HybridSetNX : List String := ["h.cacheTierFor", "nxSetter.SetNX", "cache.Exists", "cache.Set"]
def HybridSetNXRuntime : List String := ["nxSetter.SetNX", "nxSetter.SetNX", "h.Exists", "h.setRuntime"]
def NodeRelease : List String := ["storage.Delete"]
def Release : List String := ["getKey", "storage.Delete"]
def getKey : List String := ["fmt.Sprintf"]
def heartbeatLoop : List String := ["renewNodeID"]
def renewNodeID : List String := ["storage.Set"]
def tryAcquireNodeID : List String := ["hybridStorage.SetNXRuntime", "nxStorage.SetNX", "storage.Exists", "storage.Set", "storage.Get"]
def tryMarkAsUsed : List String := ["casStore.SetNX", "mu.Lock", "mu.Unlock", "storage.Exists", "storage.Set"]
end Skel

end Gen
