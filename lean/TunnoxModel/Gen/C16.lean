/- GENERATED from the Go source by /verif/extract on every run. Do not edit. -/
import TunnoxModel.Model.PredPrelude
open Tunnox.PredPrelude
namespace Gen

namespace ctunnel
def TunnelStateConnecting : Nat := 0
def TunnelStateConnected : Nat := 1
def TunnelStateClosing : Nat := 2
def TunnelStateClosed : Nat := 3
def CloseReasonNormal : Nat := 0
def CloseReasonLocalClosed : Nat := 1
def CloseReasonPeerClosed : Nat := 2
def CloseReasonTimeout : Nat := 3
def CloseReasonError : Nat := 4
def CloseReasonContextCanceled : Nat := 5
def TunnelRoleListen : Nat := 0
def TunnelRoleTarget : Nat := 1
end ctunnel

namespace ctunnel.Tunnel
def shouldNotifyPeer (t : Unit) (reason : Nat) : Bool :=
  if (reason == ctunnel.CloseReasonPeerClosed) then
    false
  else
  if (reason == ctunnel.CloseReasonContextCanceled) then
    false
  else
    true
end ctunnel.Tunnel

namespace Skel
def Bridge_cleanup : List String := ["reportTrafficStats", "quotaEnforcer.UnregisterMeter", "ReleaseCrossNodeConnection"]
def Bridge_reportTrafficStats : List String := ["reportMu.Lock", "reportMu.Unlock", "bytesSent.Load", "bytesReceived.Load", "lastReportedSent.Load", "lastReportedReceived.Load", "cloudControl.GetPortMapping", "cloudControl.UpdatePortMappingStats", "lastReportedSent.Store", "lastReportedReceived.Store"]
def C16_Bridge_Close : List String := ["sourceConnMu.Lock", "sourceForwarder.Close", "sourceConnMu.Unlock", "tunnelConnMu.Lock", "targetForwarder.Close", "sourceTunnelConn.Close", "targetTunnelConn.Close", "sourceConn.Close", "targetConn.Close", "sourceStream.Close", "targetStream.Close", "tunnelConnMu.Unlock", "ManagerBase.Close"]
def Dispose_Close : List String := ["currentLock.Lock", "currentLock.Unlock", "cancel", "runCleanHandlers"]
def Dispose_runCleanHandlers : List String := ["linkLock.Lock", "copy", "linkLock.Unlock", "handler"]
def Mapping_reportStats : List String := ["BytesSent.Swap", "BytesReceived.Swap", "client.TrackTraffic", "BytesSent.Add", "BytesReceived.Add"]
def StreamProcessor_acquireReadLock : List String := ["readLock.Lock", "Dispose.IsClosed", "readLock.Unlock", "readLock.Unlock"]
def StreamProcessor_acquireWriteLock : List String := ["writeLock.Lock", "Dispose.IsClosed", "writeLock.Unlock", "writeLock.Unlock"]
def StreamProcessor_onClose : List String := ["bufferMgr.Close", "closer.Close", "closer.Close", "closer.Close", "closer.Close"]
def Tunnel_Close : List String := ["state.Load", "state.CompareAndSwap", "Dispose.Close", "localConn.Close", "tunnelRWC.Close", "shouldNotifyPeer", "sendCloseNotification", "manager.UnregisterTunnel", "onClosed", "state.Store"]
def Tunnel_Start : List String := ["SetCtx", "manager.Ctx", "state.CompareAndSwap", "corelog.Infof", "monitorPeerNotification", "monitorTimeout", "runDataCopy"]
end Skel

end Gen
