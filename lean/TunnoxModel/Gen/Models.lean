/- GENERATED from the Go source by /verif/extract on every run. Do not edit. -/
import TunnoxModel.Model.PredPrelude
open Tunnox.PredPrelude
namespace Gen

namespace models
def MappingStatusActive : String := "active"
def MappingStatusInactive : String := "inactive"
def MappingStatusError : String := "error"
def ProtocolHTTP : String := "http"
end models

end Gen
