/- GENERATED from the Go source by /verif/extract on every run. Do not edit. -/
import TunnoxModel.Model.PredPrelude
open Tunnox.PredPrelude
namespace Gen

namespace cloudconst
def CopyBufferSize : Nat := 32768
def BatchUpdateThreshold : Nat := 1048576
def ContextCheckInterval : Nat := 10000
end cloudconst

namespace Skel
def Bridge_Close : List String := ["sourceForwarder.Close", "targetForwarder.Close", "sourceTunnelConn.Close", "targetTunnelConn.Close", "sourceConn.Close", "targetConn.Close", "sourceStream.Close", "targetStream.Close", "ManagerBase.Close"]
def Bridge_SetSourceConnection : List String := ["tunnelConnMu.Lock", "tunnelConnMu.Unlock", "CreateDataForwarder", "sourceConnMu.Lock", "sourceConnMu.Unlock", "tunnelConnMu.Unlock"]
def Bridge_Start : List String := ["tunnelConnMu.Lock", "sourceConnMu.Lock", "CreateDataForwarder", "sourceConnMu.Unlock", "CreateDataForwarder", "tunnelConnMu.Unlock", "sourceConnMu.RLock", "sourceConnMu.RUnlock", "b.CopyWithControl", "sourceConnMu.RLock", "sourceConnMu.RUnlock", "b.CopyWithControl"]
def CopyWithControl : List String := ["counter.Add", "src.Read", "waitLimiterN", "dst.Write", "counter.Add", "counter.Add"]
def dynamicSourceWriter_Write : List String := ["sourceConnMu.RLock", "sourceConnMu.RUnlock", "sourceForwarder.Write"]
def forwardToSourceNode : List String := ["tunnelConnMgr.CreateDedicatedConnection", "crossNodePool.Get", "crossConn.GetTCPConn", "WriteFrame", "runCrossNodeDataForwardDedicated"]
def runBridgeForward : List String := ["bridge.ReleaseCrossNodeConnection", "bridge.Close", "sourceForwarder.Close", "io.Copy", "tcpConn.CloseWrite", "io.Copy", "closer.CloseWrite", "tcpSource.CloseWrite"]
def runBridgeLifecycle : List String := ["bridge.Close", "bridge.Start", "bridgeLock.Lock", "delete", "bridgeLock.Unlock", "tunnelRouting.RemoveWaitingTunnel"]
def runCrossNodeDataForwardDedicated : List String := ["tunnelConnMgr.CloseTunnel", "tcpConn.Close", "netConn.Close", "io.Copy", "tcpConn.CloseWrite", "io.Copy", "tcpLocal.CloseWrite"]
def waitLimiterN : List String := ["limiter.Burst", "limiter.WaitN", "limiter.WaitN"]
end Skel

end Gen
