/- GENERATED from the Go source by /verif/extract on every run. Do not edit. -/
import TunnoxModel.Gen.Consts
import TunnoxModel.Model.PredPrelude
open Tunnox.PredPrelude
namespace Gen

namespace packet.Type
def IsHeartbeat (t : Nat) : Bool :=
  ((t &&& 0x3F) == packet.Heartbeat)
def IsJsonCommand (t : Nat) : Bool :=
  ((t &&& 0x3F) == packet.JsonCommand)
def IsCommandResp (t : Nat) : Bool :=
  ((t &&& 0x3F) == packet.CommandResp)
def IsCompressed (t : Nat) : Bool :=
  ((t &&& packet.Compressed) != 0)
def IsEncrypted (t : Nat) : Bool :=
  ((t &&& packet.Encrypted) != 0)
def IsTunnelPacket (t : Nat) : Bool :=
  let baseType := (t &&& 0x3F)
  (decide (baseType >= packet.TunnelOpen) && decide (baseType <= packet.TunnelClose))
def IsHandshake (t : Nat) : Bool :=
  ((t &&& 0x3F) == packet.Handshake)
end packet.Type

end Gen
