/- GENERATED from the Go source by /verif/extract on every run. Do not edit. -/
import TunnoxModel.Model.PredPrelude
import TunnoxModel.Model.C09Types
open Tunnox.PredPrelude
namespace Gen

namespace tunnel
def NodeAddressTTL : Nat := 86400000000000
end tunnel

namespace session
def pollInitialInterval : Nat := 50000000
def pollMaxInterval : Nat := 200000000
def pollBackoffFactor : Nat := 2
end session

namespace hybrid
def DataCategoryRuntime : Nat := 0
def DataCategoryPersistent : Nat := 1
def DataCategoryShared : Nat := 2
def DataCategorySharedPersistent : Nat := 3
end hybrid

namespace C09
def WaitingState_fields : List (String × String × String) := [("TunnelID", "string", "tunnel_id"), ("MappingID", "string", "mapping_id"), ("SecretKey", "string", "secret_key"), ("SourceNodeID", "string", "source_node_id"), ("SourceClientID", "int64", "source_client_id"), ("TargetClientID", "int64", "target_client_id"), ("TargetHost", "string", "target_host"), ("TargetPort", "int", "target_port"), ("CreatedAt", "time.Time", "created_at"), ("ExpiresAt", "time.Time", "expires_at")]
def LookupWaitingTunnel_cases : List String := ["*WaitingState", "WaitingState", "map[string]interface{}", "[]byte", "string", "default"]
def NewRoutingTable_defaultTTL : Nat := 30000000000
def makeKey (tunnelID : String) : String := ("tunnox:tunnel_waiting:" ++ tunnelID)
def GetNodeAddress_key (nodeID : String) : String := (("tunnox:node:" ++ nodeID) ++ ":addr")
def RegisterNodeAddress_key (nodeID : String) : String := (("tunnox:node:" ++ nodeID) ++ ":addr")
def DefaultConfig_PersistentPrefixes : List String := ["tunnox:user:", "tunnox:client:", "tunnox:config:client:", "tunnox:persist:client:config:", "tunnox:persist:clients:list", "tunnox:mapping:", "tunnox:persist:mapping:", "tunnox:persist:mappings:list", "tunnox:stats:persistent:"]
def DefaultConfig_SharedPrefixes : List String := ["tunnox:conn_state:", "tunnox:client_conn:", "tunnox:tunnel_waiting:", "tunnox:node:", "tunnox:runtime:conncode:", "tunnox:index:conncode:target:", "tunnox:id:", "tunnox:runtime:client:state:", "tunnox:http_domain:index:", "tunnox:http_domain:next_id", "tunnox:http_domain:deleting:", "lock:"]
def DefaultConfig_SharedPersistentPrefixes : List String := ["tunnox:client_mappings:", "tunnox:user_mappings:", "tunnox:port_mapping:", "tunnox:mappings:list", "tunnox:http_domain:mapping:", "tunnox:http_domain:client:", "tunnox:http_domain:mappings:list", "webhook:", "webhooks:", "webhook_log:", "webhook_logs:"]
def DefaultConfig_DefaultCacheTTL : Nat := 3600000000000
def DefaultConfig_EnablePersistent : Bool := false
end C09

namespace hybrid.Storage
def isPersistent (h : Tunnox.C09.HybridStorage) (key : String) : Bool :=
  if (h.config.PersistentPrefixes).any (fun prefix_ => (hasPrefix key prefix_)) then true
  else
    false
def isShared (h : Tunnox.C09.HybridStorage) (key : String) : Bool :=
  if (h.config.SharedPrefixes).any (fun prefix_ => (hasPrefix key prefix_)) then true
  else
    false
def isSharedPersistent (h : Tunnox.C09.HybridStorage) (key : String) : Bool :=
  if (h.config.SharedPersistentPrefixes).any (fun prefix_ => (hasPrefix key prefix_)) then true
  else
    false
def getCategory (h : Tunnox.C09.HybridStorage) (key : String) : Nat :=
  if (isSharedPersistent h (key)) then
    hybrid.DataCategorySharedPersistent
  else
    if (isShared h (key)) then
      hybrid.DataCategoryShared
    else
      if (isPersistent h (key)) then
        hybrid.DataCategoryPersistent
      else
        hybrid.DataCategoryRuntime
end hybrid.Storage

namespace Skel
def CreateDedicatedConnection : List String := ["connections.Load", "connections.Delete", "getNodeAddr", "d.DialContext", "connections.Store"]
def GetNodeAddress : List String := ["storage.Get"]
def LookupWaitingTunnel : List String := ["makeKey", "storage.Get", "json.Marshal", "json.Unmarshal", "json.Unmarshal", "json.Unmarshal", "After", "storage.Delete"]
def RegisterNodeAddress : List String := ["storage.Set"]
def RegisterWaitingTunnel : List String := ["time.Now", "now.Add", "makeKey", "storage.Set"]
def RemoveWaitingTunnel : List String := ["makeKey", "storage.Delete"]
def forwardToSourceNode : List String := ["tunnelConnMgr.CreateDedicatedConnection", "crossNodePool.Get", "WriteFrame", "runCrossNodeDataForwardDedicated"]
def hybrid_Delete : List String := ["getCategory", "getCacheForKey", "cache.Delete", "cache.Delete", "persistent.Delete", "cache.Delete", "persistent.Delete"]
def hybrid_Get : List String := ["getCategory", "getCacheForKey", "cache.Get", "getSharedPersistent", "cache.Get", "persistent.Get"]
def hybrid_Set : List String := ["getCategory", "setPersistent", "setShared", "setSharedPersistent", "setRuntime"]
def hybrid_getCacheForKey : List String := ["isShared"]
def hybrid_setShared : List String := ["getCacheForKey", "cache.Set"]
def lookupTunnelRouting : List String := ["ctx.Done", "tunnelRouting.LookupWaitingTunnel", "time.Sleep"]
def processCrossNodeForward : List String := ["handleLocalBridgeWait", "forwardToSourceNode"]
def runBridgeLifecycle_c09 : List String := ["bridge.Close", "bridge.Start", "bridgeLock.Lock", "delete", "bridgeLock.Unlock", "tunnelRouting.RemoveWaitingTunnel"]
def startSourceBridge : List String := ["cloudControl.GetPortMapping", "NewTunnelBridge", "bridgeLock.Lock", "bridgeLock.Unlock", "bridgeLock.Unlock", "tunnelRouting.RegisterWaitingTunnel", "bridgeManager.NotifyTunnelReady", "notifyTargetClientToOpenTunnel", "runBridgeLifecycle"]
end Skel

end Gen
