import TunnoxModel.Model.C18
/-!
# C18 — the property as decidable predicates on observations

The reference is an *ideal ledger* that never forgets: it is driven by the same time line, it has no
clean-up, no lazy removal, no record overwriting.  `holds…` compares the observed answers with the
ledger's answers — in both directions (refused when locked, not refused otherwise).

* `Ledger` (per address): the failure instants since the last reset, `perm` once the lifetime
  threshold was reached, `until` = the latest end of any temporary ban that was imposed.
  An address is refused at `t` iff `perm ∨ t ≤ until`.
  Reset of the counters = a successful authentication, or a clean-up pass that finds no failure
  inside the window (the code forgets quiet addresses; this is part of the configuration semantics).
* `BLedger`: for every key the latest administrative decision (entry with its expiry, or none).
  An address is refused iff no whitelist key matches it and some matching key has an unexpired entry.
* rate limit: in every stretch of `AllowIP` calls of one address, admitted·U ≤ Burst·U + Rate·Δt.
-/
namespace Tunnox.C18

/-! ## A. lock-out ledger -/

structure Ledger where
  fails : List Nat
  perm : Bool
  till : Nat
  pend : List Dec

def Ledger.empty : Ledger := ⟨[], false, 0, []⟩

/-- Decision required by the configuration after a failure at `t`, `fails` including that failure. -/
def specDec (cfg : BruteForceConfig) (t : Nat) (fails : List Nat) : Dec :=
  if fails.length ≥ cfg.PermanentBanAt then .perm
  else if (fails.filter (inWindow cfg t)).length ≥ cfg.MaxFailures then .temp
  else .none

def lock (cfg : BruteForceConfig) (t : Nat) (d : Dec) (l : Ledger) : Ledger :=
  match d with
  | .perm => { l with perm := true }
  | .temp => { l with till := max l.till (t + cfg.BanDuration) }
  | .none => l

def Ledger.refuses (l : Ledger) (t : Nat) : Bool := l.perm || decide (t ≤ l.till)

def ledgerStep (cfg : BruteForceConfig) (t : Nat) (e : Ev) (l : Ledger) : Ledger × Option Bool :=
  match e with
  | .fail _ =>
    (lock cfg t (specDec cfg t (l.fails ++ [t])) { l with fails := l.fails ++ [t] },
     some (specDec cfg t (l.fails ++ [t]) != .none))
  | .failRec _ =>
    ({ l with fails := l.fails ++ [t],
              pend := if specDec cfg t (l.fails ++ [t]) != .none then l.pend ++ [specDec cfg t (l.fails ++ [t])] else l.pend }, none)
  | .failBan _ i => (lock cfg t (l.pend.getD i .none) { l with pend := l.pend.eraseIdx i }, none)
  | .success _ => ({ l with fails := [] }, none)
  | .query _ => (l, some (l.refuses t))
  | .asyncUnban _ => (l, none)
  | .cleanup => (if (l.fails.filter (inWindow cfg t)).length == 0 then { l with fails := [] } else l, none)
  | .cleanFr => (if (l.fails.filter (inWindow cfg t)).length == 0 then { l with fails := [] } else l, none)
  | .cleanBan => (l, none)
  | .sweepScan => (l, none)
  | .sweepDelete => (l, none)

abbrev Ledgers := Nat → Ledger

def ledgersStep (cfg : BruteForceConfig) (te : TEv) (ls : Ledgers) : Ledgers × Option Bool :=
  match te.2.target with
  | some a => (fun k => if k = a then (ledgerStep cfg te.1 te.2 (ls a)).1 else ls k,
               (ledgerStep cfg te.1 te.2 (ls a)).2)
  | none => (fun k => (ledgerStep cfg te.1 te.2 (ls k)).1, none)

def specRun (cfg : BruteForceConfig) : List TEv → Ledgers → List (Option Bool)
  | [], _ => []
  | e :: es, ls => (ledgersStep cfg e ls).2 :: specRun cfg es (ledgersStep cfg e ls).1

/-- **The lock-out property on an observed time line**: every `IsBanned` answer and every
`RecordFailure` result is the ledger's. -/
def holdsBF (cfg : BruteForceConfig) (es : List TEv) (obs : List (Option Bool)) : Bool :=
  obs == specRun cfg es (fun _ => Ledger.empty)

/-! ## B. blacklist ledger -/

structure BLedger where
  black : IPKey → Option Nat      -- expiry instant of the latest entry of the key (0 = never)
  white : IPKey → Bool
  bkeys : List IPKey
  wkeys : List IPKey

def BLedger.empty : BLedger := ⟨fun _ => none, fun _ => false, [], []⟩

def unexpired (t : Nat) (e : Option Nat) : Bool :=
  match e with
  | some x => x == 0 || decide (t ≤ x)
  | none => false

/-- keys whose text equals the address, or CIDR keys -/
def keysFor (ip : Nat) (keys : List IPKey) : List IPKey :=
  ⟨ip, none⟩ :: keys.filter (fun k => k.plen.isSome)

def BLedger.allowed (l : BLedger) (t ip : Nat) : Bool :=
  (keysFor ip l.wkeys).any (fun k => k.matches ip && l.white k) ||
  !((keysFor ip l.bkeys).any (fun k => k.matches ip && unexpired t (l.black k)))

def bledgerStep (t : Nat) (e : IEv) (l : BLedger) : BLedger × Option Bool :=
  match e with
  | .addBlack k dur => ({ l with black := upd l.black k (some (if dur > 0 then t + dur else 0)), bkeys := k :: l.bkeys }, none)
  | .removeBlack k => ({ l with black := upd l.black k none }, none)
  | .addWhite k => ({ l with white := fun k' => if k' = k then true else l.white k', wkeys := k :: l.wkeys }, none)
  | .removeWhite k => ({ l with white := fun k' => if k' = k then false else l.white k' }, none)
  | .isAllowed ip => (l, some (l.allowed t ip))
  | .asyncRemove _ => (l, none)
  | .cleanup => (l, none)
  | .restart => (l, none)   -- a blacklist is a blacklist, whichever manager instance answers

def bspecRun : List (Nat × IEv) → BLedger → List (Option Bool)
  | [], _ => []
  | e :: es, l => (bledgerStep e.1 e.2 l).2 :: bspecRun es (bledgerStep e.1 e.2 l).1

/-- **A blacklisted address is always refused** (and nobody else is). -/
def holdsIPM (es : List (Nat × IEv)) (obs : List (Option Bool)) : Bool :=
  obs == bspecRun es BLedger.empty

/-! ## C. rate and burst -/

/-- answers of the `AllowIP ip` calls, with their instants -/
def allowsOf (ip : Nat) : List (Nat × REv) → List (Option Bool) → List (Nat × Bool)
  | (t, .allow a) :: es, some b :: os => if a = ip then (t, b) :: allowsOf ip es os else allowsOf ip es os
  | _ :: es, _ :: os => allowsOf ip es os
  | _, _ => []

def admitted (xs : List (Nat × Bool)) : Nat := (xs.filter (·.2)).length

def lastTime (t0 : Nat) : List (Nat × Bool) → Nat
  | [] => t0
  | x :: xs => lastTime x.1 xs

/-- every prefix of `xs` (a stretch that starts at `xs`' first call) obeys the bound -/
def prefixesOK (cfg : RateLimitConfig) (U : Nat) (xs : List (Nat × Bool)) : Bool :=
  (List.range (xs.length + 1)).all fun n =>
    decide (admitted (xs.take n) * U ≤ cfg.Burst * U + cfg.Rate * (lastTime (xs.headD (0, false)).1 (xs.take n) - (xs.headD (0, false)).1))

/-- every stretch (contiguous run of calls of the address) obeys the bound -/
def stretchesOK (cfg : RateLimitConfig) (U : Nat) : List (Nat × Bool) → Bool
  | [] => true
  | x :: xs => prefixesOK cfg U (x :: xs) && stretchesOK cfg U xs

def ipsOf : List (Nat × REv) → List Nat
  | [] => []
  | (_, .allow a) :: es => a :: ipsOf es
  | _ :: es => ipsOf es

/-- **Anonymous registrations of one address never exceed rate and burst**: for every address and
every stretch of its `AllowIP` calls from instant `s` to instant `e`,
`admitted · U ≤ Burst · U + Rate · (e − s)` (`U` = time units per second). -/
def holdsRL (cfg : RateLimitConfig) (U : Nat) (es : List (Nat × REv)) (obs : List (Option Bool)) : Bool :=
  obs.length == es.length && (ipsOf es).all (fun ip => stretchesOK cfg U (allowsOf ip es obs))

/-- an answer of address `ip` (a whole `AllowIP`, or the `Take` section of one in flight) -/
def obsFor (ip : Nat) (e : XEv) (o : Option Bool) : Option Bool :=
  match e, o with
  | .allow a, some b => if a = ip then some b else none
  | .take a _, some b => if a = ip then some b else none
  | _, _ => none

def xAllowsOf (ip : Nat) : List (Nat × XEv) → List (Option Bool) → List (Nat × Bool)
  | e :: es, o :: os =>
    match obsFor ip e.2 o with
    | some b => (e.1, b) :: xAllowsOf ip es os
    | none => xAllowsOf ip es os
  | _, _ => []

def xIps : List (Nat × XEv) → List Nat
  | [] => []
  | (_, .allow a) :: es => a :: xIps es
  | (_, .take a _) :: es => a :: xIps es
  | _ :: es => xIps es

/-- **Rate and burst, with `AllowIP` calls overlapping**: the same bound as `holdsRL`, over the
answers of whole calls and of calls cut into their critical sections. -/
def holdsRLX (cfg : RateLimitConfig) (U : Nat) (es : List (Nat × XEv)) (obs : List (Option Bool)) : Bool :=
  obs.length == es.length && (xIps es).all (fun ip => stretchesOK cfg U (xAllowsOf ip es obs))

/-! ## D. handshake -/

structure HLedger where
  ipm : BLedger
  bf : Ledgers
  rl : RState     -- the bucket has no separate reference: its bound is `holdsRL`

def HLedger.empty : HLedger := ⟨BLedger.empty, fun _ => Ledger.empty, fun _ => none⟩

/-- Reference handshake: refused as blacklisted / locked exactly when the ledgers say so, before
anything else happens; an anonymous registration needs a token; then the outcome is recorded. -/
def specHandshake (cfg : HCfg) (t ip : Nat) (k : HKind) (s : HLedger) : HLedger × HResp :=
  if !(s.ipm.allowed t ip) then (s, .blk)
  else if (s.bf ip).refuses t then (s, .ban)
  else if k.anon && !(allowB cfg.rl cfg.U t (s.rl ip)).2 then
    ({ s with rl := (rlStep cfg.rl cfg.U t (.allow ip) s.rl).1 }, .rate)
  else
    match k.outcome with
    | some true =>
      ({ s with rl := if k.anon then (rlStep cfg.rl cfg.U t (.allow ip) s.rl).1 else s.rl,
                bf := (ledgersStep cfg.bf (t, .success ip) s.bf).1 }, .ok)
    | some false =>
      ({ s with rl := if k.anon then (rlStep cfg.rl cfg.U t (.allow ip) s.rl).1 else s.rl,
                bf := (ledgersStep cfg.bf (t, .fail ip) s.bf).1 }, .fail)
    | none => (s, k.neutralResp)

def hSpecStep (cfg : HCfg) (t : Nat) (e : HEv) (s : HLedger) : HLedger × Option HResp :=
  match e with
  | .hs ip k => ((specHandshake cfg t ip k s).1, some (specHandshake cfg t ip k s).2)
  | .ipm e => ({ s with ipm := (bledgerStep t e s.ipm).1 }, none)
  | .bf e => ({ s with bf := (ledgersStep cfg.bf (t, e) s.bf).1 }, none)
  | .rlCleanup => ({ s with rl := (rlStep cfg.rl cfg.U t .cleanup s.rl).1 }, none)

def hSpecRun (cfg : HCfg) : List (Nat × HEv) → HLedger → List (Option HResp)
  | [], _ => []
  | e :: es, s => (hSpecStep cfg e.1 e.2 s).2 :: hSpecRun cfg es (hSpecStep cfg e.1 e.2 s).1

/-- the anonymous registrations that got past all gates, per address, as `AllowIP` answers -/
def regsOf (ip : Nat) : List (Nat × HEv) → List (Option HResp) → List (Nat × Bool)
  | (t, .hs a k) :: es, some r :: os =>
    if a = ip && k.anon && (r != .blk && r != .ban) then (t, r != .rate) :: regsOf ip es os else regsOf ip es os
  | _ :: es, _ :: os => regsOf ip es os
  | _, _ => []

def hIps : List (Nat × HEv) → List Nat
  | [] => []
  | (_, .hs a _) :: es => a :: hIps es
  | _ :: es => hIps es

/-- **Handshake responses**: every response is the reference's (so a locked or blacklisted address
gets `ban`/`blk` on every attempt), and the admitted anonymous registrations obey rate and burst. -/
def holdsHS (cfg : HCfg) (es : List (Nat × HEv)) (obs : List (Option HResp)) : Bool :=
  obs == hSpecRun cfg es HLedger.empty &&
  (hIps es).all (fun ip => stretchesOK cfg.rl cfg.U (regsOf ip es obs))

end Tunnox.C18
