import TunnoxModel.Model.C09
/-!
# C09 — the property as a decidable predicate on observations

`holds cfg evs obs`: `obs` is the list of results (one per event) that an implementation produced
for the history `evs` on configuration `cfg`.  The predicate keeps its own *specification state*: per
tunnel id the last registration (what was registered, by a table with which ttl, when on the nodes'
clock and on the Redis clock) unless it was removed since, and the same per node id for addresses.
It never looks at storage keys, value shapes or backends except for one bit: whether the records
live on a Redis server (then the key TTL runs on the Redis clock).

* a lookup of an id whose registration is **live** (not removed, waiting period not lapsed on either
  clock) must answer *found* with exactly the registered mapping, secret, clients, target address and
  source node, and a validity window of the registering table's ttl — from every node;
* a lookup of an id that was never registered, was removed, or whose waiting period has lapsed must
  not resolve (`notFound`/`expired`/`errParam`);
* node addresses: the last registered address while its TTL runs, otherwise `notFound`;
* a target connection that arrives on any node for a live id is **forwarded to the address its source
  node has registered last** (not to any address that node had earlier), to nothing when the source
  node has no live, non-empty address, and is not forwarded at all when the id does not resolve.
-/
namespace Tunnox.C09

structure GT where
  data : Rec       -- as handed to RegisterWaitingTunnel (its two time fields are ignored)
  ttl : Nat
  wallAt : Nat
  storeAt : Nat

structure GA where
  addr : String
  wallAt : Nat
  storeAt : Nat

structure Ghost where
  wall : Nat
  rclk : Nat
  tunnels : String → Option GT
  addrs : String → Option GA
  bridges : Nat → String → Bool
  inflight : Nat → String → Option (Option GT)   -- what a slow lookup read when the store answered it

def Ghost.init : Ghost := ⟨wall0, rclk0, fun _ => none, fun _ => none, fun _ _ => false, fun _ _ => none⟩

/-- The records are kept by a Redis server (its clock decides the key TTL). -/
def onRedis : Backend → Bool
  | .redis => true
  | .hybridRedis => true
  | _ => false

/-- The waiting period of a registration is running: not lapsed on the nodes' clock and the key
not yet expired on the Redis clock. -/
def liveT (b : Backend) (g : Ghost) (t : GT) : Bool :=
  decide (g.wall ≤ t.wallAt + t.ttl) && (!onRedis b || decide (g.rclk < t.storeAt + t.ttl))

/-- The store still hands the record out (key TTL on the clock of the store that carries it). -/
def storeLiveT (b : Backend) (g : Ghost) (t : GT) : Bool :=
  if onRedis b then decide (g.rclk < t.storeAt + t.ttl) else decide (g.wall ≤ t.wallAt + t.ttl)

def liveA (b : Backend) (g : Ghost) (a : GA) : Bool :=
  if onRedis b then decide (g.rclk < a.storeAt + nodeAddrTTL) else decide (g.wall ≤ a.wallAt + nodeAddrTTL)

/-- `r'` carries exactly the registered data and a validity window of `ttl`. -/
def sameData (r r' : Rec) (ttl : Nat) : Bool :=
  r'.tunnelID == r.tunnelID && r'.mappingID == r.mappingID && r'.secretKey == r.secretKey &&
  r'.sourceNodeID == r.sourceNodeID && r'.sourceClientID == r.sourceClientID &&
  r'.targetClientID == r.targetClientID && r'.targetHost == r.targetHost && r'.targetPort == r.targetPort &&
  r'.expiresAt == r'.createdAt + ttl

def notResolved : Res → Bool
  | .notFound => true
  | .expired => true
  | .errParam => true
  | _ => false

def setT (g : Ghost) (tid : String) (t : Option GT) : Ghost :=
  { g with tunnels := fun k => if k = tid then t else g.tunnels k }

/-- A live registration of `tid` in the specification state. -/
def liveReg (cfg : Cfg) (g : Ghost) (tid : String) : Option GT :=
  match g.tunnels tid with
  | some t => if liveT cfg.backend g t then some t else none
  | none => none

def isFoundAs (t : GT) : Res → Bool
  | .found r' => sameData t.data r' t.ttl
  | _ => false

/-- One event against the specification state. -/
def check (cfg : Cfg) (g : Ghost) : Ev → Res → Bool
  | .reg _ r, res => if r.tunnelID == "" then res == .errParam else res == .ok
  | .look _ tid, res =>
    match g.tunnels tid with
    | some t =>
      if liveT cfg.backend g t then
        (match res with
         | .found r' => sameData t.data r' t.ttl
         | _ => false)
      else notResolved res
    | none => notResolved res
  | .rem _ tid, res => if tid == "" then res == .errParam else res == .ok
  | .remDead _ tid, res => if tid == "" then res == .errParam else res == .ok
  | .open_ n r, res => if g.bridges n r.tunnelID then res == .exists_ else res == .ok
  | .endB n tid, res => if g.bridges n tid then res == .ok else res == .skip
  | .adv _, res => res == .skip
  | .advWall _, res => res == .skip
  | .advStore _, res => res == .skip
  | .regAddr _ _ _, res => res == .ok
  | .getAddr _ nid, res =>
    match g.addrs nid with
    | some a =>
      if liveA cfg.backend g a then (if a.addr != "" then res == .addr a.addr else res == .errData)
      else res == .notFound
    | none => res == .notFound
  | .fwd n tid, res =>
    match g.tunnels tid with
    | some t =>
      if liveT cfg.backend g t then
        if t.data.sourceNodeID == nodeName n then
          (if g.bridges n tid then res == .localAttached else res == .localWait)
        else
        (match g.addrs t.data.sourceNodeID with
         | some a =>
           if liveA cfg.backend g a && a.addr != "" then res == .forwarded t.data.sourceNodeID a.addr
           else res == .errNoAddr
         | none => res == .errNoAddr)
      else notResolved res
    | none => notResolved res
  | .pollStart _ tid k, res =>
    if k == 0 then res == .pending
    else
      match liveReg cfg g tid with
      | some t => isFoundAs t res
      | none => if tid == "" then res == .errStorage else res == .pending
  | .pollEnd _ tid, res =>
    match liveReg cfg g tid with
    | some t => isFoundAs t res
    | none => if tid == "" then res == .errStorage else res == .timeout
  | .restart _, res => res == .skip
  | .slowBegin _ tid, res => if tid == "" then res == .errParam else res == .pending
  | .slowEnd n tid, res =>
    -- a lookup is judged against what was registered when the store answered it; lookups that start
    -- later are ordinary `look` events and are judged against the state at their own start
    match g.inflight n tid with
    | none => res == .skip
    | some none => res == .notFound
    | some (some t) => if g.wall ≤ t.wallAt + t.ttl then isFoundAs t res else res == .expired

def gstep (cfg : Cfg) (g : Ghost) : Ev → Ghost
  | .reg n r => if r.tunnelID == "" then g else setT g r.tunnelID (some ⟨r, tableTTL cfg n, g.wall, g.rclk⟩)
  | .look _ _ => g
  | .rem _ tid => if tid == "" then g else setT g tid none
  | .remDead _ tid => if tid == "" then g else setT g tid none   -- the tunnel ended: the id is gone, whatever the caller's context
  | .open_ n r =>
    if g.bridges n r.tunnelID then g
    else
      { (if r.tunnelID == "" then g
         else setT g r.tunnelID (some ⟨{ r with sourceNodeID := nodeName n }, tableTTL cfg n, g.wall, g.rclk⟩)) with
        bridges := fun m t => if m = n ∧ t = r.tunnelID then true else g.bridges m t }
  | .endB n tid =>
    if g.bridges n tid then
      { (if tid == "" then g else setT g tid none) with
        bridges := fun m t => if m = n ∧ t = tid then false else g.bridges m t }
    else g
  | .adv d => { g with wall := g.wall + d, rclk := g.rclk + d }
  | .advWall d => { g with wall := g.wall + d }
  | .advStore d => { g with rclk := g.rclk + d }
  | .regAddr _ nid a => { g with addrs := fun k => if k = nid then some ⟨a, g.wall, g.rclk⟩ else g.addrs k }
  | .getAddr _ _ => g
  | .fwd _ _ => g
  | .pollStart _ _ _ => g
  | .pollEnd _ _ => g
  | .restart n => { g with bridges := fun m t => if m = n then false else g.bridges m t,
                           inflight := fun m t => if m = n then none else g.inflight m t }
  | .slowBegin n tid =>
    if tid == "" then g
    else
      { g with inflight := fun m t =>
          if m = n ∧ t = tid then
            some (match g.tunnels tid with
                  | some x => if storeLiveT cfg.backend g x then some x else none
                  | none => none)
          else g.inflight m t }
  | .slowEnd n tid => { g with inflight := fun m t => if m = n ∧ t = tid then none else g.inflight m t }

def holdsFrom (cfg : Cfg) (g : Ghost) : List Ev → List Res → Bool
  | [], [] => true
  | e :: es, r :: rs => check cfg g e r && holdsFrom cfg (gstep cfg g e) es rs
  | _, _ => false

/-- The property on an observed history. -/
def holds (cfg : Cfg) (evs : List Ev) (obs : List Res) : Bool := holdsFrom cfg Ghost.init evs obs

/-! ## Well-formedness (the hypotheses of the theorem, decidable) -/

def inInt64 (n : Int) : Bool := decide (int64Min ≤ n) && decide (n ≤ int64Max)
def exactF64 (n : Int) : Bool := decide (n.natAbs ≤ two53)

/-- The integers are values of their Go types; where the backend hands the record back as
`map[string]interface{}` they must be exactly representable as `float64` (|n| ≤ 2^53). -/
def wfRec (b : Backend) (r : Rec) : Bool :=
  inInt64 r.sourceClientID && inInt64 r.targetClientID && inInt64 r.targetPort &&
  (b != .dblMap || (exactF64 r.sourceClientID && exactF64 r.targetClientID && exactF64 r.targetPort))

/-- A tiered store without a shared cache keeps shared data in the node's own memory: such a
deployment is a single node (node 0). -/
def wfNode (b : Backend) (n : Nat) : Bool := b != .hybridLocal || n == 0

def wfEv (b : Backend) : Ev → Bool
  | .reg n r => wfNode b n && wfRec b r
  | .open_ n r => wfNode b n && wfRec b r
  | .look n _ => wfNode b n
  | .rem n _ => wfNode b n
  | .remDead n _ => wfNode b n
  | .endB n _ => wfNode b n
  | .regAddr n _ _ => wfNode b n
  | .getAddr n _ => wfNode b n
  | .fwd n _ => wfNode b n
  | .pollStart n _ _ => wfNode b n
  | .pollEnd n _ => wfNode b n
  | .slowBegin n _ => wfNode b n
  | .slowEnd n _ => wfNode b n
  | .restart _ => b != .hybridLocal   -- without a shared cache a restart loses the records themselves
  | _ => true

def wf (cfg : Cfg) (evs : List Ev) : Bool := evs.all (wfEv cfg.backend)

/-- What the runner evaluates on implementation observations: histories outside `wf` (the
excluded-point streams) are reported but not judged. -/
def holdsWF (cfg : Cfg) (evs : List Ev) (obs : List Res) : Bool := !wf cfg evs || holds cfg evs obs

end Tunnox.C09
