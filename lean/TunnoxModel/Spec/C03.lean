import TunnoxModel.Model.C03
/-!
# C03 — the property as a decidable predicate on OBSERVATIONS

`holds hdr events observations` is evaluated by the driver on what the harness saw the real server do,
and is the statement of `Props.C03.C03_main` about the model.  It reads only: the events that were sent,
the response written after each (`ok | new k | ch n | fail | none`), and after each event
`IsAuthenticated()/GetClientID()` of every connection, `GetControlConnectionByClientID` of every client,
`IsBanned`/`IsAllowed` of every address.  It keeps its own record (`Track`) of which challenges each
connection received, which nonces were accepted, explicit bans and credential flags.
-/
namespace Tunnox.C03
open Gen

structure Hdr where
  now : Nat
  ips : List Nat
  nc : Nat
  burst : Nat
  secs : List SecState := []
deriving Repr

def Hdr.ipOf (h : Hdr) (c : Nat) : Nat := h.ips.getD c 0
def Hdr.init (h : Hdr) : Srv := Srv.init h.now h.ips h.nc h.burst h.secs

/-- the observer's record: the previous observation and its own bookkeeping -/
structure Track where
  prev : ObsState
  env : Env

def ObsState.conn (o : ObsState) (c : Nat) : Option ConnObs := o.conns.getD c none

/-- (authenticated, as whom) -/
def authPair : Option ConnObs → Bool × Option Nat
  | none => (false, none)
  | some o => (o.auth, o.id)

def authAs (o : Option ConnObs) (x : Nat) : Bool := authPair o == (true, some x)

/-- **what "expired" means in the property** — stated here, independently of the source: the config carries an expiry
time and that time has passed; nothing else in the config (UserID, type, secret state) matters.  The model uses the
predicate *translated from* `ClientConfig.IsExpired`; `Proofs.isExpired_eq` ties the two, so a change of the Go predicate
breaks that proof, while the observer below keeps judging the implementation by this definition. -/
def expiredAt (now : Nat) (cfg : ClientConfigT) : Bool :=
  match cfg.ExpiresAt with
  | none => false
  | some t => decide (t < now)

/-- the client exists with usable, unexpired credentials -/
def flagsOK (now : Nat) (cfg : ClientConfigT) : Bool :=
  !expiredAt now cfg && !cfg.deleted && cfg.secret == .usable

/-- the address was neither banned nor blacklisted when the message arrived: by the observer's own record of
explicit bans / blacklistings and by what the server itself reported after the previous event -/
def gateOpen (T : Track) (ip : Nat) : Bool :=
  !T.env.xban ip && !T.env.blocked ip && !T.prev.bans.getD ip false && !T.prev.bls.getD ip false

/-- **Justification**: event `e`, answered by `o`, entitles connection `c` to be treated as client `x`:
* `e` is a first-connection request on `c`, `x` is a brand-new identity (the table grew by exactly this one
  entry) and the response, if any, names `x`; or
* `e` is a phase-2 request on `c` for `x`, `x` is a known client with unexpired, usable credentials, the response
  term is an HMAC under `x`'s secret over the *latest* challenge `c` received, that nonce was never accepted
  before, and the response, if any, says success;
and in both cases the address of `c` was not banned or blacklisted. -/
def justified (now : Nat) (ipOf : Nat → Nat) (T : Track) (e : Event) (o : StepObs) (c x : Nat) : Bool :=
  gateOpen T (ipOf c) &&
  match e with
  | .fc c' _ =>
    c' == c && x == T.prev.lookups.length && o.st.lookups.length == x + 1 && (o.resp == .new x || o.resp == .none)
  | .hs c' _ (.idx k) (.hmac key r) =>
    c' == c && k == x && decide (x < T.prev.lookups.length) && flagsOK now (T.env.cl x) && key == .client x &&
    (match T.env.resolveN r with
     | some n => T.env.lastCh c == some n && !T.env.usedSeen.contains n
     | none => false) &&
    (o.resp == .ok || o.resp == .none)
  | _ => false

/-- H1 (auth_sound, fail_inert): a connection that is authenticated after the event, and was not
authenticated as the same client before it, is the connection the event arrived on and is justified. -/
def h1 (now : Nat) (ipOf : Nat → Nat) (T : Track) (e : Event) (o : StepObs) : Bool :=
  (List.range o.st.conns.length).all (fun c =>
    if (authPair (o.st.conn c)).1 && authPair (o.st.conn c) != authPair (T.prev.conn c) then
      e.conn? == some c &&
      (match (authPair (o.st.conn c)).2 with
       | some x => justified now ipOf T e o c x
       | none => false)
    else true)

/-- H3 (registry): a client's control channel newly points to connection `c` only if the event arrived on `c`,
`c` is authenticated as that client, and the server did not answer "failed". -/
def h3 (T : Track) (e : Event) (o : StepObs) : Bool :=
  (List.range o.st.lookups.length).all (fun x =>
    match o.st.lookups.getD x none with
    | none => true
    | some c =>
      if T.prev.lookups.getD x none == some c then true
      else e.conn? == some c && authAs (o.st.conn c) x && o.resp != .fail && o.resp != .na)

/-- H5 (responses): `Success=true` is only ever written for a justified request, to a connection that is then
authenticated as the client in question. -/
def h5 (now : Nat) (ipOf : Nat → Nat) (T : Track) (e : Event) (o : StepObs) : Bool :=
  match o.resp with
  | .ok =>
    (match e with
     | .hs c _ (.idx k) _ => justified now ipOf T e o c k && authAs (o.st.conn c) k
     | _ => false)
  | .new x =>
    (match e with
     | .fc c _ => justified now ipOf T e o c x && authAs (o.st.conn c) x
     | _ => false)
  | _ => true

/-- H4 (freshness): a challenge written to a connection is a value no connection of this server ever received before
(the harness numbers challenge strings by first occurrence, so a re-issued value shows up under its old number). -/
def h4 (T : Track) (o : StepObs) : Bool :=
  match o.resp with
  | .ch n => !T.env.seen.contains n
  | _ => true

def holdsStep (now : Nat) (ipOf : Nat → Nat) (T : Track) (e : Event) (o : StepObs) : Bool :=
  h1 now ipOf T e o && h3 T e o && h5 now ipOf T e o && h4 T o

def Track.next (T : Track) (now : Nat) (e : Event) (o : StepObs) : Track :=
  ⟨o.st, T.env.track now T.prev.lookups.length e o.resp⟩

def holdsFrom (now : Nat) (ipOf : Nat → Nat) (T : Track) : List Event → List StepObs → Bool
  | [], [] => true
  | e :: es, o :: os => holdsStep now ipOf T e o && holdsFrom now ipOf (T.next now e o) es os
  | _, _ => false

/-- what the observer knows about a server state -/
def proj (s : Srv) : Track := ⟨obsState s, s.env⟩

/-- **C03 on a whole history**: one observation per event, each satisfying H1 ∧ H3 ∧ H5 ∧ H4. -/
def holds (h : Hdr) (es : List Event) (os : List StepObs) : Bool :=
  holdsFrom h.now h.ipOf (proj h.init) es os

end Tunnox.C03
