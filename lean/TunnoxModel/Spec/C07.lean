import TunnoxModel.Model.C07
/-!
C07: the property as a decidable predicate on what the lookups and counters answered at the end
of a history.  `holds` is what the theorem states about the model and what the runner applies to
the implementation's observation.

History-derived facts `holds` uses:
* `goneSyn ops c`   — the history contains `accept c` and, later, `close c` (CloseConnection);
* `pendSyn ops c`   — a handshake on `c` passed the auth handler and `hsFin c` has not run yet
                      (the snapshot is taken while that handshake is in flight);
* `evicted c`       — the reference semantics of the history says `c` was evicted from the registry
                      (kick, re-login, stale sweep, connection limit, removal): its transport must be closed.
-/
namespace Tunnox.C07

/-- connections opened / closed-after-open by the history, syntactically -/
def synStep (n : Nat) (acc : (Nat → Bool) × (Nat → Bool)) (op : Op) : (Nat → Bool) × (Nat → Bool) :=
  match op with
  | .accept c => if c < n then (upd acc.1 c true, upd acc.2 c false) else acc   -- a new incarnation is not "closed"
  | .close c => if c < n ∧ acc.1 c = true then (acc.1, upd acc.2 c true) else acc
  | _ => acc

def goneSyn (n : Nat) (ops : List Op) : Nat → Bool :=
  (ops.foldl (synStep n) (fun _ => false, fun _ => false)).2

def pendStep (acc : Nat → Bool) (op : Op) : Nat → Bool :=
  match op with
  | .hsChal c _ => upd acc c true
  | .hsAuth c _ _ => upd acc c true
  | .hsFin c => upd acc c false
  | _ => acc

def pendSyn (ops : List Op) : Nat → Bool := ops.foldl pendStep (fun _ => false)

def Obs.cliAt (o : Obs) (x : Nat) : Option CliRes :=
  if x = 0 then none else (o.cl[x - 1]?).getD none

def Obs.connAt (o : Obs) (c : Nat) : ConnRes := (o.cn[c]?).getD ⟨none, false, false, false⟩

/-- One answer of `GetControlConnectionByClientID(x)`: a live authenticated connection of client `x`
that the registry still lists under its own id, whose transport the server has not closed, which
SessionManager still tracks, and which was not torn down. -/
def okClient (n : Nat) (pendOK gone : Nat → Bool) (o : Obs) (x : Nat) : Bool :=
  match o.cliAt x with
  | none => true
  | some r =>
    decide (r.conn < n) && r.auth && (r.clientID == x || pendOK r.conn) && r.same &&
    ((o.connAt r.conn).reg == some (r.clientID, r.auth)) &&
    !(o.connAt r.conn).closed && (o.connAt r.conn).inS && !gone r.conn

/-- a connection is the answer for at most one client id -/
def injective (m : Nat) (o : Obs) : Bool :=
  (List.range m).all fun i => (List.range m).all fun j =>
    match o.cliAt (i + 1), o.cliAt (j + 1) with
    | some r, some r' => r.conn != r'.conn || i == j
    | _, _ => true

/-- after CloseConnection: no lookup returns it, not tracked, not counted as tunnel, transport closed -/
def okGone (o : Obs) (c : Nat) : Bool :=
  (o.connAt c).reg == none && !(o.connAt c).inS && !(o.connAt c).inT && (o.connAt c).closed && !o.la.contains c

/-- the counters are the numbers of connections the lookups still return -/
def okCounts (n : Nat) (o : Obs) : Bool :=
  o.count == ((List.range n).filter (fun c => regB (o.connAt c))).length &&
  o.control == o.count &&
  o.total == ((List.range n).filter (fun c => (o.connAt c).inS)).length &&
  o.tunnel == ((List.range n).filter (fun c => (o.connAt c).inT)).length &&
  o.active == o.control + o.tunnel &&
  o.la == (List.range n).filter (fun c => authB (o.connAt c))

/-- every other spelling of a lookup or counter answers what the primary one answers -/
def okAlt (o : Obs) : Bool :=
  o.altList == o.count && o.altConns == o.total && o.altActive == o.active &&
  o.ifc == o.cl.map ifcOf && o.gid == o.cn.map gidOf

def holdsWith (n m : Nat) (pendOK gone evicted : Nat → Bool) (o : Obs) : Bool :=
  o.cl.length == m && o.cn.length == n &&
  (List.range m).all (fun i => okClient n pendOK gone o (i + 1)) &&
  injective m o &&
  (List.range n).all (fun c => !gone c || okGone o c) &&
  (List.range n).all (fun c => !evicted c || (o.connAt c).closed) &&
  okCounts n o && okAlt o

/-- The property for a sequential history (possibly ending while handshakes are in flight:
for those connections the identity clause is relaxed unless `strict`). -/
def holds (n m cap : Nat) (ops : List Op) (strict : Bool) (o : Obs) : Bool :=
  holdsWith n m (if strict then fun _ => false else pendSyn ops) (goneSyn n ops)
    (run .repaired (init n cap) ops).evicted o

/-- The property for a history with cloud-control fault points: the same predicate — a failing
`DisconnectClientIfMatch` must not change what the lookups and counters answer. -/
def holdsF (n m cap : Nat) (fops : List FOp) (strict : Bool) (o : Obs) : Bool :=
  holds n m cap (fops.map Prod.fst) strict o

/-- The property for a history driven through the adapters' read loops.  Here "closed or evicted"
needs no bookkeeping of the history: every opened connection whose transport is (observed) closed
or was broken by the peer, and whose loop is not inside a handshake, must be completely gone —
no lookup returns it, SessionManager no longer tracks it, it is counted nowhere. -/
def holdsAdp (n m cap : Nat) (fops : List FOp) (o : Obs) : Bool :=
  holdsWith n m (pendSyn (fops.map Prod.fst))
    (fun c => decide (c < n) && ((o.connAt c).closed || (runAdp .repaired (init n cap) fops).broken c) &&
              (runAdp .repaired (init n cap) fops).opened c && !pendSyn (fops.map Prod.fst) c)
    (runAdp .repaired (init n cap) fops).evicted o

/-- The strict property on a history with the finer kick steps (used only to state the recorded
finding `evict-close-window`; no `accept … close` bookkeeping is needed there). -/
def holdsFine (n m cap : Nat) (ops : List FineOp) (o : Obs) : Bool :=
  holdsWith n m (fun _ => false) (fun _ => false) (runFine .repaired (init n cap) ops).evicted o

/-- The property for two blocks `a`, `b` of operations run against each other after a prefix (block `a`
parked inside `UpdateAuth` while `b` runs): every registry method is one atomic step, so the outcome must be
the outcome of one of the two orders, and satisfy the property for that history. -/
def holdsRace (n m cap : Nat) (pre a b : List Op) (o : Obs) : Bool :=
  (o == obsOf (run .repaired (init n cap) (pre ++ a ++ b)) m && holds n m cap (pre ++ a ++ b) false o) ||
  (o == obsOf (run .repaired (init n cap) (pre ++ b ++ a)) m && holds n m cap (pre ++ b ++ a) false o)

/-- The property for a concurrent run: `ops` = prefix ++ all thread blocks (every operation has
returned before the snapshot).  Only history facts that do not depend on the order are used. -/
def holdsPar (n m : Nat) (ops : List Op) (o : Obs) : Bool :=
  holdsWith n m (fun _ => false) (goneSyn n ops) (fun _ => false) o

/-- Every history made of complete handshakes (`hsAuth`/`hsChal` always immediately followed by
`hsFin` on the same connection — what a sequential caller can produce) is quiescent. -/
def completeOps : List Op → Bool
  | [] => true
  | .hsAuth c _ _ :: .hsFin c' :: rest => c == c' && completeOps rest
  | .hsChal c _ :: .hsFin c' :: rest => c == c' && completeOps rest
  | .hsAuth _ _ _ :: _ => false
  | .hsChal _ _ :: _ => false
  | _ :: rest => completeOps rest


end Tunnox.C07
