import TunnoxModel.Model.C06
/-! C06: the property as a decidable predicate on what an outside observer sees:
the result of every call, the port mappings in storage afterwards, the code record. -/
namespace Tunnox.C06

/-- (listener, listen address, target client, target address) of a mapping. -/
abbrev Tup := Nat × Nat × Nat × Nat

def Mapping.tup (m : Mapping) : Tup := (m.ListenClientID, m.ListenAddress, m.TargetClientID, m.TargetAddress)

/-- Result of one call as observed. -/
inductive ORes where
  | ok (t : Tup) (inStore : Bool)   -- activation returned a mapping; is it in storage afterwards?
  | rok                              -- revocation succeeded
  | err (cls : String)               -- any error (class of the error code)
  | running                          -- the call has not returned (model only; never observed on the implementation)
deriving DecidableEq, Repr

/-- The code record as observed: activated, revoked, activated-by, mapping (`none` = no id,
`some none` = an id that resolves to no stored mapping, `some (some t)` = the stored mapping). -/
structure ORec where
  activated : Bool
  revoked : Bool
  by_ : Option Nat
  mapping : Option (Option Tup)
deriving DecidableEq, Repr

structure Obs where
  results : List ORes
  maps : List Tup                    -- mappings in storage that did not exist before the run
  orec : Option ORec                 -- `none`: the code record is absent
deriving DecidableEq, Repr

/-- One call of the case: kind, requesting client, requested listen address. -/
structure Call where
  kind : Kind
  listener : Nat
  laddr : Nat
  spell : Nat := 0                   -- how the request spells the code (0 = as generated)
  poll : Bool := false               -- a status poll, not an activation / revocation
deriving DecidableEq, Repr

def ORes.isOk : ORes → Bool
  | .ok _ _ => true
  | _ => false

def ORes.okTup : ORes → Option Tup
  | .ok t _ => some t
  | _ => none

/-- The code is valid (generated, period not over) just before event `k` of `evs`. -/
def validAt (evs : List Ev) (k : Nat) : Bool :=
  (evs.take k).contains .create &&
  !(((evs.take k).dropWhile (· != .create)).contains .expire)

/-- The core of the property: at most one activation succeeds, its mapping is the right one, a successful
revocation excludes any successful activation, and once every call has returned the mappings in storage are
exactly the mappings returned by successful activations (a failed activation leaves nothing behind), and the
record says who used the code. -/
def holdsCore (p : Params) (calls : List Call) (o : Obs) : Bool :=
  o.results.length == calls.length &&
  decide (o.results.countP ORes.isOk ≤ 1) &&
  (!o.results.contains .rok || o.results.all (fun r => !r.isOk)) &&
  (List.zip calls o.results).all (fun cr => match cr.2 with
    | .ok t inStore => cr.1.kind == .activate && t == (cr.1.listener, cr.1.laddr, p.tc, p.ta) && inStore
    | .rok => cr.1.kind == .revoke
    | _ => true) &&
  (if o.results.contains .running then true else
    -- at most one mapping exists; every stored mapping was returned by a successful activation
    -- (a failed activation leaves nothing behind); every returned mapping is stored
    decide (o.maps.length ≤ 1) &&
    o.maps.all (fun t => o.results.contains (.ok t true)) &&
    o.results.all (fun r => match r with
      | .ok t _ => o.maps.contains t
      | _ => true) &&
    match o.orec with
    | none => true
    | some r =>
      (o.results.all fun x => match x with
        | .ok t _ => r.activated && r.mapping == some (some t) && r.by_ == some t.1
        | .rok => r.revoked
        | _ => true))

/-- Event `k` is step number `n` (counting from 0) of call `i`, and just before it the code is generated and its
period not over. -/
def stepValid (evs : List Ev) (i n k : Nat) : Bool :=
  evs[k]? == some (.th i) && validAt evs k && ((evs.take k).count (.th i) == n)

/-- "only while valid": for a successful activation, step 1 of the call (its read of the record) and step 2 (its
re-decision, `connCode.Activate` on the local copy with the current clock, before anything is created; step 0 is
the claim) both happen at instants at which the code was generated and its period not over.  An activation that
lies before the generation or after the end of the period, or whose read or re-decision falls after the end of
the period, therefore never succeeds. -/
def holdsValid (evs : List Ev) (o : Obs) : Bool :=
  (List.range o.results.length).all (fun i =>
    match o.results[i]? with
    | some (.ok _ _) =>
      (List.range evs.length).any (fun k => stepValid evs i 1 k) &&
      (List.range evs.length).any (fun k => stepValid evs i 2 k)
    | _ => true)

def holds (p : Params) (calls : List Call) (evs : List Ev) (o : Obs) : Bool :=
  holdsCore p calls o && holdsValid evs o

/-- Unique code generation, as observed on the real `CreateConnectionCode` over a code space of `n` codes: no
creation hands out a code that still exists (`dup`), a creation may give up only when every code of the space is
taken, and every created code yields at most one mapping however often it is activated. -/
def holdsUniq (n : Nat) (res : List String) (perCode : List Nat) : Bool :=
  !res.contains "dup" && perCode.all (· ≤ 1) &&
  ((res.foldl (fun (acc : Nat × Bool) r =>
      if r == "new" then (acc.1 + 1, acc.2)
      else if r == "exhausted" then (acc.1, acc.2 && decide (n ≤ acc.1))
      else acc) (0, true)).2)

/-- `CreateConnectionCode` on the table of existing codes: `GenerateUnique` with `checkExists` = look-up, then store. -/
def createOp (tbl : List Nat) (cands : List Nat) : List Nat :=
  match generateUnique (fun c => tbl.contains c) 100 cands with
  | some c => c :: tbl
  | none => tbl

/-! ### what the model shows to the observer -/

def oresOf (st : Store) (t : Thread) : ORes :=
  if t.pc != .done then .running else
  match t.res with
  | some (.ok m) => .ok m.tup (st.maps.any (fun x => x.id == m.id))
  | some .rok => .rok
  | some .missing => .err "missing"
  | some .notfound => .err "notfound"
  | some .forbidden => .err "forbidden"
  | some .used => .err "conflict"
  | some .busy => .err "conflict"
  | some .expired => .err "expired"
  | some .badaddr => .err "badaddr"
  | some .quota => .err "quota"
  | some .storage => .err "storage"
  | some .internal => .err "internal"
  | some (.seen a r) => .err (if a then (if r then "seen:a1r1" else "seen:a1r0") else (if r then "seen:a0r1" else "seen:a0r0"))
  | none => .running

def orecOf (st : Store) : Option ORec :=
  if st.present then
    some { activated := st.code.IsActivated, revoked := st.code.IsRevoked, by_ := st.code.ActivatedBy,
           mapping := st.code.MappingID.map (fun id => (st.maps.find? (fun x => x.id == id)).map Mapping.tup) }
  else none

def obs (c : Config) : Obs :=
  { results := c.ths.map (oresOf c.st),
    maps := (c.st.maps.filter (fun m => !m.pre)).map Mapping.tup,
    orec := orecOf c.st }

def callOf (t : Thread) : Call := ⟨t.kind, t.listener, t.laddr, t.spell, t.poll⟩

end Tunnox.C06
