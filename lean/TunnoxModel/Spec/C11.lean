import TunnoxModel.Model.C11
/-!
C11: the property as a decidable predicate on OBSERVATIONS of one command execution.

The observation is a pair of runs of the same packet in identical worlds: as sent, and with the claimed
identity fields (`SenderId`, `ReceiverId`, `Token`) blanked.  `holds` says:
* the two runs are indistinguishable (claimed fields have no effect) — including, field by field, every payload
  delivered to a connection and every stored record (`holdsObs`: equal digests); the claimed fields are
  `SenderId`/`ReceiverId`/`Token`, the body's `target_client_id` unless the command is addressed, and every
  identity-like JSON key any struct of the server could decode, added to the body with a foreign value;
* the sender a recipient is told (`Dlv.sender`) is the connection's authenticated client, or absent;
* every pre-existing object disclosed to the sender, every changed object and every created object has
  the connection's authenticated client as a party (a connection code may also be changed by whoever
  presents it for activation — knowing the code is the authorisation);
* a command packet reaches another connection only on behalf of an authenticated sender, and then only
  the target client of a mapping the sender listens on (tunnel open), or carrying the sender's true id
  (notification), or as a DNS forward;
* no other connection is closed;
* on a connection without an authenticated identity nothing is disclosed or changed, nothing is pushed to any
  other connection, and a
  command whose rule needs authentication is not answered with success.
-/
namespace Tunnox.C11
open Gen

def connClient (w : World) (i : Nat) : Nat := ident w i

def Obj.partyOf (w : World) (id : Nat) : Obj → Bool
  | .map i => match w.maps[i]? with | some m => isParty id m | none => false
  | .code i => match w.codes[i]? with | some c => c.target == id | none => false
  | .dom i => match w.doms[i]? with | some o => o == id | none => false

def chgAllowed (w : World) (id : Nat) (c : Cmd) : Chg → Bool
  | .mod o => o.partyOf w id ||
      (dispatch c.ctype c.resp == some Handler.codeActivate && (match o with | .code i => c.k == Int.ofNat i | _ => false))
  | .del o => o.partyOf w id
  | .newMap l t => l == id || t == id
  | .newCode t => t == id
  | .newDom o => o == id
  | .alien => false

def dlvAllowed (w : World) (id : Nat) (f : Nat) (d : Dlv) : Bool :=
  d.conn == f ||
  (id != 0 && connClient w d.conn != 0 &&
    (if d.ctype == c11.cmd.TunnelOpenRequestCmd then
       w.maps.any (fun m => m.listen == id && m.target == connClient w d.conn) && d.sender == none
     else if d.ctype == c11.cmd.NotifyClient then d.sender == some id
     else if d.ctype == c11.cmd.DNSResolve || d.ctype == c11.cmd.DNSQuery then d.sender == none
     else false))

/-- does the rule of this command type need an authenticated identity? -/
def guarded (ct : Nat) (resp : Bool) : Bool :=
  match dispatch ct resp with
  | some h => h.rule.needsAuth
  | none => false

def holdsRun (w : World) (f : Nat) (c : Cmd) (needsAuth : Bool) (r : Run) : Bool :=
  r.view.all (Obj.partyOf w (ident w f)) &&
  r.chg.all (chgAllowed w (ident w f) c) &&
  r.dlv.all (dlvAllowed w (ident w f) f) &&
  r.gone.all (· == f) &&
  (ident w f != 0 ||
    (r.view.isEmpty && r.chg.isEmpty && r.dlv.all (·.conn == f) && (!needsAuth || r.rsp != .ok)))

/-- the property on an observation: `a` = run of the packet as sent, `b` = run with blanked claimed fields -/
def holds (w : World) (f : Nat) (c : Cmd) (a b : Run) : Bool :=
  decide (a = b) && holdsRun w f c (guarded c.ctype c.resp) a

/-- What the harness observes beyond the two runs: digests of every delivered payload (all fields, volatile ones
removed) and of every stored record that was created or changed, for each run.  The model does not predict
payload contents; the predicate requires that they are the same with and without the claimed fields. -/
structure Obs where
  a : Run
  b : Run
  digA : List String := []
  digB : List String := []

def holdsObs (w : World) (f : Nat) (c : Cmd) (o : Obs) : Bool :=
  holds w f c o.a o.b && decide (o.digA = o.digB)

end Tunnox.C11
