import TunnoxModel.Model.C16
/-!
# C16 — the property as decidable predicates on OBSERVATIONS

One `holds…` per component; the same function is (a) the conclusion of the theorems in
`Props/C16.lean`, applied to the observation of the model after ANY schedule, and (b) the
oracle the runner applies to what the harness observed on the real code.
An observation that could not be parsed (panic, timeout, crash text) is `none` → `false`.
-/
namespace Tunnox.C16
open Tunnox.Sched

/-! ### Dispose.Close: every clean handler exactly once, one cancel, every caller gets the
complete error list, closed afterwards. -/

structure DObs where
  runs : List Nat
  res : Option Nat        -- errors seen by the callers; `none` = callers disagree
  closed : Bool
  ctx : Bool              -- context cancelled
  deriving DecidableEq, Repr

def dObs (c : Cfg DShared DLocal) : DObs :=
  { runs := c.sh.runs,
    res := match c.ths with
      | [] => none
      | l :: ls => if ls.all (fun x => x.res == l.res) then some l.res else none,
    closed := c.sh.closed,
    ctx := c.sh.cancels == 1 }

def holdsD (errs : List Bool) (o : DObs) : Bool :=
  o.runs == List.replicate errs.length 1 && o.res == some (failing errs) && o.closed && o.ctx

/-! ### Managers whose shutdown is the latch plus background goroutines (memory storage,
SessionManager): closed, later calls return normally, nothing left running. -/

structure MObs where
  closed : Bool
  afterOk : Bool          -- model: every clean handler ran exactly once; implementation: calls after Close returned
  leak : Nat
  deriving DecidableEq, Repr

def mObs (c : Cfg DShared DLocal) : MObs := ⟨c.sh.closed, c.sh.runs.all (· == 1), 0⟩

def holdsM (o : MObs) : Bool := o.closed && o.afterOk && o.leak == 0

/-! ### Tunnel.Close: the close sequence ran exactly once, with the reason of one of the
callers; the peer was notified iff that reason asks for it; closed and unregistered; nothing
left running. -/

structure TObs where
  closed : Nat            -- onClosed invocations
  reason : Nat            -- reason handed to onClosed (99: several different ones)
  notify : Nat
  disposed : Nat
  state : Nat
  reg : Nat               -- tunnels still registered
  leak : Nat              -- goroutines of the component still alive
  deriving DecidableEq, Repr

def tObs (c : Cfg TShared TLocal) : TObs :=
  { closed := c.sh.k.onClosed.length,
    reason := match c.sh.k.onClosed with
      | [] => 98
      | r :: rs => if rs.all (· == r) then r else 99,
    notify := c.sh.k.notifies,
    disposed := c.sh.k.disposeRuns,
    state := c.sh.state,
    reg := if c.sh.registered then 1 else 0,
    leak := 0 }

def holdsT (cfg : TCfg) (reasons : List Nat) (o : TObs) : Bool :=
  o.closed == 1 && reasons.contains o.reason && o.notify == (if notifyNeeded cfg o.reason then 1 else 0) &&
  o.disposed == 1 && o.state == 3 && o.reg == 0 && o.leak == 0

/-! ### Traffic report: after every round the mapping's totals equal what the bridge
recorded as reported, never more than the bytes counted, and all of them once a report ran whose storage calls succeeded. -/

structure RObs where
  statS : Nat
  statR : Nat
  updates : Nat
  lastS : Nat
  lastR : Nat
  deriving DecidableEq, Repr

def rObs (sh : RShared) : RObs := ⟨sh.statS, sh.statR, sh.updates, sh.lastS, sh.lastR⟩

/-- `totS/totR`: bytes counted before the round list. -/
def holdsR : Nat → Nat → List Round → List RObs → Bool
  | _, _, [], [] => true
  | totS, totR, r :: rs, o :: os =>
    o.statS == o.lastS && o.statR == o.lastR &&
    decide (o.lastS ≤ totS + r.addS) && decide (o.lastR ≤ totR + r.addR) &&
    (!(List.range r.n).any r.clean || (o.lastS == totS + r.addS && o.lastR == totR + r.addR)) &&
    holdsR (totS + r.addS) (totR + r.addR) rs os
  | _, _, _, _ => false

/-! ### Bridge.Close: every connection object closed exactly as often as one Close call
closes it, cleanup (and with it the final traffic report) once, totals reported once. -/

structure BObs where
  sc : Nat
  tc : Nat
  stc : Nat
  ttc : Nat
  statS : Nat
  statR : Nat
  active : Nat
  leak : Nat
  deriving DecidableEq, Repr

def holdsB (bs br : Nat) (o : BObs) : Bool :=
  o.sc == 2 && o.tc == 2 && o.stc == 1 && o.ttc == 1 && o.statS == bs && o.statR == br &&
  o.active == 0 && o.leak == 0

/-- Counts after the closers, totals after cleanup's report raced the periodic one. -/
def bObs (c : Cfg BShared BPc) (rep : RShared) : BObs :=
  ⟨c.sh.sc, c.sh.tc, c.sh.stc, c.sh.ttc, rep.statS, rep.statR, if c.sh.closed then 0 else 1, 0⟩

/-! ### StreamProcessor.Close: transport closed once per direction, the in-flight operation
ends with a result or an error (never a panic), later operations fail cleanly. -/

structure SObs where
  rclose : Nat
  wclose : Nat
  op : Nat                -- result of the in-flight operation: 0 none, 1 ok, 2 error, 3 panic
  afterClean : Bool       -- every operation attempted after Close returned an error
  leak : Nat
  deriving DecidableEq, Repr

def sObs (c : Cfg SShared SLocal) : SObs :=
  { rclose := c.sh.rcloses, wclose := c.sh.wcloses,
    op := match c.ths with
      | [] => 0
      | l :: _ => l.res,
    afterClean := c.sh.closed,
    leak := 0 }

def holdsS (o : SObs) : Bool :=
  o.rclose == 1 && o.wclose == 1 && o.op != 3 && o.afterClean && o.leak == 0

/-! ### Data in flight: whatever ends the copy, the bridge's byte counter and the mapping's totals
equal the bytes the destination endpoint accepted — each byte reported exactly once. -/

structure FObs where
  del : Nat               -- bytes the target endpoint accepted
  cnt : Nat               -- bridge bytesSent after the copy loop returned
  statS : Nat
  statR : Nat
  leak : Nat
  deriving DecidableEq, Repr

def fObsOf (st : C02.St) (rep : RShared) : FObs := ⟨st.delivered.length, st.counter, rep.statS, rep.statR, 0⟩

def fObs (i : FlowIn) (s₂ : Schedule) : FObs := fObsOf (flowCopy i) (flowReport i s₂)

/-- `lateFlush`: an explicit `Bridge.Close` while the loop runs reports before the loop's last
flush; the last partial batch may then reach the totals only through the periodic goroutine's
final report (observed, racy) — never more than once. -/
def holdsF (lateFlush : Bool) (o : FObs) : Bool :=
  o.cnt == o.del && (if lateFlush then decide (o.statS ≤ o.del) else o.statS == o.del) &&
  o.statR == 0 && o.leak == 0

/-! ### Start ‖ Close: after every call returned and pending I/O was unblocked, either the tunnel
is Connected and nothing was closed, or it is Closed, the close sequence ran exactly once, nothing
that Start spawned remains, and if Start reported success the tunnel's context is cancelled and
the dispose latch is closed. -/

structure UObs where
  state : Nat
  closes : Nat
  startOk : Bool
  live : Nat              -- goroutines spawned by Start that are still alive
  ctxDone : Bool
  isClosed : Bool
  deriving DecidableEq, Repr

def uObs (c : Cfg UShared ULocal) : UObs :=
  { state := c.sh.state, closes := c.sh.closes, startOk := c.sh.startRes == 1,
    live := if c.sh.state == 3 && c.sh.spawned && !c.sh.ctxCancelled then 2 else 0,
    ctxDone := c.sh.ctxBound && c.sh.ctxCancelled, isClosed := c.sh.disposed }

def holdsU (o : UObs) : Bool :=
  (o.state == 1 && o.closes == 0 && o.startOk) ||
  (o.state == 3 && o.closes == 1 && o.live == 0 && (!o.startOk || (o.ctxDone && o.isClosed)))

/-! ### Close against a background loop that is mid-tick: once Close returned and the pending I/O
was unblocked, the loop's goroutine is gone and the component is closed. -/

structure GObs where
  live : Nat              -- background goroutines of the component still alive
  closed : Bool
  deriving DecidableEq, Repr

def gObs (c : Cfg GShared GLocal) : GObs :=
  { live := match c.ths[1]? with
      | some l => if l.pc == GPc.done then 0 else 1
      | none => 0,
    closed := c.sh.latch }

def holdsG (o : GObs) : Bool := o.live == 0 && o.closed

/-! ### Late attach: after the last Close returned, every connection that was attached to the
bridge has been closed exactly once (none is still attached). -/

structure AObs where
  satt : Nat
  stc : Nat
  tatt : Nat
  ttc : Nat
  lostS : Nat
  lostT : Nat
  open_ : Nat             -- attached connections that were never closed and are still referenced
  deriving DecidableEq, Repr

def aObs (sh : AShared) : AObs :=
  ⟨sh.satt, sh.stc, sh.tatt, sh.ttc, sh.lostS, sh.lostT, b2n sh.srcTC + b2n sh.tgtTC⟩

def holdsA (o : AObs) : Bool :=
  o.open_ == 0 && o.stc + o.lostS == o.satt && o.ttc + o.lostT == o.tatt

/-! ### Client traffic report: whatever the interleaving of periodic reports with the final report
on Close, every byte accumulated is either reported by exactly one successful `TrackTraffic` call
or still pending (never negative); with no failing call and at least one report nothing is left. -/

structure PObs where
  repS : Int
  repR : Int
  pendS : Int
  pendR : Int
  calls : Nat
  leak : Nat
  deriving DecidableEq, Repr

def pObs (c : Cfg PShared PLocal) : PObs := ⟨c.sh.repS, c.sh.repR, c.sh.pendS, c.sh.pendR, c.sh.calls, 0⟩

def holdsP (a b : Nat) (fails : List Bool) (o : PObs) : Bool :=
  o.repS + o.pendS == a && o.repR + o.pendR == b && decide (0 ≤ o.pendS) && decide (0 ≤ o.pendR) &&
  (fails.isEmpty || fails.any id || (o.pendS == 0 && o.pendR == 0)) && o.leak == 0

/-! ### Two bridges, one mapping: the record's totals are the sum of the deltas. -/

def holdsX (ds : List Nat) (stat : Nat) : Bool := stat == ds.sum

/-! ### ResourceManager: after the last DisposeAll every registered resource was disposed exactly
once and nothing is left registered. -/

structure RmObs where
  registered : Nat
  disposed : Nat
  pending : Nat
  twice : Nat             -- resources whose Dispose ran more than once
  deriving DecidableEq, Repr

def rmObs (sh : MShared) : RmObs := ⟨sh.registered, sh.disposed, sh.pending, 0⟩

def holdsM2 (o : RmObs) : Bool := o.disposed == o.registered && o.pending == 0 && o.twice == 0

/-! ### Later operations fail cleanly: no call on a closing or closed component panics. -/

def holdsK (panics : Nat) : Bool := panics == 0

/-! ### Shutdown with a deadline: whether the deadline or the disposal wins, once the slow
resource is unblocked the resource has been disposed exactly once and the helper goroutine is gone. -/

structure HObs where
  timedOut : Bool
  disposed : Nat
  live : Nat              -- goroutines of DisposeWithTimeout still alive
  deriving DecidableEq, Repr

def hObs (c : Cfg HShared HPc) : HObs :=
  { timedOut := c.sh.timedOut, disposed := c.sh.disposed,
    live := match c.ths[3]? with
      | some l => if l == HPc.done then 0 else 1
      | none => 0 }

def holdsH (o : HObs) : Bool := o.disposed == 1 && o.live == 0

end Tunnox.C16
