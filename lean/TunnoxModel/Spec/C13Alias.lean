import TunnoxModel.Model.C13Alias
import TunnoxModel.Spec.C13
/-!
  C13 — answers are values: the predicate on observations of histories in which the caller keeps
  answers of `GetList` (registers), looks at them again and stores them again under other keys.
-/
namespace Tunnox.C13.Alias
open Tunnox Tunnox.TTLStore

def renderCell : Cell → String
  | some a => Spec.renderAtom a
  | none => "nil"

def renderL : LRes → String
  | .ok => "ok"
  | .notFound => "nf"
  | .list xs => "L[" ++ ",".intercalate (xs.map renderCell) ++ "]"

/-- Every answer — also an answer looked at again later — is what the sequential map (holders hold
lists by value) gives: an answer never changes after it was returned, and a call on one key never
changes what another key or a register holds. -/
def holdsAlias (ops : List LOp) (obs : List String) : Bool :=
  obs == (specRun ops FMap.empty).map renderL

end Tunnox.C13.Alias
