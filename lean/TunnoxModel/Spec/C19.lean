import TunnoxModel.Model.C19
/-!
  C19 — the property as a decidable predicate on OBSERVATIONS.

  An observation is the sequence of scheduler slots (who ran, which operation was invoked in the slot,
  which operation returned in it and with what result) plus the final store.  `holds` replays the slots
  through a monitor that only knows what an outside observer knows (invocations and results, in real-time
  order).  The same predicate is applied by the runner to the observation of the real code.

  Vocabulary.  A mapping `n` (full domain `d`, client `c`) is
  * *certain* from the slot in which its `CreateMapping` returned ok until a delete request `(n, c)` of its
    own client is invoked (if such a request was invoked before the create returned it is never certain);
  * *held* from its create's return until a delete by its own client that was invoked after the create had
    returned comes back ok (*released*, then *dead*).

  Clauses (one flag each):
  * `own`    (single owner)   two certain mappings never have the same full domain;
  * `auth`   (owner-only delete) a delete by another client, invoked while the mapping is certain and
              returning while it still is, is refused with FORBIDDEN;
  * `claim`  (claimable again) a create answered ALREADY_EXISTS overlapped some possible holder of the
              name: a held mapping or another create in flight for the same full domain;
  * `look`   (routing)        a routed lookup names client and target of (a) a mapping of this repository
              whose full domain the Host denotes (`nameOK`: the host itself or host ++ ":" ++ port), that was
              not dead when the lookup was invoked, whose target is the created one or one written by an
              update, and that was not known-inactive/expired for the whole lookup — or (b) a routable
              registry / cloud-control mapping for that name, and then only if no certain mapping of the
              repository owned the name during the whole lookup;
  * `final`  every mapping certain at the end is indexed under its name and stored with its client.
-/
namespace Tunnox.C19
open Gen

/-- The Host header `host` denotes the name `d`: `d` itself, or `d:port` (the port part has no colon). -/
def nameOK (host d : String) : Bool :=
  host == d ||
    ((d.toList ++ [':']).isPrefixOf host.toList && !((host.toList.drop (d.toList.length + 1)).contains ':'))

def colonFree (d : String) : Bool := !(d.toList.contains ':')

/-- Routable as far as status and expiry go: status `active`, and no expiry time or one not yet passed.
(Hand-written on purpose: the property's own reading of "inactive or expired", independent of the translated
`IsActive`; `Props.C19_isActive_iff` shows they agree on the current source.) -/
def routableSt (now : Nat) (status : String) (exp : Nat) : Bool :=
  status == repos.HTTPDomainMappingStatusActive && (exp == 0 || decide (now ≤ exp))

def pmRoutable (now : Nat) (m : PM) : Bool :=
  m.status == models.MappingStatusActive && !m.revoked && !(m.expires != 0 && decide (m.expires < now))

/-- `(id, thost, tport)` of every update operation of the case. -/
def updTargets : List Op → List (Nat × String × Nat)
  | [] => []
  | .upd n _ _ th tp :: r => (n, th, tp) :: updTargets r
  | _ :: r => updTargets r

structure Born where
  id : Nat
  dom : String
  client : Nat
  thost : String
  tport : Nat
deriving DecidableEq, Repr

structure Fly where
  tid : Nat
  dom : String
  client : Nat
  thost : String
  tport : Nat
deriving DecidableEq, Repr

structure Mon where
  own : Bool := true
  auth : Bool := true
  claim : Bool := true
  look : Bool := true
  born : List Born := []
  certain : List (Nat × String × Nat) := []
  delReq : List (Nat × Nat) := []
  mustForbid : List (Nat × Nat) := []
  held : List (Nat × String) := []
  flying : List Fly := []
  sawHolder : List Nat := []
  delValid : List (Nat × Nat) := []
  dead : List Nat := []
  lookDead : List (Nat × List Nat) := []
  shield : List (Nat × List Nat) := []
  updFly : List (Nat × Nat) := []
  tainted : List Nat := []
  lastQuiet : List (Nat × Bool) := []
  lookBad : List (Nat × List Nat) := []

def assocD (l : List (Nat × List Nat)) (t : Nat) : List Nat :=
  match l.find? (·.1 == t) with
  | some p => p.2
  | none => []

def dropId (n : Nat) (l : List (Nat × List Nat)) : List (Nat × List Nat) :=
  l.map (fun p => (p.1, p.2.filter (· != n)))

/-! #### invocation events -/

def invCreate (m : Mon) (t client : Nat) (d thost : String) (tport : Nat) : Mon :=
  { m with
    sawHolder :=
      (if m.held.any (·.2 == d) || m.flying.any (·.dom == d) then [t] else []) ++
        ((m.flying.filter (·.dom == d)).map (·.tid)) ++ m.sawHolder
    flying := ⟨t, d, client, thost, tport⟩ :: m.flying }

def isOwner (m : Mon) (n client : Nat) : Bool := m.certain.any (fun x => x.1 == n && x.2.2 == client)
def ownedByOther (m : Mon) (n client : Nat) : Bool := m.certain.any (fun x => x.1 == n && x.2.2 != client)

def invDelete (m : Mon) (t n client : Nat) : Mon :=
  { m with
    mustForbid :=
      if ownedByOther m n client then (t, n) :: m.mustForbid
      else if isOwner m n client then m.mustForbid.filter (·.2 != n) else m.mustForbid
    delValid := if m.born.any (fun b => b.id == n && b.client == client) then (t, n) :: m.delValid else m.delValid
    shield := if isOwner m n client then dropId n m.shield else m.shield
    certain := m.certain.filter (fun x => !(x.1 == n && x.2.2 == client))
    delReq := (n, client) :: m.delReq }

def invUpdate (m : Mon) (t n : Nat) : Mon :=
  { m with
    tainted := (if m.updFly.any (·.2 == n) then [t] else []) ++ ((m.updFly.filter (·.2 == n)).map (·.1)) ++ m.tainted
    updFly := (t, n) :: m.updFly
    lastQuiet := m.lastQuiet.filter (·.1 != n)
    lookBad := dropId n m.lookBad }

def invLookup (m : Mon) (t : Nat) (host : String) : Mon :=
  { m with
    lookDead := (t, m.dead) :: m.lookDead.filter (·.1 != t)
    shield := (t, (m.certain.filter (fun x => nameOK host x.2.1 && colonFree x.2.1)).map (·.1)) :: m.shield.filter (·.1 != t)
    lookBad := (t, (m.lastQuiet.filter (fun p => !p.2)).map (·.1)) :: m.lookBad.filter (·.1 != t) }

def monInv (m : Mon) (t : Nat) : Op → Mon
  | .create c sub base th tp => invCreate m t c (sub ++ "." ++ base) th tp
  | .del n c => invDelete m t n c
  | .upd n _ _ _ _ => invUpdate m t n
  | .look h => invLookup m t h

/-! #### return events -/

def retCreate (m : Mon) (t client : Nat) (d thost : String) (tport : Nat) (r : Res) : Mon :=
  let m1 := { m with flying := m.flying.filter (·.tid != t), sawHolder := m.sawHolder.filter (· != t) }
  match r with
  | .okId n =>
    let m2 := { m1 with born := ⟨n, d, client, thost, tport⟩ :: m.born, held := (n, d) :: m.held }
    if m.delReq.contains (n, client) then m2
    else { m2 with own := m.own && !(m.certain.any (·.2.1 == d)), certain := (n, d, client) :: m.certain }
  | .err code =>
    if code == coreerrors.CodeAlreadyExists then { m1 with claim := m.claim && m.sawHolder.contains t } else m1
  | _ => m1

def retDelete (m : Mon) (t n : Nat) (r : Res) : Mon :=
  let released := r == .ok && m.delValid.contains (t, n)
  { m with
    auth := m.auth && (!(m.mustForbid.contains (t, n)) || r == .err coreerrors.CodeForbidden)
    mustForbid := m.mustForbid.filter (·.1 != t)
    held := if released then m.held.filter (·.1 != n) else m.held
    dead := if released then n :: m.dead else m.dead
    delValid := m.delValid.filter (·.1 != t) }

def retUpdate (now : Nat) (m : Mon) (t n : Nat) (status : String) (exp : Nat) (r : Res) : Mon :=
  { m with
    lastQuiet :=
      if r == .ok && !(m.tainted.contains t) then (n, routableSt now status exp) :: m.lastQuiet.filter (·.1 != n)
      else m.lastQuiet.filter (·.1 != n)
    updFly := m.updFly.filter (·.1 != t)
    tainted := m.tainted.filter (· != t) }

def targetOK (upds : List (Nat × String × Nat)) (n : Nat) (th : String) (tp : Nat) (th0 : String) (tp0 : Nat) : Bool :=
  (th == th0 && tp == tp0) || upds.contains (n, th, tp)

def repoSource (upds : List (Nat × String × Nat)) (m : Mon) (t : Nat) (host pid : String) (c : Nat) (th : String) (tp : Nat) : Bool :=
  m.born.any (fun b => mappingID b.id == pid && b.client == c && nameOK host b.dom &&
      !((assocD m.lookDead t).contains b.id) && !((assocD m.lookBad t).contains b.id) &&
      targetOK upds b.id th tp b.thost b.tport)
  || m.flying.any (fun f => f.client == c && nameOK host f.dom &&
      ((th == f.thost && tp == f.tport) || upds.any (fun u => u.2.1 == th && u.2.2 == tp)))

def extSource (now : Nat) (exts : List PM) (m : Mon) (t : Nat) (host pid : String) (c : Nat) (th : String) (tp : Nat) : Bool :=
  exts.any (fun e => e.ID == pid && e.client == c && e.thost == th && e.tport == tp && nameOK host e.fullDomain &&
      pmRoutable now e) && (assocD m.shield t).isEmpty

def retLookup (now : Nat) (upds : List (Nat × String × Nat)) (exts : List PM) (m : Mon) (t : Nat) (host : String) (r : Res) : Mon :=
  let m1 := { m with lookDead := m.lookDead.filter (·.1 != t), shield := m.shield.filter (·.1 != t),
                     lookBad := m.lookBad.filter (·.1 != t) }
  match r with
  | .route pid c th tp =>
    { m1 with look := m.look && (repoSource upds m t host pid c th tp || extSource now exts m t host pid c th tp) }
  | _ => m1

def monRet (i : Input) (m : Mon) (t : Nat) (o : Op) (r : Res) : Mon :=
  match o with
  | .create c sub base th tp => retCreate m t c (sub ++ "." ++ base) th tp r
  | .del n _ => retDelete m t n r
  | .upd n st e _ _ => retUpdate i.cf.now m t n st e r
  | .look h => retLookup i.cf.now (updTargets (allOps i)) (i.reg ++ i.cf.cloud) m t h r

def monSlot (i : Input) (m : Mon) (s : Slot) : Mon :=
  let m1 := match s.inv with
    | some o => monInv m s.tid o
    | none => m
  match s.ret with
  | some (o, r) => monRet i m1 s.tid o r
  | none => m1

def monRun (i : Input) (slots : List Slot) : Mon := slots.foldl (monSlot i) {}

def finalOK (m : Mon) (f : Final) : Bool :=
  m.certain.all (fun x => f.idx.contains (x.2.1, x.1) &&
    f.recs.any (fun p => p.1 == x.1 && p.2.FullDomain == x.2.1 && p.2.ClientID == x.2.2))

def holdsOwn (i : Input) (o : Obs) : Bool := (monRun i o.slots).own
def holdsAuth (i : Input) (o : Obs) : Bool := (monRun i o.slots).auth
def holdsClaim (i : Input) (o : Obs) : Bool := (monRun i o.slots).claim
def holdsLook (i : Input) (o : Obs) : Bool := (monRun i o.slots).look
def holdsFinal (i : Input) (o : Obs) : Bool := finalOK (monRun i o.slots) o.final

/-- The property on an observation. -/
def holds (i : Input) (o : Obs) : Bool :=
  holdsOwn i o && holdsAuth i o && holdsClaim i o && holdsLook i o && holdsFinal i o

end Tunnox.C19
