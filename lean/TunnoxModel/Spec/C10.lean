import TunnoxModel.Model.C10
/-!
C10: the property as decidable predicates on OBSERVATIONS (what the two ends of a connection, or a
caller of the decoder, see).  The same predicates are the bodies of the theorems in `Props/C10.lean`
and the oracle the runner applies to the implementation's observations.
-/
namespace Tunnox.C10
open Gen

/-! ### Streams -/

/-- A frame type that terminates the read side of a stream. -/
def isTerminator (ty : Nat) : Bool := ty == crossnode.FrameTypeEOF || ty == crossnode.FrameTypeClose

/-- What the receiver of tunnel `me` must be given, as a function of what was SENT (tunnels are
identified by their id *strings*): the bytes of every accepted `Write` and of every data frame sent
for `me`, in order, up to the first half-close / close of `me`; frames of other tunnels and frames of
unknown type contribute nothing.
Returns `(bytes, terminated)`. -/
def expected (me : Bytes) : List Ev → Bytes × Bool
  | [] => ([], false)
  | .write p :: evs => (p ++ (expected me evs).1, (expected me evs).2)
  | .closeWrite :: _ => ([], true)
  | .close :: _ => ([], true)
  | .inject tid ty d :: evs =>
    if tid == me then
      if ty == crossnode.FrameTypeData then (d ++ (expected me evs).1, (expected me evs).2)
      else if isTerminator ty then ([], true)
      else expected me evs
    else expected me evs

/-- The same on the level of the frames that travel on the connection (16-byte ids): what a reader
with frame id `id` must deliver from the frame sequence `fs`. -/
def deliver (id : Bytes) : List Frame → Bytes × Bool
  | [] => ([], false)
  | f :: fs =>
    if f.id == id then
      if f.ty == crossnode.FrameTypeData then (f.data ++ (deliver id fs).1, (deliver id fs).2)
      else if isTerminator f.ty then ([], true)
      else deliver id fs
    else deliver id fs

/-- Well-formedness of a sender event.  An injected frame has a type byte and a payload `WriteFrame`
accepts, and it is either a frame of OUR tunnel (same id string) or its 16-byte frame id differs from
ours.  The last clause is the hypothesis the finding `c10-id-truncation` is about: `TunnelIDFromString`
keeps 16 bytes, so distinct tunnel id strings can share a frame id. -/
def evWF (me : Bytes) : Ev → Bool
  | .inject tid ty d =>
    decide (ty < 256) && decide (d.length ≤ crossnode.MaxFrameSize) &&
      (tid == me || tunnelIDFromString tid != tunnelIDFromString me)
  | _ => true

/-- What every `Write` call must answer: everything accepted while open, refused after close. -/
def expectedWrites : Bool → List Ev → List WRes
  | _, [] => []
  | wopen, .write p :: evs => (if wopen then .ok p.length else .closedPipe) :: expectedWrites wopen evs
  | _, .closeWrite :: evs => expectedWrites false evs
  | _, .close :: evs => expectedWrites false evs
  | wopen, .inject _ _ _ :: evs => expectedWrites wopen evs

/-- The read side, call by call.  `exp` = bytes still owed.  Each `Read(p)` returns a prefix of what
is owed, at most `p` bytes, at least one byte when `p > 0` (progress); end-of-stream only when nothing
is owed, only if it is justified (`eofOk`: a close/half-close was sent, or the connection ended) and
then for ever; an error only when nothing is owed and no end-of-stream is due (`errOk`), as the last
result. -/
def checkReads (eofOk errOk : Bool) : Bytes → List Nat → List RRes → Bool
  | _, _, [] => true
  | _, [], _ :: _ => false
  | exp, p :: ps, .data d :: rs =>
    d.length ≤ p && (p == 0 || !d.isEmpty) && d.isPrefixOf exp &&
      checkReads eofOk errOk (exp.drop d.length) ps rs
  | exp, _ :: _, .eof :: rs => exp.isEmpty && eofOk && rs.all (· == .eof)
  | exp, _ :: _, .err _ :: rs => exp.isEmpty && errOk && rs.isEmpty
  | _, _ :: _, .fuel :: _ => false

/-- Bytes delivered by a list of read results. -/
def delivered : List RRes → Bytes
  | [] => []
  | .data d :: rs => d ++ delivered rs
  | _ :: rs => delivered rs

/-- **The stream property on an observation**: for the scenario (`me`, events, connection tail,
read sizes) the two ends observed `o`. -/
def holdsStream (me : Bytes) (evs : List Ev) (tail : Tail) (ps : List Nat) (o : StObs) : Bool :=
  let e := expected me evs
  let eofOk := e.2 || tail == .eof
  o.writes == expectedWrites true evs &&
  checkReads eofOk (!eofOk) e.1 ps o.reads &&
  (!eofOk || !o.rbroken) && !o.wbroken

/-- Shape of a sequence of read results, whatever was owed: at most `p` bytes, at least one when `p > 0`,
end-of-stream for ever once returned, nothing after an error. -/
def wellShaped : List Nat → List RRes → Bool
  | _, [] => true
  | [], _ :: _ => false
  | p :: ps, .data d :: rs => decide (d.length ≤ p) && (p == 0 || !d.isEmpty) && wellShaped ps rs
  | _ :: _, .eof :: rs => rs.all (· == .eof)
  | _ :: _, .err _ :: rs => rs.isEmpty
  | _ :: _, .fuel :: _ => false

/-- **The stream property on a connection that was cut at an arbitrary byte offset** (a transport
fault, outside what the property promises about completeness): the sender's `Write`s were all
answered as on an intact connection, and what the receiver's `Read` calls returned is still a prefix
of the bytes written for the tunnel — unchanged, in order, nothing of a foreign or half-received
frame —, in well-shaped results. -/
def holdsCut (me : Bytes) (evs : List Ev) (ps : List Nat) (o : StObs) : Bool :=
  o.writes == expectedWrites true evs &&
  (delivered o.reads).isPrefixOf (expected me evs).1 &&
  wellShaped ps o.reads && !o.wbroken

/-- **Both directions on an observation**: the forward phase satisfies the stream property; in the
reverse phase (B writes on the stream it has just read from, A reads on the stream it has written to)
B's writes are accepted iff B had not half-closed before, A is given exactly what B sent for the tunnel
before B's first close — or an immediate end-of-stream if B had half-closed —, then end-of-stream; A's
connection is not marked broken and B's flag is what the forward phase left. -/
def holdsDuplex (me : Bytes) (evs : List Ev) (tail : Tail) (rw : Bool) (ps : List Nat)
    (rvEvs : List Ev) (rps : List Nat) (o : DxObs) : Bool :=
  holdsStream me evs tail ps o.fwd &&
  o.rev.writes == expectedWrites (!rw) rvEvs &&
  checkReads true false (if rw then [] else (expected me rvEvs).1) rps o.rev.reads &&
  !o.rev.rbroken && o.rev.wbroken == o.fwd.rbroken

/-! ### Forwarding through a stream (`runBidirectionalForward`) -/

/-- What the two far ends of a forwarded tunnel see. -/
structure FwObs where
  up : Bytes        -- received by the peer stream until its end-of-stream
  down : Bytes      -- received by the application until its end-of-stream
  done : Bool       -- both saw the end-of-stream (and the forwarder returned)
  cnt : Option (Nat × Nat)   -- BytesSentCounter / BytesReceivedCounter when the config has them
  closes : Option Nat        -- calls of LocalConnCloser.Close when the config has one
deriving DecidableEq, Repr

/-- The forwarder seen through the stream model: upload = the application's bytes handed to
`FrameStream.Write` in pieces `ups` (as `io.Copy` reads them), then `CloseWrite` (half-close); the peer
reads to end-of-stream, then writes `down` and `Close`s; the other direction is a second stream run.
Reads use frame-sized buffers, one more than there can be frames (`frameBound`). -/
def runForward (me : Bytes) (ups : List Bytes) (down : Bytes) (ct cl : Bool) : FwObs :=
  let uev := ups.map Ev.write ++ [.closeWrite]
  let dev := [Ev.write down, .close]
  let u := runStream none me uev (fun b => [b]) .eof false
    (List.replicate (frameBound uev + 1) crossnode.MaxFrameSize)
  let d := runStream none me dev (fun b => [b]) .eof false
    (List.replicate (frameBound dev + 1) crossnode.MaxFrameSize)
  ⟨delivered u.reads, delivered d.reads, u.reads.contains .eof && d.reads.contains .eof,
   -- the counting wrapper sees what is read from / written to the local connection
   if ct then some ((delivered u.reads).length, (delivered d.reads).length) else none,
   -- closeAll runs under a sync.Once (not modelled: the model has no second closer)
   if cl then some 1 else none⟩

/-- One `Read` of a connection the forwarder copies from: the bytes it returned and the error it returned
WITH them (`none` = nil, `some .eof` = io.EOF, `some .err` = any other error).  `net.Conn` and
`FrameStream` report the end in a separate `(0, EOF)` call; `iotest.DataErrReader`, gzip readers and
QUIC streams legally return it together with the last bytes. -/
structure LRead where
  data : Bytes
  err : Option Tail
deriving DecidableEq, Repr

/-- `io.Copy(dst, src)` as a sequence of `Write` calls: the bytes of every read are written BEFORE the
read's error is looked at (`if nr > 0 { dst.Write }` … `if er != nil { break }`); the copy stops at the
first error; a script without one ends with the reader's `(0, EOF)`. -/
def copyWrites : List LRead → List Bytes
  | [] => []
  | r :: rs => (if r.data.isEmpty then [] else [r.data]) ++ (if r.err.isSome then [] else copyWrites rs)

/-- Everything the reader handed out up to and including the read that reported the end / the error. -/
def readData : List LRead → Bytes
  | [] => []
  | r :: rs => r.data ++ (if r.err.isSome then [] else readData rs)

/-- `runForward` with the local connection given as a script of reads (`upReads`) and the stream side
(`RemoteConn`) optionally reporting its end-of-stream together with its last bytes (`re`): both copies
are `io.Copy`s. -/
def runForwardR (me : Bytes) (upReads : List LRead) (down : Bytes) (ct cl re : Bool) : FwObs :=
  let o := runForward me (copyWrites upReads) down ct cl
  { o with down := (copyWrites [⟨o.down, if re then some .eof else none⟩]).flatten }

/-- **Forwarding on an observation**: everything the application sent before its half-close reached the
peer, the peer's answer reached the application, both followed by end-of-stream; the traffic counters
(if any) show exactly those byte counts and the local connection's closer (if any) ran exactly once. -/
def holdsFw (up down : Bytes) (ct cl : Bool) (o : FwObs) : Bool :=
  o.up == up && o.down == down && o.done &&
  o.cnt == (if ct then some (up.length, down.length) else none) &&
  o.closes == (if cl then some 1 else none)

/-- **TargetReady payload on an observation**: for a node id without '|' the listener gets back exactly
the full tunnel id (all of it, not 16 bytes, whatever bytes it contains) and the node id the sender put in. -/
def holdsTm (tid node : Bytes) (o : Option (Bytes × Bytes)) : Bool :=
  node.contains bar || o == some (tid, node)

/-- What the listener does with a first frame of type `ty`, header id string `hid`, TargetReady message
`(tid, node)`, when the manager's bridge is for `bridge`: forward iff it is a TargetReady for that bridge
(the full id of the message, or the header id when the message carries none). -/
def lsForwards (tid node bridge : Bytes) (ty : Nat) (hid : Bytes) : Bool :=
  ty == crossnode.FrameTypeTargetReady && !node.contains bar &&
  (if tid.isEmpty then tunnelIDToString (tunnelIDFromString hid) else tid) == bridge

/-- **The listener on an observation**: a TargetReady connection for the bridge's tunnel forwards EXACTLY
the bytes that follow the first frame — from the first byte on, also when they arrive in the same
segment as the frame — to the source side, and the answer back; any other first frame forwards nothing.
`o = (forwarded?, bytes the source side got, bytes the target side got)`. -/
def holdsLs (tid node bridge : Bytes) (ty : Nat) (hid pay back : Bytes) (o : Bool × Bytes × Bytes) : Bool :=
  if node.contains bar then true      -- outside the hypothesis of the message codec
  else if lsForwards tid node bridge ty hid then o.1 && o.2.1 == pay && o.2.2 == back
  else !o.1 && o.2.1.isEmpty

/-! ### Decoder -/

/-- The reason the decoder must give for stopping on the remaining bytes `rest`. -/
def stopFor (rest : Bytes) (tl : Tail) : FErr :=
  if rest.length < crossnode.FrameHeaderSize then
    (if rest.isEmpty && tl == .eof then .eof else .header tl)
  else if unbe32 ((rest.take crossnode.FrameHeaderSize).drop (idLen + 1)) > crossnode.MaxFrameSize then .tooLarge
  else .data tl

/-- Slack for the error values / bookkeeping allocated next to the two buffers (observed, not modelled). -/
def allocSlack : Nat := 8192

/-- **The decoder property on an observation**: the decoder was fed `bytes` (then `tl`) and returned
`o.frames` before failing with `o.stop`.  Every returned frame is well formed, their encodings are
exactly the consumed prefix of the input (nothing invented, nothing skipped, each frame decodes to
itself), the failure is the one the remaining bytes call for, and no single call allocated more than
one header plus the frame size limit (plus slack). -/
def holdsDec (bytes : Bytes) (tl : Tail) (o : DecObs) : Bool :=
  o.frames.all (fun f => decide f.WF) &&
  (encodeAll o.frames).isPrefixOf bytes &&
  o.stop == stopFor (bytes.drop (encodeAll o.frames).length) tl &&
  o.alloc ≤ crossnode.FrameHeaderSize + crossnode.MaxFrameSize + allocSlack

/-- **Round trip on an observation**: the frames `fs` were handed to `WriteFrame` one by one (answers
`acc`: accepted?), the bytes written were decoded again into `o`.  Frames within the limit are
accepted, larger ones refused; the decoder returns exactly the accepted frames and then the end of the
stream (`eof`, or the transport's error for `tl = err`) with nothing left. -/
def holdsRt (fs : List Frame) (tl : Tail) (acc : List Bool) (o : DecObs) : Bool :=
  acc == fs.map (fun f => decide (f.data.length ≤ crossnode.MaxFrameSize)) &&
  o.frames == fs.filter (fun f => decide (f.data.length ≤ crossnode.MaxFrameSize)) &&
  o.stop == (if tl == .eof then .eof else .header tl) &&
  o.leftover == 0 &&
  o.alloc ≤ crossnode.FrameHeaderSize + crossnode.MaxFrameSize + allocSlack

end Tunnox.C10
