import TunnoxModel.Model.C08
/-!
# C08 — the property as a decidable predicate on observations

Input: the history of events (`open / hs / hsTunnel / hb / close / tick`) and the record lifetime `ttl`.
Observation: for every event whether its entry point reported success (`CreateConnection` /
`HandlePacket` / `CloseConnection` returned nil), and afterwards, for every watched client, what every node
gets from `connstate.Store.FindClientNode` and how `SendCommandToClient` would route.

Reference bookkeeping (`SpecSt`), computed from the events alone:
* `opened` — connections created (successfully) for which `CloseConnection` has not run yet;
* `latest x = (c, until)` — `c` is the connection of the most recent successful control handshake of client
  `x` (the auth handler accepted, the handler reported success, `x > 0`), it has not been closed since, and its
  last keep-alive (that handshake or a later heartbeat on `c`, each at most `ttl` after the previous one)
  keeps the registration valid through `until`.  A heartbeat that comes later than `until` ends the
  obligation (the client did not keep the registration alive); so does the server ending the connection by
  duplicate-login eviction (`kick`) or session manager shutdown.

`holds` demands, after every event, for every watched client `x` and every asking node `j`:
* (A) if `latest x = (c, until)` and `now ≤ until`: the lookup answers exactly `(c.node, c)`;
* (B) always: the lookup answers "not connected" or names a connection of `x` that is currently open,
  together with that connection's node — so once every connection of `x` is closed the answer is
  "not connected", and a closed connection is never reported;
* (C) routing, when (A) applies: the node holding `c` sends locally, a node that holds no open connection
  of `x` forwards to `c.node`;
* (D) routing, when no connection of `x` is open anywhere: "not connected" on every node.
  (The routing decision of a node that was shut down is not observed: `Route.down`.)
* (A')/(B') the same two clauses for the cloud runtime state (`client.Service`: `ConnectClient` at the handshake,
  `EnsureClientOnline` at heartbeats, `DisconnectClientIfMatch` at every close), with its own lifetime and the
  exemption `loose` (see `rsOk`).
Anything else in an observation (error text, wrong arity) makes `holds` false.
-/
namespace Tunnox.C08

/-- client ↦ (connection of its latest successful handshake, deadline of the registration). A total function, so
that "forget every obligation of node `n`" is a plain definition. -/
abbrev LMap := Nat → Option (Conn × Nat)

namespace LMap
def empty : LMap := fun _ => none
def lookup (m : LMap) (x : Nat) : Option (Conn × Nat) := m x
def insert (m : LMap) (k : Nat) (v : Conn × Nat) : LMap := fun x => if k = x then some v else m x
def erase (m : LMap) (k : Nat) : LMap := fun x => if k = x then none else m x
/-- Forget the obligations whose connection lives on node `n`. -/
def dropNode (m : LMap) (n : Nat) : LMap := fun x =>
  match m x with
  | some p => if p.1.node = n then none else some p
  | none => none

theorem lookup_insert_eq (m : LMap) (k : Nat) (v : Conn × Nat) : lookup (insert m k v) k = some v := by
  simp [lookup, insert]
theorem lookup_insert_ne (m : LMap) {k k' : Nat} (v : Conn × Nat) (h : k ≠ k') :
    lookup (insert m k v) k' = lookup m k' := by simp [lookup, insert, h]
theorem lookup_erase_eq (m : LMap) (k : Nat) : lookup (erase m k) k = none := by simp [lookup, erase]
theorem lookup_erase_ne (m : LMap) {k k' : Nat} (h : k ≠ k') : lookup (erase m k) k' = lookup m k' := by
  simp [lookup, erase, h]
theorem lookup_dropNode {m : LMap} {n x : Nat} {p : Conn × Nat} (h : lookup (dropNode m n) x = some p) :
    lookup m x = some p ∧ p.1.node ≠ n := by
  unfold lookup dropNode at h
  unfold lookup
  cases hm : m x with
  | none => simp [hm] at h
  | some q =>
    simp only [hm] at h
    split at h
    · cases h
    · rename_i hne; injection h with h; subst h; exact ⟨rfl, hne⟩
end LMap

structure SpecSt where
  now : Nat
  opened : List Conn
  latest : LMap
  down : List Nat := []   -- nodes that were shut down
  -- the cloud runtime state: same bookkeeping with its own lifetime …
  latestRS : LMap := LMap.empty
  -- … and the clients whose state may name a connection the server ended WITHOUT telling the cloud side
  -- (duplicate-login eviction, shutdown: known finding `runtime-state-survives-server-side-end`), until their next handshake
  loose : Nat → Bool := fun _ => false

def SpecSt.init : SpecSt := ⟨0, [], LMap.empty, [], LMap.empty, fun _ => false⟩

/-- The connection is gone: `CloseConnection` ran for it. -/
def specClose (s : SpecSt) (c : Conn) : SpecSt :=
  { s with
    opened := rm c s.opened,
    latest :=
      match LMap.lookup s.latest c.client with
      | some p => if p.1 = c then LMap.erase s.latest c.client else s.latest
      | none => s.latest }

/-- `r` = what the entry point reported: nil for `open`/handshakes, "this call closed the connection" for closes. -/
def specStepCore (ttl : Nat) (s : SpecSt) (r : Bool) : Ev → SpecSt
  | .open c => if r then { s with opened := add c s.opened } else s
  | .hs c ok =>
    if ok && r && decide (c.client > 0) then
      { s with latest := LMap.insert s.latest c.client (c, s.now + ttl) }
    else s
  | .hsTunnel _ _ => s
  | .hb c =>
    match LMap.lookup s.latest c.client with
    | some p =>
      if p.1 = c then
        if s.now ≤ p.2 then { s with latest := LMap.insert s.latest c.client (c, s.now + ttl) }
        else { s with latest := LMap.erase s.latest c.client }
      else s
    | none => s
  -- every way a connection ends reaches `CloseConnection` (direct call, adapter read-loop end, Disconnect
  -- command, heartbeat-timeout sweep); the last two only act on a connection the registry still knows (`r`)
  | .close c _ => if r then specClose s c else s
  -- duplicate-login eviction: the node drops its other connection of the client from the registry and closes its
  -- stream; the client no longer holds that connection (its `CloseConnection` follows when the read loop ends)
  | .kick c =>
    match LMap.lookup s.latest c.client with
    | some p => if p.1.node = c.node ∧ p.1 ≠ c then { s with latest := LMap.erase s.latest c.client } else s
    | none => s
  -- session manager shutdown: every stream of the node is closed (the adapters' `CloseConnection` calls follow);
  -- shutting a node down again changes nothing
  | .shutdown n => if n ∈ s.down then s else { s with latest := LMap.dropNode s.latest n, down := n :: s.down }
  -- a lookup changes nothing, however its two storage round trips interleave with other events
  | .lookBegin _ _ => s
  | .lookEnd _ _ => s
  -- neither does a consumer of the lookup, whatever it concludes
  | .reqBegin _ _ _ => s
  | .reqEnd _ _ _ => s
  | .tick dt => { s with now := s.now + dt }

def setLoose (f : Nat → Bool) (x : Nat) (b : Bool) : Nat → Bool := fun y => if y = x then b else f y

/-- Reference bookkeeping of the cloud runtime state (`rsTtl` = its lifetime). -/
def specLatestRS (rsTtl : Nat) (s : SpecSt) (r : Bool) : Ev → LMap
  | .hs c ok =>
    if ok && decide (c.client > 0) then
      -- accepted and completed: the state must name `c` from now on; accepted but not completed (closed stream,
      -- unknown connection): no obligation
      if r then LMap.insert s.latestRS c.client (c, s.now + rsTtl) else LMap.erase s.latestRS c.client
    else s.latestRS
  | .hb c =>
    match LMap.lookup s.latestRS c.client with
    | some p =>
      if p.1 = c then
        if s.now ≤ p.2 then LMap.insert s.latestRS c.client (c, s.now + rsTtl) else LMap.erase s.latestRS c.client
      else s.latestRS
    | none => s.latestRS
  | .close c _ =>
    if r then
      match LMap.lookup s.latestRS c.client with
      | some p => if p.1 = c then LMap.erase s.latestRS c.client else s.latestRS
      | none => s.latestRS
    else s.latestRS
  | .kick c =>
    match LMap.lookup s.latestRS c.client with
    | some p => if p.1.node = c.node ∧ p.1 ≠ c then LMap.erase s.latestRS c.client else s.latestRS
    | none => s.latestRS
  | .shutdown n => if n ∈ s.down then s.latestRS else LMap.dropNode s.latestRS n
  | _ => s.latestRS

def specLoose (s : SpecSt) (r : Bool) : Ev → (Nat → Bool)
  | .hs c ok => if ok && decide (c.client > 0) then setLoose s.loose c.client (!r) else s.loose
  | .kick c => setLoose s.loose c.client true
  | .shutdown n => if n ∈ s.down then s.loose else fun _ => true
  | _ => s.loose

def specStep (ttl rsTtl : Nat) (s : SpecSt) (r : Bool) (e : Ev) : SpecSt :=
  { specStepCore ttl s r e with latestRS := specLatestRS rsTtl s r e, loose := specLoose s r e }

@[simp] theorem specStep_now (ttl rsTtl : Nat) (s : SpecSt) (r : Bool) (e : Ev) :
    (specStep ttl rsTtl s r e).now = (specStepCore ttl s r e).now := rfl
@[simp] theorem specStep_opened (ttl rsTtl : Nat) (s : SpecSt) (r : Bool) (e : Ev) :
    (specStep ttl rsTtl s r e).opened = (specStepCore ttl s r e).opened := rfl
@[simp] theorem specStep_latest (ttl rsTtl : Nat) (s : SpecSt) (r : Bool) (e : Ev) :
    (specStep ttl rsTtl s r e).latest = (specStepCore ttl s r e).latest := rfl
@[simp] theorem specStep_latestRS (ttl rsTtl : Nat) (s : SpecSt) (r : Bool) (e : Ev) :
    (specStep ttl rsTtl s r e).latestRS = specLatestRS rsTtl s r e := rfl
@[simp] theorem specStep_loose (ttl rsTtl : Nat) (s : SpecSt) (r : Bool) (e : Ev) :
    (specStep ttl rsTtl s r e).loose = specLoose s r e := rfl
@[simp] theorem specStep_down (ttl rsTtl : Nat) (s : SpecSt) (r : Bool) (e : Ev) :
    (specStep ttl rsTtl s r e).down = (specStepCore ttl s r e).down := rfl

/-- "not connected" (`FindClientNode(0)` is refused as invalid). -/
def notConnected (x : Nat) (a : Look) : Bool :=
  a == .notFound || (decide (x = 0) && a == .invalid)

/-- (A) and (B) for one answer. -/
def lookOk (s : SpecSt) (x : Nat) (a : Look) : Bool :=
  (match LMap.lookup s.latest x with
   | some p => if s.now ≤ p.2 then a == .found p.1.node p.1 else true
   | none => true)
  &&
  (notConnected x a ||
   (match a with
    | .found n c => decide (c ∈ s.opened) && decide (c.client = x) && decide (n = c.node)
    | _ => false))

/-- Node `j` holds an open connection of client `x`. -/
def holdsOpen (s : SpecSt) (j x : Nat) : Bool := s.opened.any (fun c => c.node == j && c.client == x)

/-- (C) and (D) for the routing decision of node `j`. -/
def routeOk (s : SpecSt) (x j : Nat) (r : Route) : Bool :=
  if j ∈ s.down then r == .down else
  (match LMap.lookup s.latest x with
   | some p =>
     if s.now ≤ p.2 then
       (if j = p.1.node then r == .loc
        else if holdsOpen s j x then true else r == .cross p.1.node)
     else true
   | none => true)
  &&
  (s.opened.any (fun c => c.client == x) || r == .none_)

/-- (A') and (B') for the cloud runtime state: it names the connection of the latest completed handshake while that
is kept alive (handshake / heartbeats at most its lifetime apart); otherwise it is absent or names an open
connection of the client at its node (or one the server ended on its own: `loose`). -/
def rsOk (s : SpecSt) (x : Nat) (a : Option (Nat × Conn)) : Bool :=
  (match LMap.lookup s.latestRS x with
   | some p => if s.now ≤ p.2 then a == some (p.1.node, p.1) else true
   | none => true)
  &&
  (match a with
   | none => true
   | some v => decide (v.2.client = x) && decide (v.1 = v.2.node) && (decide (v.2 ∈ s.opened) || s.loose x))

def nodeViewOk (s : SpecSt) (x : Nat) : Nat → List (Look × Route × Option (Nat × Conn)) → Bool
  | _, [] => true
  | j, p :: r => lookOk s x p.1 && routeOk s x j p.2.1 && rsOk s x p.2.2 && nodeViewOk s x (j + 1) r

/-- One observation (after one event): the watched clients in order, `nn` answers each. -/
def obsOk (s : SpecSt) (nn : Nat) (clients : List Nat) (o : List (Nat × List (Look × Route × Option (Nat × Conn)))) : Bool :=
  o.map (·.1) == clients && o.all (fun p => p.2.length == nn && nodeViewOk s p.1 0 p.2)

def holdsFrom (ttl rsTtl nn : Nat) (clients : List Nat) : SpecSt → List Ev → Obs → Bool
  | _, [], [] => true
  | s, e :: es, o :: os =>
    obsOk (specStep ttl rsTtl s o.1 e) nn clients o.2 && holdsFrom ttl rsTtl nn clients (specStep ttl rsTtl s o.1 e) es os
  | _, _, _ => false

/-- The property on an observation of a whole history. -/
def holds (ttl nn : Nat) (clients : List Nat) (evs : List Ev) (obs : Obs) : Bool :=
  holdsFrom ttl 90000 nn clients SpecSt.init evs obs

end Tunnox.C08
