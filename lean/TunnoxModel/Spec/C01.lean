import TunnoxModel.Model.C01
/-! C01: the property as a decidable predicate on what the reader side observed. -/
namespace Tunnox.C01
open Gen

/-- A round-trip case: the packets handed to the writer; the observation is what
the reader returned for the bytes the writer produced, under some chunking. -/
def holds (ps : List Pkt) (o : Obs) : Bool :=
  o.pkts == ps.map norm && o.stop == .type && o.leftover.isEmpty

/-- A type byte the reader rejects after reading the whole packet: the `0x80` (encrypted) flag on anything but
a heartbeat (`StreamProcessor` does not decrypt). -/
def rejected (t : Nat) : Bool := packet.Type.IsEncrypted t && !packet.Type.IsHeartbeat t

/-- A sequence that may contain a rejected packet: "the reader consumes exactly the bytes of each packet so that
every following packet stays aligned" — the packets before the first rejected one are decoded, the reader
stops with the rejection, and exactly the encodings of the following packets are still unread.  Without a
rejected packet this is `holds`. -/
def holdsSeq (c : Codec) (ps : List Pkt) (o : Obs) : Bool :=
  match ps.dropWhile (fun p => !rejected (wireType p)) with
  | [] => holds ps o
  | _ :: post =>
    o.pkts == (ps.takeWhile (fun p => !rejected (wireType p))).map norm && o.stop == .encrypted &&
      o.leftover.length == (encodeAll c post).length

end Tunnox.C01
