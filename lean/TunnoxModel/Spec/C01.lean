import TunnoxModel.Model.C01
/-! C01: the property as a decidable predicate on what the reader side observed. -/
namespace Tunnox.C01

/-- A round-trip case: the packets handed to the writer; the observation is what
the reader returned for the bytes the writer produced, under some chunking. -/
def holds (ps : List Pkt) (o : Obs) : Bool :=
  o.pkts == ps.map norm && o.stop == .type && o.leftover.isEmpty

end Tunnox.C01
