import TunnoxModel.Model.C14
/-!
C14 — the property as decidable predicates on OBSERVATIONS (per-call invocation/return indices and
results, the tier-call trace, the result of a final sequential `Get`).  The same predicates are the
bodies of the theorems in `Props/C14.lean` and the oracle the runner applies to the implementation's
observations.

* `holdsFresh` — "once a write or delete of a key has returned, every later read of that key returns that
  value (or not-found) or a newer one, never an older value": a read `r` must be explained by a write `w`
  (or the initial content) that had started when `r` returned and that is not *older* than a write which
  had returned before `r` started (`w` returned before that write started).
* `holdsList` — "entries appended to or removed from a stored list by concurrent callers all take
  effect": after all calls returned, an element whose append succeeded (and that nobody removes) is in the
  list, an element whose removal succeeded (and that nobody appends) is not, nothing else appeared, and
  every initial member that no call removes is still there ("index lists never lose a member", also when
  a call fails half-way: a failed reload must not be mistaken for an empty list).
* `holdsRoute` — "a key is always read from the tier class it was written to": every tier call of every
  facade method addresses the cache tier of the key's category, or the persistent tier if (and only if)
  the category is persisted.
-/
namespace Tunnox.C14

/-- get/exists/set/delete calls (and the write-back goroutines they spawn in the as-found code). -/
def isKV : Op → Bool
  | .get | .ex | .set _ _ | .del | .wbk => true
  | _ => false

/-- append/remove calls, plain `GetList` readers running beside them (and as-found write-back goroutines). -/
def isListMut : Op → Bool
  | .app _ | .rem _ | .getl | .wbk => true
  | _ => false

/-- A write the reads may be explained by. `retOk = some b`: returned successfully at index `b`. -/
structure Cand where
  val : Option Val
  inv : Nat
  retOk : Option Nat
  deriving Repr, DecidableEq

def okRet (t : ThObs) : Option Nat := if t.res == some .ok then some t.ret else none

/-- A `Set` that reported an error has written nothing anywhere (it fails only when the tier it writes
first rejects the value): its value is no candidate — a read must never be served an uncommitted value.
A `Delete` that reported an error may have removed one of the copies. -/
def candOf (t : ThObs) : Option Cand :=
  if t.inv == 0 then none else
  match t.op with
  | .set v _ => if t.res == some .err then none else some ⟨some v, t.inv, okRet t⟩
  | .del => some ⟨none, t.inv, okRet t⟩
  | _ => none

def cands (init : Option Val) (ths : List ThObs) : List Cand :=
  ⟨init, 0, some 0⟩ :: ths.filterMap candOf

/-- `w` is older than a write that had returned before index `rinv`. -/
def stale (cs : List Cand) (w : Cand) (rinv : Nat) : Bool :=
  cs.any (fun w' => match w.retOk, w'.retOk with
    | some b, some b' => decide (b < w'.inv) && decide (b' < rinv)
    | _, _ => false)

/-- `w` may explain a read invoked at `rinv` that returned at `rret`. -/
def admissible (cs : List Cand) (w : Cand) (rinv rret : Nat) : Bool :=
  decide (w.inv ≤ rret) && !stale cs w rinv

def readOk (cs : List Cand) (r : ThObs) : Bool :=
  match r.op, r.res with
  | .get, some (.val v) => cs.any (fun w => w.val == some v && admissible cs w r.inv r.ret)
  | .get, some .nf => cs.any (fun w => w.val == none && admissible cs w r.inv r.ret)
  | .ex, some (.bool b) => cs.any (fun w => w.val.isSome == b && admissible cs w r.inv r.ret)
  | _, _ => true

/-- The sequential `Get` issued after the run, as one more read (later than every step taken). -/
def finalRead (ths : List ThObs) (fget : Res) : ThObs :=
  ⟨.get, (ths.foldl (fun m t => max m t.ret) 0) + 1, (ths.foldl (fun m t => max m t.ret) 0) + 1, some fget⟩

/-- Freshness of every read of a get/exists/set/delete history, including the final sequential `Get`
(vacuous for other histories). -/
def holdsFresh (init : Option Val) (ths : List ThObs) (fget : Res) : Bool :=
  !ths.all (fun t => isKV t.op) ||
    (ths.all (readOk (cands init ths)) && readOk (cands init ths) (finalRead ths fget))

def listOf : Option Val → Option (List Nat)
  | none => some []
  | some (.list xs) => some xs
  | some (.jl xs) => some xs
  | some _ => none

def okApp (ths : List ThObs) (x : Nat) : Bool := ths.any (fun t => t.op == .app x && t.res == some .ok)
def okRem (ths : List ThObs) (x : Nat) : Bool := ths.any (fun t => t.op == .rem x && t.res == some .ok)
def anyApp (ths : List ThObs) (x : Nat) : Bool := ths.any (fun t => t.op == .app x)
def anyRem (ths : List ThObs) (x : Nat) : Bool := ths.any (fun t => t.op == .rem x)

def elems (ths : List ThObs) : List Nat :=
  ths.filterMap (fun t => match t.op with | .app x => some x | .rem x => some x | _ => none)

/-- No list update is lost and no failed update leaves a trace (vacuous unless every call is an
append/remove/GetList and all have returned): an element whose append succeeded and whose removal did not is in
the list; one whose removal succeeded and whose append did not is not; nothing is in the list that was
not there initially or successfully appended; every initial member that was not successfully removed is
still there.  A call that returned an error has changed nothing. -/
def holdsList (init : Option Val) (ths : List ThObs) (fget : Res) : Bool :=
  if ths.all (fun t => isListMut t.op && t.res.isSome) then
    match listOf init with
    | none => true
    | some l0 =>
      match fget with
      | .val v =>
        match listOf (some v) with
        | some f =>
          (elems ths).all (fun x => (!(okApp ths x && !okRem ths x) || f.contains x) &&
                                    (!(okRem ths x && !okApp ths x) || !f.contains x)) &&
          f.all (fun y => l0.contains y || okApp ths y) &&
          l0.all (fun y => okRem ths y || f.contains y)
        | none => false
      | .nf => (elems ths).all (fun x => !(okApp ths x && !okRem ths x)) &&
               l0.all (fun y => okRem ths y)
      | _ => false
  else true

/-- Every tier call addresses the tier class of the key's category. -/
def holdsRoute (R : Route) (ths : List ThObs) (trace : List Ev) : Bool :=
  trace.all (fun e =>
    match ths[e.tid]? with
    | none => false
    | some t =>
      match t.op with
      | .incr | .exp _ | .setnx _ _ | .hset _ | .hget | .hdel => e.tier == R.ck
      | _ => e.tier == R.ck || (R.pe && e.tier == .persistent))

/-- The initial content as the facade shows it. -/
def initVal (R : Route) (c s p : Option Val) : Option Val :=
  match finalGet R { c := ⟨c, 0, 0⟩, s := ⟨s, 0, 0⟩, p := ⟨p, 0, 0⟩ } with
  | .val v => some v
  | _ => none

/-- The tiers initially agree: the cache tier of the key is empty or holds what the persistent tier holds. -/
def coherent (R : Route) (c s p : Option Val) : Bool :=
  !R.pe || (({ c := ⟨c, 0, 0⟩, s := ⟨s, 0, 0⟩, p := ⟨p, 0, 0⟩ } : St).cell R.ck).val.isNone
        || (({ c := ⟨c, 0, 0⟩, s := ⟨s, 0, 0⟩, p := ⟨p, 0, 0⟩ } : St).cell R.ck).val == p

/-- Key families the code base uses for data that other nodes must see (config.go comments, the key
constants of `internal/constants` and `internal/cloud/repos`, the `lock:` keys of
`distributed.StorageBasedLock`).  Independent of the prefix tables: it states the intent the tables must meet. -/
def declaredCrossNode : List String :=
  ["tunnox:conn_state:", "tunnox:client_conn:", "tunnox:tunnel_waiting:", "tunnox:node:",
   "tunnox:runtime:conncode:", "tunnox:index:conncode:target:", "tunnox:id:", "tunnox:runtime:client:state:",
   "tunnox:http_domain:index:", "tunnox:http_domain:next_id", "tunnox:http_domain:deleting:",
   "tunnox:http_domain:mapping:", "tunnox:http_domain:mappings:list", "tunnox:http_domain:client:",
   "tunnox:client_mappings:", "tunnox:user_mappings:", "tunnox:port_mapping:", "tunnox:mappings:list",
   "webhook:", "webhooks:", "webhook_log:", "webhook_logs:", "lock:"]

def isDeclaredCrossNode (key : String) : Bool :=
  declaredCrossNode.any (fun p => Tunnox.PredPrelude.hasPrefix key p)

/-- With a shared cache configured, no call on a cross-node key touches a node-local cache
("shared cross-node keys are visible to every node"). -/
def holdsDeclared (key : String) (sh : Bool) (trace : List Ev) : Bool :=
  !(isDeclaredCrossNode key && sh) || trace.all (fun e => e.tier != .cache)

/-- Read-modify-write facade calls: tier read, then tier write(s) derived from what was read. -/
def isRMW : Op → Bool
  | .app _ | .rem _ | .exp _ => true
  | _ => false

/-- Calls whose tier writes happen under the per-key lock (Incr, SetNX and the hash methods are single
atomic tier calls outside it). -/
def isGuardedOp : Op → Bool
  | .set _ _ | .del | .app _ | .rem _ | .exp _ | .get | .getl => true
  | _ => false

def isWriteAct : Act → Bool
  | .set _ _ | .del => true
  | _ => false

/-- Positions of the first and the last tier call of thread `tid` in the trace. -/
def spanOf (tid : Nat) (tr : List Ev) : Option (Nat × Nat) :=
  match (tr.zipIdx.filter (fun p => p.1.tid == tid)).map (·.2) with
  | [] => none
  | a :: rest => some (a, (a :: rest).getLast (by simp))

/-- **Read-modify-write calls are exclusive**: between the tier read and the last tier write of an
AppendToList / RemoveFromList / SetExpiration, no other call (of the same node) whose writes are guarded by
the key lock performs a successful tier write of the key — otherwise that completed Set/SetList/Delete is
overwritten with data derived from the older value (a deleted list comes back, a completed SetList is lost,
`Set(v2)` returned and `v1` is served). -/
def holdsExclusive (ths : List ThObs) (tr : List Ev) : Bool :=
  ths.zipIdx.all (fun t =>
    !isRMW t.1.op ||
    match spanOf t.2 tr with
    | none => true
    | some (a, b) =>
      tr.zipIdx.all (fun e =>
        !(decide (a < e.2) && decide (e.2 < b) && e.1.tid != t.2 && isWriteAct e.1.act && e.1.out == .ok &&
          (match ths[e.1.tid]? with
           | some u => isGuardedOp u.op
           | none => false))))

/-- What `holds` needs to know about the case besides the route. -/
structure CaseInfo where
  key : String
  sh : Bool                -- a shared cache is configured
  twoNode : Bool := false  -- calls are issued on two facade instances
  evicts : Bool := false   -- the schedule contains cache evictions
  deriving Repr

/-- The data of the key is shared between nodes: through the shared cache or the persistent tier. -/
def Route.crossNode (R : Route) : Bool := R.ck == .shared || R.pe

/-- The whole property on one observation.  Freshness and list atomicity are judged
* for one node always (an eviction must not lose data: judged only when a persistent tier backs the cache),
* across two nodes when the data of the key is shared between nodes (node-local runtime data is not). -/
def holds (R : Route) (K : CaseInfo) (c s p : Option Val) (o : Obs) : Bool :=
  holdsRoute R o.ths o.trace && holdsDeclared K.key K.sh o.trace &&
  (!coherent R c s p || (K.evicts && !R.pe) || (K.twoNode && !R.crossNode) ||
    (holdsFresh (initVal R c s p) o.ths o.fget && holdsList (initVal R c s p) o.ths o.fget &&
     (!K.twoNode ||
       (holdsFresh (initVal R c s p) o.ths o.fget1 && holdsList (initVal R c s p) o.ths o.fget1))))

/-- The predicate the runner applies: `holds`, and for one-node cases the exclusiveness of the
read-modify-write calls. -/
def holdsAll (R : Route) (K : CaseInfo) (c s p : Option Val) (o : Obs) : Bool :=
  holds R K c s p o && (K.twoNode || holdsExclusive o.ths o.trace)

end Tunnox.C14
