import TunnoxModel.Model.C15
/-!
# C15 — the property as a decidable predicate on observations

Observation = the history of results in the order they happened (`ok`/`exh`/`rel`/`relo`/`rnw`/`tick`) plus
the set of markers the store reports live at the end.  The history is replayed on the reference
live-set (a sequential map with expiry): an id may be handed out only if it is not live there —
neither pre-existing, nor handed out earlier and not yet released, within its marker lifetime —,
exhaustion changes nothing, and the markers left at the end are exactly the reference live-set.
-/
namespace Tunnox.C15

structure SpecSt where
  store : Store
  now : Nat
  good : Bool

def specStep (ttl : Nat → Nat) (s : SpecSt) : Ev → SpecSt
  | .ok _ kind id =>
    ⟨put s.store (kind, id) (expiry s.now (ttl kind)), s.now, s.good && !live s.store s.now (kind, id)⟩
  | .exh _ _ => s
  | .nop _ => s
  | .err _ => s
  | .swp _ => ⟨sweep s.store s.now, s.now, s.good⟩
  | .dead _ _ _ => s
  | .rel _ kind id => ⟨erase s.store (kind, id), s.now, s.good⟩
  | .relo _ kind id => ⟨erase s.store (kind, id), s.now, s.good⟩
  | .rnw _ kind id => ⟨put s.store (kind, id) (expiry s.now (ttl kind)), s.now, s.good⟩
  | .tick dt => ⟨s.store, s.now + dt, s.good⟩

def replay (ttl : Nat → Nat) (pre : Store) (tr : List Ev) : SpecSt :=
  tr.foldl (specStep ttl) ⟨pre, 0, true⟩

/-- The reported markers are exactly the live keys of `s`. -/
def viewOk (s : Store) (now : Nat) (view : List Key) : Bool :=
  view.all (live s now) && s.all (fun p => !live s now p.1 || view.contains p.1)

/-! Release discipline of release-own (`NodeIDAllocator.Release`, the caller's "my id"): every
release-own must answer a hand-out to the same caller that this caller has not released yet.  A second
release-own of the same hand-out would free an id that may meanwhile be held by somebody else. -/

abbrev Held := List (Nat × Key)

def heldStep (s : Held × Bool) : Ev → Held × Bool
  | .ok t kind id => ((t, (kind, id)) :: s.1, s.2)
  | .relo t kind id => (s.1.erase (t, (kind, id)), s.2 && decide ((t, (kind, id)) ∈ s.1))
  | .dead _ _ _ => (s.1, false)   -- a holder that is still running must have its heartbeat
  | .rnw t kind id => (s.1, s.2 && decide ((t, (kind, id)) ∈ s.1))   -- only a current holder renews (no heartbeat outlives its Release)
  | _ => s

def heldReplay (tr : List Ev) : Held × Bool := tr.foldl heldStep ([], true)

/-- The property on an observation (`pre` = pre-existing markers, part of the input). -/
def holds (ttl : Nat → Nat) (pre : Store) (tr : List Ev) (view : List Key) : Bool :=
  (replay ttl pre tr).good && viewOk (replay ttl pre tr).store (replay ttl pre tr).now view
    && (heldReplay tr).2

/-! Vocabulary for stating uniqueness on a history. -/

/-- Events that neither release the key nor let `ttl` elapse keep a marker written at `t0` live. -/
def quiet (k : Key) : Ev → Bool
  | .rel _ kind id => decide ((kind, id) ≠ k)
  | .relo _ kind id => decide ((kind, id) ≠ k)
  | _ => true

def elapsed : List Ev → Nat
  | [] => 0
  | .tick dt :: r => dt + elapsed r
  | _ :: r => elapsed r

/-- The lease of `k` is kept up through `mid`: starting with `b` time units left, no tick lets the
remaining time run out before the next renewal (`rnw`) of `k` refills it to `ttl`. -/
def leaseOk (k : Key) (ttl : Nat) : Nat → List Ev → Bool
  | _, [] => true
  | b, .tick dt :: r => decide (dt < b) && leaseOk k ttl (b - dt) r
  | b, .rnw _ kind id :: r => if (kind, id) = k then leaseOk k ttl ttl r else leaseOk k ttl b r
  | b, _ :: r => leaseOk k ttl b r

end Tunnox.C15
