import TunnoxModel.Spec.TTLStore
import TunnoxModel.Gen.StorageMem
/-!
  C13 — the property as decidable predicates on OBSERVATIONS.

  An observation is the list of rendered results of the storage calls (one token per
  call).  The reference is always `TTLStore` (Spec/TTLStore.lean):

  * `holdsSeq h obs`    — sequential history on the memory backend: `obs` is exactly what
                           the sequential map with expiry answers;
  * `holdsRepo h obs`   — the same history on the Redis backend, compared through the
                           repositories' view of the answers (`repoView`);
  * `holdsConc now progs obs` — concurrent callers: SOME interleaving of the threads' calls,
                           run through `TTLStore`, gives every thread exactly what it saw
                           (linearizability; all calls overlap, program order per thread).
-/
namespace Tunnox.C13.Spec
open Tunnox Tunnox.TTLStore

/-- Default lifetime of implicitly created keys, from the source. -/
def dflt : Nat := Gen.cloudconstants.DefaultDataTTL

/-! ## Rendering (canonical, one token per result) -/

def hexDigit (n : Nat) : Char := if n < 10 then Char.ofNat (48 + n) else Char.ofNat (87 + n)

def hexOfString (s : String) : String :=
  if s.isEmpty then "-" else
  String.ofList (s.toUTF8.toList.foldr (fun b acc => hexDigit (b.toNat / 16) :: hexDigit (b.toNat % 16) :: acc) [])

def renderAtom : Atom → String
  | .str s => "s" ++ hexOfString s
  | .int n => "i" ++ toString n

def renderField (f : String) : String := if f.isEmpty then "-" else f

def renderVal : Val → String
  | .atom a => renderAtom a
  | .list xs => "L[" ++ ",".intercalate (xs.map renderAtom) ++ "]"
  | .hash h => "H{" ++ ",".intercalate
      ((FMap.toSorted (fun a b => decide (a < b)) h).map (fun p => renderField p.1 ++ "=" ++ renderAtom p.2)) ++ "}"

/-- Remaining lifetimes are compared by class: permanent, ≤ 1 min, ≤ 2 h, longer. -/
def renderDur (d : Nat) : String :=
  if d = 0 then "d0" else if d ≤ 60000000000 then "ds" else if d ≤ 7200000000000 then "dl" else "dx"

def render : Res → String
  | .ok => "ok"
  | .notFound => "nf"
  | .invalidType => "it"
  | .val v => renderVal v
  | .bool true => "T"
  | .bool false => "F"
  | .int n => "n" ++ toString n
  | .dur d => renderDur d

/-! ## Sequential histories -/

/-- The memory backend answers exactly as the sequential map with expiry. -/
def holdsSeq (h : History) (obs : List String) : Bool :=
  obs == (TTLStore.run dflt h TTLStore.empty).map render

/-- How the repositories consume an answer: a missing list is an empty list
(generic_repository.go `List`), a missing hash is an empty hash (stats counter), the error of
`SetExpiration` on a missing key is only logged. -/
def repoView (op : Op) (r : Res) : Res :=
  match op, r with
  | .getList _, .notFound => .val (.list [])
  | .hall _, .notFound => .val (.hash FMap.empty)
  | .expire _ _, .notFound => .ok
  | _, r => r

def repoRun : History → Store → List String
  | [], _ => []
  | (now, op) :: h, s => render (repoView op (step dflt now op s).2) :: repoRun h (step dflt now op s).1

/-- Did this call leave an EMPTY list or hash under its key?  Redis cannot represent one (the key
vanishes, and with it its lifetime), the reference keeps it: from such a call on, a history is
outside the cross-backend comparison. -/
def emptiesContainer (now : Nat) (op : Op) (s : Store) : Bool :=
  match op with
  | .remove k _ | .hdel k _ | .set k _ _ =>
    match find now (step dflt now op s).1 k with
    | some e =>
      match e.val with
      | .list [] => true
      | .hash [] => true
      | _ => false
    | none => false
  | _ => false

/-- Number of leading calls whose answers are compared across backends: all calls up to and
including the first one that leaves an empty container. -/
def comparableLen : History → Store → Nat
  | [], _ => 0
  | (now, op) :: h, s =>
    if emptiesContainer now op s then 1 else 1 + comparableLen h (step dflt now op s).1

/-- Redis as found in ONE respect only: an emptied list/hash vanishes together with its lifetime
(`Exists` answers false, a later re-creation gets the default lifetime). -/
def redisStep (now : Nat) (op : Op) (s : Store) : Store × Res :=
  if emptiesContainer now op s then
    match op.key with
    | some k => (FMap.erase (step dflt now op s).1 k, (step dflt now op s).2)
    | none => step dflt now op s
  else step dflt now op s

/-- Answers of the reference with vanishing empty containers, through the repositories' view. -/
def vanishRun : History → Store → List String
  | [], _ => []
  | (now, op) :: h, s => render (repoView op (redisStep now op s).2) :: vanishRun h (redisStep now op s).1

/-- Position-wise: wherever `want` and `vanish` agree, the observation must be `want`. -/
def agreeWhereComparable : List String → List String → List String → Bool
  | o :: os, w :: ws, v :: vs => (w != v || o == w) && agreeWhereComparable os ws vs
  | [], [], [] => true
  | _, _, _ => false

/-- Redis backend vs the same reference, through the repositories' view (lifetimes of kv, list,
hash and counter keys included; every argument, also the degenerate ones: empty list, empty
field, zero increment, empty key, empty string value).  EVERY answer is judged by the reference,
except an answer on which the reference with vanishing empty containers (`vanishRun`) differs from
the reference itself — Redis cannot represent an empty list/hash, and only `Exists`, the lifetime
and what follows from the lifetime of such a key can differ. -/
def holdsRepo (h : History) (obs : List String) : Bool :=
  agreeWhereComparable obs (repoRun h TTLStore.empty) (vanishRun h TTLStore.empty)

/-- The Redis backend AS FOUND (known finding `redis-hash-int-float`): hash members are decoded
with `encoding/json` into `interface{}`, so an integer member comes back as a float. Used only as
the model side of the `red` correspondence; `holdsRepo` compares against the reference. -/
def renderRedisAtom : Atom → String
  | .int n => "f" ++ toString n
  | a => renderAtom a

def renderRedis (op : Op) (r : Res) : String :=
  match op, r with
  | .hget _ _, .val (.atom a) => renderRedisAtom a
  | .hall _, .val (.hash h) => "H{" ++ ",".intercalate
      ((FMap.toSorted (fun a b => decide (a < b)) h).map (fun p => renderField p.1 ++ "=" ++ renderRedisAtom p.2)) ++ "}"
  | _, r => render r

def redisRun : History → Store → List String
  | [], _ => []
  | (now, op) :: h, s => renderRedis op (repoView op (redisStep now op s).2) :: redisRun h (redisStep now op s).1

/-- **Both backends give the same answers** to the repository-layer components
(`StorageBasedLock`, `CleanupManager`, `GenericRepository`, typed adapters) run on the same scenario:
the list of component answers on the memory backend equals the list on the Redis backend, and no
component panicked. (Every storage call the components make is judged separately by
`holdsSeq` / `holdsRepo` on the recorded history.) -/
def holdsSame (mem red : List String) : Bool :=
  mem == red && !(mem.any (fun t => t.startsWith "panic:"))

/-! ## Concurrent callers -/

/-- A caller during the search: calls still to explain, answers still to explain. -/
abbrev Pending := List Op × List String

/-- The next call of a caller together with the answer it saw. -/
def headPick (t : Pending) : Option ((Op × String) × Pending) :=
  match t.1, t.2 with
  | op :: ops, r :: rs => some ((op, r), (ops, rs))
  | _, _ => none

/-- All ways to take the next call of one caller: `((call, answer), callers afterwards)`. -/
def picks : List Pending → List ((Op × String) × List Pending)
  | [] => []
  | t :: ts =>
    (match headPick t with
     | some x => [(x.1, x.2 :: ts)]
     | none => []) ++ (picks ts).map (fun p => (p.1, t :: p.2))

/-- Every caller has all its calls answered and no answer is left over. -/
def allDone (ts : List Pending) : Bool := ts.all (fun t => t.1.isEmpty && t.2.isEmpty)

/-- Is there an order of the pending calls that the reference answers as observed, ending in a
store that satisfies `post` (what a sequential probe after the burst saw)? -/
def linK (now : Nat) (post : Store → Bool) : Nat → Store → List Pending → Bool
  | 0, s, ts => allDone ts && post s
  | fuel + 1, s, ts =>
    (allDone ts && post s) ||
    (picks ts).any (fun p =>
      render (step dflt now p.1.1 s).2 == p.1.2 && linK now post fuel (step dflt now p.1.1 s).1 p.2)

/-- Search without a probe afterwards. -/
def lin (now : Nat) : Nat → Store → List Pending → Bool := linK now (fun _ => true)

def totalLen {α} (ts : List (List α)) : Nat := (ts.map List.length).sum

/-- Every thread reports one answer per call, and the answers are explained by one sequential
order of all calls (within a burst at clock `now`, from the empty store). -/
def holdsConc (now : Nat) (progs : List (List Op)) (obs : List (List String)) : Bool :=
  (progs.length == obs.length) && lin now (totalLen progs) TTLStore.empty (progs.zip obs)

/-- **Burst from any reachable store.** `pre`: sequential history (with sleeps) run first; then
concurrent callers `progs` at clock `now`; then the sequential probe `suf`.  The prefix answers
as the reference; the callers' answers are explained by ONE order of their calls executed by the
reference from the prefix's end state; and that order leaves a store on which the probe answers
as observed. -/
def holdsBurst (pre : History) (now : Nat) (progs : List (List Op)) (suf : History)
    (obsPre : List String) (obsThr : List (List String)) (obsSuf : List String) : Bool :=
  (obsPre == (TTLStore.run dflt pre TTLStore.empty).map render) &&
  (progs.length == obsThr.length) &&
  linK now (fun s => obsSuf == (TTLStore.run dflt suf s).map render) (totalLen progs)
    (TTLStore.exec dflt pre TTLStore.empty) (progs.zip obsThr)

end Tunnox.C13.Spec
