import TunnoxModel.Model.C04
/-!
# C04 — the property as a decidable predicate on OBSERVATIONS

"A connection is attached to a tunnel, as source or as target, on the local node or through another node, only
if it is authenticated and entitled to the tunnel's mapping: the mapping's listening client presenting the
mapping id, or the listening or target client presenting the mapping's secret.  Revoked, expired, inactive or
unknown mappings never yield an attachment.  A refused request receives a failure acknowledgement and never
any tunnel traffic."

Nothing here refers to the functions of the model (`handleTunnelOpenAuth`, `IsValid`, …): entitlement is
written out from the property text over the data only.
-/
namespace Tunnox.C04

/-- What an outside observer sees of one TunnelOpen request. -/
structure Obs where
  /-- the TunnelOpenAck read on the requesting connection -/
  ack : Ack
  /-- what the bridge (or the other node) holds of the requester afterwards -/
  att : Attach
  /-- bytes written by the other end of the tunnel became readable on the requester -/
  data : Bool
  /-- how many TunnelOpenAck packets were written to the requester (the first one is `ack`) -/
  acks : Nat
  /-- the mapping of the bridge that holds the requester as source or target ("" when no bridge does) -/
  on : String
deriving DecidableEq, Repr

/-- The mapping the addressed tunnel belongs to: the bridge's / the route's mapping; a tunnel that does not
exist yet would be created for the mapping the request names. -/
def tunnelMappingID (req : Req) : TunnelState → String
  | .none => req.MappingID
  | .bridge m _ => m
  | .remote m _ => m

/-- "revoked, expired, inactive" written out (NOT via the translated `IsValid`). -/
def mappingUsable (now : Nat) (m : PortMapping) : Bool :=
  !m.IsRevoked &&
  (match m.ExpiresAt with | none => true | some t => !decide (t < now)) &&
  m.Status == Gen.models.MappingStatusActive

/-- The client the connection is authenticated as (0 = not authenticated): the client a completed handshake
established on its control connection; for a connection without handshake, the client its transport asserts when
that transport vouches for its peer (`CanCreateTemporaryControlConn`). -/
def provenClient (id : ConnIdent) : Nat :=
  if id.hasControl then (if id.authenticated then id.clientID else 0)
  else if id.tempOK then id.streamClientID else 0

/-- Entitlement, exactly the property's clause, for the mapping of the addressed tunnel. -/
def entitledB (w : World) (id : ConnIdent) (req : Req) (ts : TunnelState) : Bool :=
  provenClient id != 0 &&
  match w.getPortMapping (tunnelMappingID req ts) with
  | none => false                                   -- unknown mapping
  | some m =>
    mappingUsable w.now m &&
    (-- the mapping's listening client presenting the mapping id
     (req.MappingID == m.ID && provenClient id == m.ListenClientID) ||
     -- the listening or target client presenting the mapping's secret
     (req.SecretKey != "" && req.SecretKey == m.SecretKey &&
       (provenClient id == m.ListenClientID || provenClient id == m.TargetClientID)))

/-- One TunnelOpen, at most one acknowledgement: never a second TunnelOpenAck (after a success ack the client is
in stream mode and would take it for tunnel payload), and a connection is attached only after it was told so. -/
def ackDiscipline (o : Obs) : Bool :=
  decide (o.acks ≤ 1) && ((o.ack == .none) == (o.acks == 0)) && (o.att == .none || o.ack == .ok)

/-- The property on one observation: a request that is not entitled is refused — failure acknowledgement,
nothing attached anywhere, no tunnel traffic.  (An entitled request may be served or not.) -/
def holds (w : World) (id : ConnIdent) (req : Req) (ts : TunnelState) (o : Obs) : Bool :=
  (entitledB w id req ts || (o.ack == .fail && o.att == .none && !o.data)) && ackDiscipline o

/-- What the model predicts the observer sees: traffic from the other end reaches the requester exactly when
it became the target of a bridge that was still waiting, or was piped to the node holding the bridge. -/
def obsData (att : Attach) (ts : TunnelState) : Bool :=
  match att, ts with
  | .target, .bridge _ served => !served
  | .forward _, _ => true
  | _, _ => false

/-- the mapping of the bridge that holds the connection: the bridge found at arrival, or the one a source has just
created for the mapping it named -/
def obsOn (att : Attach) (req : Req) (ts : TunnelState) : String :=
  match att, ts with
  | .source, .bridge m _ => m
  | .source, _ => req.MappingID
  | .target, .bridge m _ => m
  | _, _ => ""

def Outcome.obs (o : Outcome) (req : Req) (ts : TunnelState) : Obs :=
  { ack := o.ack, att := o.attach, acks := if o.ack == .none then 0 else 1,
    data := obsData o.attach ts, on := obsOn o.attach req ts }

/-- The tunnel a connection ends up on.  A connection that a bridge holds as source or target is on THAT bridge's
tunnel, whatever the request expected (`on` = the mapping the holding bridge serves, as observed); a forwarded one,
or one that merely receives bytes, joined the tunnel that appeared while it waited. -/
def attachedTs (ts : TunnelState) (late : Late) (att : Attach) (on : String) : TunnelState :=
  match att with
  | .source => .bridge on false
  | .target => .bridge on false
  | _ =>
    match ts, late with
    | .none, .route m n _ => .remote m n
    | .none, .window m => .bridge m false
    | .none, .early m => .bridge m false
    | _, _ => ts

/-- The property when the tunnel state changes during the request: the acknowledgement is judged against the
state at arrival (`holds`); whatever the connection is attached to, or receives bytes from, afterwards must be a
tunnel of a mapping it is entitled to.  (A request entitled at arrival may be acknowledged and later dropped
because the tunnel that appeared belongs to another mapping: it is never attached and gets no traffic.) -/
def holdsDyn (w : World) (id : ConnIdent) (req : Req) (ts : TunnelState) (late : Late) (o : Obs) : Bool :=
  holds w id req ts o &&
  ((o.att == .none && !o.data) || entitledB w id req (attachedTs ts late o.att o.on))

/-- Observation predicted for a request with a late-appearing tunnel: bytes of the late bridge's source reach a
connection attached to it as target. -/
def dynData (att : Attach) (ts : TunnelState) (late : Late) : Bool :=
  match att, ts, late with
  | .target, .bridge _ served, _ => !served
  | .target, .none, .route _ _ _ => true
  | .target, .none, .window _ => true
  | .target, .none, .early _ => true
  | .forward _, _, _ => true
  | _, _, _ => false

def dynOn (att : Attach) (req : Req) (ts : TunnelState) (late : Late) : String :=
  match att, ts, late with
  | .source, .bridge m _, _ => m
  | .source, _, _ => req.MappingID
  | .target, .bridge m _, _ => m
  | .target, .none, .route m _ _ => m
  | .target, .none, .window m => m
  | .target, .none, .early m => m
  | _, _, _ => ""

def Outcome.obsDyn (o : Outcome) (req : Req) (ts : TunnelState) (late : Late) : Obs :=
  { ack := o.ack, att := o.attach, acks := if o.ack == .none then 0 else 1,
    data := dynData o.attach ts late, on := dynOn o.attach req ts late }

/-- The property on the observation of "the mapping was revoked (the revocation returned), whatever other
updates of the record were in flight; afterwards somebody presents credentials for a tunnel of that mapping":
the record still says revoked and the request is refused. -/
def holdsRevoked (recordRevoked : Bool) (o : Obs) : Bool :=
  recordRevoked && o.ack == .fail && o.att == .none && !o.data && ackDiscipline o

/-- Observation of the two-node scenario: a target forwarded from another node for tunnel id `X` (a variant
spelling of a victim's tunnel id), both sources writing.  `seesVictim`: bytes of the victim's tunnel became readable
on the forwarded connection; `victimReady`: the victim's bridge was told its target is there. -/
structure TwoNodeObs where
  seesVictim : Bool
  victimReady : Bool
deriving DecidableEq, Repr

/-- A connection entitled to another mapping only is never joined to the victim's tunnel through another node. -/
def holdsTwoNode (o : TwoNodeObs) : Bool := !o.seesVictim && !o.victimReady

/-- What the session manager's bookkeeping guarantees about a connection (established by the auth handlers,
property C03): a client id is set only together with the authenticated flag. -/
def identWF (id : ConnIdent) : Bool := id.clientID == 0 || id.authenticated

end Tunnox.C04
