import TunnoxModel.Model.C12
/-!
C12: the property as decidable predicates on what the fake endpoints and the caller OBSERVE.
The same predicates are the bodies of the theorems in `Props/C12.lean` and the oracle the runner
applies to the implementation's observations.
-/
namespace Tunnox.C12

/-! ### TCP relay -/

/-- `Bidirectional` returned; each side received a prefix of what the other side sent, in order;
all of it unless that side itself refused a Write; the relay never wrote to a socket after closing
or half-closing it.  (The schedule — who half-closes, closes or fails first — is part of the case
and forced on the implementation by the gated fake sockets.) -/
def holdsTcp (A B : EP) (o : TcpObs) : Bool :=
  o.ret && !o.bad &&
  o.toB.isPrefixOf A.reads.flatten && o.toA.isPrefixOf B.reads.flatten &&
  (o.wfB || o.toB == A.reads.flatten) && (o.wfA || o.toA == B.reads.flatten)

/-! ### UDP relay -/

/-- Datagrams the encoding can carry: `1 ≤ |d| ≤ 65535`. -/
def wfDgram (d : Bytes) : Bool := decide (1 ≤ d.length) && decide (d.length ≤ 65535)

/-- The datagrams whose whole record lies before byte offset `cut` of `encodeAll ds`. -/
def completeBefore : List Bytes → Nat → List Bytes
  | [], _ => []
  | d :: ds, cut => if 2 + d.length ≤ cut then d :: completeBefore ds (cut - (2 + d.length)) else []

def dgramsOf : List UEv → List Bytes
  | [] => []
  | .dgram d :: r => d :: dgramsOf r
  | .tick :: r => dgramsOf r

/-- A UDP case as the property sees it: the tunnel stream is the encoding of `tds`, ended at byte
offset `cut` (any value ≥ the length: not cut), optionally followed by arbitrary bytes `junk`. -/
structure UdpSpecCase where
  uevs : List UEv
  utail : Tl
  tds : List Bytes
  cut : Nat
  junk : Bytes
  ttail : Tl
  tfused : Bool
deriving DecidableEq, Repr

def UdpSpecCase.stream (c : UdpSpecCase) : Bytes := (encodeAll c.tds).take c.cut ++ c.junk

/-- The relay returned; the UDP side received exactly the datagrams that were complete before the
cut, in order (with trailing junk after an uncut stream: at least those; a prefix of them if the UDP socket
itself refused a Write); the tunnel received
exactly the encoding of the datagrams the relay took from the UDP socket, and it took all of them
when the tunnel neither ends by itself nor carries an illegal record. -/
def holdsUdp (c : UdpSpecCase) (o : UdpObs) : Bool :=
  let ds := (dgramsOf c.uevs).take o.nread
  o.ret &&
  (!(c.tds.all wfDgram) ||
    (if o.wfU then (!c.junk.isEmpty || o.udp.isPrefixOf (completeBefore c.tds c.cut))
     else if c.junk.isEmpty then o.udp == completeBefore c.tds c.cut
     else (!(decide ((encodeAll c.tds).length ≤ c.cut)) || c.tds.isPrefixOf o.udp))) &&
  (!(ds.all wfDgram) || o.tun == encodeAll ds) &&
  (!(c.ttail == .hold && c.junk.isEmpty && c.tds.all wfDgram && !o.wfU) || o.nread == (dgramsOf c.uevs).length)

/-! ### SOCKS5 UDP tunnel codec -/

/-- Datagrams `SendPacket`/`ReceivePacket` can carry: up to 65535 bytes (empty ones included). -/
def wfS5 (d : Bytes) : Bool := decide (d.length ≤ 65535)

/-- Where `ReceivePacket` must fail when the stream `encodeAll ds` ends at byte offset `cut`:
in the prefix read (at a record boundary or inside a prefix) or in the payload read. -/
def cutStage : List Bytes → Nat → S5Stop
  | [], _ => .len
  | d :: ds, cut =>
    if 2 + d.length ≤ cut then cutStage ds (cut - (2 + d.length))
    else if cut < 2 then .len else .data

/-- The bytes `SendPacket` put on the tunnel are the encoding of the datagrams; the receive loop
returned exactly the datagrams complete before the cut, in order, with their boundaries — however
the stream was cut into reads, in particular with several records in one read — and then failed in
the read the cut falls into. -/
def holdsS5 (ds : List Bytes) (cut : Nat) (wire : Bytes) (o : S5Obs) : Bool :=
  !(ds.all wfS5) || (wire == encodeAll ds && o.pk == completeBefore ds cut && o.stop == cutStage ds cut)

end Tunnox.C12
