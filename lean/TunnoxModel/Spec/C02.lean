import TunnoxModel.Model.C02
/-! C02: the property as decidable predicates on what the endpoints observed. -/
namespace Tunnox.C02

/-- Observation of one `CopyWithControl` call. -/
structure CopyObs where
  delivered : Bytes     -- bytes the destination received, in order
  total : Nat           -- return value
  counter : Nat         -- value added to the shared counter
deriving DecidableEq, Repr

def cleanReadsB (rs : List ReadEv) : Bool := rs.all (fun ev => !ev.cancelled && ev.err != some .fatal)
def cleanWritesB (ws : List WriteEv) (maxRead : Nat) : Bool := ws.all (fun w => !w.err && decide (maxRead ≤ w.accept))
def maxRead (rs : List ReadEv) : Nat := rs.foldl (fun m ev => max m ev.data.length) 0

/-- One direction: what arrived is a prefix of what was sent, is all of it when
nothing failed and nobody closed early, and the byte counters say exactly that. -/
def holdsCopy (rs : List ReadEv) (ws : List WriteEv) (o : CopyObs) : Bool :=
  o.delivered.isPrefixOf (allData rs) &&
  o.total == o.delivered.length && o.counter == o.delivered.length &&
  (if cleanReadsB rs && cleanWritesB ws (maxRead rs) then o.delivered == allData rs else true)

/-- Observation of a whole bridge run (both directions concurrently). -/
structure BridgeObs where
  toTarget : Bytes        -- bytes the target end received
  toSource : Bytes        -- bytes the source end received
  s2tEof : Bool           -- source→target ended because the source script was exhausted (EOF)
  t2sEof : Bool
  returned : Bool         -- Start returned within the watchdog
  srcClosed : Bool
  tgtClosed : Bool
  removed : Bool          -- the session manager no longer knows the tunnel
  sent : Nat              -- Bridge.GetBytesSent
  received : Nat          -- Bridge.GetBytesReceived
deriving DecidableEq, Repr

def holdsBridge (srcReads tgtReads : List ReadEv) (o : BridgeObs) : Bool :=
  o.toTarget.isPrefixOf (allData srcReads) && o.toSource.isPrefixOf (allData tgtReads) &&
  (if o.s2tEof then o.toTarget == allData srcReads else true) &&
  (if o.t2sEof then o.toSource == allData tgtReads else true) &&
  o.returned && o.srcClosed && o.tgtClosed && o.removed &&
  o.sent == o.toTarget.length && o.received == o.toSource.length

/-- A direction whose scripts contain no fault: no fatal read, no cancellation, and every write of the
receiving end accepts everything without error and without blocking. -/
def faultFreeDir (reads : List ReadEv) (writes : List WriteEv) : Bool :=
  reads.all (fun ev => !ev.cancelled && ev.err != some .fatal) &&
  writes.all (fun w => !w.err && !w.block && decide (maxRead reads ≤ w.accept))

/-- "…is all of it if neither end closed early": when neither end's script contains a fault, the
bridge never ends by itself — if it ended, one end reached its end-of-stream (and by the clauses of
`holdsBridge` everything that end had sent was delivered). -/
def holdsNoSpontaneousClose (srcReads tgtReads : List ReadEv) (srcWrites tgtWrites : List WriteEv)
    (o : BridgeObs) : Bool :=
  if faultFreeDir srcReads tgtWrites && faultFreeDir tgtReads srcWrites then
    (if o.returned then o.s2tEof || o.t2sEof else true)
  else true

/-- The model's observation of a finished bridge. -/
def Bridge.obs (b : Bridge) : BridgeObs :=
  { toTarget := b.s2t.st.delivered, toSource := b.t2s.st.delivered,
    s2tEof := b.s2t.stop == some .eof, t2sEof := b.t2s.stop == some .eof,
    returned := b.finished, srcClosed := b.closed, tgtClosed := b.closed, removed := b.removed,
    sent := b.s2t.st.counter, received := b.t2s.st.counter }

/-! ### Re-attached source connections -/

/-- Observation of a bridge run whose source end re-attached. -/
structure ReattachObs where
  toTarget : Bytes            -- bytes the target end received
  perSource : List Bytes      -- bytes each source connection received, in the order the connections attached
  returned : Bool
  curSrcClosed : Bool         -- the source connection installed last is closed
  tgtClosed : Bool
  removed : Bool
  sent : Nat
  received : Nat
deriving DecidableEq, Repr

/-- `bs` is a concatenation of one prefix of each `d ∈ ds`, in order. -/
def matchGens : List Bytes → Bytes → Bool
  | [], bs => bs.isEmpty
  | d :: ds, bs => (List.range (d.length + 1)).any (fun k => (d.take k).isPrefixOf bs && matchGens ds (bs.drop k))

/-- No fault in any source connection's script and every connection is replaced only after its
script has been read to the end… -/
def gensClean (gens : List SrcGen) : Bool :=
  gens.all (fun g => cleanReadsB g.reads && decide (g.attachAt ≤ g.reads.length))

/-- Expected bytes per source connection: group `i` of the fired target events is written to
connection `i`; padded with empty entries for connections that never became current. -/
def expectedPerSource (ds : List Nat) (tgt : List ReadEv) (n : Nat) : List Bytes :=
  let g := (splitFired ds tgt).map allData
  (g ++ List.replicate (n - g.length) []).take n

/-- Index of the source connection installed last: one per reached pause that is not the last connection's. -/
def currentIdx (ds : List Nat) (n : Nat) : Nat := min ds.length (n - 1)

/-- Per-connection clause: every connection other than the current one received exactly the bytes
that fired while it was installed; the current one received at least those. -/
def perSourceOk (cur : Nat) : Nat → List Bytes → List Bytes → Bool
  | _, [], [] => true
  | i, e :: es, o :: os => (if i == cur then e.isPrefixOf o else o == e) && perSourceOk cur (i + 1) es os
  | _, _, _ => false

/-- The property on a run with re-attachment.  `ds` = the model's pause thresholds. -/
def holdsReattach (gens : List SrcGen) (tgt : List ReadEv) (ds : List Nat) (o : ReattachObs) : Bool :=
  matchGens (gens.map (fun g => allData g.reads)) o.toTarget &&
  (if gensClean gens then o.toTarget == (gens.map (fun g => allData g.reads)).flatten else true) &&
  o.perSource.flatten.isPrefixOf (allData tgt) &&
  (if cleanReadsB tgt then perSourceOk (currentIdx ds gens.length) 0 (expectedPerSource ds tgt gens.length) o.perSource
   else o.perSource.length == gens.length) &&
  o.returned && o.curSrcClosed && o.tgtClosed && o.removed &&
  o.sent == o.toTarget.length && o.received == o.perSource.flatten.length

/-- The same without the per-connection clause (free-running runs: which connection a byte of the
target is written to depends on the schedule; the concatenation in attach order does not). -/
def holdsReattachFree (gens : List SrcGen) (tgt : List ReadEv) (o : ReattachObs) : Bool :=
  matchGens (gens.map (fun g => allData g.reads)) o.toTarget &&
  (if gensClean gens then o.toTarget == (gens.map (fun g => allData g.reads)).flatten else true) &&
  o.perSource.flatten.isPrefixOf (allData tgt) && o.perSource.length == gens.length &&
  o.returned && o.curSrcClosed && o.tgtClosed && o.removed &&
  o.sent == o.toTarget.length && o.received == o.perSource.flatten.length

/-- The model's observation of a finished run with re-attachment (target accepts everything). -/
def reattachObs (l : Limiter) (gens : List SrcGen) (tgt : List ReadEv) : ReattachObs :=
  { toTarget := (sourceLoop l gens [] {}).1.delivered,
    perSource := expectedPerSource (pausePoints l gens [] {}) tgt gens.length,
    returned := true, curSrcClosed := true, tgtClosed := true, removed := true,
    sent := (sourceLoop l gens [] {}).1.counter,
    received := (expectedPerSource (pausePoints l gens [] {}) tgt gens.length).flatten.length }

/-! ### A tunnel whose target end is attached on another node

Two relay hops in a row (source node: `CrossNodeListener.runBridgeForward`; target node:
`runCrossNodeDataForwardDedicated`), each a pair of `io.Copy` loops = the copy loop without a limiter.  Hop 2
reads what hop 1 delivered, re-segmented arbitrarily by the cross-node TCP connection (`cut`), and sees the end of
the stream when hop 1 has finished (hop 1 half-closes the connection when its copy returns). -/

/-- The reads a relay sees from an end that writes `chunks`, never fails, and then half-closes. -/
def writesAsReads (chunks : List Bytes) : List ReadEv := chunks.map (fun d => ⟨d, none, false, 0⟩)

/-- One direction across the two hops: final state and stop reason of hop 2, and whether hop 1 reached EOF. -/
def relay2 (rs : List ReadEv) (ws1 : List WriteEv) (cut : Bytes → List Bytes) (ws2 : List WriteEv) :
    St × Stop × Stop :=
  ((copy none (writesAsReads (cut (copy none rs ws1 {}).1.delivered)) ws2 {}).1,
   (copy none (writesAsReads (cut (copy none rs ws1 {}).1.delivered)) ws2 {}).2.1,
   (copy none rs ws1 {}).2.1)

structure XnodeObs where
  toTarget : Bytes        -- bytes the target end received
  toSource : Bytes
  tgtEof : Bool           -- the target end then observed a clean end of stream
  srcEof : Bool
deriving DecidableEq, Repr

/-- The property on a cross-node run in which neither end closes before it has written everything
(`down` = the source end's writes, `up` = the target end's): what an end received is a prefix of what the
other sent — and is all of it — and each end then observes the other's end of stream. -/
def holdsXnode (down up : List Bytes) (o : XnodeObs) : Bool :=
  o.toTarget.isPrefixOf down.flatten && o.toSource.isPrefixOf up.flatten &&
  o.toTarget == down.flatten && o.toSource == up.flatten && o.tgtEof && o.srcEof

/-- The model's observation: both directions through both hops, every endpoint accepting all writes. -/
def xnodeObs (down up : List Bytes) (cutD cutU : Bytes → List Bytes) : XnodeObs :=
  { toTarget := (relay2 (writesAsReads down) [] cutD []).1.delivered,
    toSource := (relay2 (writesAsReads up) [] cutU []).1.delivered,
    tgtEof := (relay2 (writesAsReads down) [] cutD []).2.1 == .eof && (relay2 (writesAsReads down) [] cutD []).2.2 == .eof,
    srcEof := (relay2 (writesAsReads up) [] cutU []).2.1 == .eof && (relay2 (writesAsReads up) [] cutU []).2.2 == .eof }

end Tunnox.C02
