import TunnoxModel.Model.C02
/-! C02: the property as decidable predicates on what the endpoints observed. -/
namespace Tunnox.C02

/-- Observation of one `CopyWithControl` call. -/
structure CopyObs where
  delivered : Bytes     -- bytes the destination received, in order
  total : Nat           -- return value
  counter : Nat         -- value added to the shared counter
deriving DecidableEq, Repr

def cleanReadsB (rs : List ReadEv) : Bool := rs.all (fun ev => !ev.cancelled && ev.err != some .fatal)
def cleanWritesB (ws : List WriteEv) (maxRead : Nat) : Bool := ws.all (fun w => !w.err && decide (maxRead ≤ w.accept))
def maxRead (rs : List ReadEv) : Nat := rs.foldl (fun m ev => max m ev.data.length) 0

/-- One direction: what arrived is a prefix of what was sent, is all of it when
nothing failed and nobody closed early, and the byte counters say exactly that. -/
def holdsCopy (rs : List ReadEv) (ws : List WriteEv) (o : CopyObs) : Bool :=
  o.delivered.isPrefixOf (allData rs) &&
  o.total == o.delivered.length && o.counter == o.delivered.length &&
  (if cleanReadsB rs && cleanWritesB ws (maxRead rs) then o.delivered == allData rs else true)

/-- Observation of a whole bridge run (both directions concurrently). -/
structure BridgeObs where
  toTarget : Bytes        -- bytes the target end received
  toSource : Bytes        -- bytes the source end received
  s2tEof : Bool           -- source→target ended because the source script was exhausted (EOF)
  t2sEof : Bool
  returned : Bool         -- Start returned within the watchdog
  srcClosed : Bool
  tgtClosed : Bool
  removed : Bool          -- the session manager no longer knows the tunnel
  sent : Nat              -- Bridge.GetBytesSent
  received : Nat          -- Bridge.GetBytesReceived
deriving DecidableEq, Repr

def holdsBridge (srcReads tgtReads : List ReadEv) (o : BridgeObs) : Bool :=
  o.toTarget.isPrefixOf (allData srcReads) && o.toSource.isPrefixOf (allData tgtReads) &&
  (if o.s2tEof then o.toTarget == allData srcReads else true) &&
  (if o.t2sEof then o.toSource == allData tgtReads else true) &&
  o.returned && o.srcClosed && o.tgtClosed && o.removed &&
  o.sent == o.toTarget.length && o.received == o.toSource.length

/-- A direction whose scripts contain no fault: no fatal read, no cancellation, and every write of the
receiving end accepts everything without error and without blocking. -/
def faultFreeDir (reads : List ReadEv) (writes : List WriteEv) : Bool :=
  reads.all (fun ev => !ev.cancelled && ev.err != some .fatal) &&
  writes.all (fun w => !w.err && !w.block && decide (maxRead reads ≤ w.accept))

/-- "…is all of it if neither end closed early": when neither end's script contains a fault, the
bridge never ends by itself — if it ended, one end reached its end-of-stream (and by the clauses of
`holdsBridge` everything that end had sent was delivered). -/
def holdsNoSpontaneousClose (srcReads tgtReads : List ReadEv) (srcWrites tgtWrites : List WriteEv)
    (o : BridgeObs) : Bool :=
  if faultFreeDir srcReads tgtWrites && faultFreeDir tgtReads srcWrites then
    (if o.returned then o.s2tEof || o.t2sEof else true)
  else true

/-- The model's observation of a finished bridge. -/
def Bridge.obs (b : Bridge) : BridgeObs :=
  { toTarget := b.s2t.st.delivered, toSource := b.t2s.st.delivered,
    s2tEof := b.s2t.stop == some .eof, t2sEof := b.t2s.stop == some .eof,
    returned := b.finished, srcClosed := b.closed, tgtClosed := b.closed, removed := b.removed,
    sent := b.s2t.st.counter, received := b.t2s.st.counter }

end Tunnox.C02
