import TunnoxModel.Model.C20
/-!
C20 — the property as decidable predicates on observations, against an independent RFC 1928 grammar.

The grammar (`Greeting.enc`, `Request.enc`, `Datagram.enc`) and the reference decoders (`decodeNeg`,
`decodeUDP`) use the numbers printed in RFC 1928 / RFC 1929, *not* the Go constants: the theorems of
`Props/C20.lean` are what ties the two.  Leniencies of the reference (documented in checks/c20.py):
RSV octets are ignored on receipt; a zero-length domain name is grammatical; when several fields of a
request are invalid the first one in wire order (VER, CMD, ATYP) decides the reply.
-/
namespace Tunnox.C20

/-! ### Grammar -/

inductive Addr where
  | ip4 (b : Bytes)
  | dom (b : Bytes)
  | ip6 (b : Bytes)
deriving DecidableEq, Repr

def Addr.WF : Addr → Bool
  | .ip4 b => b.length == 4
  | .dom b => decide (b.length ≤ 255)
  | .ip6 b => b.length == 16

/-- ATYP octet (RFC 1928 §4). -/
def Addr.atyp : Addr → Nat
  | .ip4 _ => 1
  | .dom _ => 3
  | .ip6 _ => 4

def Addr.enc : Addr → Bytes
  | .ip4 b => b
  | .dom b => u8 b.length :: b
  | .ip6 b => b

/-- DST.PORT in network octet order. -/
def encPort (p : Nat) : Bytes := [u8 (p / 256), u8 (p % 256)]

/-- `VER NMETHODS METHODS` (§3). -/
def encGreeting (methods : Bytes) : Bytes := 5 :: u8 methods.length :: methods

/-- `VER CMD RSV ATYP DST.ADDR DST.PORT` (§4). -/
structure Request where
  cmd : Nat
  rsv : Byte
  addr : Addr
  port : Nat
deriving DecidableEq, Repr

def Request.WF (r : Request) : Bool := decide (r.cmd < 256) && r.addr.WF && decide (r.port < 65536)

def Request.enc (r : Request) : Bytes :=
  [5, u8 r.cmd, r.rsv, u8 r.addr.atyp] ++ r.addr.enc ++ encPort r.port

/-- RFC 1929 `VER ULEN UNAME PLEN PASSWD`. -/
def encAuth (user pass : Bytes) : Bytes := 1 :: u8 user.length :: user ++ u8 pass.length :: pass

/-- `RSV RSV FRAG ATYP DST.ADDR DST.PORT DATA` (§7), FRAG = 0 (standalone datagram). -/
structure Datagram where
  rsv1 : Byte
  rsv2 : Byte
  addr : Addr
  port : Nat
  payload : Bytes
deriving DecidableEq, Repr

def Datagram.WF (d : Datagram) : Bool := d.addr.WF && decide (d.port < 65536)

def Datagram.enc (d : Datagram) : Bytes :=
  [d.rsv1, d.rsv2, 0, u8 d.addr.atyp] ++ d.addr.enc ++ encPort d.port ++ d.payload

/-- The text under which the code reports an address (`net.IP.String()` / the name itself). -/
def hostText (c : IPText) : Addr → Text
  | .ip4 b => ipString c b
  | .dom b => b
  | .ip6 b => ipString c b

/-! ### Reference decoders (flat byte strings) -/

inductive AddrRes where
  | bad                                 -- ATYP not defined by the RFC
  | short                               -- the string ends inside the address
  | ok (a : Addr) (rest : Bytes)
deriving DecidableEq, Repr

def decAddr (atyp : Nat) (bs : Bytes) : AddrRes :=
  if atyp = 1 then (if 4 ≤ bs.length then .ok (.ip4 (bs.take 4)) (bs.drop 4) else .short)
  else if atyp = 4 then (if 16 ≤ bs.length then .ok (.ip6 (bs.take 16)) (bs.drop 16) else .short)
  else if atyp = 3 then
    match bs with
    | [] => .short
    | l :: r => if l.toNat ≤ r.length then .ok (.dom (r.take l.toNat)) (r.drop l.toNat) else .short
  else .bad

/-- What a server supports: the one authentication method it requires (0 none, 2 user/password with
the given credentials) and the commands it serves. -/
structure Profile where
  method : Nat
  creds : Option (Text × Text)
  cmds : List Nat

inductive Why where
  | truncated | version | noMethods | noAcceptable | authVersion | authFailed
  | reqVersion | command | addrType
deriving DecidableEq, Repr

/-- `used`: for `accept` the exact length of the negotiation; for `reject` the end of the message
part that decides the rejection (a parser must not have consumed more).  `pre`: the replies the
server owes for the parts already accepted (method selection, authentication status). -/
inductive Verdict where
  | accept (cmd : Nat) (addr : Addr) (port : Nat) (used : Nat) (pre : Bytes)
  | reject (why : Why) (used : Nat) (pre : Bytes)
deriving DecidableEq, Repr

/-- The request, starting at offset `off`. -/
def decodeReq (pf : Profile) (off : Nat) (pre : Bytes) (bs : Bytes) : Verdict :=
  match bs with
  | ver :: cmd :: _rsv :: atyp :: rest =>
    if ver.toNat ≠ 5 then .reject .reqVersion (off + 4) pre
    else if ¬ pf.cmds.contains cmd.toNat then .reject .command (off + 4) pre
    else
      match decAddr atyp.toNat rest with
      | .bad => .reject .addrType (off + 4) pre
      | .short => .reject .truncated (off + bs.length) pre
      | .ok a rest' =>
        match rest' with
        | p1 :: p2 :: _ =>
          .accept cmd.toNat a (p1.toNat * 256 + p2.toNat) (off + 4 + a.enc.length + 2) pre
        | _ => .reject .truncated (off + bs.length) pre
  | _ => .reject .truncated (off + bs.length) pre

/-- RFC 1929 sub-negotiation, then the request. -/
def decodeAuth (pf : Profile) (user pass : Text) (off : Nat) (pre : Bytes) (bs : Bytes) : Verdict :=
  match bs with
  | ver :: ulen :: rest =>
    if ver.toNat ≠ 1 then .reject .authVersion (off + 2) pre
    else if rest.length < ulen.toNat + 1 then .reject .truncated (off + bs.length) pre
    else
      let plen := byteAt rest ulen.toNat
      let rest2 := rest.drop (ulen.toNat + 1)
      if rest2.length < plen then .reject .truncated (off + bs.length) pre
      else if rest.take ulen.toNat = user ∧ rest2.take plen = pass then
        decodeReq pf (off + 2 + ulen.toNat + 1 + plen) (pre ++ [1, 0]) (rest2.drop plen)
      else .reject .authFailed (off + 2 + ulen.toNat + 1 + plen) pre
  | _ => .reject .truncated (off + bs.length) pre

/-- The whole negotiation a client can send before the server's final reply. -/
def decodeNeg (pf : Profile) (bs : Bytes) : Verdict :=
  match bs with
  | ver :: nm :: rest =>
    if ver.toNat ≠ 5 then .reject .version 2 []
    else if nm.toNat = 0 then .reject .noMethods 2 []
    else if rest.length < nm.toNat then .reject .truncated bs.length []
    else if ¬ (rest.take nm.toNat).contains (u8 pf.method) then .reject .noAcceptable (2 + nm.toNat) []
    else
      match pf.creds with
      | none => decodeReq pf (2 + nm.toNat) [5, u8 pf.method] (rest.drop nm.toNat)
      | some up => decodeAuth pf up.1 up.2 (2 + nm.toNat) [5, u8 pf.method] (rest.drop nm.toNat)
  | _ => .reject .truncated bs.length []

/-- `VER REP RSV ATYP BND.ADDR BND.PORT` with the given reply code (§6). -/
def isReply (rep : Nat) (t : Bytes) : Bool :=
  match t with
  | v :: r :: z :: a :: rest =>
    v == 5 && r.toNat == rep && z == 0 &&
      ((a == 1 && rest.length == 6) || (a == 4 && rest.length == 18) ||
       (a == 3 && (match rest with | l :: n => n.length == l.toNat + 2 | [] => false)))
  | _ => false

/-- A reply announcing some failure. -/
def isFailureReply (t : Bytes) : Bool :=
  match t with
  | _ :: r :: _ => r != 0 && isReply r.toNat t
  | _ => false

/-- What the server may have written for the rejected part (after `pre`). -/
def replyFor (why : Why) (t : Bytes) : Bool :=
  match why with
  | .truncated => t.isEmpty
  | .version => t.isEmpty
  | .noMethods => t.isEmpty || t == [5, 255]
  | .noAcceptable => t == [5, 255]
  | .authVersion => t.isEmpty || (match t with | [1, s] => s != 0 | _ => false)
  | .authFailed => (match t with | [1, s] => s != 0 | _ => false)
  | .reqVersion => t.isEmpty || isFailureReply t
  | .command => isReply 7 t
  | .addrType => isReply 8 t

/-- An observation agrees with a verdict.  `res`: what the parser returned (`none` = error);
`written`: every byte it wrote back; `consumed`: how many input bytes it took from the connection.
`expect` renders the RFC's reading of the request in the parser's result type. -/
def agrees {β : Type} [DecidableEq β] (expect : Nat → Addr → Nat → β) (v : Verdict)
    (res : Option β) (written : Bytes) (consumed : Nat) : Bool :=
  match v with
  | .accept cmd a port used pre =>
    decide (res = some (expect cmd a port)) && written == pre && consumed == used
  | .reject why used pre =>
    res.isNone && decide (consumed ≤ used) && pre.isPrefixOf written && replyFor why (written.drop pre.length)

/-- **The negotiation property on one observation.**  `input`: every byte the application sent. -/
def holdsNeg {β : Type} [DecidableEq β] (pf : Profile) (expect : Nat → Addr → Nat → β)
    (input : Bytes) (res : Option β) (written : Bytes) (consumed : Nat) : Bool :=
  agrees expect (decodeNeg pf input) res written consumed

/-- The listener's profile: no authentication; CONNECT and UDP ASSOCIATE. -/
def listenerProfile : Profile := ⟨0, none, [1, 3]⟩

/-- The adapter's profile: CONNECT only; user/password iff configured. -/
def adapterProfile (cfg : AdCfg) : Profile :=
  if cfg.auth then ⟨2, some (cfg.user, cfg.pass), [1]⟩ else ⟨0, none, [1]⟩

def hsExpect (c : IPText) (cmd : Nat) (a : Addr) (port : Nat) : HsRes := ⟨cmd, hostText c a, port⟩

def adExpect (c : IPText) (_cmd : Nat) (a : Addr) (port : Nat) : Text :=
  hostText c a ++ [58] ++ decText port

def HsOut.res : HsOut → Option HsRes
  | .ok r => some r
  | .fail _ => none

def AdOut.res : AdOut → Option Text
  | .ok t => some t
  | .fail _ => none

/-- Observation of one `Listener.Handshake` call. -/
structure HsObs where
  hs : Hs
  consumed : Nat
deriving DecidableEq, Repr

/-- The observation made of a run on `input` that returned `hs` and left `left` bytes unread
(the driver builds the implementation's observation with the same function). -/
def hsObs (input : Bytes) (hs : Hs) (left : Nat) : HsObs := ⟨hs, input.length - left⟩

def holdsHs (c : IPText) (input : Bytes) (o : HsObs) : Bool :=
  holdsNeg listenerProfile (hsExpect c) input o.hs.out.res o.hs.written o.consumed

/-- Observation of `handleHandshake` + `handleRequest`. -/
structure AdObs where
  ad : Ad
  consumed : Nat
deriving DecidableEq, Repr

def adObs (input : Bytes) (ad : Ad) (left : Nat) : AdObs := ⟨ad, input.length - left⟩

def holdsAd (c : IPText) (cfg : AdCfg) (input : Bytes) (o : AdObs) : Bool :=
  holdsNeg (adapterProfile cfg) (adExpect c) input o.ad.out.res o.ad.written o.consumed

/-! ### UDP datagrams -/

inductive UVerdict where
  | accept (addr : Addr) (port : Nat) (payload : Bytes)
  | drop
deriving DecidableEq, Repr

def decodeUDP (bs : Bytes) : UVerdict :=
  match bs with
  | _ :: _ :: frag :: atyp :: rest =>
    if frag ≠ 0 then .drop
    else
      match decAddr atyp.toNat rest with
      | .ok a (p1 :: p2 :: payload) => .accept a (p1.toNat * 256 + p2.toNat) payload
      | _ => .drop
  | _ => .drop

/-- The parse result the RFC assigns to a datagram. -/
def udpExpect (c : IPText) (bs : Bytes) : Option UDest :=
  match decodeUDP bs with
  | .accept a port payload => some ⟨hostText c a, port, payload⟩
  | .drop => none

def UOut.res : UOut → Option UDest
  | .ok d => some d
  | .fail _ => none

/-- What the round-trip statements assume of the `net` package (trusted, checked per case by the
harness tables): parsing the text of an address gives the address back (IPv4-mapped addresses print
as IPv4, so they come back as 4 bytes), and `ParseIP` only returns 4-byte or non-mapped 16-byte
results after the code's `To4`/`To16` cascade. -/
structure IPText.RT (c : IPText) : Prop where
  parse4 : ∀ b : Bytes, b.length = 4 → c.parse (c.str4 b) = some b
  parse16 : ∀ b : Bytes, b.length = 16 → isV4Mapped b = false → c.parse (c.str16 b) = some b
  shape : ∀ (h : Text) (b : Bytes), c.parse h = some b →
    b.length = 4 ∨ (b.length = 16 ∧ isV4Mapped b = false)

/-- Two host texts name the same destination: equal, or IP literals of the same address. -/
def sameDest (c : IPText) (h1 h2 : Text) : Bool :=
  h1 == h2 || ((c.parse h1).isSome && c.parse h1 == c.parse h2)

/-- Observation of `parseUDPHeader data`, and when it succeeded of
`buildUDPHeader` on its result followed by `parseUDPHeader` again. -/
structure UObs where
  first : UOut
  again : Option (Bytes × UOut)
deriving DecidableEq, Repr

/-- What the relay does with a datagram and, on the way back, with its result (model side). -/
def udpObs (c : IPText) (data : Bytes) : UObs :=
  match parseUDPHeader c data with
  | .fail e => ⟨.fail e, none⟩
  | .ok d => ⟨.ok d, some (buildUDPHeader c d.host d.port d.payload,
      parseUDPHeader c (buildUDPHeader c d.host d.port d.payload))⟩

/-- **The datagram property on one observation**: the first parse is the RFC's reading of `data`
(payload intact, or dropped); the rebuilt header is again an RFC datagram, read as the RFC reads
it, with the same destination, port and payload. -/
def holdsUdp (c : IPText) (data : Bytes) (o : UObs) : Bool :=
  decide (o.first.res = udpExpect c data) &&
  (match o.first, o.again with
   | .fail _, none => true
   | .ok d, some (b2, second) =>
     decide (second.res = udpExpect c b2) &&
     (match second with
      | .ok d2 => sameDest c d.host d2.host && d2.port == d.port && d2.payload == d.payload
      | .fail _ => false)
   | _, _ => false)

/-- What `buildUDPHeader` accepts meaningfully: a name that fits the length octet, a 16-bit port. -/
def BuildWF (host : Text) (port : Nat) : Bool := decide (host.length ≤ 255) && decide (port < 65536)

/-- Observation of `buildUDPHeader host port payload` followed by `parseUDPHeader`. -/
structure BObs where
  built : Bytes
  parsed : UOut
deriving DecidableEq, Repr

def buildObs (c : IPText) (host : Text) (port : Nat) (payload : Bytes) : BObs :=
  ⟨buildUDPHeader c host port payload, parseUDPHeader c (buildUDPHeader c host port payload)⟩

def holdsBuild (c : IPText) (host : Text) (port : Nat) (payload : Bytes) (o : BObs) : Bool :=
  decide (o.parsed.res = udpExpect c o.built) &&
  (!BuildWF host port ||
   (match o.parsed with
    | .ok d => sameDest c host d.host && d.port == port && d.payload == payload
    | .fail _ => false))

/-! ### What the listener does with the parsed request -/

/-- Policy of the listener, not of the RFC: DNS-over-TLS to the virtual DNS address is refused so
that the system falls back to UDP DNS. -/
def dotIntercept (host : Text) (port : Nat) : Bool :=
  host == [49, 48, 46, 48, 46, 48, 46, 49] && port == 853      -- "10.0.0.1"

/-- Success reply to UDP ASSOCIATE: `REP = 0`, BND.PORT the relay's port, BND.ADDR the relay's
address when it is IPv4 (for an IPv6-only relay address the code answers `0.0.0.0`; tolerated). -/
def bindReply (ip : Bytes) (port : Nat) (r : Bytes) : Bool :=
  isReply 0 r && r.drop (r.length - 2) == encPort port &&
  (match to4 ip with
   | some b => r == [5, 0, 0, 1] ++ b ++ encPort port
   | none => true)

/-- **The connection property on one observation**: a rejected negotiation creates nothing and is
closed after the prescribed reply; an accepted CONNECT hands the tunnel creator exactly the RFC's
host text and port, this listener's mapping identity, and every byte that followed the request,
then reports success (`REP = 0`) or failure as the creator did; an accepted UDP ASSOCIATE creates
the relay and announces its address. -/
def holdsConn (c : IPText) (cfg : ConnCfg) (input : Bytes) (o : ConnObs) : Bool :=
  match decodeNeg listenerProfile input with
  | .reject why _ pre =>
    o.events.isEmpty && o.closed && pre.isPrefixOf o.written && replyFor why (o.written.drop pre.length)
  | .accept cmd a port used pre =>
    pre.isPrefixOf o.written &&
    (if cmd = 1 then
      if dotIntercept (hostText c a) port || !cfg.hasTunnel then
        o.events.isEmpty && o.closed && isFailureReply (o.written.drop pre.length)
      else
        o.events == [.tunnel cfg.mapping cfg.target (hostText c a) port cfg.secret (input.drop used)] &&
        (if cfg.tunnelOk then !o.closed && isReply 0 (o.written.drop pre.length)
         else o.closed && isFailureReply (o.written.drop pre.length))
    else
      if !cfg.hasRelay then o.events.isEmpty && o.closed && isReply 7 (o.written.drop pre.length)
      else
        o.events == [.relay cfg.mapping cfg.target cfg.secret] &&
        (if cfg.relayOk then !o.closed && bindReply cfg.bindIP cfg.bindPort (o.written.drop pre.length)
         else o.closed && isFailureReply (o.written.drop pre.length)))

/-! ### Datagrams relayed to the tunnels -/

/-- What the tunnels must receive for the datagrams `ds`: one `SendPacket` per datagram the RFC gives
a reading, to that destination, carrying exactly that datagram's payload. -/
def relayExpect (c : IPText) (ds : List Bytes) : List UDest := ds.filterMap (udpExpect c)

/-- **The relay property on one observation**: the packets handed to the tunnels are, up to order
(goroutines finish in any order), exactly the expected ones — none corrupted, lost or duplicated. -/
def holdsRelay (c : IPText) (ds : List Bytes) (sent : List UDest) : Bool :=
  sent.isPerm (relayExpect c ds)

/-- The host text `parseUDPHeader` reports for a header built from `host`: the canonical text of the
address when `host` is an IP literal, `host` itself otherwise. -/
def rebuiltHost (c : IPText) (host : Text) : Text :=
  match c.parse host with
  | some ip => ipString c ip
  | none => host

/-- Everything the relay exchanged with its surroundings for one batch of datagrams: packets given to
tunnels, DNS queries given to the control channel (server, query), datagrams sent back to the
application. `answer` is how the doubles answer a payload (tunnel / DNS). -/
structure RelayIO where
  fw : List UDest
  dq : List (Text × Bytes)
  rx : List Bytes
deriving DecidableEq, Repr

/-- What the model relay exchanges, given what it handed on (`sent`). -/
def relayIO (c : IPText) (dns : Bool) (answer : Bool → Bytes → Bytes) (sent : List UDest) : RelayIO :=
  ⟨sent.filter (fun d => !isDnsRoute dns d),
   (sent.filter (isDnsRoute dns)).map (fun d => (dnsServer d.host, d.payload)),
   sent.map (fun d => replyDatagram c d (answer (isDnsRoute dns d) d.payload))⟩

/-- **The relay property, both directions, on one observation**: tunnels and DNS handler received,
up to order, exactly the expected payloads for the expected destinations; and what came back to the
application is, up to order, one RFC datagram per answer, naming the destination the answer belongs
to (same text, or the canonical text of the same IP literal), the same port, the answer intact. -/
def holdsRelayIO (c : IPText) (dns : Bool) (answer : Bool → Bytes → Bytes) (ds : List Bytes) (o : RelayIO) : Bool :=
  o.fw.isPerm ((relayExpect c ds).filter (fun d => !isDnsRoute dns d)) &&
  o.dq.isPerm (((relayExpect c ds).filter (isDnsRoute dns)).map (fun d => (dnsServer d.host, d.payload))) &&
  (o.rx.map (udpExpect c)).isPerm ((relayExpect c ds).map
    (fun d => some ⟨rebuiltHost c d.host, d.port, answer (isDnsRoute dns d) d.payload⟩))

/-- **The adapter's whole connection handler, no session attached**: the connection is always
closed; an accepted negotiation is consumed exactly and answered, after the replies owed, with a
failure reply (there is nothing to connect through); a rejected one as in `holdsAd`. -/
def holdsAdConn (cfg : AdCfg) (input written : Bytes) (consumed : Nat) (closed : Bool) : Bool :=
  closed &&
  (match decodeNeg (adapterProfile cfg) input with
   | .accept _ _ _ used pre =>
     pre.isPrefixOf written && isFailureReply (written.drop pre.length) && consumed == used
   | .reject why used pre =>
     decide (consumed ≤ used) && pre.isPrefixOf written && replyFor why (written.drop pre.length))

end Tunnox.C20
