import TunnoxModel.Model.C17
/-!
# C17 — the property as a decidable predicate on observations

Observation = the events in the order they happened, each with the occupancy the observer read right
after the step (connections in the map / registry, live tunnels of the mapping, active codes /
mappings in storage), plus the list of admitted items at the end.  The history is replayed on a
reference occupancy list:

* the occupancy reported after EVERY step equals the reference and is within the cap (`capOk`);
* an admission adds exactly one fresh item (minus the evicted victim, which must have been present;
  a victim that leaves in a step of its own is an `evi` event);
* a refused request changes nothing: the occupancy is the one before it, and the harness saw no
  change of the state digest by any step of the refused request (`dirty = false`);
* the items left at the end are exactly the reference list.
-/
namespace Tunnox.C17

/-- `n` admitted items respect the limit (`zeroUnl`: limit 0 means unlimited). -/
def capOk (zeroUnl : Bool) (limit n : Nat) : Bool := (zeroUnl && limit == 0) || decide (n ≤ limit)

structure SpecSt where
  occ : List Nat
  good : Bool

def specStep (zu : Bool) (limit : Nat) (s : SpecSt) : Ev → SpecSt
  | .stp _ n => ⟨s.occ, s.good && n == s.occ.length && capOk zu limit n⟩
  | .blk _ n => ⟨s.occ, s.good && n == s.occ.length && capOk zu limit n⟩
  | .nop _ n => ⟨s.occ, s.good && n == s.occ.length && capOk zu limit n⟩
  | .ref _ dirty n => ⟨s.occ, s.good && !dirty && n == s.occ.length && capOk zu limit n⟩
  | .adm _ item none n =>
    ⟨s.occ ++ [item], s.good && !s.occ.contains item && n == s.occ.length + 1 && capOk zu limit n⟩
  | .adm _ item (some v) n =>
    ⟨s.occ.erase v ++ [item],
     s.good && !s.occ.contains item && s.occ.contains v && n == (s.occ.erase v).length + 1 && capOk zu limit n⟩
  | .rel _ item n =>
    ⟨s.occ.erase item, s.good && s.occ.contains item && n == (s.occ.erase item).length && capOk zu limit n⟩
  | .evi _ v n =>
    ⟨s.occ.erase v, s.good && s.occ.contains v && n == (s.occ.erase v).length && capOk zu limit n⟩

def replay (zu : Bool) (limit pre : Nat) (tr : List Ev) : SpecSt :=
  tr.foldl (specStep zu limit) ⟨List.range pre, true⟩

/-- The property on a gated observation (`pre` = initial occupancy, part of the input). -/
def holds (zu : Bool) (limit pre : Nat) (tr : List Ev) (fin : List Nat) : Bool :=
  (replay zu limit pre tr).good && (fin == (replay zu limit pre tr).occ)

/-- The property on a free-running observation (`n` requests released by one barrier, none of them
released before all are decided): `a` admitted, `r` refused, `m` = maximum simultaneously admitted
count seen inside the guarded region, `f` = occupancy at the end, `d` = a refused request changed state. -/
def holdsFree (zu : Bool) (limit pre n a r m f : Nat) (d : Bool) : Bool :=
  capOk zu limit m && capOk zu limit f && (a + r == n) && (f == pre + a) && (m == f) && !d

/-- Largest occupancy mentioned by a history (vocabulary for the cap corollary). -/
def evOcc : Ev → Nat
  | .stp _ n => n
  | .blk _ n => n
  | .nop _ n => n
  | .ref _ _ n => n
  | .adm _ _ _ n => n
  | .rel _ _ n => n
  | .evi _ _ n => n

end Tunnox.C17
