import TunnoxModel.Model.FMap
/-!
# `TTLStore` — the simple sequential map with expiry (reference specification)

The storage contract every backend is measured against (C13) and that the store
clients (C06, C08, C09, C14, C15, C19) are stated over.  Core Lean only, executable.

* Clock: explicit `now : Nat` (nanoseconds) handed to every operation.
* An entry is `(val, exp)`; `exp = 0` means **never expires**; otherwise the entry is
  visible while `now ≤ exp`.  Invisible entries behave exactly like absent ones
  (`find`), for every operation — that is the whole expiry semantics.
* Lifetimes: `ttl : Int` nanoseconds, `ttl ≤ 0` ⇒ never expires (`deadline`), everywhere:
  `set`, `setNX`, `cas`, `expire`.
* Values: atoms (strings — JSON included — and 64-bit integers), lists of atoms,
  hashes field ↦ atom.
* Keys created implicitly by `append`, `hset`, `incrBy` get the default lifetime `dflt`.
* Counters wrap like Go's `int64` (`wrap64`).

API: one function per operation returning `(store', result)`, plus `Op`/`Res`/`step`/`run`
for histories.  `find` is the only way a value is read.
-/
namespace Tunnox.TTLStore

/-- Scalar values: strings (JSON documents are strings) and integers. -/
inductive Atom where
  | str (s : String)
  | int (n : Int)
  deriving DecidableEq, Repr, Inhabited

/-- Stored values. -/
inductive Val where
  | atom (a : Atom)
  | list (xs : List Atom)
  | hash (h : FMap String Atom)
  deriving DecidableEq, Repr, Inhabited

/-- A stored entry: value and absolute deadline (`0` = never expires). -/
structure Entry where
  val : Val
  exp : Nat
  deriving DecidableEq, Repr

/-- Visible at `now`: no deadline, or the deadline has not passed. -/
def Entry.live (now : Nat) (e : Entry) : Bool := e.exp == 0 || decide (now ≤ e.exp)

abbrev Store := FMap String Entry

def empty : Store := FMap.empty

/-- Absolute deadline of a lifetime given at `now`; `ttl ≤ 0` ⇒ never. -/
def deadline (now : Nat) (ttl : Int) : Nat := if ttl ≤ 0 then 0 else now + ttl.toNat

/-- Go `int64` wrap-around. -/
def wrap64 (i : Int) : Int := (i + 9223372036854775808) % 18446744073709551616 - 9223372036854775808

/-- The visible entry of `k` at `now`. -/
def find (now : Nat) (s : Store) (k : String) : Option Entry := (s.lookup k).filter (Entry.live now)

/-- Results of operations. -/
inductive Res where
  | ok
  | notFound
  | invalidType
  | val (v : Val)
  | bool (b : Bool)
  | int (n : Int)
  | dur (d : Nat)          -- remaining lifetime in ns, 0 = never expires
  deriving DecidableEq, Repr, Inhabited

/-! ## Key-value -/

def get (now : Nat) (s : Store) (k : String) : Store × Res :=
  match find now s k with
  | some e => (s, .val e.val)
  | none => (s, .notFound)

def set (now : Nat) (s : Store) (k : String) (v : Val) (ttl : Int) : Store × Res :=
  (s.insert k ⟨v, deadline now ttl⟩, .ok)

def delete (s : Store) (k : String) : Store × Res := (s.erase k, .ok)

def «exists» (now : Nat) (s : Store) (k : String) : Store × Res :=
  (s, .bool (find now s k).isSome)

/-- Set-if-absent. -/
def setNX (now : Nat) (s : Store) (k : String) (v : Val) (ttl : Int) : Store × Res :=
  match find now s k with
  | some _ => (s, .bool false)
  | none => (s.insert k ⟨v, deadline now ttl⟩, .bool true)

/-- Compare-and-swap; `old = none` means "expect the key to be absent". -/
def cas (now : Nat) (s : Store) (k : String) (old : Option Atom) (new : Val) (ttl : Int) : Store × Res :=
  match find now s k with
  | none =>
    match old with
    | none => (s.insert k ⟨new, deadline now ttl⟩, .bool true)
    | some _ => (s, .bool false)
  | some e =>
    match old with
    | none => (s, .bool false)
    | some a => if e.val = .atom a then (s.insert k ⟨new, deadline now ttl⟩, .bool true) else (s, .bool false)

/-- Give `k` a new lifetime (`ttl ≤ 0`: make it permanent). -/
def expire (now : Nat) (s : Store) (k : String) (ttl : Int) : Store × Res :=
  match find now s k with
  | none => (s, .notFound)
  | some e => (s.insert k ⟨e.val, deadline now ttl⟩, .ok)

/-- Remaining lifetime, `0` for a permanent key. -/
def ttl (now : Nat) (s : Store) (k : String) : Store × Res :=
  match find now s k with
  | none => (s, .notFound)
  | some e => (s, .dur (if e.exp = 0 then 0 else e.exp - now))

/-! ## Lists -/

def getList (now : Nat) (s : Store) (k : String) : Store × Res :=
  match find now s k with
  | none => (s, .notFound)
  | some e =>
    match e.val with
    | .list xs => (s, .val (.list xs))
    | _ => (s, .invalidType)

def append (dflt now : Nat) (s : Store) (k : String) (a : Atom) : Store × Res :=
  match find now s k with
  | none => (s.insert k ⟨.list [a], now + dflt⟩, .ok)
  | some e =>
    match e.val with
    | .list xs => (s.insert k ⟨.list (xs ++ [a]), e.exp⟩, .ok)
    | _ => (s, .invalidType)

/-- Remove every member equal to `a`. -/
def remove (now : Nat) (s : Store) (k : String) (a : Atom) : Store × Res :=
  match find now s k with
  | none => (s, .ok)
  | some e =>
    match e.val with
    | .list xs => (s.insert k ⟨.list (xs.filter (fun x => x ≠ a)), e.exp⟩, .ok)
    | _ => (s, .invalidType)

/-! ## Hashes -/

/-- Set a field. A visible non-hash value is replaced by a one-field hash and keeps its deadline. -/
def hset (dflt now : Nat) (s : Store) (k f : String) (a : Atom) : Store × Res :=
  match find now s k with
  | none => (s.insert k ⟨.hash (FMap.insert FMap.empty f a), now + dflt⟩, .ok)
  | some e =>
    match e.val with
    | .hash h => (s.insert k ⟨.hash (FMap.insert h f a), e.exp⟩, .ok)
    | _ => (s.insert k ⟨.hash (FMap.insert FMap.empty f a), e.exp⟩, .ok)

def hget (now : Nat) (s : Store) (k f : String) : Store × Res :=
  match find now s k with
  | none => (s, .notFound)
  | some e =>
    match e.val with
    | .hash h =>
      match FMap.lookup h f with
      | some a => (s, .val (.atom a))
      | none => (s, .notFound)
    | _ => (s, .invalidType)

def hall (now : Nat) (s : Store) (k : String) : Store × Res :=
  match find now s k with
  | none => (s, .notFound)
  | some e =>
    match e.val with
    | .hash h => (s, .val (.hash h))
    | _ => (s, .invalidType)

def hdel (now : Nat) (s : Store) (k f : String) : Store × Res :=
  match find now s k with
  | none => (s, .ok)
  | some e =>
    match e.val with
    | .hash h => (s.insert k ⟨.hash (FMap.erase h f), e.exp⟩, .ok)
    | _ => (s, .invalidType)

/-! ## Counters -/

def incrBy (dflt now : Nat) (s : Store) (k : String) (d : Int) : Store × Res :=
  match find now s k with
  | none => (s.insert k ⟨.atom (.int (wrap64 (0 + d))), now + dflt⟩, .int (wrap64 (0 + d)))
  | some e =>
    match e.val with
    | .atom (.int c) => (s.insert k ⟨.atom (.int (wrap64 (c + d))), e.exp⟩, .int (wrap64 (c + d)))
    | _ => (s, .invalidType)

/-! ## Histories -/

/-- One storage call. -/
inductive Op where
  | set (k : String) (v : Val) (ttl : Int)
  | get (k : String)
  | delete (k : String)
  | «exists» (k : String)
  | setNX (k : String) (v : Val) (ttl : Int)
  | cas (k : String) (old : Option Atom) (new : Val) (ttl : Int)
  | expire (k : String) (ttl : Int)
  | ttl (k : String)
  | getList (k : String)
  | append (k : String) (a : Atom)
  | remove (k : String) (a : Atom)
  | hset (k f : String) (a : Atom)
  | hget (k f : String)
  | hall (k : String)
  | hdel (k f : String)
  | incrBy (k : String) (d : Int)
  | gc                       -- background sweep of expired entries: invisible
  | gcKey (k : String)       -- deferred removal of one expired entry: invisible
  deriving DecidableEq, Repr, Inhabited

/-- The key an operation addresses (`none` for the sweep). -/
def Op.key : Op → Option String
  | .set k _ _ | .get k | .delete k | .exists k | .setNX k _ _ | .cas k _ _ _ | .expire k _ | .ttl k
  | .getList k | .append k _ | .remove k _ | .hset k _ _ | .hget k _ | .hall k | .hdel k _
  | .incrBy k _ | .gcKey k => some k
  | .gc => none

def step (dflt now : Nat) (op : Op) (s : Store) : Store × Res :=
  match op with
  | .set k v t => set now s k v t
  | .get k => get now s k
  | .delete k => delete s k
  | .exists k => «exists» now s k
  | .setNX k v t => setNX now s k v t
  | .cas k o n t => cas now s k o n t
  | .expire k t => expire now s k t
  | .ttl k => ttl now s k
  | .getList k => getList now s k
  | .append k a => append dflt now s k a
  | .remove k a => remove now s k a
  | .hset k f a => hset dflt now s k f a
  | .hget k f => hget now s k f
  | .hall k => hall now s k
  | .hdel k f => hdel now s k f
  | .incrBy k d => incrBy dflt now s k d
  | .gc => (s, .ok)
  | .gcKey _ => (s, .ok)

/-- A history: operations with the clock reading at which each takes effect. -/
abbrev History := List (Nat × Op)

/-- Results of a history from store `s`. -/
def run (dflt : Nat) : History → Store → List Res
  | [], _ => []
  | (now, op) :: h, s => (step dflt now op s).2 :: run dflt h (step dflt now op s).1

/-- Final store of a history. -/
def exec (dflt : Nat) : History → Store → Store
  | [], s => s
  | (now, op) :: h, s => exec dflt h (step dflt now op s).1

/-- Clock readings never go backwards. -/
def Monotone : History → Bool
  | [] => true
  | [_] => true
  | a :: b :: h => decide (a.1 ≤ b.1) && Monotone (b :: h)

end Tunnox.TTLStore
