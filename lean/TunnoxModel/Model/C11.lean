import TunnoxModel.Gen.C11
/-!
# C11 — executable model of command dispatch and of every dispatched handler's identity checks

Mirrors (same order of checks):
* `internal/protocol/session/command_integration.go` `handleCommandPacket`  ↦ `special`
* `internal/command/registry.go` + every `NewBaseHandler(packet.X, …)` site   ↦ `registryH`
* `internal/command/executor.go` `Execute` / `createCommandContext` (identity = `GetClientIDByConnectionID`) ↦ `ident`
* `session/socks5_tunnel_handler.go`, `traffic_report_handler.go`, `dns_handler.go`,
  `command_integration.go handleDisconnectCommand`, `command/handler_notification.go`, `command/handlers.go`,
  `command/handler_http_domain_*.go`, `app/server/{connection_code,mapping,config}_command_handlers.go` ↦ `execH`

The world is the client-owned state a command can read, change or reach: connections with their
authenticated identity, port mappings with their two parties, connection codes with their owner,
HTTP domain mappings with their owner.  Objects are named by their index in the world.
The claimed identity fields of a packet (`SenderId`, `ReceiverId`, `Token`) are part of `Cmd`;
no function below reads them.
-/
namespace Tunnox.C11
open Gen

/-- How far a connection got: only accepted (`bare`, no control connection yet), control connection
registered but not authenticated (`unauth`), authenticated as client `cid` (`auth`). -/
inductive ConnKind | bare | unauth | auth
deriving DecidableEq, Repr

structure Conn where
  kind : ConnKind
  cid : Nat
  node : Nat := 0          -- the server node the connection is attached to
deriving DecidableEq, Repr

structure Mapping where
  listen : Nat
  target : Nat
  socks : Bool
  active : Bool
deriving DecidableEq, Repr

structure Code where
  target : Nat
  activated : Bool
  actBy : Option Nat := none   -- the client that activated it (history): the mapping `actBy → target` it created is in `World.maps`
deriving DecidableEq, Repr

structure World where
  conns : List Conn
  maps : List Mapping
  codes : List Code
  doms : List Nat          -- owner of each HTTP domain mapping
  noExec : Bool := false   -- configuration: no CommandExecutor installed (`handleCommandPacket` falls back to `handleDefaultCommand`)
  xnode : Bool := false    -- configuration: connection-state store + cross-node pool + cross-node listener on every node
  bridge : Bool := false   -- a BridgeManager (message broker) joins the nodes; storage is shared by all nodes
deriving DecidableEq, Repr

/-! ## connection histories

What a connection is at the time of the command is the result of what happened on it before: handshake attempts
(`packet_handler_handshake.go handleHandshake` → `ServerAuthHandler.HandleHandshake`), possibly several, possibly
for different clients, with commands in between; and logins of the same client elsewhere. -/

inductive Step
  | accept              -- accepted, nothing else
  | refused             -- a handshake that was refused outright (unknown client)
  | pending (c : Nat)   -- phase 1 for client `c`: challenge issued, not answered
  | failed (c : Nat)    -- phase 2 for client `c` answered with a wrong response
  | login (c : Nat)     -- phase 1 + phase 2 with the right response: authenticated as `c`
deriving DecidableEq, Repr

/-- one step on one connection: only a successful login changes (sets) the identity; any handshake attempt
registers the control connection; a refused / pending / failed attempt on an authenticated connection leaves its
identity as it was -/
def Conn.step (x : Conn) : Step → Conn
  | .accept => x
  | .login c => if c == 0 then (if x.kind == .bare then { x with kind := .unauth } else x) else { x with kind := .auth, cid := c }
  | _ => if x.kind == .bare then { x with kind := .unauth } else x

def Conn.after (node : Nat) (steps : List Step) : Conn := steps.foldl Conn.step ⟨.bare, 0, node⟩

/-- a successful login of client `c` on connection `i` (node `nd`): every OTHER connection of that node that is
authenticated as `c` loses its control connection (`handleHandshake`: the old login is removed from the registry) -/
def kickOthers (i nd c : Nat) : List Conn → Nat → List Conn
  | [], _ => []
  | x :: xs, j =>
    (if j != i && x.kind == .auth && x.cid == c && x.node == nd then { x with kind := .bare, cid := 0 } else x) ::
      kickOthers i nd c xs (j + 1)

def setAt {α} (xs : List α) (i : Nat) (a : α) : List α := xs.set i a

/-- run connection `i`'s history on top of the connections established so far -/
def runSteps (i : Nat) : List Step → List Conn → List Conn
  | [], cs => cs
  | st :: rest, cs =>
    match cs[i]? with
    | none => cs
    | some x =>
      let x' := x.step st
      let cs1 := (match st with
        | .login c => if c == 0 then cs else kickOthers i x.node c cs 0
        | _ => cs)
      runSteps i rest (cs1.set i x')

/-- all connections, in the order their histories ran -/
def connsOfAux : List (Nat × List Step) → Nat → List Conn → List Conn
  | [], _, cs => cs
  | (_, steps) :: rest, i, cs => connsOfAux rest (i + 1) (runSteps i steps cs)

def connsOf (hs : List (Nat × List Step)) : List Conn :=
  connsOfAux hs 0 (hs.map (fun h => ⟨.bare, 0, h.1⟩))

/-- One command packet.  `m k d` name a mapping / code / domain: index ≥ 0, `-2` = an id that does
not exist, anything else = empty id.  `g` is the `target_client_id` of the body. -/
structure Cmd where
  ctype : Nat
  resp : Bool              -- packet type CommandResp instead of JsonCommand
  snd : String             -- claimed SenderId
  rcv : String             -- claimed ReceiverId
  tok : String             -- claimed Token
  bad : Bool               -- body is not valid JSON
  m : Int
  g : Int
  k : Int
  d : Int
  pick : Nat := 0          -- ghost: which candidate Go's map iteration meets first (default DNS target)
  extra : Nat := 0         -- claimed: when ≠ 0 the body also carries every identity-like JSON key (`Gen.c11.identityKeys`) with this foreign value
  faults : Nat := 0        -- ghost schedule: bit i set = the i-th storage read of the named mapping's main record during the command fails transiently
  late : Option Nat := none -- ghost schedule: the handler outlives the executor's RPC wait (timeout) and resumes while a command of connection `late` is in flight
deriving DecidableEq, Repr

/-- Repaired code vs. the code as found (five missing checks, see KNOWN_FINDINGS `fixed:` lines). -/
inductive Variant | asFound | repaired
deriving DecidableEq, Repr

inductive Rsp | none | ok | fail
deriving DecidableEq, Repr

inductive Obj | map (i : Nat) | code (i : Nat) | dom (i : Nat)
deriving DecidableEq, Repr

inductive Chg
  | mod (o : Obj) | del (o : Obj)
  | newMap (listen target : Nat) | newCode (target : Nat) | newDom (owner : Nat)
  | alien                   -- a change to an object the world description does not know
deriving DecidableEq, Repr

structure Dlv where
  conn : Nat
  ctype : Nat
  sender : Option Nat
deriving DecidableEq, Repr

/-- What one execution did: return value of `HandlePacket`, response class seen by the sender,
pre-existing objects disclosed to the sender, changes of client-owned state, command packets pushed
to connections, connections closed. -/
structure Run where
  ret : Bool
  rsp : Rsp
  view : List Obj
  chg : List Chg
  dlv : List Dlv
  gone : List Nat
deriving DecidableEq, Repr

/-! ## identity and lookups -/

/-- `GetClientIDByConnectionID` / handlers' `getClientID` / `getClientIDFromConnection`:
the client id bound to the connection by a successful handshake, else 0. -/
def ident (w : World) (f : Nat) : Nat :=
  match w.conns[f]? with
  | some ⟨.auth, c, _⟩ => c
  | _ => 0

/-- a control connection is registered for the connection (`clientRegistry.GetByConnID ≠ nil`) -/
def isCtl (w : World) (f : Nat) : Bool :=
  match w.conns[f]? with
  | some ⟨.bare, _, _⟩ => false
  | some _ => true
  | none => false

/-- the node a connection is attached to (each node has its own `SessionManager` and client registry) -/
def nodeOf (w : World) (f : Nat) : Nat :=
  match w.conns[f]? with
  | some c => c.node
  | none => 0

/-- `ClientRegistry.GetByClientID` on node `nd`: the connection of that node that authenticated as `c` last. -/
def onlineAux (nd c : Nat) : List Conn → Nat → Option Nat
  | [], _ => none
  | x :: xs, i =>
    match onlineAux nd c xs (i + 1) with
    | some j => some j
    | none => if x.kind == .auth && x.cid == c && x.node == nd then some i else none

def online (w : World) (nd : Nat) (c : Int) : Option Nat :=
  if c ≤ 0 then none else onlineAux nd c.toNat w.conns 0

/-- the nodes of the deployment (those that have a connection) -/
def nodes (w : World) : List Nat := (w.conns.map (·.node)).eraseDups

/-- `BroadcastTunnelOpen(req, target)` → every node's `handleTunnelOpenBroadcast`: each node on which the
client is connected pushes a TunnelOpenRequest to it -/
def broadcastOpen (w : World) (target : Int) : List Dlv :=
  (nodes w).filterMap (fun n => (online w n target).map (fun tc => ⟨tc, c11.cmd.TunnelOpenRequestCmd, none⟩))

/-- does the `n`-th read of the named mapping's record fail (transient storage error)? -/
def Cmd.flt (c : Cmd) (n : Nat) : Bool := c.faults.testBit n

def getRef {α} (xs : List α) (r : Int) : Option (Nat × α) :=
  if r < 0 then none else
  match xs[r.toNat]? with
  | some a => some (r.toNat, a)
  | none => none

def isParty (id : Nat) (m : Mapping) : Bool := id == m.listen || id == m.target

/-- indices (from `n`) of the elements satisfying `p`, in order -/
def idxFilter {α} (p : α → Bool) : List α → Nat → List Nat
  | [], _ => []
  | a :: as, n => if p a then n :: idxFilter p as (n + 1) else idxFilter p as (n + 1)

/-- `GetClientPortMappings(id)`: the client's index holds every mapping it is a party to, in creation order -/
def clientMaps (w : World) (id : Nat) : List Nat := idxFilter (isParty id) w.maps 0

/-- `getDefaultTargetClientID`: the target of the first active SOCKS mapping met while ranging over the
client's mappings.  `GetClientPortMappings` collects them through a Go map, so "first" is an arbitrary
one of the candidates: `pick` (a ghost field of the command) selects which. -/
def defaultCands (id : Nat) : List Mapping → List Nat
  | [] => []
  | m :: ms => if isParty id m && m.socks && m.active && decide (m.target > 0) then m.target :: defaultCands id ms
               else defaultCands id ms

def defaultTarget (w : World) (id : Nat) (pick : Nat) : Option Nat :=
  (defaultCands id w.maps)[pick % (defaultCands id w.maps).length]?

/-! ## dispatch -/

inductive Handler
  | httpProxyResp | socks5 | dnsReq (query : Bool) | dnsResp | traffic | disconnect
  | stubOneway | rpcInvoke | notifyAck | sendNotify
  | codeGen | codeList | codeActivate | configGet | mapList | mapGet | mapDelete
  | domBase | domCheck | domGen | domCreate | domDelete | domList
deriving DecidableEq, Repr

/-- `handleCommandPacket`: the command types taken before the executor, in source order. -/
def special (ct : Nat) (resp : Bool) : Option Handler :=
  if resp && ct == c11.cmd.HTTPProxyResponse then some .httpProxyResp
  else if ct == c11.cmd.SOCKS5TunnelRequestCmd then some .socks5
  else if ct == c11.cmd.DNSResolve then (if resp then some .dnsResp else some (.dnsReq false))
  else if ct == c11.cmd.DNSQuery then (if resp then some .dnsResp else some (.dnsReq true))
  else if ct == c11.cmd.TunnelTrafficReport then some .traffic
  else if ct == c11.cmd.Disconnect then some .disconnect
  else none

/-- The registry: one entry per `NewBaseHandler(packet.X, …)` of the server-side handler files. -/
def registryH (ct : Nat) : Option Handler :=
  if ct == c11.cmd.TcpMapCreate || ct == c11.cmd.HttpMapCreate || ct == c11.cmd.SocksMapCreate ||
     ct == c11.cmd.DataTransferStart || ct == c11.cmd.DataTransferOut || ct == c11.cmd.ProxyForward then some .stubOneway
  else if ct == c11.cmd.RpcInvoke then some .rpcInvoke
  else if ct == c11.cmd.NotifyClientAck then some .notifyAck
  else if ct == c11.cmd.SendNotifyToClient then some .sendNotify
  else if ct == c11.cmd.ConnectionCodeGenerate then some .codeGen
  else if ct == c11.cmd.ConnectionCodeList then some .codeList
  else if ct == c11.cmd.ConnectionCodeActivate then some .codeActivate
  else if ct == c11.cmd.ConfigGet then some .configGet
  else if ct == c11.cmd.MappingList then some .mapList
  else if ct == c11.cmd.MappingGet then some .mapGet
  else if ct == c11.cmd.MappingDelete then some .mapDelete
  else if ct == c11.cmd.HTTPDomainGetBaseDomains then some .domBase
  else if ct == c11.cmd.HTTPDomainCheckSubdomain then some .domCheck
  else if ct == c11.cmd.HTTPDomainGenSubdomain then some .domGen
  else if ct == c11.cmd.HTTPDomainCreate then some .domCreate
  else if ct == c11.cmd.HTTPDomainDelete then some .domDelete
  else if ct == c11.cmd.HTTPDomainList then some .domList
  else none

def dispatch (ct : Nat) (resp : Bool) : Option Handler :=
  match special ct resp with
  | some h => some h
  | none => registryH ct

/-- What a command is allowed to do, per command type. -/
inductive AuthRule
  | open_     -- reads/changes no client-owned state and reaches no other client
  | self_     -- acts on the caller's own objects: needs an authenticated identity
  | party     -- acts on one named object: needs an authenticated party of that object
  | reach     -- reaches another client: needs an authenticated identity
  | conn      -- acts on the connection it arrived on
  | reply     -- answer to a request the server forwarded earlier (matched by command id)
deriving DecidableEq, Repr

def Handler.rule : Handler → AuthRule
  | .httpProxyResp => .reply | .dnsResp => .reply
  | .socks5 => .party | .traffic => .party | .mapGet => .party | .mapDelete => .party
  | .domDelete => .party | .codeActivate => .party
  | .dnsReq _ => .reach | .sendNotify => .reach
  | .disconnect => .conn
  | .codeGen => .self_ | .codeList => .self_ | .configGet => .self_ | .mapList => .self_
  | .domCreate => .self_ | .domList => .self_
  | .stubOneway => .open_ | .rpcInvoke => .open_ | .notifyAck => .open_
  | .domBase => .open_ | .domCheck => .open_ | .domGen => .open_

def AuthRule.needsAuth : AuthRule → Bool
  | .self_ | .party | .reach => true
  | _ => false

/-- the rule table over command types (request packets; a response packet of the same type may be a `reply`) -/
def rule (ct : Nat) : Option AuthRule :=
  match dispatch ct false with
  | some h => some h.rule
  | none => (dispatch ct true).map Handler.rule

/-! ## handlers -/

def Run.err : Run := ⟨false, .none, [], [], [], []⟩       -- HandlePacket returned an error, nothing else happened
def Run.quiet : Run := ⟨true, .none, [], [], [], []⟩      -- accepted, nothing observable
def Run.failResp : Run := ⟨false, .fail, [], [], [], []⟩  -- duplex handler answered success=false
def Run.okResp (view : List Obj) (chg : List Chg) (dlv : List Dlv) : Run := ⟨true, .ok, view, chg, dlv, []⟩

/-- `sendDNSResolveError` / `sendDNSQueryError`: an error response, deliverable only over a control connection -/
def dnsErr (w : World) (f : Nat) : Run :=
  if isCtl w f then ⟨true, .fail, [], [], [], []⟩ else Run.err

/-- the request is pushed to connection `tc` (parsed fields only, `json.Marshal(req)`, locally and across nodes) and the
target's answer relayed to the sender — which needs the sender's control connection -/
def dnsFwd (w : World) (f : Nat) (q : Bool) (tc : Nat) : Run :=
  if isCtl w f then ⟨true, .ok, [], [], [⟨tc, if q then c11.cmd.DNSQuery else c11.cmd.DNSResolve, none⟩], []⟩
  else ⟨false, .none, [], [], [⟨tc, if q then c11.cmd.DNSQuery else c11.cmd.DNSResolve, none⟩], []⟩

def execH (v : Variant) (h : Handler) (w : World) (f : Nat) (c : Cmd) : Run :=
  let id := ident w f
  match h with
  | .httpProxyResp => if c.bad then Run.err else Run.quiet
  | .dnsResp => if c.bad then Run.err else Run.quiet
  | .socks5 =>
    if c.bad then Run.err else
    match getRef w.maps c.m with
    | none => Run.err
    | some (i, m) =>
      if c.flt 0 then Run.err else                  -- GetPortMapping failed: "mapping not found"
      if (v == .repaired && id == 0) || id != m.listen then Run.err else
      match online w (nodeOf w f) m.target with
      | some tc => ⟨true, .none, if tc == f then [.map i] else [], [], [⟨tc, c11.cmd.TunnelOpenRequestCmd, none⟩], []⟩
      | none =>
        -- not on this node: with a bridge manager the request is broadcast for the MAPPING's target
        -- (the body's target_client_id is never read), and accepted whether or not anybody has that client
        if w.bridge then ⟨true, .none, [], [], broadcastOpen w m.target, []⟩ else Run.err
  | .traffic =>
    if c.bad then Run.err else
    match getRef w.maps c.m with
    | none => Run.quiet
    | some (i, m) =>
      if c.flt 0 then Run.quiet else                -- GetPortMapping failed: treated as "mapping may be gone"
      if v == .repaired && (id == 0 || !isParty id m) then Run.err
      else if c.flt 1 || c.flt 2 then Run.quiet     -- UpdatePortMappingStats re-reads twice; a failure is only logged
      else ⟨true, .none, [], [.mod (.map i)], [], []⟩
  | .dnsReq q =>
    if c.bad then dnsErr w f else
    if v == .repaired && id == 0 then dnsErr w f else
    let tgt : Option Int := if c.g ≤ 0 then (if id == 0 then none else (defaultTarget w id c.pick).map Int.ofNat) else some c.g
    match tgt with
    | none => dnsErr w f
    | some t =>
      match online w (nodeOf w f) t with
      | some tc => dnsFwd w f q tc
      | none =>
        -- `handleDNSQueryCrossNode` (raw queries only): the node the shared store names for the client gets the request
        -- over the cross-node pool; its listener pushes it to the client's control connection there
        if q && w.xnode then
          match (nodes w).filterMap (fun n => if n == nodeOf w f then none else online w n t) with
          | tc :: _ => dnsFwd w f q tc
          | [] => dnsErr w f
        else dnsErr w f
  | .disconnect => if isCtl w f then ⟨true, .none, [], [], [], [f]⟩ else Run.quiet
  | .stubOneway => Run.quiet
  | .notifyAck => Run.quiet
  | .rpcInvoke => if c.bad then Run.failResp else Run.okResp [] [] []
  | .sendNotify =>
    if c.bad then Run.failResp else
    if v == .repaired && id == 0 then Run.failResp else
    if c.g == 0 then Run.failResp else
    if c.g == Int.ofNat id then Run.failResp else
    match online w (nodeOf w f) c.g with
    | none => Run.failResp
    | some tc => Run.okResp [] [] [⟨tc, c11.cmd.NotifyClient, if id == 0 then none else some id⟩]
  | .codeGen =>
    if id == 0 then Run.failResp else
    if c.bad then Run.failResp else Run.okResp [] [.newCode id] []
  | .codeList =>
    if id == 0 then Run.failResp else
    Run.okResp ((idxFilter (fun cd : Code => cd.target == id) w.codes 0).map Obj.code) [] []
  | .codeActivate =>
    if id == 0 then Run.failResp else
    if c.bad then Run.failResp else
    match getRef w.codes c.k with
    | none => Run.failResp
    | some (i, cd) =>
      if cd.activated then Run.failResp
      else Run.okResp [] [.mod (.code i), .newMap id cd.target] []
  | .configGet =>
    if id == 0 then Run.failResp else Run.okResp ((clientMaps w id).map Obj.map) [] []
  | .mapList =>
    if id == 0 then Run.failResp else Run.okResp ((clientMaps w id).map Obj.map) [] []
  | .mapGet =>
    if id == 0 then Run.failResp else
    if c.bad then Run.failResp else
    match getRef w.maps c.m with
    | none => Run.failResp
    | some (i, m) =>
      if c.flt 0 then Run.failResp else               -- GetMapping failed: "mapping not found"
      if !isParty id m then Run.failResp else Run.okResp [.map i] [] []
  | .mapDelete =>
    if id == 0 then Run.failResp else
    if c.bad then Run.failResp else
    match getRef w.maps c.m with
    | none => Run.failResp
    | some (i, m) =>
      if c.flt 0 then Run.failResp else               -- the ownership read failed: refused, whoever asks
      if !isParty id m then Run.failResp else
      -- repo.DeletePortMapping re-reads the record; if that read fails it purges the index entries it can find
      -- (the mapping disappears from both parties' lists) and leaves the main record
      if c.flt 1 then Run.okResp [] [.mod (.map i)] [] else Run.okResp [] [.del (.map i)] []
  | .domBase => Run.okResp [] [] []
  | .domCheck => if c.bad then Run.failResp else Run.okResp [] [] []
  | .domGen => if c.bad then Run.failResp else Run.okResp [] [] []
  | .domCreate =>
    if id == 0 then Run.failResp else
    if c.bad then Run.failResp else
    match getRef w.doms c.d with
    | some _ => Run.failResp                       -- the subdomain is taken
    | none => Run.okResp [] [.newDom id] []
  | .domDelete =>
    if v == .repaired && id == 0 then Run.failResp else
    if c.bad then Run.failResp else
    match getRef w.doms c.d with
    | none => if c.d == -2 then Run.okResp [] [] [] else Run.failResp   -- unknown id: "already deleted"; empty id: refused
    | some (i, owner) => if owner != id then Run.failResp else Run.okResp [] [.del (.dom i)] []
  | .domList =>
    if v == .repaired && id == 0 then Run.failResp else
    Run.okResp ((idxFilter (fun o : Nat => o == id) w.doms 0).map Obj.dom) [] []

/-- special cases, then executor + registry -/
def execDispatch (v : Variant) (w : World) (f : Nat) (c : Cmd) : Run :=
  match dispatch c.ctype c.resp with
  | none => Run.err                                 -- "no handler registered for command type"
  | some h => execH v h w f c

/-- `handleDefaultCommand` (no executor installed): only ConfigGet does anything — `handleConfigGetCommand`
pushes a ConfigSet to the asking connection itself: the configuration (mapping ids and secret keys) of the
client authenticated on it, an empty configuration when nobody is; every other command is accepted silently. -/
def execNoExec (w : World) (f : Nat) (c : Cmd) : Run :=
  if c.ctype == c11.cmd.ConfigGet then
    if !isCtl w f then Run.err
    else if ident w f == 0 then ⟨true, .none, [], [], [⟨f, c11.cmd.ConfigSet, none⟩], []⟩
    else ⟨true, .none, (clientMaps w (ident w f)).map Obj.map, [], [⟨f, c11.cmd.ConfigSet, none⟩], []⟩
  else Run.quiet

/-- `SessionManager.HandlePacket` for a command packet. -/
def exec (v : Variant) (w : World) (f : Nat) (c : Cmd) : Run :=
  if w.noExec && (special c.ctype c.resp).isNone then execNoExec w f c else execDispatch v w f c

/-- Commands whose body `target_client_id` is, by protocol design, the addressee the sender chooses
(DNS forward, client-to-client notification).  For every other command a client id in the body is a
claimed field. -/
def addressed (c : Cmd) : Bool :=
  match dispatch c.ctype c.resp with
  | some (.dnsReq _) => true
  | some .sendNotify => true
  | _ => false

/-- the same packet with the claimed fields blanked: `SenderId`, `ReceiverId`, `Token`, and the body's
`target_client_id` unless the command is `addressed`, and the extra identity-like keys smuggled into the body -/
def Cmd.strip (c : Cmd) : Cmd :=
  { c with snd := "0", rcv := "0", tok := "-", g := if addressed c then c.g else 0, extra := 0 }

end Tunnox.C11
