/-!
C14 — receiver structures of the translated `hybrid.Storage` predicates
(`internal/core/storage/hybrid/hybrid.go`, `config.go`).  Field names equal the Go field names, so
that the generated `Gen.hybrid.Storage.{isPersistent,isShared,isSharedPersistent,getCategory,
getCacheForKey}` type-check against them.  Core Lean only.
-/
namespace Tunnox.C14

/-- The three storage tiers behind the facade. -/
inductive Tier
  | cache        -- `h.cache`        local cache (memory)
  | shared       -- `h.sharedCache`  cross-node cache (Redis), optional
  | persistent   -- `h.persistent`   database / remote storage, optional
  deriving DecidableEq, Repr, Inhabited

/-- `hybrid.Config` -/
structure Config where
  PersistentPrefixes : List String
  SharedPrefixes : List String
  SharedPersistentPrefixes : List String
  DefaultCacheTTL : Nat
  PersistentCacheTTL : Nat
  SharedCacheTTL : Nat
  EnablePersistent : Bool

/-- `hybrid.Storage`: the tier fields are modelled by the *name* of the tier they hold
(`nil` ↦ `none`), which is all the routing functions look at. -/
structure Storage where
  config : Config
  cache : Option Tier
  sharedCache : Option Tier

end Tunnox.C14
