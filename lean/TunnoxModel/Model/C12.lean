import TunnoxModel.Model.Src
import TunnoxModel.Gen.Iocopy
/-
  C12 — client-side relays (internal/utils/iocopy/copy.go).

  * `dirStep`      one iteration of a copy goroutine of `Bidirectional` (Read, Write, error checks,
                   half-close of the sink when the loop ends); `tcpStep`/`tcpRun` interleave the two
                   goroutines under an arbitrary schedule; `returned` = `wg.Wait()` passed.
  * `encode1`/`encEv`/`Enc.finish`   UDP→tunnel goroutine of `UDP`: 2-byte big-endian prefix, batch
                   buffer, flush when full / more than half full / on a timer tick / at the end.
  * `drain`/`decIter`                tunnel→UDP goroutine of `UDP`: read into the 512 KiB window when
                   fewer than 256 KiB are buffered, extract every complete record, compaction,
                   exit on illegal length, exit when the tunnel has ended.
  * `udpStep`/`udpRun`               both goroutines under an arbitrary schedule, including the
                   close of the UDP socket when the tunnel direction ends.
  All sizes come from `Gen.Iocopy` (regenerated from the Go source).  Core Lean only.
-/
namespace Tunnox.C12
open Gen Gen.iocopy.UDP

/-- Result of one `Read(p)` on a scripted endpoint. -/
structure RdRes where
  data : Bytes
  fin : Bool            -- this Read also returned the endpoint's tail (EOF / error)
  rest : List Bytes
deriving DecidableEq, Repr

/-- Apply `step` up to `n` times, stopping as soon as it changes nothing (the goroutine has finished, is
blocked, or would spin): equal to `n` applications (`repeatStep_eq`), but cheap to execute. -/
def repeatStep {σ : Type} [DecidableEq σ] (step : σ → σ) : Nat → σ → σ
  | 0, s => s
  | n + 1, s => if step s = s then s else repeatStep step n (step s)

/-- One `Read(p)`, `len(p) = room`, over the remaining scripted chunks: a chunk longer than the
buffer is returned in pieces; after the last chunk the tail; with `fused` the last chunk and the
tail come back from the same call (`n > 0 && err != nil`). -/
def rdNext (pending : List Bytes) (fused : Bool) (room : Nat) : RdRes :=
  match pending with
  | [] => ⟨[], true, []⟩
  | c :: cs =>
    if c.length ≤ room then ⟨c, cs.isEmpty && fused, cs⟩
    else ⟨c.take room, false, c.drop room :: cs⟩

/-! ## TCP: `Bidirectional` -/

/-- What kind of object the relay is handed for a side (how the production callers build it):
* `cw`    — implements `CloseWrite` itself (`*net.TCPConn`-like: the local application socket);
* `same`  — `iocopy.NewReadWriteCloser(conn, conn, closeFn)`: reader and writer are the SAME transport
            connection, which has `Close` but no `CloseWrite` (websocket / KCP / QUIC tunnel conn) — the way
            mapping/base.go, target_handler.go `createTunnelRWC` and socks5_tunnel.go build the tunnel side;
* `split` — `NewReadWriteCloser(r, w, closeFn)` with distinct reader and writer objects, the writer has `Close` only;
* `none`  — `NewReadWriteCloser(r, w, closeFn)`, the writer has neither `CloseWrite` nor `Close`;
* `prod`  — like `same`, built by the REAL `getTunnelReaderWriter` + `createTunnelRWC` of target_handler.go over a
            stream processor and a `net.Conn`;
* `wcw`   — `NewReadWriteCloserWithCloseWrite(r, w, closeFn, closeWriteFn)`: a wrapper that forwards the half-close. -/
inductive Kind where
  | cw | same | split | none | prod | wcw
deriving DecidableEq, Repr, Inhabited

/-- `tryCloseWrite(conn)` followed, for the wrapper kinds, by `readWriteCloser.CloseWrite()`
(`closeWriteFunc` is nil, the Writer is no `CloseWriter`: nothing happens): does the half-close reach
the transport?  Only for an object that implements `CloseWrite`.  For the other kinds the peer does
not see the end of this direction until the final `Close` — and nothing else may happen to the
connection, in particular its read side stays open. -/
def tryCloseWrite : Kind → Bool
  | .cw => true
  | .wcw => true
  | _ => false

/-- How a scripted side ends; `hold`: a PASSIVE peer — its Read blocks until the relay tells it that the
other direction is over (half-closes its write side; for the UDP relay: closes the UDP socket /
half-closes the tunnel), then it ends too (EOF). -/
inductive Tl where
  | eof | err | hold
deriving DecidableEq, Repr, Inhabited

/-- A socket as the relay sees it. -/
structure EP where
  reads : List Bytes        -- what successive Reads return (an empty chunk is `(0, nil)`)
  tail : Tl                 -- then EOF, an error, or nothing until it is told (passive peer)
  fused : Bool              -- last chunk and tail are returned together
  wfail : Option Nat        -- the Write call with this index is refused
  closeOnTail : Bool        -- full close: once its tail has been returned every Write to it is refused
  kind : Kind               -- what the relay is handed for this side
deriving DecidableEq, Repr

inductive DErr where
  | none | read | write
deriving DecidableEq, Repr, Inhabited

/-- One copy goroutine (source → sink). -/
structure Dir where
  pending : List Bytes
  tailSeen : Bool := false  -- the source's Read has returned its tail
  nw : Nat := 0             -- Write calls made on the sink
  delivered : Bytes := []   -- bytes the sink accepted, in order
  wfEnv : Bool := false     -- a Write was refused by the sink
  done : Bool := false      -- loop left, sink half-closed, wg.Done
  err : DErr := .none       -- Result.SendError / ReceiveError
  bytes : Nat := 0          -- Result.BytesSent / BytesReceived
deriving DecidableEq, Repr

def sinkRefuses (dst : EP) (dstTailSeen : Bool) (nw : Nat) : Bool :=
  dst.wfail == some nw || (dst.closeOnTail && dstTailSeen)

/-- `readErr != nil` branch: record the byte count, an error unless EOF, leave the loop. -/
def Dir.finishRead (tailErr : Bool) (d : Dir) : Dir :=
  { d with done := true, bytes := d.delivered.length, err := if tailErr then .read else d.err }

/-- A passive peer never returns data and tail from the same Read. -/
def EP.fusedEff (e : EP) : Bool := e.fused && e.tail != .hold

/-- One iteration of `for { nr, readErr := src.Read(buf); if nr > 0 { dst.Write … }; if readErr != nil { … break } }`
followed (when the loop is left) by `tryCloseWrite(dst)`. -/
def dirStep (src dst : EP) (dstTailSeen : Bool) (d : Dir) : Dir :=
  if d.done then d else
  let r := rdNext d.pending src.fusedEff cloudconstants.CopyBufferSize
  let d1 := { d with pending := r.rest, tailSeen := d.tailSeen || r.fin }
  if r.data.isEmpty then
    if r.fin then d1.finishRead (src.tail == .err) else d1
  else if sinkRefuses dst dstTailSeen d.nw then
    { d1 with nw := d.nw + 1, wfEnv := true, done := true, err := .write }
  else
    let d2 := { d1 with nw := d.nw + 1, delivered := d.delivered ++ r.data }
    if r.fin then d2.finishRead (src.tail == .err) else d2

/-- Schedule tokens of the TCP relay. `a`/`b`: the A→B / B→A goroutine runs one loop iteration
(Read, Write, checks) without interruption. `ah`/`bh`: the same, but the sink is slow: the `Write`
of this iteration STAYS IN PROGRESS (the sink holds a reference to the goroutine's copy buffer) until
`ax`/`bx` lets it complete; meanwhile the other goroutine may run, half-close, finish. -/
inductive TTok where
  | a | b | ah | bh | ax | bx
deriving DecidableEq, Repr

structure TcpSt where
  ab : Dir
  ba : Dir
  abHeld : Option Dir := none     -- A→B is blocked inside `writerB.Write`; the state it will have when the Write returns
  baHeld : Option Dir := none
deriving DecidableEq, Repr

def tcpInit (A B : EP) : TcpSt := { ab := { pending := A.reads }, ba := { pending := B.reads } }

/-- Did this iteration hand bytes to the sink (and the sink accepted the call)? -/
def wroteSomething (d d' : Dir) : Bool := decide (d'.delivered.length > d.delivered.length)

/-- Has A's Read returned its tail? (A goroutine blocked in a Write has already done its Read.) -/
def TcpSt.aSeen (s : TcpSt) : Bool := (s.abHeld.getD s.ab).tailSeen
def TcpSt.bSeen (s : TcpSt) : Bool := (s.baHeld.getD s.ba).tailSeen

/-- Has the relay told A that the B→A direction is over (a half-close reached A's transport)? -/
def TcpSt.toldA (A : EP) (s : TcpSt) : Bool := s.ba.done && tryCloseWrite A.kind
def TcpSt.toldB (B : EP) (s : TcpSt) : Bool := s.ab.done && tryCloseWrite B.kind

/-- The goroutine reading `src` sits in a Read that does not return: the script is exhausted, the
peer is passive and has not been told anything. -/
def blockedRead (src : EP) (d : Dir) (told : Bool) : Bool :=
  d.pending.isEmpty && src.tail == .hold && !told

def tcpStep (A B : EP) (s : TcpSt) (t : TTok) : TcpSt :=
  match t with
  | .a => if s.abHeld.isSome || blockedRead A s.ab (s.toldA A) then s else { s with ab := dirStep A B s.bSeen s.ab }
  | .b => if s.baHeld.isSome || blockedRead B s.ba (s.toldB B) then s else { s with ba := dirStep B A s.aSeen s.ba }
  | .ah =>
    if s.abHeld.isSome || blockedRead A s.ab (s.toldA A) then s else
    let d := dirStep A B s.bSeen s.ab
    if wroteSomething s.ab d then { s with abHeld := some d } else { s with ab := d }
  | .bh =>
    if s.baHeld.isSome || blockedRead B s.ba (s.toldB B) then s else
    let d := dirStep B A s.aSeen s.ba
    if wroteSomething s.ba d then { s with baHeld := some d } else { s with ba := d }
  | .ax => match s.abHeld with
    | some d => { s with ab := d, abHeld := none }
    | none => s
  | .bx => match s.baHeld with
    | some d => { s with ba := d, baHeld := none }
    | none => s

def tcpRun (A B : EP) (σ : List TTok) : TcpSt := σ.foldl (tcpStep A B) (tcpInit A B)

/-- `wg.Wait()` has passed. -/
def TcpSt.returned (s : TcpSt) : Bool := s.ab.done && s.ba.done

/-- Iterations that certainly exhaust a script. -/
def stepsFor (reads : List Bytes) : Nat := reads.flatten.length + reads.length + 1

/-- A schedule followed by "let pending writes complete, let A→B run until it ends or waits for a
passive peer, let B→A run to its end, give A→B one more turn (a passive A has been told by now)". -/
def tcpComplete (A B : EP) (σ : List TTok) : List TTok :=
  σ ++ [.ax, .bx] ++ List.replicate (stepsFor A.reads) .a ++ List.replicate (stepsFor B.reads) .b ++ [.a]

/-- `tcpRun A B (tcpComplete A B σ)`, computed without walking through the no-op tail of the completion. -/
def tcpRunFast (A B : EP) (σ : List TTok) : TcpSt :=
  let s1 := (σ ++ [TTok.ax, TTok.bx]).foldl (tcpStep A B) (tcpInit A B)
  let s2 := repeatStep (fun s => tcpStep A B s .a) (stepsFor A.reads) s1
  let s3 := repeatStep (fun s => tcpStep A B s .b) (stepsFor B.reads) s2
  tcpStep A B s3 .a

/-- `tunnel.Tunnel.runDataCopy`: the close reason derived from the relay result (an injected error is never
`io.EOF`): any error → "error", none → "normal". -/
def tunnelReason (serr rerr : DErr) : String :=
  if serr != .none || rerr != .none then "error" else "normal"

/-- What the fake sockets and the caller observe. -/
structure TcpObs where
  ret : Bool                -- Bidirectional returned
  toB : Bytes
  toA : Bytes
  wfB : Bool                -- B refused a Write (environment fault)
  wfA : Bool
  bad : Bool                -- the relay wrote to a socket it had itself closed / half-closed
  cwB : Bool                -- a half-close reached socket B
  cwA : Bool
  closed : Bool             -- Close issued on both
  sent : Nat
  recv : Nat
  serr : DErr
  rerr : DErr
deriving DecidableEq, Repr

def tcpObs (A B : EP) (s : TcpSt) : TcpObs :=
  { ret := s.returned, toB := s.ab.delivered, toA := s.ba.delivered, wfB := s.ab.wfEnv, wfA := s.ba.wfEnv,
    bad := false, cwB := s.ab.done && tryCloseWrite B.kind, cwA := s.ba.done && tryCloseWrite A.kind, closed := s.returned,
    sent := s.ab.bytes, recv := s.ba.bytes, serr := s.ab.err, rerr := s.ba.err }

/-! ## UDP: the length-prefixed stream encoding -/

/-- `batchBuf[pos] = byte(n >> 8); batchBuf[pos+1] = byte(n); copy(batchBuf[pos+2:], readBuf[:n])`. -/
def encode1 (d : Bytes) : Bytes :=
  UInt8.ofNat (d.length / 256) :: UInt8.ofNat d.length :: d

def encodeAll (ds : List Bytes) : Bytes := (ds.map encode1).flatten

structure DrainRes where
  pk : List Bytes           -- complete records, in order
  rest : Bytes              -- unprocessed tail of the window (`readBuf[processed:buffered]`)
  ill : Bool                -- stopped at an illegal length
deriving DecidableEq, Repr

/-- The unpack loop `for buffered-processed >= 2 { … }` over the window contents. -/
def drain : Nat → Bytes → DrainRes
  | 0, bs => ⟨[], bs, false⟩
  | f + 1, hi :: lo :: body =>
    let n := hi.toNat * 256 + lo.toNat                 -- int(b0)<<8 | int(b1)
    if n = 0 ∨ n > maxPacketLen then ⟨[], hi :: lo :: body, true⟩
    else if body.length < n then ⟨[], hi :: lo :: body, false⟩
    else
      let r := drain f (body.drop n)
      ⟨body.take n :: r.pk, r.rest, r.ill⟩
  | _ + 1, bs => ⟨[], bs, false⟩

/-- Every record takes at least three bytes, so `length` iterations always suffice. -/
def drainAll (bs : Bytes) : DrainRes := drain bs.length bs

/-! ## UDP → tunnel goroutine -/

inductive UEv where
  | dgram (d : Bytes)       -- `udpConn.Read` returns this datagram
  | tick                    -- the flush ticker fires
deriving DecidableEq, Repr

/-- Who is inside `tunnelConn.Write` (and therefore holds `batchMu`). -/
inductive Writer where
  | ticker                      -- the flush goroutine
  | mainHalf                    -- the main loop, batch more than half full
  | mainFin (tailErr : Bool)    -- the main loop, final flush after the UDP read ended
deriving DecidableEq, Repr

/-- A `tunnelConn.Write(batchBuf[:n])` in progress: the tunnel holds a REFERENCE to the first `n`
bytes of the batch buffer and reads them when the write completes. -/
structure Wip where
  n : Nat
  who : Writer
deriving DecidableEq, Repr

/-- What the main loop holds in its hands while it waits for `batchMu`. -/
inductive ParkedEv where
  | dgram (d : Bytes)           -- a datagram it has read (already cut to the read buffer, non-empty)
  | tail (tailErr : Bool)       -- the read error / EOF
deriving DecidableEq, Repr

structure Enc where
  pending : List UEv
  batch : Bytes := []           -- batchBuf[:batchPos]
  flushes : List Bytes := []    -- what successive `tunnelConn.Write` calls delivered
  nread : Nat := 0              -- Reads that returned a datagram
  sent : Nat := 0               -- Result.BytesSent
  serr : Bool := false          -- Result.SendError != nil
  done : Bool := false
  wip : Option Wip := none      -- a tunnel Write is in progress (its caller holds batchMu)
  parked : Option ParkedEv := none
deriving DecidableEq, Repr

/-- `flushLocked`, when the tunnel accepts the bytes at once. -/
def Enc.flush (e : Enc) : Enc :=
  if e.batch.isEmpty then e else { e with flushes := e.flushes ++ [e.batch], batch := [] }

/-- `if batchPos+packetSize > batchBufSize { flushLocked() }` -/
def Enc.room (e : Enc) (n : Nat) : Enc :=
  if e.batch.length + (2 + n) > fullAt then e.flush else e

/-- prefix + payload into the batch buffer at `batchPos`. -/
def Enc.put (e : Enc) (d : Bytes) : Enc :=
  { e with batch := e.batch ++ encode1 d, sent := e.sent + d.length }

/-- `if batchPos > batchBufSize/2 { flushLocked() }`; `hold`: the tunnel is slow, this Write stays in progress. -/
def Enc.half (e : Enc) (hold : Bool) : Enc :=
  if e.batch.length > halfFull then
    (if hold then { e with wip := some ⟨e.batch.length, .mainHalf⟩ } else e.flush)
  else e

/-- The loop body after `batchMu.Lock()` for a datagram of `n > 0` bytes. -/
def Enc.encode (e : Enc) (d : Bytes) (hold : Bool) : Enc :=
  ((e.room d.length).put d).half hold

def encEv (e : Enc) (hold : Bool) : UEv → Enc
  | .tick =>
    if hold && !e.batch.isEmpty then { e with wip := some ⟨e.batch.length, .ticker⟩ } else e.flush
  | .dgram d0 =>
    let d := d0.take readBuf_0                          -- Read into a 64 KiB buffer
    let e0 := { e with nread := e.nread + 1 }
    if d.length = 0 then e0                             -- `if n == 0 { continue }`
    else e0.encode d hold

/-- Read error / EOF: final flush, leave the loop, half-close the tunnel. -/
def Enc.finish (tailErr hold : Bool) (e : Enc) : Enc :=
  if hold && !e.batch.isEmpty then { e with wip := some ⟨e.batch.length, .mainFin tailErr⟩ }
  else { e.flush with done := true, serr := tailErr }

/-- The tunnel Write in progress returns: the tunnel has now read the `n` bytes the buffer holds AT
THIS MOMENT, `batchPos = 0`, the writer releases `batchMu` and goes on; a main loop that was waiting
for the lock gets it. -/
def Enc.endWrite (e : Enc) : Enc :=
  match e.wip with
  | none => e
  | some w =>
    let e1 := { e with flushes := e.flushes ++ [e.batch.take w.n], batch := [], wip := none }
    match w.who with
    | .mainFin te => { e1 with done := true, serr := te }
    | .mainHalf => e1
    | .ticker =>
      match e.parked with
      | none => e1
      | some (.dgram d) => ({ e1 with parked := none }).encode d false
      | some (.tail te) => { ({ e1 with parked := none }).flush with done := true, serr := te }

/-- The main loop's next step while somebody else's tunnel Write is in progress: a tick is absorbed
(the ticker is busy or waits for the lock); if the ticker is the writer the main loop can still take
ONE Read — its result is parked until the lock is free; otherwise nothing moves. -/
def Enc.stepBlocked (e : Enc) (w : Wip) (udpClosed : Bool) (utailEnd : Option Bool) : Enc :=
  match e.pending with
  | .tick :: rest => { e with pending := rest }
  | evs =>
    if w.who == .ticker && e.parked.isNone then
      if udpClosed then { e with parked := some (.tail false) }
      else match evs with
        | .dgram d0 :: rest =>
          let d := d0.take readBuf_0
          let e0 := { e with pending := rest, nread := e.nread + 1 }
          if d.length = 0 then e0 else { e0 with parked := some (.dgram d) }
        | _ =>
          match utailEnd with
          | none => e
          | some te => { e with parked := some (.tail te) }
    else e

/-! ## tunnel → UDP goroutine -/

inductive DStop where
  | running | clean | trunc | illegal
  | werr        -- a Write on the UDP socket failed: `flush()` returned the error, the goroutine left
deriving DecidableEq, Repr, Inhabited

inductive Variant where
  | asFound | repaired
deriving DecidableEq, Repr

structure Dec where
  pending : List Bytes
  buf : Bytes := []             -- readBuf[:buffered]
  out : List Bytes := []        -- datagrams written to udpConn
  stop : DStop := .running
  rerr : Bool := false          -- Result.ReceiveError != nil
  recv : Nat := 0               -- Result.BytesReceived
deriving DecidableEq, Repr

def Dec.done (s : Dec) : Bool := s.stop != .running

def sumLen (ds : List Bytes) : Nat := (ds.map List.length).sum

/-- One iteration of the outer loop of the tunnel→UDP goroutine. -/
def decIter (v : Variant) (tailErr fused : Bool) (s : Dec) : Dec :=
  let r := if s.buf.length < refill then rdNext s.pending fused (readBuf_1 - s.buf.length)
           else ⟨[], false, s.pending⟩
  let buf := s.buf ++ r.data
  let rerr := s.rerr || (r.fin && tailErr)
  if r.fin && buf.isEmpty then
    { s with pending := r.rest, buf := buf, rerr := rerr, stop := .clean }
  else
    let d := drainAll buf
    let s1 := { s with pending := r.rest, buf := d.rest, out := s.out ++ d.pk, rerr := rerr,
                       recv := s.recv + sumLen d.pk }
    if d.ill then { s1 with stop := .illegal }
    else if r.fin then
      if d.rest.isEmpty then { s1 with stop := .clean }
      else match v with
        | .repaired => { s1 with stop := .trunc }     -- `if tunnelDone { break }`
        | .asFound => s1                               -- re-reads the tail with the same window: no progress, no exit
    else s1

/-- The UDP socket refuses the Write with index `j` (counted over the run): `flush()` stops at that datagram and
returns the error; the caller records it (`ReceiveError`; not in the illegal-length branch, which ignores it) and
the goroutine leaves. `s`: state before the iteration, `d`: the iteration's result had every Write succeeded. -/
def Dec.cutWrite (d : Dec) (uwfail : Option Nat) (s : Dec) : Dec :=
  match uwfail with
  | some j =>
    if s.out.length ≤ j ∧ j < d.out.length then
      { d with out := d.out.take j, recv := s.recv + sumLen ((d.out.take j).drop s.out.length), stop := .werr,
               rerr := d.rerr || d.stop != .illegal }
    else d
  | none => d

/-- How `flush()` hands the datagrams of one unpack pass to a real UDP socket: the unpack loop flushes whenever
`batchSize` (32) packets are pending, the rest at the end of the pass; each flush is ONE `udpBatchWriter` batch
(`add` for every packet — the writer's capacity is the same `batchSize`, so `add` never refuses — then one
`WriteBatch`). The batches, in order. -/
def flushBatches : Nat → List Bytes → List (List Bytes)
  | 0, pk => if pk.isEmpty then [] else [pk]
  | n + 1, pk =>
    if pk.length ≤ n + 1 then (if pk.isEmpty then [] else [pk])
    else pk.take (n + 1) :: flushBatches (n + 1) (pk.drop (n + 1))
termination_by _ pk => pk.length
decreasing_by simp; omega

/-! ## UDP relay: both goroutines -/

structure UdpCase where
  uevs : List UEv
  utail : Tl
  tchunks : List Bytes
  ttail : Tl
  tfused : Bool
  uwfail : Option Nat := none   -- the UDP socket refuses the Write with this index
deriving DecidableEq, Repr

structure UdpSt where
  enc : Enc
  dec : Dec
  decHeld : Option Dec := none  -- tunnel→UDP is blocked inside `udpConn.Write`; its state when the Write returns
  nsent : Nat := 0              -- asynchronous local socket (`mapping.UDPVirtualConn`): `Write` only queues a private
                                -- COPY of the datagram; so many of `dec.out` have been sent by its `writeLoop`
  udpClosed : Bool := false     -- the relay closed udpConn (tunnel direction ended)
  cwT : Bool := false           -- the relay half-closed the tunnel (UDP direction ended)
deriving DecidableEq, Repr

def udpInit (c : UdpCase) : UdpSt := { enc := { pending := c.uevs }, dec := { pending := c.tchunks } }

/-- Schedule tokens of the UDP relay. `u`: the UDP→tunnel side takes its next event (datagram read +
encode, or a ticker flush) without interruption. `t`: one iteration of the tunnel→UDP goroutine.
`uh`/`th`: the same, but the Write this step issues (tunnel Write of a flush / first UDP Write of the
iteration) STAYS IN PROGRESS until `w`/`v`. A blocked goroutine does not move. -/
inductive UTok where
  | u | t | uh | th | w | v
  | s       -- asynchronous local socket: its send loop sends the next queued datagram
  | sa      -- … sends everything that is queued
deriving DecidableEq, Repr

def utailEnd : Tl → Option Bool
  | .hold => none
  | .eof => some false
  | .err => some true

def UdpSt.withEnc (s : UdpSt) (e : Enc) : UdpSt := { s with enc := e, cwT := s.cwT || e.done }

def udpStepU (c : UdpCase) (s : UdpSt) (hold : Bool) : UdpSt :=
  if s.enc.done then s
  else match s.enc.wip with
    | some w => s.withEnc (s.enc.stepBlocked w s.udpClosed (utailEnd c.utail))
    | none =>
      if s.udpClosed then s.withEnc (s.enc.finish false false)   -- woken by the Close, not by the schedule
      else match s.enc.pending with
        | ev :: rest => s.withEnc (encEv { s.enc with pending := rest } hold ev)
        | [] =>
          match utailEnd c.utail with
          | none => s
          | some te => s.withEnc (s.enc.finish te hold)

def UdpSt.commitDec (v : Variant) (s : UdpSt) (d : Dec) : UdpSt :=
  { s with dec := d, decHeld := none, udpClosed := s.udpClosed || (d.done && v == .repaired) }

def udpStepT (v : Variant) (c : UdpCase) (s : UdpSt) (hold : Bool) : UdpSt :=
  if s.dec.done || s.decHeld.isSome then s
  else if s.dec.pending.isEmpty && c.ttail == .hold && !s.cwT && decide (s.dec.buf.length < refill) then s
  else
    let d := (decIter v (c.ttail == .err) (c.tfused && c.ttail != .hold) s.dec).cutWrite c.uwfail s.dec
    if hold && decide (d.out.length > s.dec.out.length) then { s with decHeld := some d }
    else s.commitDec v d

def udpStep (v : Variant) (c : UdpCase) (s : UdpSt) (t : UTok) : UdpSt :=
  match t with
  | .u => udpStepU c s false
  | .uh => udpStepU c s true
  | .t => udpStepT v c s false
  | .th => udpStepT v c s true
  | .w => s.withEnc s.enc.endWrite
  | .v => match s.decHeld with
    | some d => s.commitDec v d
    | none => s
  | .s => if s.nsent < s.dec.out.length then { s with nsent := s.nsent + 1 } else s
  | .sa => { s with nsent := s.dec.out.length }

def udpRun (v : Variant) (c : UdpCase) (σ : List UTok) : UdpSt := σ.foldl (udpStep v c) (udpInit c)

def UdpSt.returned (s : UdpSt) : Bool := s.enc.done && s.dec.done

/-- A schedule followed by: writes in progress complete, the UDP side runs until it ends or blocks,
the tunnel side runs to its end, the UDP side gets one more turn (to notice that its socket was closed). -/
def udpComplete (c : UdpCase) (σ : List UTok) : List UTok :=
  σ ++ [.w, .v] ++ List.replicate (c.uevs.length + 1) .u ++ List.replicate (stepsFor c.tchunks) .t ++ [.u] ++ [.sa]

/-- `udpRun v c (udpComplete c σ)`, computed without walking through the no-op tail of the completion. -/
def udpRunFast (v : Variant) (c : UdpCase) (σ : List UTok) : UdpSt :=
  let s0 := (σ ++ [UTok.w, UTok.v]).foldl (udpStep v c) (udpInit c)
  let s1 := repeatStep (fun s => udpStep v c s .u) (c.uevs.length + 1) s0
  let s2 := repeatStep (fun s => udpStep v c s .t) (stepsFor c.tchunks) s1
  udpStep v c (udpStep v c s2 .u) .sa

structure UdpObs where
  ret : Bool
  tun : Bytes               -- everything written to the tunnel, concatenated
  udp : List Bytes          -- datagrams written to the UDP socket
  nread : Nat               -- datagrams the relay took from the UDP socket
  wfU : Bool                -- the UDP socket refused a Write (environment fault)
  serr : Bool
  rerr : Bool
  sent : Nat
  recv : Nat
deriving DecidableEq, Repr

def udpObs (s : UdpSt) : UdpObs :=
  { ret := s.returned, tun := s.enc.flushes.flatten, udp := s.dec.out, nread := s.enc.nread, wfU := s.dec.stop == .werr,
    serr := s.enc.serr, rerr := s.dec.rerr, sent := s.enc.sent, recv := s.dec.recv }

/-- Observation when the local side is the asynchronous `mapping.UDPVirtualConn`: the local application
receives what the send loop has sent — the queued COPIES, whatever happened to the relay's read buffer
between `Write` and the send. -/
def udpObsV (s : UdpSt) : UdpObs := { udpObs s with udp := s.dec.out.take s.nsent }

/-! ## SOCKS5 UDP-ASSOCIATE tunnel codec (internal/client/socks5_tunnel.go, `udpTunnelConn`)

The listen-side end of the same length-prefixed stream: `SendPacket` writes prefix and payload,
`ReceivePacket` reads them back with two `io.ReadFull` calls. Its peer is the target client's
`iocopy.UDP`, which batches datagrams: several records arrive in ONE Read of the tunnel stream. -/

/-- `SendPacket`: `writer.Write(lenBuf)`, `writer.Write(data)` with `lenBuf = {byte(len>>8), byte(len&0xFF)}`. -/
def sendPacket (d : Bytes) : List Bytes :=
  [[UInt8.ofNat (d.length / 256), UInt8.ofNat d.length], d]

inductive S5Stop where
  | len          -- ReadFull of the 2-byte prefix failed ("failed to read packet length")
  | data         -- ReadFull of the payload failed ("failed to read packet data")
  | tooLarge     -- "packet too large" (cannot happen with a 2-byte prefix)
  | fuel         -- model only: never reported (see `C12_s5_terminates`)
deriving DecidableEq, Repr, Inhabited

inductive S5Res where
  | pkt (d : Bytes) (rest : Src)
  | fail (st : S5Stop)
deriving DecidableEq, Repr

/-- One `ReceivePacket` call on the tunnel reader. -/
def receivePacket (s : Src) : S5Res :=
  match s.readFull 2 with
  | .short _ _ => .fail .len
  | .ok hdr r1 =>
    let n := (hdr.getD 0 0).toNat * 256 + (hdr.getD 1 0).toNat
    if n > 65535 then .fail .tooLarge
    else match r1.readFull n with
      | .short _ _ => .fail .data
      | .ok d r2 => .pkt d r2

structure S5Obs where
  pk : List Bytes
  stop : S5Stop
deriving DecidableEq, Repr

/-- The receive loop: `ReceivePacket` until it fails. -/
def recvAll : Nat → Src → S5Obs
  | 0, _ => ⟨[], .fuel⟩
  | f + 1, s =>
    match receivePacket s with
    | .fail st => ⟨[], st⟩
    | .pkt d r => ⟨d :: (recvAll f r).pk, (recvAll f r).stop⟩

end Tunnox.C12
