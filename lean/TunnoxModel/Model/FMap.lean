/-!
# `FMap` — finite maps as association lists (core Lean only, executable)

Every registry, store and table of the models is an `FMap κ α`.  The representation is
`List (κ × α)`; **clients must reason through the lemma interface below only**
(`lookup_empty`, `lookup_insert_eq/ne`, `lookup_erase_eq/ne`, `lookup_modify_eq/ne`,
`mem_keys_iff`, `keys_insert`, `keys_erase`, `NoDup_*`), never through the list shape.

Conventions
* `lookup` returns the first binding of the key;
* `erase` removes **every** binding of the key, `insert k v` = `(k, v) :: erase k`,
  so a map built through the API never holds a key twice (`NoDup`); the lookup lemmas
  hold for every list, with or without duplicates, so no invariant is needed to use them;
* `toSorted lt` lists the bindings in key order for printing (driver side).
-/
namespace Tunnox

/-- Finite map = association list. Use the API, not the list structure. -/
abbrev FMap (κ : Type) (α : Type) := List (κ × α)

namespace FMap
variable {κ α : Type} [DecidableEq κ]

/-- The empty map. -/
def empty : FMap κ α := []

/-- First binding of `k`. -/
def lookup : FMap κ α → κ → Option α
  | [], _ => none
  | (k', v) :: r, k => if k' = k then some v else lookup r k

/-- Remove every binding of `k`. -/
def erase : FMap κ α → κ → FMap κ α
  | [], _ => []
  | (k', v) :: r, k => if k' = k then erase r k else (k', v) :: erase r k

/-- Bind `k` to `v`, replacing any previous binding. -/
def insert (m : FMap κ α) (k : κ) (v : α) : FMap κ α := (k, v) :: erase m k

/-- Is `k` bound? -/
def contains (m : FMap κ α) (k : κ) : Bool := (lookup m k).isSome

/-- Keys in representation order. -/
def keys (m : FMap κ α) : List κ := m.map (·.1)

/-- Number of bindings (= number of keys for `NoDup` maps). -/
def size (m : FMap κ α) : Nat := m.length

/-- Apply `f` to the value bound to `k` (no-op when unbound). -/
def modify (m : FMap κ α) (k : κ) (f : α → α) : FMap κ α :=
  match lookup m k with
  | some v => insert m k (f v)
  | none => m

/-- Insertion of one binding into a key-sorted list. -/
def sortedInsert (lt : κ → κ → Bool) (p : κ × α) : List (κ × α) → List (κ × α)
  | [] => [p]
  | q :: r => if lt p.1 q.1 then p :: q :: r else q :: sortedInsert lt p r

/-- Bindings ordered by `lt` on keys (for canonical printing). -/
def toSorted (lt : κ → κ → Bool) (m : FMap κ α) : List (κ × α) :=
  m.foldr (sortedInsert lt) []

/-- No key is bound twice. All API operations preserve it. -/
def NoDup (m : FMap κ α) : Prop := (keys m).Nodup

/-! ## Lemma interface -/

@[simp] theorem lookup_empty (k : κ) : lookup (empty : FMap κ α) k = none := rfl

theorem lookup_erase_eq (m : FMap κ α) (k : κ) : lookup (erase m k) k = none := by
  induction m with
  | nil => rfl
  | cons p r ih =>
    obtain ⟨k', v⟩ := p
    by_cases h : k' = k
    · simp [erase, h, ih]
    · simp [erase, lookup, h, ih]

theorem lookup_erase_ne (m : FMap κ α) {k k' : κ} (h : k ≠ k') :
    lookup (erase m k) k' = lookup m k' := by
  induction m with
  | nil => rfl
  | cons p r ih =>
    obtain ⟨k₀, v⟩ := p
    by_cases h0 : k₀ = k
    · subst h0
      simp [erase, lookup, h, ih]
    · by_cases h1 : k₀ = k'
      · subst h1
        have h0' : ¬ k₀ = k := h0
        simp [erase, lookup, h0']
      · simp [erase, lookup, h0, h1, ih]

theorem lookup_insert_eq (m : FMap κ α) (k : κ) (v : α) : lookup (insert m k v) k = some v := by
  simp [insert, lookup]

theorem lookup_insert_ne (m : FMap κ α) {k k' : κ} (v : α) (h : k ≠ k') :
    lookup (insert m k v) k' = lookup m k' := by
  simp [insert, lookup, h, lookup_erase_ne m h]

theorem lookup_modify_eq (m : FMap κ α) (k : κ) (f : α → α) :
    lookup (modify m k f) k = (lookup m k).map f := by
  unfold modify
  cases h : lookup m k with
  | none => simp [h]
  | some v => simp [lookup_insert_eq]

theorem lookup_modify_ne (m : FMap κ α) {k k' : κ} (f : α → α) (h : k ≠ k') :
    lookup (modify m k f) k' = lookup m k' := by
  unfold modify
  cases lookup m k with
  | none => rfl
  | some v => simp [lookup_insert_ne m _ h]

theorem contains_iff (m : FMap κ α) (k : κ) : contains m k = true ↔ ∃ v, lookup m k = some v := by
  simp [contains, Option.isSome_iff_exists]

theorem mem_keys_iff (m : FMap κ α) (k : κ) : k ∈ keys m ↔ ∃ v, lookup m k = some v := by
  induction m with
  | nil => simp [keys, lookup]
  | cons p r ih =>
    obtain ⟨k', v⟩ := p
    by_cases h : k' = k
    · simp [keys, lookup, h]
    · have ih' : k ∈ List.map (fun x => x.1) r ↔ ∃ v, lookup r k = some v := ih
      have hne : ¬ k = k' := fun e => h e.symm
      simp [keys, lookup, h, hne, ih']

theorem lookup_eq_none_iff (m : FMap κ α) (k : κ) : lookup m k = none ↔ k ∉ keys m := by
  rw [mem_keys_iff]
  cases lookup m k <;> simp

theorem keys_erase (m : FMap κ α) (k k' : κ) : k' ∈ keys (erase m k) ↔ k' ∈ keys m ∧ k' ≠ k := by
  rw [mem_keys_iff, mem_keys_iff]
  by_cases h : k = k'
  · subst h
    simp [lookup_erase_eq]
  · have h' : k' ≠ k := fun e => h e.symm
    simp [lookup_erase_ne m h, h']

theorem keys_insert (m : FMap κ α) (k k' : κ) (v : α) :
    k' ∈ keys (insert m k v) ↔ k' = k ∨ k' ∈ keys m := by
  rw [mem_keys_iff, mem_keys_iff]
  by_cases h : k = k'
  · subst h
    simp [lookup_insert_eq]
  · have h' : ¬ k' = k := fun e => h e.symm
    simp [lookup_insert_ne m v h, h']

omit [DecidableEq κ] in
theorem NoDup_empty : NoDup (empty : FMap κ α) := by simp [NoDup, keys, empty]

theorem NoDup_erase (m : FMap κ α) (k : κ) (h : NoDup m) : NoDup (erase m k) := by
  induction m with
  | nil => simpa [erase] using h
  | cons p r ih =>
    obtain ⟨k', v⟩ := p
    have hr : NoDup r := by
      have := h; simp [NoDup, keys] at this ⊢; exact this.2
    have hk' : k' ∉ keys r := by
      have := h; simp [NoDup, keys] at this ⊢; exact this.1
    by_cases e : k' = k
    · simp only [erase, e, if_true]; exact ih hr
    · simp only [erase, e, if_false]
      have hnot : k' ∉ keys (erase r k) := fun hm => hk' ((keys_erase r k k').mp hm).1
      have ih' := ih hr
      simp only [NoDup, keys, List.map_cons, List.nodup_cons] at ih' ⊢
      exact ⟨hnot, ih'⟩

theorem NoDup_insert (m : FMap κ α) (k : κ) (v : α) (h : NoDup m) : NoDup (insert m k v) := by
  have he := NoDup_erase m k h
  have hnot : k ∉ keys (erase m k) := by
    rw [← lookup_eq_none_iff]; exact lookup_erase_eq m k
  simp only [NoDup, keys, insert, List.map_cons, List.nodup_cons] at he ⊢
  exact ⟨hnot, he⟩

/-- Extensional equality of lookups is what clients compare. -/
def Equiv (m₁ m₂ : FMap κ α) : Prop := ∀ k, lookup m₁ k = lookup m₂ k

theorem Equiv.refl (m : FMap κ α) : Equiv m m := fun _ => rfl

theorem Equiv.insert {m₁ m₂ : FMap κ α} (h : Equiv m₁ m₂) (k : κ) (v : α) :
    Equiv (insert m₁ k v) (insert m₂ k v) := by
  intro k'
  by_cases e : k = k'
  · subst e; simp [lookup_insert_eq]
  · simp [lookup_insert_ne _ v e, h k']

theorem Equiv.erase {m₁ m₂ : FMap κ α} (h : Equiv m₁ m₂) (k : κ) :
    Equiv (erase m₁ k) (erase m₂ k) := by
  intro k'
  by_cases e : k = k'
  · subst e; simp [lookup_erase_eq]
  · simp [lookup_erase_ne _ e, h k']

end FMap
end Tunnox
