/-! Receiver structures of the predicates translated from `internal/security`
(`BanRecord.isExpired`, `IPRecord.isExpired`).  Field names equal the Go field
names.  Times are `Nat` (the zero time is `0`, every real instant is `> 0`). -/
namespace Tunnox.C18

/-- `security.BanRecord` (brute_force_protector.go); `Reason`/`Count`/`IP` are not observable. -/
structure BanRecord where
  BannedAt : Nat
  ExpiresAt : Nat
deriving DecidableEq, Repr

/-- `security.IPRecord` (ip_manager.go). -/
structure IPRecord where
  AddedAt : Nat
  ExpiresAt : Nat
deriving DecidableEq, Repr

end Tunnox.C18
