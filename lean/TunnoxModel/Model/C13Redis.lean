import TunnoxModel.Spec.TTLStore
/-!
  C13 — how `redis.Storage` decides that a call CREATED its key and therefore applies the default
  lifetime (redis_ops.go `SetHash`, `IncrBy`; `AppendToList` uses LLEN == 1, which on Redis — no
  empty lists — is equivalent to "the key did not exist").  Redis itself stays unmodelled: the calls
  are the reference calls of `TTLStore`, except for the lifetime written, which follows the rule.
-/
namespace Tunnox.C13.Redis
open Tunnox Tunnox.TTLStore

/-- `existedBefore`: EXISTS before the write (the code this run checks).
`lenIsOne`: HLEN == 1 after the write (as found).
`replyIsOne`: HSET's reply == 1, i.e. a new field was added (seeded regression).
`resultIsDelta`: INCRBY's result == the increment (as found). -/
inductive CreatedRule where
  | existedBefore
  | lenIsOne
  | replyIsOne
  | resultIsDelta
  deriving DecidableEq, Repr

/-- `SetHash` on a key holding a visible hash: does the rule claim the hash was just created? -/
def hashCreated (rule : CreatedRule) (h : FMap String Atom) (f : String) : Bool :=
  match rule with
  | .existedBefore => false
  | .lenIsOne => (FMap.keys (FMap.insert h f (.int 0))).length == 1
  | .replyIsOne => (FMap.lookup h f).isNone
  | .resultIsDelta => false

def hset (rule : CreatedRule) (dflt now : Nat) (s : Store) (k f : String) (a : Atom) : Store × Res :=
  match find now s k with
  | some e =>
    match e.val with
    | .hash h =>
      (s.insert k ⟨.hash (FMap.insert h f a), if hashCreated rule h f then now + dflt else e.exp⟩, .ok)
    | _ => TTLStore.hset dflt now s k f a
  | none => TTLStore.hset dflt now s k f a

/-- `IncrBy` on a key holding a visible counter. -/
def incrBy (rule : CreatedRule) (dflt now : Nat) (s : Store) (k : String) (d : Int) : Store × Res :=
  match find now s k with
  | some e =>
    match e.val with
    | .atom (.int c) =>
      (s.insert k ⟨.atom (.int (wrap64 (c + d))),
        if rule == .resultIsDelta && decide (wrap64 (c + d) = d) then now + dflt else e.exp⟩, .int (wrap64 (c + d)))
    | _ => TTLStore.incrBy dflt now s k d
  | none => TTLStore.incrBy dflt now s k d

end Tunnox.C13.Redis
