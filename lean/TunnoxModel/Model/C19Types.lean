/-!
  C19 — record type read by the predicates regenerated from the Go source
  (`Gen/C19.lean`: `HTTPDomainMapping.IsExpired / IsActive / Validate`).
  Field names equal the Go field names of `repos.HTTPDomainMapping`
  (internal/cloud/repos/http_domain_mapping.go).
-/
namespace Tunnox.C19

structure HTTPDomainMapping where
  ID : String
  Subdomain : String
  BaseDomain : String
  FullDomain : String
  ClientID : Nat
  TargetHost : String
  TargetPort : Nat
  Status : String
  ExpiresAt : Nat
deriving DecidableEq, Repr

end Tunnox.C19
