/-!
C04 — receiver structure of the translated predicates `PortMapping.{IsExpired, IsValid, CanBeAccessedBy}`
(`internal/cloud/models/port_mapping_helpers.go`).  Field names equal the Go field names
(`internal/cloud/models/models.go`, type `PortMapping`); only the fields the open-tunnel decision reads.
Client ids are `int64` in Go and never negative (0 = "no client"); times are nanoseconds.
-/
namespace Tunnox.C04

structure PortMapping where
  ID : String
  ListenClientID : Nat
  TargetClientID : Nat
  SecretKey : String
  Status : String
  IsRevoked : Bool
  ExpiresAt : Option Nat
deriving DecidableEq, Repr

end Tunnox.C04
