import TunnoxModel.Model.Sched
import TunnoxModel.Gen.C16
import TunnoxModel.Model.C02
/-!
# C16 — shutdown paths run exactly once: executable models (core Lean only)

Five components, each a `Sched.Prog` (one atomic step per mutex critical section /
atomic operation / transport or storage call):

* `dStep`  `Dispose.Close` + `runCleanHandlers`   internal/core/dispose/dispose.go
           acquire `currentLock` (blocks) → critical section (latch test, `closed = true`,
           `cancel()`, every clean handler, errors recorded) → unlock.
* `tStep`  `Tunnel.Close`                          internal/client/tunnel/tunnel.go
           `state.Load` → `state.CompareAndSwap` → close sequence (`Dispose.Close`,
           `localConn.Close`, `tunnelRWC.Close`, notify peer, `UnregisterTunnel`, `onClosed`)
           → `state.Store(Closed)`.  The close sequence is one step: none of its effects is
           read by the load/CAS steps of other callers.
           `.asFound`: `CAS(Connected→Closing)`, on failure `Store(Closing)` and carry on.
           `.repaired`: `CAS(loaded→Closing)`, on failure load again.
* `rStep`  `Bridge.reportTrafficStats`             internal/protocol/session/tunnel/bridge_traffic.go
           (lock `reportMu`,) load counters and last-reported, delta → `GetPortMapping` →
           `UpdatePortMappingStats` + store last-reported (+ unlock).
           `.asFound` has no lock.
* `bStep`  `Bridge.Close`                          internal/protocol/session/tunnel/bridge.go
           three critical sections: `sourceConnMu` (source forwarder), `tunnelConnMu`
           (target forwarder, tunnel connections, net connections), `ManagerBase.Close`
           (dispose latch → `cleanup`).  Test-and-clear under the mutex = one step each.
* `sStep`  `StreamProcessor.Close` against an in-flight `ReadPacket`/`WritePacket`
           internal/stream/stream_processor.go: closers as in `dStep`, `onClose` closes writer
           and reader (`.asFound`: and sets the fields to nil); the I/O thread passes
           `acquireReadLock`/`acquireWriteLock` (`IsClosed` under `currentLock`) and then
           uses the field once per transport call.
-/
namespace Tunnox.C16
open Tunnox.Sched

inductive Variant | asFound | repaired
  deriving DecidableEq, Repr

/-! ## Dispose.Close -/

structure DShared where
  lock : Option Nat      -- holder of currentLock
  closed : Bool
  cancels : Nat          -- calls of cancel()
  runs : List Nat        -- invocation count per clean handler
  errors : Nat           -- len(c.errors)
  deriving DecidableEq, Repr

inductive DPc | acquire | crit | release | done
  deriving DecidableEq, Repr

structure DLocal where
  pc : DPc
  res : Nat              -- len(result.Errors) handed to the caller
  deriving DecidableEq, Repr

/-- Number of handlers that return an error. -/
def failing (errs : List Bool) : Nat := (errs.filter id).length

def dStep (errs : List Bool) (tid : Nat) (sh : DShared) (l : DLocal) : DShared × DLocal :=
  match l.pc with
  | .acquire =>
    match sh.lock with
    | none => ({ sh with lock := some tid }, { l with pc := .crit })
    | some _ => (sh, l)
  | .crit =>
    if sh.closed then (sh, { pc := .release, res := sh.errors })
    else ({ sh with closed := true, cancels := sh.cancels + 1, runs := sh.runs.map (· + 1),
                    errors := sh.errors + failing errs },
          { pc := .release, res := failing errs })
  | .release => ({ sh with lock := none }, { l with pc := .done })
  | .done => (sh, l)

def dProg (errs : List Bool) : Prog DShared DLocal := ⟨dStep errs⟩

def dInit (errs : List Bool) (n : Nat) : Cfg DShared DLocal :=
  ⟨⟨none, false, 0, List.replicate errs.length 0, 0⟩, List.replicate n ⟨.acquire, 0⟩⟩

def dWeight (l : DLocal) : Nat :=
  match l.pc with
  | .acquire => 3 | .crit => 2 | .release => 1 | .done => 0

def dMu (c : Cfg DShared DLocal) : Nat := (c.ths.map dWeight).sum

/-- Run a schedule, then drain fairly. -/
def dFinal (errs : List Bool) (n : Nat) (s : Schedule) : Cfg DShared DLocal :=
  run (dProg errs) (s ++ rounds n (3 * n)) (dInit errs n)

/-! ## Tunnel.Close -/

structure TCounts where
  disposeRuns : Nat      -- clean handlers of the embedded Dispose
  localCloses : Nat
  rwcCloses : Nat
  notifies : Nat         -- SendTunnelCloseNotify
  unregOk : Nat          -- UnregisterTunnel calls that removed the entry
  onClosed : List Nat    -- reasons handed to the onClosed callback, in order
  deriving DecidableEq, Repr

structure TShared where
  state : Nat            -- atomic.Int32
  disposed : Bool        -- Dispose.closed
  registered : Bool      -- manager still holds the tunnel
  k : TCounts
  deriving DecidableEq, Repr

structure TCfg where
  role : Nat
  hasTarget : Bool       -- targetClient > 0 and client != nil
  deriving DecidableEq, Repr

inductive TPc | load | cas | storeClosing | body | fin | done
  deriving DecidableEq, Repr

structure TLocal where
  pc : TPc
  reason : Nat
  seen : Nat             -- currentState
  deriving DecidableEq, Repr

/-- `shouldNotifyPeer(reason)` (regenerated from the source) and the role/target test of
`sendCloseNotification`. -/
def notifyNeeded (cfg : TCfg) (reason : Nat) : Bool :=
  Gen.ctunnel.Tunnel.shouldNotifyPeer () reason && cfg.role == Gen.ctunnel.TunnelRoleListen && cfg.hasTarget

/-- The close sequence between the state transition and `state.Store(Closed)`. -/
def closeBody (cfg : TCfg) (sh : TShared) (reason : Nat) : TShared :=
  { state := sh.state, disposed := true, registered := false,
    k := { disposeRuns := sh.k.disposeRuns + (if sh.disposed then 0 else 1),
           localCloses := sh.k.localCloses + 1,
           rwcCloses := sh.k.rwcCloses + 1,
           notifies := sh.k.notifies + (if notifyNeeded cfg reason then 1 else 0),
           unregOk := sh.k.unregOk + (if sh.registered then 1 else 0),
           onClosed := sh.k.onClosed ++ [reason] } }

def tStep (v : Variant) (cfg : TCfg) (_tid : Nat) (sh : TShared) (l : TLocal) : TShared × TLocal :=
  match l.pc with
  | .load =>
    if sh.state = 2 ∨ sh.state = 3 then (sh, { l with pc := .done, seen := sh.state })
    else (sh, { l with pc := .cas, seen := sh.state })
  | .cas =>
    match v with
    | .asFound =>
      if sh.state = 1 then ({ sh with state := 2 }, { l with pc := .body })
      else (sh, { l with pc := .storeClosing })
    | .repaired =>
      if sh.state = l.seen then ({ sh with state := 2 }, { l with pc := .body })
      else (sh, { l with pc := .load })
  | .storeClosing => ({ sh with state := 2 }, { l with pc := .body })
  | .body => (closeBody cfg sh l.reason, { l with pc := .fin })
  | .fin => ({ sh with state := 3 }, { l with pc := .done })
  | .done => (sh, l)

def tProg (v : Variant) (cfg : TCfg) : Prog TShared TLocal := ⟨tStep v cfg⟩

def zeroCounts : TCounts := ⟨0, 0, 0, 0, 0, []⟩

def tInit (init : Nat) (reasons : List Nat) : Cfg TShared TLocal :=
  ⟨⟨init, false, true, zeroCounts⟩, reasons.map (fun r => ⟨.load, r, 0⟩)⟩

/-- Steps a closer still has to take, as a function of the shared state. -/
def tWeight (sh : TShared) (l : TLocal) : Nat :=
  match l.pc with
  | .load => if sh.state ≤ 1 then 8 else 1
  | .cas => if sh.state ≤ 1 then 7 else 2
  | .storeClosing => 4
  | .body => 3
  | .fin => 2
  | .done => 0

def tMu (c : Cfg TShared TLocal) : Nat := (c.ths.map (tWeight c.sh)).sum

def tFinal (v : Variant) (cfg : TCfg) (init : Nat) (reasons : List Nat) (s : Schedule) : Cfg TShared TLocal :=
  run (tProg v cfg) (s ++ rounds reasons.length (8 * reasons.length)) (tInit init reasons)

/-! ## Bridge.reportTrafficStats -/

structure RShared where
  lock : Option Nat      -- reportMu (repaired)
  sent : Nat
  recv : Nat             -- bytesSent / bytesReceived
  lastS : Nat
  lastR : Nat            -- lastReportedSent / lastReportedReceived
  statS : Nat
  statR : Nat            -- mapping.TrafficStats in the CloudControl store
  updates : Nat          -- UpdatePortMappingStats calls
  deriving DecidableEq, Repr

inductive RPc | start | get | upd | done
  deriving DecidableEq, Repr

structure RLocal where
  pc : RPc
  curS : Nat
  curR : Nat
  dS : Nat
  dR : Nat
  mS : Nat
  mR : Nat
  failG : Bool := false    -- this caller's GetPortMapping returns an error
  failU : Bool := false    -- this caller's UpdatePortMappingStats returns an error
  deriving DecidableEq, Repr

def rNew : RLocal := ⟨.start, 0, 0, 0, 0, 0, 0, false, false⟩

def rStep (v : Variant) (tid : Nat) (sh : RShared) (l : RLocal) : RShared × RLocal :=
  match l.pc with
  | .start =>
    if v = .repaired ∧ sh.lock.isSome then (sh, l)            -- waits for reportMu
    else if sh.sent - sh.lastS = 0 ∧ sh.recv - sh.lastR = 0 then (sh, { l with pc := .done })
    else ({ sh with lock := if v = .repaired then some tid else none },
          { l with pc := .get, curS := sh.sent, curR := sh.recv, dS := sh.sent - sh.lastS, dR := sh.recv - sh.lastR,
                   mS := 0, mR := 0 })
  | .get =>
    if l.failG then ({ sh with lock := none }, { l with pc := .done })        -- error: return (deferred unlock)
    else (sh, { l with pc := .upd, mS := sh.statS, mR := sh.statR })
  | .upd =>
    if l.failU then ({ sh with lock := none }, { l with pc := .done })        -- error: nothing recorded
    else
            ({ sh with statS := l.mS + l.dS, statR := l.mR + l.dR, lastS := l.curS, lastR := l.curR,
                       updates := sh.updates + 1, lock := none },
             { l with pc := .done })
  | .done => (sh, l)

def rProg (v : Variant) : Prog RShared RLocal := ⟨rStep v⟩

def rWeight (l : RLocal) : Nat :=
  match l.pc with
  | .start => 3 | .get => 2 | .upd => 1 | .done => 0

def rMu (c : Cfg RShared RLocal) : Nat := (c.ths.map rWeight).sum

/-- One round: the byte counters grow, `n` reporters run under schedule `s`, then drain. -/
structure Round where
  addS : Nat
  addR : Nat
  n : Nat
  sched : Schedule
  failGet : List Nat       -- reporters whose GetPortMapping fails
  failUpd : List Nat       -- reporters whose UpdatePortMappingStats fails
  deriving Repr

/-- A round without storage faults. -/
abbrev mkRound (addS addR n : Nat) (sched : Schedule) : Round := ⟨addS, addR, n, sched, [], []⟩

def rThread (r : Round) (i : Nat) : RLocal := { rNew with failG := r.failGet.contains i, failU := r.failUpd.contains i }

def rStart (sh : RShared) (r : Round) : Cfg RShared RLocal :=
  ⟨{ sh with sent := sh.sent + r.addS, recv := sh.recv + r.addR }, (List.range r.n).map (rThread r)⟩

/-- Does reporter `i` of the round get through without a storage error? -/
def Round.clean (r : Round) (i : Nat) : Bool := !r.failGet.contains i && !r.failUpd.contains i

def rRound (v : Variant) (sh : RShared) (r : Round) : RShared :=
  (run (rProg v) (r.sched ++ rounds r.n (3 * r.n)) (rStart sh r)).sh

def rInit : RShared := ⟨none, 0, 0, 0, 0, 0, 0, 0⟩

/-- Shared state after each round. -/
def rRounds (v : Variant) : RShared → List Round → List RShared
  | _, [] => []
  | sh, r :: rs => rRound v sh r :: rRounds v (rRound v sh r) rs

/-! ## Bridge.Close -/

structure BShared where
  srcFwd : Bool
  tgtFwd : Bool
  srcTC : Bool
  tgtTC : Bool
  srcConn : Bool
  tgtConn : Bool          -- field is non-nil
  sc : Nat
  tc : Nat                -- Close calls on the source / target net.Conn
  stc : Nat
  ttc : Nat               -- Close calls on the source / target tunnel connection
  closed : Bool           -- dispose latch
  cleanups : Nat
  deriving DecidableEq, Repr

inductive BPc | s1 | s2 | s3 | done
  deriving DecidableEq, Repr

def b2n (b : Bool) : Nat := if b then 1 else 0

def bStep (_tid : Nat) (sh : BShared) (l : BPc) : BShared × BPc :=
  match l with
  | .s1 => ({ sh with srcFwd := false, sc := sh.sc + b2n sh.srcFwd }, .s2)
  | .s2 => ({ sh with tgtFwd := false, srcTC := false, tgtTC := false, srcConn := false, tgtConn := false,
                      tc := sh.tc + b2n sh.tgtFwd + b2n sh.tgtConn, sc := sh.sc + b2n sh.srcConn,
                      stc := sh.stc + b2n sh.srcTC, ttc := sh.ttc + b2n sh.tgtTC }, .s3)
  | .s3 => ({ sh with closed := true, cleanups := sh.cleanups + b2n (!sh.closed) }, .done)
  | .done => (sh, .done)

def bProg : Prog BShared BPc := ⟨bStep⟩

def bInit (n : Nat) : Cfg BShared BPc :=
  ⟨⟨true, true, true, true, true, true, 0, 0, 0, 0, false, 0⟩, List.replicate n .s1⟩

def bWeight (l : BPc) : Nat :=
  match l with
  | .s1 => 3 | .s2 => 2 | .s3 => 1 | .done => 0

def bMu (c : Cfg BShared BPc) : Nat := (c.ths.map bWeight).sum

def bFinal (n : Nat) (s : Schedule) : Cfg BShared BPc :=
  run bProg (s ++ rounds n (3 * n)) (bInit n)

/-! ## StreamProcessor.Close against in-flight I/O -/

structure SShared where
  lock : Option Nat       -- Dispose.currentLock
  closed : Bool
  readerSet : Bool
  writerSet : Bool        -- ps.reader / ps.writer non-nil
  rcloses : Nat
  wcloses : Nat
  panics : Nat
  deriving DecidableEq, Repr

inductive SPc | acquire | crit | release | chk (k : Nat) | io (k : Nat) | done
  deriving DecidableEq, Repr

/-- `res`: 0 pending / closer, 1 completed, 2 failed with an error, 3 panicked. -/
structure SLocal where
  pc : SPc
  isWriter : Bool
  res : Nat
  deriving DecidableEq, Repr

def sStep (v : Variant) (tid : Nat) (sh : SShared) (l : SLocal) : SShared × SLocal :=
  match l.pc with
  | .acquire =>
    match sh.lock with
    | none => ({ sh with lock := some tid }, { l with pc := .crit })
    | some _ => (sh, l)
  | .crit =>
    if sh.closed then (sh, { l with pc := .release })
    else ({ sh with closed := true, wcloses := sh.wcloses + 1, rcloses := sh.rcloses + 1,
                    writerSet := v != .asFound, readerSet := v != .asFound },
          { l with pc := .release })
  | .release => ({ sh with lock := none }, { l with pc := .done })
  | .chk k =>
    -- acquireReadLock / acquireWriteLock: IsClosed() takes currentLock
    match sh.lock with
    | some _ => (sh, l)
    | none =>
      if sh.closed then (sh, { l with pc := .done, res := 2 })
      else if !(if l.isWriter then sh.writerSet else sh.readerSet) then (sh, { l with pc := .done, res := 2 })
      else (sh, { l with pc := .io k })
  | .io 0 => (sh, { l with pc := .done, res := 1 })
  | .io (k + 1) =>
    if !(if l.isWriter then sh.writerSet else sh.readerSet) then
      ({ sh with panics := sh.panics + 1 }, { l with pc := .done, res := 3 })   -- nil interface call
    else if sh.closed then (sh, { l with pc := .done, res := 2 })              -- transport is closed
    else (sh, { l with pc := .io k })
  | .done => (sh, l)

def sProg (v : Variant) : Prog SShared SLocal := ⟨sStep v⟩

/-- Thread 0.. : `ops` I/O threads (isWriter, transport calls), then `n` closers. -/
def sInit (ops : List (Bool × Nat)) (n : Nat) : Cfg SShared SLocal :=
  ⟨⟨none, false, true, true, 0, 0, 0⟩,
   ops.map (fun o => ⟨.chk o.2, o.1, 0⟩) ++ List.replicate n ⟨.acquire, false, 0⟩⟩

def sWeight (l : SLocal) : Nat :=
  match l.pc with
  | .acquire => 3 | .crit => 2 | .release => 1 | .chk k => k + 3 | .io k => k + 1 | .done => 0

def sMu (c : Cfg SShared SLocal) : Nat := (c.ths.map sWeight).sum

def sFuel (ops : List (Bool × Nat)) (n : Nat) : Nat := (ops.map (fun o => o.2 + 3)).sum + 3 * n

def sFinal (v : Variant) (ops : List (Bool × Nat)) (n : Nat) (s : Schedule) : Cfg SShared SLocal :=
  run (sProg v) (s ++ rounds (ops.length + n) (sFuel ops n)) (sInit ops n)

/-! ## Data in flight: the copy loop's byte counter feeds the final report

`Bridge.CopyWithControl` is the model of C02 (`C02.copy`: read script, write script, batching of
the byte counter, periodic context check, final flush).  Whatever ends the loop — EOF, endpoint
error, `Bridge.Close` closing the endpoints, cancellation of the parent context noticed by the
periodic check — `Bridge.Start`'s `closeOnce` then runs `Bridge.Close`, whose cleanup reports the
counter; the periodic goroutine's final report races with it (`rRound`, two reporters). -/

structure FlowIn where
  reads : List C02.ReadEv
  writes : List C02.WriteEv

/-- State of the source→target copy loop when it has returned. -/
def flowCopy (i : FlowIn) : C02.St := (C02.copy none i.reads i.writes {}).1

/-- Shared report state after cleanup's report and the periodic goroutine's final report. -/
def flowReportOf (counter : Nat) (s₂ : Schedule) : RShared :=
  rRound .repaired rInit (mkRound counter 0 2 s₂)

def flowReport (i : FlowIn) (s₂ : Schedule) : RShared := flowReportOf (flowCopy i).counter s₂

/-! ## Tunnel.Start interleaved with Tunnel.Close

`Tunnel.Start` (internal/client/tunnel/tunnel.go) as its atomic steps: the `manager.Ctx()`
interface call, `SetCtx` (one `currentLock` section: binds a fresh live context and resets the
latch, unless a context is already bound), the `Connecting→Connected` CAS (on failure Start
returns an error), the spawn of `monitorPeerNotification`, `monitorTimeout` (5-minute timer) and
`runDataCopy`.  Thread 0 is the starter, the others are closers (the repaired `Tunnel.Close`:
load, CAS, close sequence, final store).  The close sequence's `Dispose.Close` cancels the
context only if one is bound and the latch is open.  The monitors end when the context is
cancelled, the copy ends when the connections are closed.
`StartOrder.casFirst` is the rejected variant "CAS, then manager.Ctx(), then SetCtx". -/

inductive StartOrder | setCtxFirst | casFirst
  deriving DecidableEq, Repr

structure UShared where
  state : Nat
  disposed : Bool         -- Dispose.closed
  ctxBound : Bool
  ctxCancelled : Bool
  spawned : Bool          -- monitors and copy goroutine started
  startRes : Nat          -- Start: 0 not returned, 1 nil, 2 error
  closes : Nat            -- close sequences run (onClosed calls)
  deriving DecidableEq, Repr

inductive UPc | sMgr | sSet | sCas | sSpawn | load | cas | body | fin | done
  deriving DecidableEq, Repr

structure ULocal where
  pc : UPc
  seen : Nat
  deriving DecidableEq, Repr

def uStep (ord : StartOrder) (_tid : Nat) (sh : UShared) (l : ULocal) : UShared × ULocal :=
  match l.pc with
  | .sMgr => (sh, { l with pc := .sSet })
  | .sSet =>
    (if sh.ctxBound then sh else { sh with ctxBound := true, ctxCancelled := false, disposed := false },
     { l with pc := match ord with | .setCtxFirst => .sCas | .casFirst => .sSpawn })
  | .sCas =>
    if sh.state = 0 then
      ({ sh with state := 1 }, { l with pc := match ord with | .setCtxFirst => .sSpawn | .casFirst => .sMgr })
    else ({ sh with startRes := 2 }, { l with pc := .done })
  | .sSpawn => ({ sh with spawned := true, startRes := 1 }, { l with pc := .done })
  | .load =>
    if 2 ≤ sh.state then (sh, { l with pc := .done, seen := sh.state })
    else (sh, { l with pc := .cas, seen := sh.state })
  | .cas =>
    if sh.state = l.seen then ({ sh with state := 2 }, { l with pc := .body })
    else (sh, { l with pc := .load })
  | .body =>
    (if sh.disposed then { sh with closes := sh.closes + 1 }
     else { sh with closes := sh.closes + 1, disposed := true, ctxCancelled := sh.ctxCancelled || sh.ctxBound },
     { l with pc := .fin })
  | .fin => ({ sh with state := 3 }, { l with pc := .done })
  | .done => (sh, l)

def uProg (ord : StartOrder) : Prog UShared ULocal := ⟨uStep ord⟩

/-- Thread 0 = `Start`, threads 1…n = closers; the tunnel is `Connecting`. -/
def uInit (ord : StartOrder) (n : Nat) : Cfg UShared ULocal :=
  ⟨⟨0, false, false, false, false, 0, 0⟩,
   ⟨match ord with | .setCtxFirst => .sMgr | .casFirst => .sCas, 0⟩ :: List.replicate n ⟨.load, 0⟩⟩

def uWeight (sh : UShared) (l : ULocal) : Nat :=
  match l.pc with
  | .sMgr => 4 | .sSet => 3 | .sCas => 2 | .sSpawn => 1
  | .load => if sh.state = 0 then 8 else if sh.state = 1 then 6 else 1
  | .cas => if 2 ≤ sh.state then 2 else if l.seen = sh.state then (if sh.state = 0 then 7 else 5) else 7
  | .body => 3 | .fin => 2 | .done => 0

def uMu (c : Cfg UShared ULocal) : Nat := (c.ths.map (uWeight c.sh)).sum

def uFinal (ord : StartOrder) (n : Nat) (s : Schedule) : Cfg UShared ULocal :=
  run (uProg ord) (s ++ rounds (n + 1) (8 * n + 5)) (uInit ord n)

/-! ## Close against a background loop that is in the middle of a tick

The in-memory storage's cleaner (internal/core/storage/memory/memory_ops.go `StartCleanup`):
`for { select { case <-ticker.C: CleanupExpired() (takes m.mu); case <-m.cleanupStop: return } }`,
the stop channel field being re-read at every `select`.  `StopCleanup` (run once, by the dispose
latch, under `m.mu`) stops the ticker and closes the channel.  Thread 0 is a reader that holds
`m.mu` (pending I/O) until it is unblocked, thread 1 the cleaner with a budget of `k` ticks (a tick
that is ready is taken even if the stop channel is closed too: adversarial `select`), threads
2… are closers.  `StopVariant.replace` is the rejected variant that installs a fresh channel in
the field after closing the old one.  (Since /repo 04aa54c `StartCleanup` hands the goroutine a
snapshot of ticker and stop channel instead of re-reading the fields; re-reading is the more
adversarial behaviour, so the theorem for `.keep` still covers the code, and the `.replace`
witness describes the code before that change.) -/

inductive StopVariant | keep | replace
  deriving DecidableEq, Repr

structure GShared where
  lock : Option Nat        -- m.mu
  latch : Bool             -- Dispose.closed
  tickerStopped : Bool
  gen : Nat                -- which channel object is in the field m.cleanupStop
  closedUpTo : Nat         -- channel objects with a smaller number are closed
  deriving DecidableEq, Repr

inductive GPc | rHold | cLatch | cStop | enter | wait | tick | done
  deriving DecidableEq, Repr

structure GLocal where
  pc : GPc
  k : Nat                  -- cleaner: ticks still to come
  g : Nat                  -- cleaner: channel object this select waits on
  deriving DecidableEq, Repr

def gStep (v : StopVariant) (_tid : Nat) (sh : GShared) (l : GLocal) : GShared × GLocal :=
  match l.pc with
  | .rHold => ({ sh with lock := none }, { l with pc := .done })
  | .cLatch => if sh.latch then (sh, { l with pc := .done }) else ({ sh with latch := true }, { l with pc := .cStop })
  | .cStop =>
    match sh.lock with
    | some _ => (sh, l)
    | none => ({ sh with tickerStopped := true, closedUpTo := sh.gen + 1,
                         gen := match v with | .keep => sh.gen | .replace => sh.gen + 1 },
               { l with pc := .done })
  | .enter => (sh, { l with pc := .wait, g := sh.gen })
  | .wait =>
    match l.k with
    | k' + 1 => (sh, { l with pc := .tick, k := k' })
    | 0 => if l.g < sh.closedUpTo then (sh, { l with pc := .done }) else (sh, l)
  | .tick =>
    match sh.lock with
    | some _ => (sh, l)
    | none => (sh, { l with pc := .enter })
  | .done => (sh, l)

def gProg (v : StopVariant) : Prog GShared GLocal := ⟨gStep v⟩

def gInit (k n : Nat) : Cfg GShared GLocal :=
  ⟨⟨some 0, false, false, 0, 0⟩,
   ⟨.rHold, 0, 0⟩ :: ⟨.enter, k, 0⟩ :: List.replicate n ⟨.cLatch, 0, 0⟩⟩

def gWeight (l : GLocal) : Nat :=
  match l.pc with
  | .rHold => 1 | .cLatch => 2 | .cStop => 1
  | .enter => 3 * l.k + 2 | .wait => 3 * l.k + 1 | .tick => 3 * l.k + 3
  | .done => 0

def gMu (c : Cfg GShared GLocal) : Nat := (c.ths.map gWeight).sum

def gFinal (v : StopVariant) (k n : Nat) (s : Schedule) : Cfg GShared GLocal :=
  run (gProg v) (s ++ rounds (n + 2) (3 * k + 3 + 2 * n)) (gInit k n)

/-! ## Bridge.Close and connections attached late

`SetTargetConnection` / `SetSourceConnection` (bridge_connection.go) put a new tunnel connection
into the bridge under `tunnelConnMu`, also after an earlier `Close` (a handler that had looked the
bridge up before it was closed).  Every `Close` call re-runs the connection teardown (close and
nil under the locks); only the dispose latch is once-only — that is what lets
`runBridgeLifecycle`'s deferred `Close` tear down a connection attached after an earlier `Close`.
`guard = true` is the rejected variant "already closed → return" at the top of `Close`.
Since /repo 20329a5 a late or duplicate attachment is refused and closed by the setter itself. -/

structure AShared where
  srcTC : Bool            -- sourceTunnelConn non-nil
  tgtTC : Bool
  satt : Nat              -- source / target connections ever handed to SetSource/SetTargetConnection
  stc : Nat               -- Close calls on source / target tunnel connections
  tatt : Nat
  ttc : Nat
  lostS : Nat             -- connections overwritten by a later attach while still attached
  lostT : Nat
  closed : Bool           -- dispose latch
  tornDown : Bool         -- Close has torn the connections down once (set under tunnelConnMu)
  deriving DecidableEq, Repr

inductive APc | a1 | a2 | a3 | attS | attT | done
  deriving DecidableEq, Repr

/-- `refuse` (the code since /repo 20329a5): `SetTargetConnection` turns away — and closes — a
connection when the bridge is torn down or already has a target, `SetSourceConnection` when the
bridge is torn down.  `refuse = false` is the code before that repair. -/
def aStep (guard refuse : Bool) (_tid : Nat) (sh : AShared) (l : APc) : AShared × APc :=
  match l with
  | .a1 => if guard && sh.closed then (sh, .done) else (sh, .a2)      -- sourceConnMu section (forwarder)
  | .a2 => ({ sh with srcTC := false, tgtTC := false, stc := sh.stc + b2n sh.srcTC, ttc := sh.ttc + b2n sh.tgtTC,
                      tornDown := true }, .a3)
  | .a3 => ({ sh with closed := true }, .done)
  | .attS =>
    if refuse && sh.tornDown then ({ sh with satt := sh.satt + 1, stc := sh.stc + 1 }, .done)
    else ({ sh with srcTC := true, satt := sh.satt + 1, lostS := sh.lostS + b2n sh.srcTC }, .done)
  | .attT =>
    if refuse && (sh.tornDown || sh.tgtTC) then ({ sh with tatt := sh.tatt + 1, ttc := sh.ttc + 1 }, .done)
    else ({ sh with tgtTC := true, tatt := sh.tatt + 1, lostT := sh.lostT + b2n sh.tgtTC }, .done)
  | .done => (sh, .done)

def aProg (guard refuse : Bool) : Prog AShared APc := ⟨aStep guard refuse⟩

/-- A bridge created with its source connection. -/
def aInit (pcs : List APc) : Cfg AShared APc := ⟨⟨true, false, 1, 0, 0, 0, 0, 0, false, false⟩, pcs⟩

/-- One uninterrupted `Close` call (the last one: `runBridgeLifecycle`'s deferred Close). -/
def closeSeq (guard : Bool) (sh : AShared) : AShared :=
  match (aStep guard true 0 sh .a1).2 with
  | .a2 => (aStep guard true 0 (aStep guard true 0 sh .a2).1 .a3).1
  | _ => sh

/-! ## Client mapping handler: reportStats (periodic loop ‖ final report on Close)

`BaseMappingHandler.reportStats` (internal/client/mapping/base_utils.go): claim the pending totals
with `BytesSent.Swap(0)` and `BytesReceived.Swap(0)`, hand them to `client.TrackTraffic` if one is
positive, add them back if the call failed.  It runs from `reportStatsLoop` (ticker) and from the
handler's close cleanup (final report), concurrently.  `PVar.loadSub` is the rejected variant
"Load, TrackTraffic, subtract afterwards". -/

inductive PVar | swap | loadSub
  deriving DecidableEq, Repr

structure PShared where
  pendS : Int              -- trafficStats.BytesSent / BytesReceived
  pendR : Int
  repS : Int               -- totals handed to successful TrackTraffic calls
  repR : Int
  calls : Nat
  deriving DecidableEq, Repr

inductive PPc | claimS | claimR | track | rollback | done
  deriving DecidableEq, Repr

structure PLocal where
  pc : PPc
  s : Int
  r : Int
  fail : Bool              -- this caller's TrackTraffic returns an error
  deriving DecidableEq, Repr

def pStep (v : PVar) (_tid : Nat) (sh : PShared) (l : PLocal) : PShared × PLocal :=
  match l.pc with
  | .claimS =>
    (match v with | .swap => { sh with pendS := 0 } | .loadSub => sh, { l with pc := .claimR, s := sh.pendS })
  | .claimR =>
    (match v with | .swap => { sh with pendR := 0 } | .loadSub => sh,
     { l with pc := if l.s > 0 ∨ sh.pendR > 0 then .track else .done, r := sh.pendR })
  | .track =>
    if l.fail then
      ({ sh with calls := sh.calls + 1 }, { l with pc := match v with | .swap => .rollback | .loadSub => .done })
    else
      ({ sh with repS := sh.repS + l.s, repR := sh.repR + l.r, calls := sh.calls + 1 },
       { l with pc := match v with | .swap => .done | .loadSub => .rollback })
  | .rollback =>
    (match v with
     | .swap => { sh with pendS := sh.pendS + l.s, pendR := sh.pendR + l.r }
     | .loadSub => { sh with pendS := sh.pendS - l.s, pendR := sh.pendR - l.r },
     { l with pc := .done })
  | .done => (sh, l)

def pProg (v : PVar) : Prog PShared PLocal := ⟨pStep v⟩

/-- `a`, `b`: totals accumulated by finished tunnels; one reporter per entry of `fails`. -/
def pInit (a b : Nat) (fails : List Bool) : Cfg PShared PLocal :=
  ⟨⟨a, b, 0, 0, 0⟩, fails.map fun f => ⟨.claimS, 0, 0, f⟩⟩

def pWeight (l : PLocal) : Nat :=
  match l.pc with
  | .claimS => 4 | .claimR => 3 | .track => 2 | .rollback => 1 | .done => 0

def pMu (c : Cfg PShared PLocal) : Nat := (c.ths.map pWeight).sum

def pFinal (v : PVar) (a b : Nat) (fails : List Bool) (s : Schedule) : Cfg PShared PLocal :=
  run (pProg v) (s ++ rounds fails.length (4 * fails.length)) (pInit a b fails)

/-! ## Two bridges of one mapping report to the same record (known finding)

`reportTrafficStats` reads the mapping (`GetPortMapping`), adds its delta and writes the whole
statistics back (`UpdatePortMappingStats`); `reportMu` is per bridge.  Two bridges (two tunnels of
the same mapping) that overlap between their Get and their Update lose one delta. -/

inductive XPc | get | upd | done
  deriving DecidableEq, Repr

structure XLocal where
  pc : XPc
  d : Nat                 -- this bridge's delta
  m : Nat                 -- statistics read by GetPortMapping
  deriving DecidableEq, Repr

def xStep (_tid : Nat) (stat : Nat) (l : XLocal) : Nat × XLocal :=
  match l.pc with
  | .get => (stat, { l with pc := .upd, m := stat })
  | .upd => (l.m + l.d, { l with pc := .done })
  | .done => (stat, l)

def xProg : Prog Nat XLocal := ⟨xStep⟩

def xFinal (ds : List Nat) (s : Schedule) : Cfg Nat XLocal :=
  run xProg (s ++ rounds ds.length (2 * ds.length)) ⟨0, ds.map fun d => ⟨.get, d, 0⟩⟩

/-! ## ResourceManager.DisposeAll (internal/core/dispose/manager.go)

`Register` adds a resource under `mu`.  `DisposeAll`: under `mu`, return at once if a disposal is in
progress or nothing is registered; otherwise set `disposing`, take the whole map and empty it;
outside the lock dispose every taken resource; under `mu` clear `disposing`. -/

structure MShared where
  pending : Nat           -- resources in the map
  registered : Nat        -- resources ever registered
  disposed : Nat          -- Dispose() calls
  disposing : Bool
  deriving DecidableEq, Repr

inductive MPc | reg | d1 | d2 | d3 | done
  deriving DecidableEq, Repr

structure MLocal where
  pc : MPc
  taken : Nat             -- resources this DisposeAll took out of the map
  deriving DecidableEq, Repr

def mStep (_tid : Nat) (sh : MShared) (l : MLocal) : MShared × MLocal :=
  match l.pc with
  | .reg => ({ sh with pending := sh.pending + 1, registered := sh.registered + 1 }, { l with pc := .done })
  | .d1 =>
    if sh.disposing || sh.pending == 0 then (sh, { l with pc := .done })
    else ({ sh with disposing := true, pending := 0 }, { pc := .d2, taken := sh.pending })
  | .d2 => ({ sh with disposed := sh.disposed + l.taken }, { pc := .d3, taken := 0 })
  | .d3 => ({ sh with disposing := false }, { l with pc := .done })
  | .done => (sh, l)

def mProg : Prog MShared MLocal := ⟨mStep⟩

def mInit (pre : Nat) (pcs : List MPc) : Cfg MShared MLocal :=
  ⟨⟨pre, pre, 0, false⟩, pcs.map fun p => ⟨p, 0⟩⟩

def mWeight (l : MLocal) : Nat :=
  match l.pc with
  | .reg => 1 | .d1 => 3 | .d2 => 2 | .d3 => 1 | .done => 0

def mMu (c : Cfg MShared MLocal) : Nat := (c.ths.map mWeight).sum

/-- One uninterrupted `DisposeAll` (the last one, e.g. at process exit). -/
def disposeAllSeq (sh : MShared) : MShared :=
  if sh.disposing || sh.pending == 0 then sh
  else { sh with pending := 0, disposed := sh.disposed + sh.pending }

def mFinal (pre : Nat) (pcs : List MPc) (s : Schedule) : MShared :=
  disposeAllSeq (run mProg (s ++ rounds pcs.length (3 * pcs.length)) (mInit pre pcs)).sh

/-! ## Operations on a component that is being / has been closed

The pattern behind "later operations fail cleanly": a cleanup handler releases a table (a Go map)
that other methods of the component keep using — `SessionManager.closedTunnels` with
`MarkTunnelClosed` / `IsTunnelClosed` (manager_ops.go), the in-memory storage's `data` with its
writers.  A lookup in a nil map is harmless, an assignment panics.  Threads: closers (dispose
latch, then the cleanup), writers (one assignment under the table's mutex), readers.
`nilOnClose = true`: the cleanup sets the table to nil and the writers do not re-create it. -/

structure KShared where
  closed : Bool
  tableSet : Bool         -- the map is non-nil
  writes : Nat
  panics : Nat
  deriving DecidableEq, Repr

inductive KPc | close | write | read | done
  deriving DecidableEq, Repr

def kStep (nilOnClose : Bool) (_tid : Nat) (sh : KShared) (l : KPc) : KShared × KPc :=
  match l with
  | .close => (if sh.closed then sh else { sh with closed := true, tableSet := sh.tableSet && !nilOnClose }, .done)
  | .write => (if sh.tableSet then { sh with writes := sh.writes + 1 } else { sh with panics := sh.panics + 1 }, .done)
  | .read => (sh, .done)
  | .done => (sh, .done)

def kProg (nilOnClose : Bool) : Prog KShared KPc := ⟨kStep nilOnClose⟩

def kInit (pcs : List KPc) : Cfg KShared KPc := ⟨⟨false, true, 0, 0⟩, pcs⟩

/-! ## ResourceManager.DisposeWithTimeout (graceful shutdown with a deadline)

`DisposeWithTimeout` starts a goroutine that runs `DisposeAll` and sends the result into a channel,
and waits for that result or for the deadline.  Thread 0 unblocks the slow resource (pending I/O),
thread 1 is the deadline, thread 2 the caller, thread 3 the worker goroutine.  With the 1-slot
buffer (`buffered = true`, the code) the worker's send never waits; `buffered = false` is the
rejected unbuffered channel: the send is a rendezvous with a caller that may already be gone. -/

structure HShared where
  released : Bool         -- the slow resource's Dispose may finish
  deadline : Bool         -- the timer / context deadline has fired
  disposed : Nat
  offered : Bool          -- a result is in the channel (buffered) / offered by a blocked sender
  taken : Bool
  timedOut : Bool         -- the caller returned the timeout result
  deriving DecidableEq, Repr

inductive HPc | unblock | timer | callWait | wDispose | wSend | wSending | done
  deriving DecidableEq, Repr

def hStep (buffered : Bool) (_tid : Nat) (sh : HShared) (l : HPc) : HShared × HPc :=
  match l with
  | .unblock => ({ sh with released := true }, .done)
  | .timer => ({ sh with deadline := true }, .done)
  | .callWait =>
    if sh.offered && !sh.taken then ({ sh with taken := true }, .done)
    else if sh.deadline then ({ sh with timedOut := true }, .done)
    else (sh, .callWait)
  | .wDispose => if sh.released then ({ sh with disposed := sh.disposed + 1 }, .wSend) else (sh, .wDispose)
  | .wSend => ({ sh with offered := true }, if buffered then .done else .wSending)
  | .wSending => if sh.taken then (sh, .done) else (sh, .wSending)
  | .done => (sh, .done)

def hProg (buffered : Bool) : Prog HShared HPc := ⟨hStep buffered⟩

def hInit : Cfg HShared HPc := ⟨⟨false, false, 0, false, false, false⟩, [.unblock, .timer, .callWait, .wDispose]⟩

def hWeight (l : HPc) : Nat :=
  match l with
  | .unblock => 1 | .timer => 1 | .callWait => 1 | .wDispose => 3 | .wSend => 2 | .wSending => 1 | .done => 0

def hMu (c : Cfg HShared HPc) : Nat := (c.ths.map hWeight).sum

def hFinal (buffered : Bool) (s : Schedule) : Cfg HShared HPc :=
  run (hProg buffered) (s ++ rounds 4 6) hInit

end Tunnox.C16
