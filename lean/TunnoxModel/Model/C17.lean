import TunnoxModel.Gen.Limits
/-!
# C17 — executable model of the admission protocols that enforce limits and quotas

One parametric machine, instantiated for the five places where tunnox-core admits something against
a configured bound (all as REPAIRED by the `fix:` commits of this property unless said otherwise):

| instance | Go function | shape |
|---|---|---|
| `conn` | `session.SessionManager.CreateConnection` (connection_lifecycle.go) | read `len(connMap)` under `RLock` + check; injectable `GetConnectionID()`; re-check **and** insert under `Lock` (`final = check`).  As found: `final = plain`. |
| `ctrl` | `session.ClientRegistry.Register` (client_registry.go) | one critical section: at the cap evict the oldest, insert (`final = evict`) |
| `tun`  | `session.TunnelRegistry.Register` (tunnel_registry.go) | one critical section: check, insert (`final = check`) |
| `map`  | `mapping.BaseMappingHandler.acquireConnectionSlot` (client/mapping/base_utils.go) | `Load`, check, `CompareAndSwap(cur, cur+1)`, retry (`final = cas`); one step for an observer that cannot stop between `Load` and `CAS` (`final = check`) |
| `code` | `conncode.Service.CreateConnectionCode` (+ `repos.ConnectionCodeRepository`) | `codeQuotaMu.Lock`; `GetList(index)` = n ids; n × `GetByID`; check; `GetByCode`; `Set(by-code)` = the code exists (can be activated); `Set(by-id)`, `AppendToList(index)`; unlock (`mutex`, `cnt n = n`, `mid = 1`, `final = plain`, `post = 2`).  The occupancy is what counts OR can be activated |
| `mapq` | `conncode.Service.ActivateConnectionCode` | `mappingQuotaMu.Lock`; `GetClientPortMappings` + count + check; `CreatePortMapping`; unlock |

A request that finds the mutex held queues up (`PC.waiting`, one `blk` event per scheduled step while
it waits) and is handed the mutex by the holder's `Unlock()` in arrival order (`handover`); `Op.other`
is a request of another client going through the same service instance and the same mutex.

Atomic step = one storage operation / one map operation under its lock / one atomic instruction /
one call of an injectable collaborator.  The occupancy is the list of admitted items, oldest first
(items are numbered in admission order, so the list is ascending).  The schedule, the limit, the
initial occupancy, the number of threads and their programs are chosen by the adversary.
-/
namespace Tunnox.C17

/-- What the last step of an admission does. -/
inductive Final where
  | plain   -- insert unconditionally (`connMap[id] = conn` as found; `AppendToList`; `CreatePortMapping`)
  | check   -- one critical section: refuse when full, else insert
  | evict   -- one critical section: when full remove the oldest, then insert
  | cas     -- `CompareAndSwap(snap, snap+1)`: insert iff the occupancy still is the value checked, else start over
deriving DecidableEq, Repr

structure Proto where
  mutex : Bool        -- the admission runs inside the per-instance mutex (taking it is one step)
  early : Bool        -- a read of the occupancy followed by the limit check precedes the final step
  cnt : Nat → Nat     -- storage reads between the occupancy read and the check, as a function of the value read
  mid : Nat           -- operations between the passed check and the final step
  final : Final
  zeroUnl : Bool      -- `limit > 0 &&` guard present: 0 means unlimited
  fused : Bool := false   -- `Lock()` is not a step of its own: the first step runs from the lock to the first gate
                          -- INSIDE the critical section (`ClientRegistry.Register` with a gated `Close()` of the victim)
  scan : Bool := false    -- the count is a scan: `GetList(index)`, then one record read PER INDEX ENTRY, each counted
                          -- only if the entry is (still) active at the moment it is read (revoked codes stay in the index)
  staleWrite : Bool := false
                          -- usage update that READS the record before taking the record lock and writes its copy back
                          -- under the lock (seeded regression `recordusage-read-outside-mapping-lock`)
  post : Nat := 0         -- plain insert: storage operations that follow the insert INSIDE the critical section
                          -- (`Create`: the code is usable from `Set(by-code)` on; `Set(by-id)`, `AppendToList` follow)
  sections : Nat := 1     -- fused evict protocol: 1 = check + evict + `Close()` + insert in ONE critical section;
                          -- 2 = check + evict, unlock, `Close()`, lock, insert without re-check

/-- The refusal condition as written in Go: `[max > 0 &&] n >= max`. -/
def full (P : Proto) (limit n : Nat) : Bool :=
  (!P.zeroUnl || decide (0 < limit)) && decide (limit ≤ n)

inductive Op where
  | acquire    -- one admission request
  | release    -- give back what this thread was admitted with last (close / delete), one step
  | other      -- an admission request of ANOTHER client: same protocol, same mutex, not counted here
  | touch      -- read-modify-write of the record of item 0 that does not change its status (`RecordMappingUsage`):
               -- record lock, read, write back, unlock.  The record lock is the mutex of the thread's `inst`
  | mrevoke    -- the same shape, the write marks item 0 revoked (`RevokeMapping`)
  | revoke (failAt : Option Nat)
               -- give back through the service (`RevokeConnectionCode` of the own code), five storage calls, not under
               -- the quota mutex: claim, read, `Set(by-code)` (unusable), `Set(by-id)` (no longer counted), release claim;
               -- `failAt = some k`: the k-th call fails (storage fault)
deriving DecidableEq, Repr

inductive PC where
  | idle                      -- between operations / before the first step of an admission
  | waiting                   -- blocked in `Lock()` of the instance mutex (queued, FIFO hand-over)
  | locked                    -- holds the instance mutex, about to read
  | counting (snap k : Nat)   -- occupancy `snap` read, `k` more storage reads before the check
  | passed (snap k : Nat)     -- check passed on `snap`, `k` more operations before the final step
  | noise (k : Nat)           -- request of another client past its check, `k` more operations
  | evicting (v : Nat)        -- inside the victim's `Close()`, about to insert
  | scanning (rest : List Nat) (acc : Nat)
                              -- index read; `rest` entries still to be read, `acc` active ones found so far
  | revoking (k : Nat)        -- `RevokeConnectionCode`: about to issue its storage call number `k`
deriving DecidableEq, Repr

structure Thread where
  inst : Nat            -- service instance (owner of the mutex)
  ops : List Op
  pc : PC
  own : Option Nat      -- item this thread was admitted with last

/-- One event per executed step, with the occupancy an observer reads right after the step. -/
inductive Ev where
  | stp (tid n : Nat)                               -- intermediate step
  | blk (tid n : Nat)                               -- the mutex is held by somebody else
  | adm (tid item : Nat) (victim : Option Nat) (n : Nat)
  | ref (tid : Nat) (dirty : Bool) (n : Nat)        -- refused; `dirty` = the request changed state
  | rel (tid item n : Nat)
  | nop (tid n : Nat)                               -- release with nothing to release
  | evi (tid victim n : Nat)                        -- the victim left the map in a step of its own (two-section variant)
deriving DecidableEq, Repr

structure Cfg where
  occ : List Nat          -- admitted items, oldest first
  next : Nat              -- next fresh item
  locks : List Nat        -- instances whose mutex is held
  waitq : List Nat        -- threads blocked in `Lock()`, in arrival order
  idx : List Nat          -- the client's index: every item ever admitted (and inactive entries), append order
  threads : Nat → Thread
  trace : List Ev

def upd (ts : Nat → Thread) (i : Nat) (t : Thread) : Nat → Thread := fun j => if j = i then t else ts j

def finishOp (t : Thread) : Thread := { t with ops := t.ops.tail, pc := .idle }

/-- `Unlock()` of the mutex of `inst`: the first thread waiting for it gets it (sync.Mutex wakes
waiters in arrival order and nobody else is running), otherwise it becomes free. -/
def handover (c : Cfg) (inst : Nat) : Cfg :=
  match c.waitq.find? (fun t => decide ((c.threads t).pc = .waiting) && decide ((c.threads t).inst = inst)) with
  | some t => { c with threads := upd c.threads t { c.threads t with pc := .locked },
                       waitq := c.waitq.filter (fun x => x != t) }
  | none => { c with locks := c.locks.erase inst }

def unlockCfg (P : Proto) (c : Cfg) (inst : Nat) : Cfg := if P.mutex then handover c inst else c

/-- Intermediate step: only the thread (and possibly the lock set) changes. -/
def stpCfg (c : Cfg) (tid : Nat) (t : Thread) (locks : List Nat) : Cfg :=
  { c with locks := locks, threads := upd c.threads tid t, trace := c.trace ++ [.stp tid c.occ.length] }

/-- The request is refused: nothing but the caller's own control state changes. -/
def refuseCore (c : Cfg) (tid : Nat) : Cfg :=
  { c with threads := upd c.threads tid (finishOp (c.threads tid)),
           trace := c.trace ++ [.ref tid false c.occ.length] }

def refuseCfg (P : Proto) (c : Cfg) (tid : Nat) : Cfg := unlockCfg P (refuseCore c tid) (c.threads tid).inst

/-- The request is admitted into `base` (the occupancy, possibly minus an evicted victim). -/
def admitCore (c : Cfg) (tid : Nat) (base : List Nat) (victim : Option Nat) : Cfg :=
  { c with occ := base ++ [c.next], next := c.next + 1, idx := c.idx ++ [c.next],
           threads := upd c.threads tid { finishOp (c.threads tid) with own := some c.next },
           trace := c.trace ++ [.adm tid c.next victim (base.length + 1)] }

def admitCfg (P : Proto) (c : Cfg) (tid : Nat) (base : List Nat) (victim : Option Nat) : Cfg :=
  unlockCfg P (admitCore c tid base victim) (c.threads tid).inst

/-- A request of another client is over (admitted or refused there): only the mutex is released. -/
def doneCfg (P : Proto) (c : Cfg) (tid : Nat) : Cfg :=
  unlockCfg P (stpCfg c tid (finishOp (c.threads tid)) c.locks) (c.threads tid).inst

/-- Plain insert followed by `post` further operations inside the critical section: the item is in,
the request (and the mutex) is not finished yet. -/
def admitHold (P : Proto) (c : Cfg) (tid : Nat) : Cfg :=
  { c with occ := c.occ ++ [c.next], next := c.next + 1, idx := c.idx ++ [c.next],
           threads := upd c.threads tid { c.threads tid with own := some c.next, pc := .noise (P.post - 1) },
           trace := c.trace ++ [.adm tid c.next none (c.occ.length + 1)] }

def finalStep (P : Proto) (limit : Nat) (c : Cfg) (tid snap : Nat) : Cfg :=
  match P.final with
  | .plain => if P.post = 0 then admitCfg P c tid c.occ none else admitHold P c tid
  | .check => if full P limit c.occ.length then refuseCfg P c tid else admitCfg P c tid c.occ none
  | .evict =>
    if full P limit c.occ.length then
      match c.occ with
      | [] => refuseCfg P c tid            -- findOldestConnectionLocked() == nil
      | v :: r => admitCfg P c tid r (some v)
    else admitCfg P c tid c.occ none
  | .cas =>
    if c.occ.length = snap then admitCfg P c tid c.occ none
    else stpCfg c tid { c.threads tid with pc := if P.mutex then .locked else .idle } c.locks

/-- The limit check on the value read earlier. -/
def checkStep (P : Proto) (limit : Nat) (c : Cfg) (tid snap : Nat) : Cfg :=
  if full P limit snap then refuseCfg P c tid
  else stpCfg c tid { c.threads tid with pc := .passed snap P.mid } c.locks

/-- First effective step of an admission (after the mutex, if any, was taken). -/
def readStep (P : Proto) (limit : Nat) (c : Cfg) (tid : Nat) : Cfg :=
  if P.early then
    if P.scan then
      -- GetList(index): the entries are read one by one afterwards
      match c.idx with
      | [] => checkStep P limit c tid 0
      | _ :: _ => stpCfg c tid { c.threads tid with pc := .scanning c.idx 0 } c.locks
    else
    if P.cnt c.occ.length = 0 then checkStep P limit c tid c.occ.length
    else stpCfg c tid { c.threads tid with pc := .counting c.occ.length (P.cnt c.occ.length) } c.locks
  else finalStep P limit c tid c.occ.length

/-- One record read of the count: the entry counts iff it is active NOW. -/
def scanStep (P : Proto) (limit : Nat) (c : Cfg) (tid : Nat) (rest : List Nat) (acc : Nat) : Cfg :=
  match rest with
  | [] => checkStep P limit c tid acc
  | e :: r =>
    if r = [] then checkStep P limit c tid (acc + (if e ∈ c.occ then 1 else 0))
    else stpCfg c tid { c.threads tid with pc := .scanning r (acc + (if e ∈ c.occ then 1 else 0)) } c.locks

/-- The same for a request of another client: that client has nothing yet (occupancy 0, no record reads). -/
def noiseStep (P : Proto) (limit : Nat) (c : Cfg) (tid : Nat) : Cfg :=
  if P.early then
    if full P limit 0 then doneCfg P c tid
    else stpCfg c tid { c.threads tid with pc := .noise (P.mid + P.post) } c.locks
  else doneCfg P c tid

def holdLock (locks : List Nat) (inst : Nat) : List Nat := if inst ∈ locks then locks else inst :: locks

/-- The victim leaves the map, the lock is released, the thread goes on into `Close()` (two sections). -/
def evictCore (c : Cfg) (tid v : Nat) : Cfg :=
  { c with occ := c.occ.erase v,
           threads := upd c.threads tid { c.threads tid with pc := .evicting v },
           trace := c.trace ++ [.evi tid v (c.occ.erase v).length] }

/-- Fused evict protocol from the moment the registry lock is held: check, pick the victim, run into
its `Close()` (a gate of the harness) — or refuse / insert right away. -/
def evictEnter (P : Proto) (limit : Nat) (c : Cfg) (tid : Nat) : Cfg :=
  if full P limit c.occ.length then
    match c.occ with
    | [] => refuseCfg P c tid
    | v :: _ =>
      if P.sections ≤ 1 then
        stpCfg c tid { c.threads tid with pc := .evicting v } (holdLock c.locks (c.threads tid).inst)
      else unlockCfg P (evictCore c tid v) (c.threads tid).inst
  else admitCfg P c tid c.occ none

/-- `Close()` of the victim returned: insert (one section: the victim leaves the map in the same
critical section; two sections: plain insert in a second critical section, no re-check). -/
def evictFinish (P : Proto) (c : Cfg) (tid v : Nat) : Cfg :=
  if P.sections ≤ 1 then admitCfg P c tid (c.occ.erase v) (some v)
  else admitCfg P c tid c.occ none

def nopCfg (c : Cfg) (tid : Nat) : Cfg :=
  { c with threads := upd c.threads tid { finishOp (c.threads tid) with own := none },
           trace := c.trace ++ [.nop tid c.occ.length] }

def blkCfg (c : Cfg) (tid : Nat) : Cfg := { c with trace := c.trace ++ [.blk tid c.occ.length] }

/-- The thread queues up in `Lock()`. -/
def waitCfg (c : Cfg) (tid : Nat) : Cfg :=
  { c with threads := upd c.threads tid { c.threads tid with pc := .waiting },
           waitq := c.waitq ++ [tid],
           trace := c.trace ++ [.blk tid c.occ.length] }

/-- `Lock()`: take the free mutex, or queue up behind its holder. -/
def lockStep (c : Cfg) (tid : Nat) : Cfg :=
  if (c.threads tid).inst ∈ c.locks then waitCfg c tid
  else stpCfg c tid { c.threads tid with pc := .locked } ((c.threads tid).inst :: c.locks)

/-- The request of the thread is over without the mutex being involved. -/
def endCfg (c : Cfg) (tid : Nat) : Cfg :=
  { c with threads := upd c.threads tid { finishOp (c.threads tid) with own := none },
           trace := c.trace ++ [.stp tid c.occ.length] }

/-- One storage call of `RevokeConnectionCode` (call number `k`; `fail` = this call fails). -/
def revokeStep (c : Cfg) (tid k : Nat) (fail : Bool) : Cfg :=
  match k with
  | 0 => -- TryClaim (SetNX)
    if fail then endCfg c tid else stpCfg c tid { c.threads tid with pc := .revoking 1 } c.locks
  | 1 => -- GetByCode
    stpCfg c tid { c.threads tid with pc := .revoking (if fail then 4 else 2) } c.locks
  | 2 => -- Set(by-code): the code can no longer be activated; it is still counted
    stpCfg c tid { c.threads tid with pc := .revoking (if fail then 4 else 3) } c.locks
  | 3 => -- Set(by-id): the quota slot is free
    if fail then stpCfg c tid { c.threads tid with pc := .revoking 4 } c.locks
    else
      match (c.threads tid).own with
      | none => stpCfg c tid { c.threads tid with pc := .revoking 4 } c.locks
      | some it =>
        if it ∈ c.occ then
          { c with occ := c.occ.erase it,
                   threads := upd c.threads tid { c.threads tid with pc := .revoking 4 },
                   trace := c.trace ++ [.rel tid it (c.occ.erase it).length] }
        else stpCfg c tid { c.threads tid with pc := .revoking 4 } c.locks
  | _ => endCfg c tid -- ReleaseClaim (a failure is only logged)

/-- Item `it` leaves through a request that ends with this step. -/
def relCore (c : Cfg) (tid it : Nat) : Cfg :=
  { c with occ := c.occ.erase it,
           threads := upd c.threads tid (finishOp (c.threads tid)),
           trace := c.trace ++ [.rel tid it (c.occ.erase it).length] }

/-- Write-back of a usage update (`k = 1`: the copy it read said "active").  Under the record lock from
the read on, the copy is current; read before the lock (`staleWrite`), it may resurrect a revoked item. -/
def touchWrite (P : Proto) (c : Cfg) (tid k : Nat) : Cfg :=
  if P.staleWrite && k == 1 && !(c.occ.contains 0) then
    unlockCfg P { c with occ := c.occ ++ [0],
                         threads := upd c.threads tid (finishOp (c.threads tid)),
                         trace := c.trace ++ [.stp tid (c.occ.length + 1)] } (c.threads tid).inst
  else doneCfg P c tid

def mrevokeWrite (P : Proto) (c : Cfg) (tid : Nat) : Cfg :=
  if 0 ∈ c.occ then unlockCfg P (relCore c tid 0) (c.threads tid).inst else doneCfg P c tid

/-- Steps of a read-modify-write request on the record of item 0: (record lock +) read, then write
back (+ unlock).  Nothing injectable sits between `Lock()` and the read, so they are one step; a request
that finds the lock held queues up and, once handed the lock, performs its read (`.locked`). -/
def rmwStep (P : Proto) (c : Cfg) (tid : Nat) (isRevoke : Bool) : Cfg :=
  match (c.threads tid).pc with
  | .idle =>
    if P.mutex && !P.staleWrite then
      if (c.threads tid).inst ∈ c.locks then waitCfg c tid
      else stpCfg c tid { c.threads tid with pc := .noise (if 0 ∈ c.occ then 1 else 0) }
             (holdLock c.locks (c.threads tid).inst)
    else stpCfg c tid { c.threads tid with pc := .noise (if 0 ∈ c.occ then 1 else 0) } c.locks
  | .waiting => blkCfg c tid
  | .locked => stpCfg c tid { c.threads tid with pc := .noise (if 0 ∈ c.occ then 1 else 0) } c.locks
  | .noise k => if isRevoke then mrevokeWrite P c tid else touchWrite P c tid k
  | _ => c

/-- One atomic step of thread `tid`. -/
def stepThread (P : Proto) (limit : Nat) (c : Cfg) (tid : Nat) : Cfg :=
  match (c.threads tid).ops with
  | [] => c
  | .release :: _ =>
    match (c.threads tid).own with
    | none => nopCfg c tid
    | some it =>
      if it ∈ c.occ then
        { c with occ := c.occ.erase it,
                 threads := upd c.threads tid { finishOp (c.threads tid) with own := none },
                 trace := c.trace ++ [.rel tid it (c.occ.erase it).length] }
      else nopCfg c tid
  | .acquire :: _ =>
    match (c.threads tid).pc with
    | .idle =>
      if P.mutex then
        if P.fused then
          if (c.threads tid).inst ∈ c.locks then waitCfg c tid else evictEnter P limit c tid
        else lockStep c tid
      else readStep P limit c tid
    | .waiting => blkCfg c tid
    | .locked => if P.fused then evictEnter P limit c tid else readStep P limit c tid
    | .counting snap k =>
      if k ≤ 1 then checkStep P limit c tid snap
      else stpCfg c tid { c.threads tid with pc := .counting snap (k - 1) } c.locks
    | .passed snap k =>
      match k with
      | 0 => finalStep P limit c tid snap
      | k' + 1 => stpCfg c tid { c.threads tid with pc := .passed snap k' } c.locks
    | .noise k =>
      match k with
      | 0 => doneCfg P c tid
      | k' + 1 => stpCfg c tid { c.threads tid with pc := .noise k' } c.locks
    | .evicting v => if P.fused then evictFinish P c tid v else c
    | .scanning rest acc => scanStep P limit c tid rest acc
    | .revoking _ => c
  | .touch :: _ => rmwStep P c tid false
  | .mrevoke :: _ => rmwStep P c tid true
  | .revoke failAt :: _ =>
    match (c.threads tid).pc with
    | .idle =>
      -- the request arrives (nothing shared is touched before the first storage call)
      if (c.threads tid).own.isSome then stpCfg c tid { c.threads tid with pc := .revoking 0 } c.locks else endCfg c tid
    | .revoking k => revokeStep c tid k (failAt == some k)
    | _ => c
  | .other :: _ =>
    match (c.threads tid).pc with
    | .idle => if P.mutex then lockStep c tid else noiseStep P limit c tid
    | .waiting => blkCfg c tid
    | .locked => noiseStep P limit c tid
    | .noise k =>
      match k with
      | 0 => doneCfg P c tid
      | k' + 1 => stpCfg c tid { c.threads tid with pc := .noise k' } c.locks
    | .counting _ _ => c
    | .passed _ _ => c
    | .evicting _ => c
    | .scanning _ _ => c
    | .revoking _ => c

def run (P : Proto) (limit : Nat) (c : Cfg) (σ : List Nat) : Cfg := σ.foldl (stepThread P limit) c

def mkThread (p : Nat × List Op) : Thread := ⟨p.1, p.2, .idle, none⟩

/-- Threads `0..n-1` run the given programs, every other index is an idle thread without program. -/
def mkThreads (progs : List (Nat × List Op)) : Nat → Thread :=
  fun i => match progs[i]? with
    | some p => mkThread p
    | none => ⟨0, [], .idle, none⟩

/-- `pre` items `0..pre-1` are already admitted. -/
def init (pre : Nat) (progs : List (Nat × List Op)) : Cfg :=
  ⟨List.range pre, pre, [], [], List.range pre, mkThreads progs, []⟩

/-- … and `dead` further entries `pre..pre+dead-1` sit in the index without being active. -/
def initDead (dead pre : Nat) (progs : List (Nat × List Op)) : Cfg :=
  ⟨List.range pre, pre + dead, [], [], List.range (pre + dead), mkThreads progs, []⟩

/-! ## The instances -/

def protoConn : Proto := { mutex := false, early := true, cnt := fun _ => 0, mid := 0, final := .check, zeroUnl := true }
/-- `CreateConnection` as found (check under `RLock`, plain insert under `Lock`). -/
def protoConnAsFound : Proto := { mutex := false, early := true, cnt := fun _ => 0, mid := 0, final := .plain, zeroUnl := true }
def protoCtrl : Proto := { mutex := false, early := false, cnt := fun _ => 0, mid := 0, final := .evict, zeroUnl := true }
/-- `ClientRegistry.Register` with stream doubles whose `Close()` is a gate: the registry lock `r.mu`
is the mutex, taking it is fused with the first step, the evicting thread parks inside `Close()`. -/
def protoCtrlX : Proto := { mutex := true, early := false, cnt := fun _ => 0, mid := 0, final := .evict, zeroUnl := true,
                            fused := true, sections := 1 }
/-- the two-section variant (seeded regression `register-evict-then-insert-two-sections`). -/
def protoCtrlX2 : Proto := { protoCtrlX with sections := 2 }
def protoTun : Proto := { mutex := false, early := false, cnt := fun _ => 0, mid := 0, final := .check, zeroUnl := true }
/-- mapping handler as the harness can schedule it (no stop between `Load` and `CompareAndSwap`). -/
def protoMap : Proto := { mutex := false, early := false, cnt := fun _ => 0, mid := 0, final := .check, zeroUnl := true }
/-- mapping handler at atomic-instruction granularity. -/
def protoMapCas : Proto := { mutex := false, early := true, cnt := fun _ => 0, mid := 0, final := .cas, zeroUnl := true }
/-- mapping handler as found (`Load`, check, separate `Add`). -/
def protoMapAsFound : Proto := { mutex := false, early := true, cnt := fun _ => 0, mid := 0, final := .plain, zeroUnl := true }
def protoCode : Proto := { mutex := true, early := true, cnt := fun _ => 0, mid := 1, final := .plain, zeroUnl := false, post := 2,
                           scan := true }
def protoMapq : Proto := { mutex := true, early := true, cnt := fun _ => 0, mid := 0, final := .plain, zeroUnl := false }
/-- quotas as found: count-then-create without mutual exclusion. -/
def protoCodeAsFound : Proto := { protoCode with mutex := false }

end Tunnox.C17
