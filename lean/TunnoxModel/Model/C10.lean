import TunnoxModel.Model.Src
import TunnoxModel.Gen.CrossNode
/-
  C10 — cross-node frames and frame streams.  Mirrors
    internal/protocol/session/crossnode/frame.go   WriteFrame / WriteFrameToWriter, ReadFrame /
                                                   ReadFrameFromReader, TunnelIDFromString, TunnelIDToString
    internal/protocol/session/crossnode/stream.go  isConnectionClosedError, FrameStream.Read, Write,
                                                   CloseWrite, Close
  Frame-type bytes, `FrameHeaderSize` and `MaxFrameSize` come from `Gen.crossnode` (regenerated from the
  Go source); `Gen.Flow.*` pins the text of every mirrored function (see `Props/C10.lean`).
  The TCP connection is a `Src` (inbound bytes in arbitrary chunks, then EOF or an error) plus the
  list of bytes written so far (`out`).  TCP itself (ordering, no loss) is the trusted base.
-/
namespace Tunnox.C10
open Gen

/-- A frame: 16-byte tunnel id field, type byte, payload. -/
structure Frame where
  id : Bytes
  ty : Nat
  data : Bytes
deriving DecidableEq, Repr

/-- Width of the tunnel id field (`[16]byte`, `header[0:16]`). -/
def idLen : Nat := 16

def be32 (n : Nat) : Bytes :=
  [UInt8.ofNat (n / 16777216 % 256), UInt8.ofNat (n / 65536 % 256),
   UInt8.ofNat (n / 256 % 256), UInt8.ofNat (n % 256)]

def unbe32 : Bytes → Nat
  | [a, b, c, d] => a.toNat * 16777216 + b.toNat * 65536 + c.toNat * 256 + d.toNat
  | _ => 0

/-- `TunnelIDFromString`: the first 16 bytes of the string, zero padded. -/
def tunnelIDFromString (s : Bytes) : Bytes :=
  s.take idLen ++ List.replicate (idLen - s.length) 0

/-- `TunnelIDToString`: the bytes before the first zero byte. -/
def tunnelIDToString (id : Bytes) : Bytes := id.takeWhile (· != 0)

/-- The 21 header bytes: `copy(header[0:16], id)`, `header[16] = type`, big-endian length. -/
def header (id : Bytes) (ty n : Nat) : Bytes := id ++ UInt8.ofNat ty :: be32 n

/-- The bytes of one frame on the wire. -/
def encode (f : Frame) : Bytes := header f.id f.ty f.data.length ++ f.data

def encodeAll (fs : List Frame) : Bytes := (fs.map encode).flatten

/-- `WriteFrame` / `WriteFrameToWriter`: the bytes written; `none` = rejected ("frame too large"). -/
def writeFrame (f : Frame) : Option Bytes :=
  if f.data.length > crossnode.MaxFrameSize then none else some (encode f)

/-- Hand every frame to `WriteFrame` in turn: `(accepted?, bytes written)`. -/
def writeAll : List Frame → List Bool × Bytes
  | [] => ([], [])
  | f :: fs =>
    match writeFrame f with
    | none => (false :: (writeAll fs).1, (writeAll fs).2)
    | some w => (true :: (writeAll fs).1, w ++ (writeAll fs).2)

/-- What a writer can hand to `WriteFrame`: a 16-byte id, a type byte, a payload within the limit. -/
def Frame.WF (f : Frame) : Prop :=
  f.id.length = idLen ∧ f.ty < 256 ∧ f.data.length ≤ crossnode.MaxFrameSize

instance (f : Frame) : Decidable f.WF := by unfold Frame.WF; exact inferInstance

/-! ### TargetReady payload (`tunnelID|targetNodeID`) -/

def bar : Byte := 0x7c   -- '|'

/-- `EncodeTargetReadyMessage` -/
def encodeTargetReady (tid node : Bytes) : Bytes := tid ++ bar :: node

/-- `DecodeTargetReadyMessage`: split at the LAST '|' (tunnel ids are chosen by clients and may contain
'|', node ids never do); `none` = "invalid target ready message format". -/
def decodeTargetReady : Bytes → Option (Bytes × Bytes)
  | [] => none
  | b :: bs =>
    match decodeTargetReady bs with
    | some (t, n) => some (b :: t, n)
    | none => if b == bar then some ([], bs) else none

/-! ### ReadFrameFromReader -/

/-- How `ReadFrameFromReader` fails. -/
inductive FErr where
  | eof                 -- io.EOF before the first header byte (returned unwrapped)
  | header (t : Tail)   -- stream ended (`.eof`: "unexpected EOF") or failed inside the header
  | tooLarge            -- declared length above MaxFrameSize: rejected BEFORE allocating
  | data (t : Tail)     -- stream ended or failed inside the payload
deriving DecidableEq, Repr

inductive FOut where
  | frame (f : Frame)
  | fail (e : FErr)
deriving DecidableEq, Repr

/-- Result of one `ReadFrameFromReader`: outcome, the source afterwards, bytes allocated with `make`. -/
structure RF where
  out : FOut
  rest : Src
  alloc : Nat
deriving DecidableEq, Repr

def frameOfHeader (h : Bytes) (d : Bytes) : Frame :=
  ⟨h.take idLen, (h.getD idLen 0).toNat, d⟩

/-- `ReadFrameFromReader` over a chunked source. -/
def readFrame (s : Src) : RF :=
  match s.readFull crossnode.FrameHeaderSize with            -- io.ReadFull(r, header)
  | .short got tl =>
    ⟨.fail (if got.isEmpty && tl == .eof then .eof else .header tl), ⟨[], tl⟩, crossnode.FrameHeaderSize⟩
  | .ok h s1 =>
    let n := unbe32 (h.drop (idLen + 1))
    if n > crossnode.MaxFrameSize then ⟨.fail .tooLarge, s1, crossnode.FrameHeaderSize⟩
    else if n > 0 then
      match s1.readFull n with                                -- data = make([]byte, length); io.ReadFull(r, data)
      | .short _ tl => ⟨.fail (.data tl), ⟨[], tl⟩, crossnode.FrameHeaderSize + n⟩
      | .ok d s2 => ⟨.frame (frameOfHeader h d), s2, crossnode.FrameHeaderSize + n⟩
    else ⟨.frame (frameOfHeader h []), s1, crossnode.FrameHeaderSize⟩

/-- What a caller of the decoder observes on a byte stream: the frames decoded before the first
failure, the failure, the bytes left unread, and the largest allocation of a single call. -/
structure DecObs where
  frames : List Frame
  stop : FErr
  leftover : Nat
  alloc : Nat
deriving DecidableEq, Repr

/-- Call `ReadFrameFromReader` until it fails.  Fuel bounds the number of frames;
`s.flat.length + 1` always suffices (every frame consumes 21 bytes). -/
def readAll : Nat → Src → DecObs
  | 0, s => ⟨[], .eof, s.flat.length, 0⟩
  | k + 1, s =>
    let r := readFrame s
    match r.out with
    | .fail e => ⟨[], e, r.rest.flat.length, r.alloc⟩
    | .frame f =>
      let o := readAll k r.rest
      ⟨f :: o.frames, o.stop, o.leftover, max r.alloc o.alloc⟩

/-! ### The same decoder on a flat byte string (chunk-free specification) -/

/-- `(outcome, bytes left, allocation)` -/
def parseFrame (bs : Bytes) (tl : Tail) : FOut × Bytes × Nat :=
  if bs.length < crossnode.FrameHeaderSize then
    (.fail (if bs.isEmpty && tl == .eof then .eof else .header tl), [], crossnode.FrameHeaderSize)
  else
    let h := bs.take crossnode.FrameHeaderSize
    let r := bs.drop crossnode.FrameHeaderSize
    let n := unbe32 (h.drop (idLen + 1))
    if n > crossnode.MaxFrameSize then (.fail .tooLarge, r, crossnode.FrameHeaderSize)
    else if r.length < n then (.fail (.data tl), [], crossnode.FrameHeaderSize + n)
    else (.frame (frameOfHeader h (r.take n)), r.drop n, crossnode.FrameHeaderSize + n)

def parseAll : Nat → Bytes → Tail → DecObs
  | 0, bs, _ => ⟨[], .eof, bs.length, 0⟩
  | k + 1, bs, tl =>
    let r := parseFrame bs tl
    match r.1 with
    | .fail e => ⟨[], e, r.2.1.length, r.2.2⟩
    | .frame f =>
      let o := parseAll k r.2.1 tl
      ⟨f :: o.frames, o.stop, o.leftover, max r.2.2 o.alloc⟩

/-! ### FrameStream -/

/-- `isConnectionClosedError` applied to the errors `ReadFrame` can return.  `io.EOF` is closed; the
wrapped errors print their cause, so "unexpected EOF" / "EOF" inside header or payload contain the
marker "EOF"; "frame too large" and a transport error other than a close (`Tail.err`: time-out,
injected fault) contain none of the markers. -/
def closedErr : FErr → Bool
  | .eof => true
  | .header .eof => true
  | .data .eof => true
  | _ => false

/-- One end of a cross-node connection carrying a `FrameStream`. -/
structure FS where
  tunnelID : Bytes
  conn : Src            -- inbound bytes of the TCP connection
  out : Bytes           -- everything written to the TCP connection so far
  broken : Bool         -- conn.broken
  readEOF : Bool
  writeEOF : Bool
  readBuf : Bytes       -- nil = []
  readOff : Nat
deriving DecidableEq, Repr

def FS.init (id : Bytes) (conn : Src) : FS := ⟨id, conn, [], false, false, false, [], 0⟩

/-- Result of `FrameStream.Read`. -/
inductive RRes where
  | data (d : Bytes)     -- (len d, nil)
  | eof                  -- (0, io.EOF)
  | err (e : FErr)       -- (0, err)
  | fuel                 -- model artefact: frame loop ran out of fuel (unreachable with enough fuel)
deriving DecidableEq, Repr

/-- The optional `TunnelStateTracker` of a stream: `none` = built with `NewFrameStream` (nil tracker),
`some f` = built with `NewFrameStreamWithTracker`, `f s` = what `IsTunnelClosed(s)` answers. -/
abbrev Tracker := Option (Bytes → Bool)

/-- `s.tracker != nil && s.tracker.IsTunnelClosed(id)` -/
def Tracker.closed (t : Tracker) (s : Bytes) : Bool :=
  match t with
  | some f => f s
  | none => false

/-- The `for { … }` loop of `FrameStream.Read`: read frames until one is for us.  `p = len(p)`. -/
def nextFrame (trk : Tracker) : Nat → FS → Nat → RRes × FS
  | 0, st, _ => (.fuel, st)
  | k + 1, st, p =>
    let r := readFrame st.conn
    match r.out with
    | .fail e =>
      let st1 := { st with conn := r.rest, broken := st.broken || (!st.writeEOF && !closedErr e) }
      if closedErr e then (.eof, { st1 with readEOF := true }) else (.err e, st1)
    | .frame f =>
      let st1 := { st with conn := r.rest }
      if f.id != st.tunnelID then
        -- otherTunnelIDStr := TunnelIDToString(tunnelID); residual frame of a closed tunnel: dropped;
        -- frame of any other tunnel: dropped
        if trk.closed (tunnelIDToString f.id) then nextFrame trk k st1 p else nextFrame trk k st1 p
      else if f.ty == crossnode.FrameTypeData then
        if f.data.length == 0 then nextFrame trk k st1 p
        else
          let n := min p f.data.length                                     -- n = copy(p, s.readBuf)
          (.data (f.data.take p),
           if n ≥ f.data.length then { st1 with readBuf := [], readOff := 0 }
           else { st1 with readBuf := f.data, readOff := n })
      else if f.ty == crossnode.FrameTypeEOF then (.eof, { st1 with readEOF := true })
      else if f.ty == crossnode.FrameTypeClose then (.eof, { st1 with readEOF := true })
      else nextFrame trk k st1 p                                           -- default: dropped

/-- `FrameStream.Read(p)` with `len(p) = p`; `fuel` bounds the frames skipped by one call. -/
def FS.read (trk : Tracker) (fuel : Nat) (st : FS) (p : Nat) : RRes × FS :=
  if st.readEOF then (.eof, st)
  else if st.readOff < st.readBuf.length then
    let d := (st.readBuf.drop st.readOff).take p                           -- copy(p, s.readBuf[s.readOff:])
    let off := st.readOff + d.length
    (.data d, if off ≥ st.readBuf.length then { st with readBuf := [], readOff := 0 }
              else { st with readOff := off })
  else nextFrame trk fuel st p

/-- Successive `Read` calls with the given buffer sizes; stops after the first error. -/
def readLoop (trk : Tracker) (fuel : Nat) : FS → List Nat → List RRes × FS
  | st, [] => ([], st)
  | st, p :: ps =>
    let r := FS.read trk fuel st p
    match r.1 with
    | .err e => ([.err e], r.2)
    | .fuel => ([.fuel], r.2)
    | x =>
      let rr := readLoop trk fuel r.2 ps
      (x :: rr.1, rr.2)

/-- Result of `FrameStream.Write`. -/
inductive WRes where
  | ok (n : Nat)          -- (n, nil)
  | closedPipe            -- (0, io.ErrClosedPipe)
  | err (n : Nat)         -- (n, err): WriteFrame refused a chunk (connection marked broken)
deriving DecidableEq, Repr

/-- The segmentation loop of `Write` (`for written < len(p)`): `(written, ok, out)`.
`fuel` bounds the iterations; `len(p)` suffices because every iteration writes at least one byte. -/
def writeLoop (id : Bytes) (p : Bytes) : Nat → Nat → Bytes → Nat × Bool × Bytes
  | 0, written, out => (written, decide (¬ written < p.length), out)
  | k + 1, written, out =>
    if written < p.length then
      let chunkSize :=
        if written + crossnode.MaxFrameSize > p.length then p.length - written else crossnode.MaxFrameSize
      let chunk := (p.drop written).take chunkSize                        -- p[written : written+chunkSize]
      match writeFrame ⟨id, crossnode.FrameTypeData, chunk⟩ with
      | none => (written, false, out)
      | some w => writeLoop id p k (written + chunkSize) (out ++ w)
    else (written, true, out)

/-- `FrameStream.Write(p)`. -/
def FS.write (st : FS) (p : Bytes) : WRes × FS :=
  if st.writeEOF then (.closedPipe, st)
  else if p.length == 0 then (.ok 0, st)
  else if p.length > crossnode.MaxFrameSize then
    let r := writeLoop st.tunnelID p p.length 0 st.out
    if r.2.1 then (.ok r.1, { st with out := r.2.2 })
    else (.err r.1, { st with out := r.2.2, broken := true })
  else
    match writeFrame ⟨st.tunnelID, crossnode.FrameTypeData, p⟩ with
    | none => (.err 0, { st with broken := true })
    | some w => (.ok p.length, { st with out := st.out ++ w })

/-- `CloseWrite` (`ty = FrameTypeEOF`) and `Close` (`ty = FrameTypeClose`): send one empty frame once. -/
def FS.closeWith (st : FS) (ty : Nat) : FS :=
  if st.writeEOF then st
  else
    match writeFrame ⟨st.tunnelID, ty, []⟩ with
    | none => { st with broken := true }
    | some w => { st with out := st.out ++ w, writeEOF := true }

def FS.closeWrite (st : FS) : FS := st.closeWith crossnode.FrameTypeEOF
def FS.close (st : FS) : FS := st.closeWith crossnode.FrameTypeClose

/-! ### One connection shared by several writers: the end-to-end scenario -/

/-- What happens on the sending end of the connection, in wire order. -/
inductive Ev where
  | write (p : Bytes)                              -- FrameStream.Write on OUR tunnel's stream
  | closeWrite                                     -- FrameStream.CloseWrite
  | close                                          -- FrameStream.Close
  | inject (tid : Bytes) (ty : Nat) (data : Bytes) -- WriteFrame(conn, TunnelIDFromString(tid), ty, data) by anyone
deriving DecidableEq, Repr

/-- Run the sending end: results of the `Write` calls and the final state (`out` = the wire). -/
def runWriter : FS → List Ev → List WRes × FS
  | st, [] => ([], st)
  | st, .write p :: evs =>
    let r := st.write p
    let rr := runWriter r.2 evs
    (r.1 :: rr.1, rr.2)
  | st, .closeWrite :: evs => runWriter st.closeWrite evs
  | st, .close :: evs => runWriter st.close evs
  | st, .inject tid ty d :: evs =>
    match writeFrame ⟨tunnelIDFromString tid, ty, d⟩ with
    | none => runWriter st evs
    | some w => runWriter { st with out := st.out ++ w } evs

/-- An upper bound on the number of frames a sequence of sender events puts on the connection. -/
def frameBound : List Ev → Nat
  | [] => 0
  | .write p :: evs => p.length / crossnode.MaxFrameSize + 1 + frameBound evs
  | _ :: evs => 1 + frameBound evs

/-- Everything both ends observe. -/
structure StObs where
  writes : List WRes
  reads : List RRes
  rbroken : Bool
  wbroken : Bool
deriving DecidableEq, Repr

/-- The scenario: tunnel id string `me`; the sender's events; the wire cut into `chunks`
(by `cut`, any function returning a chunking of its argument), ended by `tail`;
the receiver (built with tracker `trk`, its own write side already half-closed iff `rw`) reads with
buffer sizes `ps`. -/
def runStream (trk : Tracker) (me : Bytes) (evs : List Ev) (cut : Bytes → List Bytes) (tail : Tail) (rw : Bool)
    (ps : List Nat) : StObs :=
  let w := runWriter (FS.init (tunnelIDFromString me) ⟨[], .eof⟩) evs
  let wire := w.2.out
  let r0 : FS := { FS.init (tunnelIDFromString me) ⟨cut wire, tail⟩ with writeEOF := rw }
  let rr := readLoop trk (wire.length + 1) r0 ps
  ⟨w.1, rr.1, rr.2.broken, w.2.broken⟩

/-- `runStream` on a connection that is cut after `k` bytes of the wire (then ends with `tail`): the
fault "the connection is lost at an arbitrary offset", mid-header and mid-payload included. -/
def runStreamCut (trk : Tracker) (me : Bytes) (evs : List Ev) (cut : Bytes → List Bytes) (tail : Tail) (rw : Bool)
    (ps : List Nat) (k : Nat) : StObs :=
  let w := runWriter (FS.init (tunnelIDFromString me) ⟨[], .eof⟩) evs
  let wire := w.2.out.take k
  let r0 : FS := { FS.init (tunnelIDFromString me) ⟨cut wire, tail⟩ with writeEOF := rw }
  let rr := readLoop trk (wire.length + 1) r0 ps
  ⟨w.1, rr.1, rr.2.broken, w.2.broken⟩

/-! ### The listener's TargetReady path -/

/-- `CrossNodeListener.handleConnection` → `handleTargetReady` → the raw forwarding of `runBridgeForward`,
on the inbound bytes of an accepted connection; `bridge` = the tunnel the manager has a bridge for.
`some bytes`: everything after the first frame is forwarded raw to the bridge's source side;
`none`: nothing is forwarded (read error, other frame type, malformed message, unknown bridge). -/
def runListener (bridge : Bytes) (s : Src) : Option Bytes :=
  match (readFrame s).out with
  | .fail _ => none
  | .frame f =>
    if f.ty == crossnode.FrameTypeTargetReady then
      match decodeTargetReady f.data with
      | none => none
      | some m =>
        -- tunnelIDStr := TunnelIDToString(tunnelID); if fullTunnelID != "" { tunnelIDStr = fullTunnelID }
        if (if m.1.isEmpty then tunnelIDToString f.id else m.1) == bridge then some (readFrame s).rest.flat
        else none
    else none

/-! ### Both directions of one connection (request / response) -/

/-- Forward phase as in `runStream`, then the reverse phase on the SAME two stream objects. -/
structure DxObs where
  fwd : StObs
  rev : StObs      -- writes: B's `Write` answers; reads: A's `Read` results; rbroken: A; wbroken: B
deriving DecidableEq, Repr

/-- A (tunnel `me`) runs the sender events `evs`; B (tracker `trk`; if `rw` it half-closes first, which
puts an EOF frame on the way back to A) reads with `ps`; then B runs `rvEvs` on its stream (and the raw
connection), the connection's B→A direction ends, and A reads with `rps`. -/
def runDuplex (trk : Tracker) (me : Bytes) (evs : List Ev) (cut : Bytes → List Bytes) (tail : Tail) (rw : Bool)
    (ps : List Nat) (rvEvs : List Ev) (rps : List Nat) : DxObs :=
  let id := tunnelIDFromString me
  let a := runWriter (FS.init id ⟨[], .eof⟩) evs
  let b0 := FS.init id ⟨cut a.2.out, tail⟩
  let b1 := if rw then b0.closeWrite else b0
  let br := readLoop trk (a.2.out.length + 1) b1 ps
  let bw := runWriter br.2 rvEvs
  let a1 : FS := { a.2 with conn := ⟨cut bw.2.out, .eof⟩ }
  let ar := readLoop none (bw.2.out.length + 1) a1 rps
  ⟨⟨a.1, br.1, br.2.broken, a.2.broken⟩, ⟨bw.1, ar.1, ar.2.broken, bw.2.broken⟩⟩

/-! ### A stream on a pooled connection (`NodeConnectionPool.Get` after `Release`) -/

/-- `Conn.IsHealthy` as the pool applies it to an idle connection; `arrived` = inbound bytes already
received.  Nothing pending: the 1 ms probe read times out, the connection is healthy.  Pending bytes
(residual frames of the tunnel that used the connection before): not reusable — the probe has consumed
a byte, a frame stream on this connection would be misaligned.  (Repaired code; as found the probe
answered "healthy" after eating the byte.) -/
def isHealthy (arrived : Bytes) : Bool := arrived.isEmpty

structure PlObs where
  reused : Bool
  st : StObs
deriving DecidableEq, Repr

/-- The previous tunnel's late frames `residual` reach the idle connection, the connection is
released and `Get` is called again for OUR tunnel, whose scenario then runs on the connection handed
out: the idle one if healthy (its inbound bytes are then exactly our scenario's wire, nothing is
pending), otherwise a fresh one (the idle one is closed, the residual frames go with it). -/
def runPool (trk : Tracker) (me : Bytes) (residual evs : List Ev) (cut : Bytes → List Bytes) (tail : Tail)
    (rw : Bool) (ps : List Nat) : PlObs :=
  let r := (runWriter (FS.init (tunnelIDFromString me) ⟨[], .eof⟩) residual).2.out
  ⟨isHealthy r, runStream trk me evs cut tail rw ps⟩

end Tunnox.C10
