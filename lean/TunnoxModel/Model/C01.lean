import TunnoxModel.Model.Src
import TunnoxModel.Gen.Packet
/-
  C01/C05 — packet framing.  Mirrors
    internal/stream/stream_processor_write.go  WritePacket
    internal/stream/stream_processor_read.go   ReadPacket, readPacketType,
                                               readPacketBodySize, readPacketBody, decompressData
  Type predicates and size constants come from `Gen` (regenerated from the Go source).
  gzip and JSON are parameters (`Codec`), see DESIGN §3.
-/
namespace Tunnox.C01
open Gen

/-- The external codecs.  `inflate` is raw gzip decoding (no limit); `jsonNorm`
is `json.Unmarshal` into `CommandPacket` followed by canonical re-marshal. -/
structure Codec where
  compress : Bytes → Bytes
  inflate : Bytes → Option Bytes
  jsonNorm : Bytes → Option Bytes

/-- Argument of `WritePacket`: `pkt.PacketType`, the body (payload, or the JSON
of the command packet for command types) and `useCompression`. -/
structure Pkt where
  ty : Nat
  body : Bytes
  comp : Bool
deriving DecidableEq, Repr

def be32 (n : Nat) : Bytes :=
  [UInt8.ofNat (n / 16777216 % 256), UInt8.ofNat (n / 65536 % 256),
   UInt8.ofNat (n / 256 % 256), UInt8.ofNat (n % 256)]

def unbe32 : Bytes → Nat
  | [a, b, c, d] => a.toNat * 16777216 + b.toNat * 65536 + c.toNat * 256 + d.toNat
  | _ => 0

/-- `packetType |= packet.Compressed` when `useCompression`. -/
def wireType (p : Pkt) : Nat := if p.comp then p.ty ||| packet.Compressed else p.ty

def wireBody (c : Codec) (p : Pkt) : Bytes := if p.comp then c.compress p.body else p.body

/-- Bytes written by `WritePacket`. -/
def encode (c : Codec) (p : Pkt) : Bytes :=
  let t := wireType p
  if packet.Type.IsHeartbeat t then [UInt8.ofNat t]
  else UInt8.ofNat t :: (be32 (wireBody c p).length ++ wireBody c p)

def encodeAll (c : Codec) (ps : List Pkt) : Bytes := (ps.map (encode c)).flatten

/-- The individual `writer.Write` calls of `WritePacket` (type byte, length field,
body).  On a message transport (WebSocket) each call is one message, i.e. one
chunk on the reading side, so none of them may be empty: an empty body is not written. -/
def writeCalls (c : Codec) (p : Pkt) : List Bytes :=
  let t := wireType p
  if packet.Type.IsHeartbeat t then [[UInt8.ofNat t]]
  else if (wireBody c p).isEmpty then [[UInt8.ofNat t], be32 (wireBody c p).length]
  else [[UInt8.ofNat t], be32 (wireBody c p).length, wireBody c p]

/-- Successive pieces of at most `n` bytes (fuel `f`). -/
def pieces (n : Nat) : Nat → Bytes → List Bytes
  | 0, _ => []
  | _ + 1, [] => []
  | f + 1, b :: bs => (b :: bs).take n :: pieces n f ((b :: bs).drop n)

/-- The `writer.Write` calls of `WritePacket` with a rate limit (`rateLimitBytesPerSecond > 0`): the
body goes through `writeRateLimitedData`, whose `RateLimiterWriter.Write` passes on at most
`DefaultChunkSize` bytes per call (after waiting for that many tokens; the wait only delays). -/
def writeCallsLimited (c : Codec) (p : Pkt) : List Bytes :=
  let t := wireType p
  if packet.Type.IsHeartbeat t then [[UInt8.ofNat t]]
  else [[UInt8.ofNat t], be32 (wireBody c p).length] ++
    pieces constants.DefaultChunkSize (wireBody c p).length (wireBody c p)

/-! ### Concurrent writers

`WritePacket` holds `writeLock` from before its first `writer.Write` until after its last one
(skeleton pin `skel_WritePacket_lock` in Props), so concurrent callers on one `StreamProcessor` are
serialised: the wire carries whole packet encodings in the order the lock was acquired. -/

/-- `threads`: what each writer goroutine writes, in its own order; `sched`: who acquires `writeLock`
next.  Returns the packets in lock-acquisition order (a scheduled thread with nothing left is skipped). -/
def serialize : List (List Pkt) → List Nat → List Pkt
  | _, [] => []
  | threads, t :: sched =>
    match threads[t]? with
    | some (p :: rest) => p :: serialize (threads.set t rest) sched
    | _ => serialize threads sched

/-- Stage at which `ReadPacket` failed. -/
inductive RErr where
  | type        -- error/EOF while reading the type byte
  | shortType   -- Read returned (0, nil) for the type byte
  | size        -- stream ended inside the 4-byte length
  | tooLarge    -- declared length above MaxPacketBodySize
  | body        -- stream ended inside the body
  | encrypted   -- 0x80 flag: consumed, then rejected
  | decompress  -- gzip error or inflated size above the cap
  | json        -- command packet body is not valid JSON
deriving DecidableEq, Repr

inductive ROut where
  | pkt (ty : Nat) (body : Bytes)
  | fail (e : RErr)
deriving DecidableEq, Repr

/-- `decompressData`: inflate, refusing outputs above `MaxPacketBodySize`. -/
def decompress (c : Codec) (b : Bytes) : Option Bytes :=
  match c.inflate b with
  | none => none
  | some o => if o.length ≤ constants.MaxPacketBodySize then some o else none

/-- Everything after the raw body has been read. -/
def finish (c : Codec) (t : Nat) (body : Bytes) : ROut :=
  if packet.Type.IsEncrypted t then .fail .encrypted
  else
    match (if packet.Type.IsCompressed t then decompress c body else some body) with
    | none => .fail .decompress
    | some b =>
      if packet.Type.IsJsonCommand t || packet.Type.IsCommandResp t then
        match c.jsonNorm b with
        | none => .fail .json
        | some j => .pkt t j
      else .pkt t b

/-- `ReadPacket` over a chunked source whose transport may (`eager`) report the end of the stream
together with the last bytes.  `readPacketType` looks at the byte it was given before it looks at the
error (fix cf50c4d), so the outcome does not depend on `eager` (`readPacketG_eager`). -/
def readPacketG (eager : Bool) (c : Codec) (s : Src) : ROut × Src :=
  let r := s.readE eager constants.PacketTypeSize           -- readPacketType: one Read into a 1-byte buffer
  match r.data with
  | [tb] =>
    let t := tb.toNat
    if packet.Type.IsHeartbeat t then (.pkt t [], r.rest)
    else
      match r.rest.readFull constants.PacketBodySizeBytes with   -- readPacketBodySize: io.ReadFull
      | .short _ tl => (.fail .size, ⟨[], tl⟩)
      | .ok szb s2 =>
        let n := unbe32 szb
        if n > constants.MaxPacketBodySize then (.fail .tooLarge, s2)
        else
          match s2.readFull n with                               -- readPacketBody: read loop
          | .short _ tl => (.fail .body, ⟨[], tl⟩)
          | .ok body s3 => (finish c t body, s3)
  | _ =>
    match r.err with
    | some _ => (.fail .type, r.rest)
    | none => (.fail .shortType, r.rest)

/-- `ReadPacket` on a transport that reports the end separately (TCP, WebSocket wrappers). -/
def readPacket (c : Codec) (s : Src) : ROut × Src := readPacketG false c s

/-- As found before fix cf50c4d: the error was looked at first. -/
def readPacketTypeErrFirst (eager : Bool) (s : Src) : Option Nat :=
  match (s.readE eager constants.PacketTypeSize).err with
  | some _ => none
  | none => match (s.readE eager constants.PacketTypeSize).data with
    | [tb] => some tb.toNat
    | _ => none

/-- What the reader side observes: the packets decoded before the first
failure, the failure, and the bytes left unread at that point. -/
structure Obs where
  pkts : List (Nat × Bytes)
  stop : RErr
  leftover : Bytes
deriving DecidableEq, Repr

/-- Read packets until the first failure.  `fuel` bounds the number of packets;
`s.flat.length + 1` always suffices because every packet consumes a byte. -/
def readAll (c : Codec) : Nat → Src → Obs
  | 0, s => ⟨[], .type, s.flat⟩
  | f + 1, s =>
    match readPacket c s with
    | (.fail e, s') => ⟨[], e, s'.flat⟩
    | (.pkt t b, s') =>
      let o := readAll c f s'
      ⟨(t, b) :: o.pkts, o.stop, o.leftover⟩

/-- `readAll` on a transport that may report the end together with the last bytes. -/
def readAllG (eager : Bool) (c : Codec) : Nat → Src → Obs
  | 0, s => ⟨[], .type, s.flat⟩
  | f + 1, s =>
    match readPacketG eager c s with
    | (.fail e, s') => ⟨[], e, s'.flat⟩
    | (.pkt t b, s') =>
      let o := readAllG eager c f s'
      ⟨(t, b) :: o.pkts, o.stop, o.leftover⟩

/-! ### The same decoder on a flat byte string (chunk-free specification) -/

def parseFlat (c : Codec) (bs : Bytes) : ROut × Bytes :=
  match bs with
  | [] => (.fail .type, [])
  | tb :: rest =>
    let t := tb.toNat
    if packet.Type.IsHeartbeat t then (.pkt t [], rest)
    else if rest.length < constants.PacketBodySizeBytes then (.fail .size, [])
    else
      let n := unbe32 (rest.take constants.PacketBodySizeBytes)
      let r2 := rest.drop constants.PacketBodySizeBytes
      if n > constants.MaxPacketBodySize then (.fail .tooLarge, r2)
      else if r2.length < n then (.fail .body, [])
      else (finish c t (r2.take n), r2.drop n)

def parseAll (c : Codec) : Nat → Bytes → Obs
  | 0, bs => ⟨[], .type, bs⟩
  | f + 1, bs =>
    match parseFlat c bs with
    | (.fail e, r) => ⟨[], e, r⟩
    | (.pkt t b, r) =>
      let o := parseAll c f r
      ⟨(t, b) :: o.pkts, o.stop, o.leftover⟩

/-- Writer-side well-formedness: a base type without preset flag bits, a
heartbeat carries no body, bodies within the cap before and after compression,
command bodies are canonical JSON. -/
def WF (c : Codec) (p : Pkt) : Prop :=
  p.ty < 64 ∧
  (p.ty = packet.Heartbeat → p.body = []) ∧
  p.body.length ≤ constants.MaxPacketBodySize ∧
  (wireBody c p).length ≤ constants.MaxPacketBodySize ∧
  ((p.ty = packet.JsonCommand ∨ p.ty = packet.CommandResp) → c.jsonNorm p.body = some p.body)

/-- What the reader should return for a written packet. -/
def norm (p : Pkt) : Nat × Bytes := (wireType p, p.body)

/-- gzip round trip (trusted base: `compress/gzip`). -/
def Codec.RT (c : Codec) : Prop := ∀ b, c.inflate (c.compress b) = some b

end Tunnox.C01
