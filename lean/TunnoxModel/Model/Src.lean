/-
  Chunked byte sources: the model of an `io.Reader` whose `Read` calls return
  the stream in arbitrary pieces (TCP segments, WebSocket messages, QUIC/KCP
  frames), ending in EOF or an error.  Core-only, executable.
-/
namespace Tunnox

abbrev Byte := UInt8
abbrev Bytes := List Byte

/-- How a source ends once its chunks are exhausted. -/
inductive Tail where
  | eof
  | err
deriving DecidableEq, Repr, Inhabited

/-- A source: the chunks successive `Read` calls will return (a chunk longer
than the caller's buffer is returned in pieces), then `tail` forever. -/
structure Src where
  pending : List Bytes
  tail : Tail
deriving DecidableEq, Repr, Inhabited

/-- Result of one `Read(buf)` call with `len(buf) = n`. -/
structure ReadRes where
  data : Bytes
  err : Option Tail
  rest : Src
deriving DecidableEq, Repr

/-- One `io.Reader.Read` into an `n`-byte buffer. -/
def Src.read (s : Src) (n : Nat) : ReadRes :=
  match s.pending with
  | [] => ⟨[], some s.tail, s⟩
  | c :: cs =>
    if c.length ≤ n then ⟨c, none, ⟨cs, s.tail⟩⟩
    else ⟨c.take n, none, ⟨c.drop n :: cs, s.tail⟩⟩

/-- The same `Read` on a transport that reports the end of the stream together with the last bytes
(`eager`): `io.Reader` allows `(n > 0, err)`, and a QUIC stream returns its final bytes with `io.EOF`
when the FIN arrives in the same frame. -/
def Src.readE (eager : Bool) (s : Src) (n : Nat) : ReadRes :=
  if eager && (s.read n).rest.pending.isEmpty && !(s.read n).data.isEmpty then
    { (s.read n) with err := some s.tail }
  else s.read n

/-- `io.ReadFull` over the chunk list: `(bytes read, remaining chunks, complete?)`.
Structural recursion on the chunk list is the termination argument: every
`Read` either consumes a chunk or completes the request. -/
def readFullChunks : List Bytes → Nat → Bytes × List Bytes × Bool
  | cs, 0 => ([], cs, true)
  | [], _ + 1 => ([], [], false)
  | c :: cs, n + 1 =>
    if c.length ≤ n + 1 then
      let r := readFullChunks cs (n + 1 - c.length)
      (c ++ r.1, r.2.1, r.2.2)
    else (c.take (n + 1), c.drop (n + 1) :: cs, true)

/-- Outcome of reading exactly `n` bytes. -/
inductive Full where
  | ok (data : Bytes) (rest : Src)
  | short (got : Bytes) (tail : Tail)      -- stream ended first
deriving DecidableEq, Repr

def Src.readFull (s : Src) (n : Nat) : Full :=
  let r := readFullChunks s.pending n
  if r.2.2 then .ok r.1 ⟨r.2.1, s.tail⟩ else .short r.1 s.tail

/-- The whole byte content of a source. -/
def Src.flat (s : Src) : Bytes := s.pending.flatten

end Tunnox
