/-!
# C17 — the per-mapping slot counter at atomic-instruction granularity, releases included

`mapping.BaseMappingHandler` (client/mapping/base_utils.go):

* `acquireConnectionSlot`: `current := Load()`; refuse when `limit > 0 && current >= limit`;
  `CompareAndSwap(current, current+1)`, on failure start over;
* `releaseConnectionSlot`: `Add(-1)` — ONE atomic read-modify-write (`atomicRel = true`).
  `atomicRel = false` is the variant `Load(); if current > 0 { Store(current-1) }` (seeded regression
  `release-slot-load-then-store`): an admission whose `CompareAndSwap` lands between the `Load` and the
  `Store` is overwritten.

Every thread runs `acquire; release; acquire; release; …` (a connection comes, holds its slot, goes);
one schedule entry = one atomic instruction of the chosen thread.  `held` is the ghost number of
connections that currently hold a slot.
-/
namespace Tunnox.C17Ctr

inductive PC where
  | out                     -- holds nothing, about to `Load` for an acquisition
  | loaded (snap : Int)     -- acquisition: loaded `snap`, limit check passed, about to `CompareAndSwap`
  | holding                 -- holds a slot
  | relLoaded (snap : Int)  -- non-atomic release: loaded `snap`, about to `Store`
deriving DecidableEq, Repr

inductive Ev where
  | adm (i : Nat) (n : Int)   -- admitted; `n` connections hold a slot now
  | ref (i : Nat)             -- refused at the limit
  | rel (i : Nat) (n : Int)   -- released
deriving DecidableEq, Repr

structure Cfg where
  cnt : Int            -- `activeConnCount`
  held : Int           -- ghost: connections holding a slot
  pc : Nat → PC
  trace : List Ev

def upd (f : Nat → PC) (i : Nat) (p : PC) : Nat → PC := fun j => if j = i then p else f j

/-- `limit > 0 && current >= limit`. -/
def full (limit : Nat) (cur : Int) : Bool := decide (0 < limit) && decide ((limit : Int) ≤ cur)

def step (atomicRel : Bool) (limit : Nat) (c : Cfg) (i : Nat) : Cfg :=
  match c.pc i with
  | .out =>
    if full limit c.cnt then { c with trace := c.trace ++ [.ref i] }
    else { c with pc := upd c.pc i (.loaded c.cnt) }
  | .loaded snap =>
    if c.cnt = snap then
      { c with cnt := c.cnt + 1, held := c.held + 1, pc := upd c.pc i .holding,
               trace := c.trace ++ [.adm i (c.held + 1)] }
    else { c with pc := upd c.pc i .out }
  | .holding =>
    if atomicRel then
      { c with cnt := c.cnt - 1, held := c.held - 1, pc := upd c.pc i .out, trace := c.trace ++ [.rel i (c.held - 1)] }
    else
      -- the connection is gone; its slot is given back by Load … Store
      { c with held := c.held - 1, pc := upd c.pc i (.relLoaded c.cnt), trace := c.trace ++ [.rel i (c.held - 1)] }
  | .relLoaded snap =>
    { c with cnt := if 0 < snap then snap - 1 else c.cnt, pc := upd c.pc i .out }

def run (atomicRel : Bool) (limit : Nat) (c : Cfg) (σ : List Nat) : Cfg := σ.foldl (step atomicRel limit) c

/-- `pre` connections hold a slot already (threads `0..pre-1`). -/
def init (pre : Nat) : Cfg := ⟨pre, pre, fun i => if i < pre then .holding else .out, []⟩

/-- The property on a history: never more than `limit` connections hold a slot. -/
def holds (limit : Nat) (tr : List Ev) : Bool :=
  tr.all (fun e => match e with
    | .adm _ n => limit == 0 || decide (n ≤ limit)
    | _ => true)

end Tunnox.C17Ctr
