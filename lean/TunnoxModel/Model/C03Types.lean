/-! Receiver structure of the predicates translated from Go for C03
(`models.ClientConfig.IsExpired`): field names equal the Go field names.
Kept in its own module because `Gen/C03.lean` imports it. -/
namespace Tunnox.C03

/-- what `ClientConfig.SecretKeyEncrypted` / the deprecated `SecretKey` field hold:
`usable` = a ciphertext that decrypts under the server's master key; `undec` = a non-empty ciphertext that does not
(sealed under another master key, corrupted); `empty` = no ciphertext; `legacy` = no ciphertext, only the deprecated
plaintext field (client never migrated). `Decrypt` succeeds only for `usable`. -/
inductive SecState | usable | undec | empty | legacy
deriving DecidableEq, Repr, Inhabited

/-- `models.ClientConfig` as far as the handshake reads it.  `ExpiresAt` is the Go
`*time.Time` (ns); `deleted` = the config is gone from storage (`GetClientConfig`
fails); `UserID` = the user the client was claimed by / bound to ("" = anonymous, unbound); `secret` = what is stored for the client's secret key (see `SecState`). -/
structure ClientConfigT where
  ExpiresAt : Option Nat := none
  UserID : String := ""
  deleted : Bool := false
  secret : SecState := .usable
deriving DecidableEq, Repr, Inhabited

end Tunnox.C03
