/-! Receiver structure of the predicates translated from Go for C03
(`models.ClientConfig.IsExpired`): field names equal the Go field names.
Kept in its own module because `Gen/C03.lean` imports it. -/
namespace Tunnox.C03

/-- `models.ClientConfig` as far as the handshake reads it.  `ExpiresAt` is the Go
`*time.Time` (ns); `deleted` = the config is gone from storage (`GetClientConfig`
fails); `hasKey` = `SecretKeyEncrypted != ""` and decryptable. -/
structure ClientConfigT where
  ExpiresAt : Option Nat := none
  deleted : Bool := false
  hasKey : Bool := true
deriving DecidableEq, Repr, Inhabited

end Tunnox.C03
