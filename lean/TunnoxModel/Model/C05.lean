import TunnoxModel.Model.C01
/-
  C05 — hostile bytes: allocation meter over the C01 reader.
  Mirrors the buffer requests of `readPacketBody` (Allocate(bodySize) after the
  declared-length guard, result copy) and `decompressData` (output bounded by
  MaxPacketBodySize: the inflate stops one byte past the cap).
-/
namespace Tunnox.C05
open Gen Tunnox.C01

/-- Bytes the inflate step may produce for a body of wire type `t`. -/
def inflateOut (c : Codec) (t : Nat) (body : Bytes) : Nat :=
  if packet.Type.IsEncrypted t then 0
  else if packet.Type.IsCompressed t then
    match c.inflate body with
    | none => constants.MaxPacketBodySize + 1          -- may have produced up to cap+1 bytes before failing
    | some o => min o.length (constants.MaxPacketBodySize + 1)
  else 0

/-- Bytes requested while decoding one packet from the flat stream `bs`. -/
def allocFlat (c : Codec) (bs : Bytes) : Nat :=
  match bs with
  | [] => constants.PacketTypeSize
  | tb :: rest =>
    let t := tb.toNat
    if packet.Type.IsHeartbeat t then constants.PacketTypeSize
    else if rest.length < constants.PacketBodySizeBytes then constants.PacketTypeSize + constants.PacketBodySizeBytes
    else
      let n := unbe32 (rest.take constants.PacketBodySizeBytes)
      let r2 := rest.drop constants.PacketBodySizeBytes
      let hdr := constants.PacketTypeSize + constants.PacketBodySizeBytes
      if n > constants.MaxPacketBodySize then hdr            -- guard before any allocation
      else if r2.length < n then hdr + n                      -- pool buffer only
      else
        hdr + n + n + inflateOut c t (r2.take n)

/-- Per-packet allocation bound. -/
def allocBound : Nat := 3 * constants.MaxPacketBodySize + 6

/-- What the harness observes for a hostile stream. -/
structure Obs where
  parsed : Bool          -- false: panic / timeout / crash line
  pkts : Nat
  alloc : Nat

/-- Implementation-side bound: measured TotalAlloc delta (includes pool and
bytes.Buffer growth overhead, hence the factor 8 instead of 3). -/
def holds (o : Obs) : Bool :=
  o.parsed && decide (o.alloc ≤ (o.pkts + 1) * 8 * constants.MaxPacketBodySize)

/-! ### The per-connection read loop (`adapter.BaseAdapter.connectionReadLoop`)

Read a packet; a failed read ends the loop; a decoded packet is handed to the dispatcher, whose
answer (error or reply) is ignored unless it switches the connection to stream mode or closes it
(`disp … = false`), which also ends the loop.  Afterwards `cleanupConnection` closes the
connection.  The transport is a finite stream without read deadlines (no timeout errors). -/

/-- Number of packets handed to the dispatcher (fuel `f`). -/
def loopRun (c : Codec) (disp : Nat → Bytes → Bool) : Nat → Bytes → Nat
  | 0, _ => 0
  | f + 1, bs =>
    match parseFlat c bs with
    | (.pkt t b, r) => if disp t b then 1 + loopRun c disp f r else 1
    | (.fail _, _) => 0

/-- Observation of a run of the real read loop on a finite stream. -/
structure LoopObs where
  pkts : Nat
  returned : Bool
  closed : Bool
  leftover : Nat      -- connections the session manager still knows afterwards
deriving DecidableEq, Repr

/-- The loop returns, the connection is closed and forgotten, and no more packets were dispatched
than the stream has bytes. -/
def holdsLoop (stream : Bytes) (o : LoopObs) : Bool :=
  o.returned && o.closed && o.leftover == 0 && decide (o.pkts ≤ stream.length)

/-- Retention bound of the harness: bytes of live heap a refused pre-authentication packet may leave
behind on average once caches and per-address tables are warm (minimum over three measured
batches, so allocator noise does not count).  The repaired tree measures 0–3;
one leaked map entry or timer per packet costs 100 bytes and more. -/
def retainBound : Nat := 64

def holdsRetain (perOp : Nat) : Bool := decide (perOp ≤ retainBound)

end Tunnox.C05
