import TunnoxModel.Model.Src
import TunnoxModel.Gen.C02
/-
  C02 — the tunnel bridge as a byte pipe.  Mirrors
    internal/protocol/session/tunnel/bridge_forward.go  CopyWithControl, waitLimiterN, Bridge.Start
    internal/protocol/session/server_bridge.go          runBridgeLifecycle
  The endpoints are scripts: what each `src.Read` returns and how much each
  `dst.Write` accepts.  `golang.org/x/time/rate` is a parameter: a `WaitN(k)`
  with `k ≤ burst` succeeds unless the context is cancelled (its documented contract).
-/
namespace Tunnox.C02
open Gen

/-- Error part of one `src.Read` result. -/
inductive RErr where
  | timeout      -- net.Error with Timeout() && Temporary(): the loop continues
  | fatal        -- io.EOF or any other error: the loop ends
deriving DecidableEq, Repr

/-- One `src.Read(buf)` result `(data, err)`; `cancelled` = the bridge context is
cancelled while this iteration waits for the limiter. -/
structure ReadEv where
  data : Bytes
  err : Option RErr
  cancelled : Bool := false
  after : Nat := 0          -- bridge runs only: the endpoint produces this result once it has received ≥ `after` bytes
deriving DecidableEq, Repr

/-- One `dst.Write(p)` result: `(min accept |p|, err)`. -/
structure WriteEv where
  accept : Nat
  err : Bool
  block : Bool := false     -- bridge runs only: the peer is not reading; the Write blocks until the endpoint is closed
deriving DecidableEq, Repr

/-- `waitLimiterN`: the sizes of the successive `WaitN` calls for `n` tokens. -/
def slices (burst : Nat) : Nat → Nat → List Nat
  | 0, _ => []
  | _ + 1, 0 => []
  | fuel + 1, n =>
    if burst = 0 then [n]
    else
      let k := min n burst
      k :: slices burst fuel (n - k)

/-- Limiter configuration: `none` = no bandwidth limit, `some burst`. -/
abbrev Limiter := Option Nat

/-- Does the limiter step of this iteration succeed?  Every `WaitN(k)` with
`k ≤ burst` succeeds unless the context is cancelled. -/
def limiterOk (l : Limiter) (ev : ReadEv) : Bool :=
  match l with
  | none => true
  | some burst => !ev.cancelled && (slices burst ev.data.length ev.data.length).all (fun k => decide (k ≤ burst) || burst == 0)

/-- Why a copy loop ended. -/
inductive Stop where
  | readErr | writeErr | shortWrite | limiter | ctx | eof
deriving DecidableEq, Repr

/-- State of one `CopyWithControl` call. -/
structure St where
  delivered : Bytes := []     -- bytes the destination accepted, in order
  total : Nat := 0            -- return value
  batch : Nat := 0            -- batchCounter
  counter : Nat := 0          -- what was added to the shared atomic counter
deriving DecidableEq, Repr

/-- Account `nw` written bytes (`total`, batching into `counter`). -/
def account (st : St) (w : Bytes) : St :=
  let b := st.batch + w.length
  if b ≥ cloudconst.BatchUpdateThreshold then
    { delivered := st.delivered ++ w, total := st.total + w.length, batch := 0, counter := st.counter + b }
  else
    { delivered := st.delivered ++ w, total := st.total + w.length, batch := b, counter := st.counter }

/-- Final flush of the batch counter. -/
def flush (st : St) : St := { st with counter := st.counter + st.batch, batch := 0 }

/-- The next write result; an exhausted script accepts everything. -/
def nextWrite (ws : List WriteEv) (n : Nat) : WriteEv × List WriteEv :=
  match ws with
  | [] => (⟨n, false, false⟩, [])
  | w :: rest => (w, rest)

/-- Result of one loop iteration. -/
structure IterRes where
  st : St
  ws : List WriteEv
  stop : Option Stop
deriving DecidableEq, Repr

/-- One iteration of the `for` loop of `CopyWithControl` on the read result `ev`. -/
def iter (l : Limiter) (ev : ReadEv) (ws : List WriteEv) (st : St) : IterRes :=
  if ev.data.isEmpty then
    match ev.err with
    | some .fatal => ⟨st, ws, some .readErr⟩
    | _ => ⟨st, ws, none⟩                       -- nothing read; timeout or (0, nil): continue
  else if !limiterOk l ev then ⟨st, ws, some .limiter⟩
  else
    let w := (nextWrite ws ev.data.length).1
    let ws' := (nextWrite ws ev.data.length).2
    let nw := min w.accept ev.data.length
    let st' := if nw > 0 then account st (ev.data.take nw) else st
    if w.err then ⟨st', ws', some .writeErr⟩
    else if nw ≠ ev.data.length then ⟨st', ws', some .shortWrite⟩
    else
      match ev.err with
      | some .fatal => ⟨st', ws', some .readErr⟩
      | _ => ⟨st', ws', none⟩

/-- `CopyWithControl`: the read script is followed by EOF.  `chk` is `checkCounter`, `canc` says
whether the bridge context has been cancelled so far (the cancellation of an event takes effect
while its `Read` is in progress): every `ContextCheckInterval` iterations the loop looks at the
context and, if it is done, adds the pending batch to the counter and returns.  Returns the final
state (after the closing `counter.Add(batchCounter)`), the reason the loop ended and the unread
rest of the read script. -/
def copyFrom (l : Limiter) : Nat → Bool → List ReadEv → List WriteEv → St → St × Stop × List ReadEv
  | _, _, [], _, st => (flush st, .eof, [])
  | chk, canc, ev :: rs, ws, st =>
    if chk + 1 ≥ cloudconst.ContextCheckInterval ∧ canc then (flush st, .ctx, ev :: rs)
    else
      match (iter l ev ws st).stop with
      | some s => (flush (iter l ev ws st).st, s, rs)
      | none =>
        copyFrom l (if chk + 1 ≥ cloudconst.ContextCheckInterval then 0 else chk + 1) (canc || ev.cancelled)
          rs (iter l ev ws st).ws (iter l ev ws st).st

def copy (l : Limiter) (rs : List ReadEv) (ws : List WriteEv) (st : St) : St × Stop × List ReadEv :=
  copyFrom l 0 false rs ws st

/-- All bytes a read script carries. -/
def allData (rs : List ReadEv) : Bytes := (rs.map (·.data)).flatten

/-- A read script on which nothing goes wrong before the final EOF. -/
def CleanReads (rs : List ReadEv) : Prop :=
  ∀ ev ∈ rs, ev.cancelled = false ∧ ev.err ≠ some .fatal

/-- A write script that accepts everything. -/
def CleanWrites (ws : List WriteEv) (maxRead : Nat) : Prop :=
  ∀ w ∈ ws, w.err = false ∧ maxRead ≤ w.accept

/-! ### The bridge: two copy loops, close-on-first-finish, lifecycle -/

/-- One direction of a running bridge. -/
structure Dir where
  reads : List ReadEv
  writes : List WriteEv
  st : St := {}
  stop : Option Stop := none
deriving DecidableEq, Repr

structure Bridge where
  lim : Limiter
  s2t : Dir                   -- source → target
  t2s : Dir                   -- target → source
  closed : Bool := false      -- Bridge.Close has run (closeOnce)
  removed : Bool := false     -- tunnelBridges entry deleted
deriving DecidableEq, Repr

/-- One loop iteration of a direction.  Once the bridge is closed the
endpoints are closed, so the next `Read` fails. -/
def Dir.step (l : Limiter) (closed : Bool) (oppDelivered : Nat) (d : Dir) : Dir :=
  match d.stop with
  | some _ => d
  | none =>
    if closed then { d with st := flush d.st, stop := some .readErr }
    else
      match d.reads with
      | [] => { d with st := flush d.st, stop := some .eof }
      | ev :: rs =>
        if oppDelivered < ev.after then d      -- the endpoint's Read is still blocked
        else if !ev.data.isEmpty && (nextWrite d.writes ev.data.length).1.block then d
          -- back-pressure: the Write of this iteration blocks until the bridge closes the endpoint
          -- (then the branch `closed` above ends the direction)
        else
        match (iter l ev d.writes d.st).stop with
        | some s => { reads := rs, writes := (iter l ev d.writes d.st).ws, st := flush (iter l ev d.writes d.st).st, stop := some s }
        | none => { reads := rs, writes := (iter l ev d.writes d.st).ws, st := (iter l ev d.writes d.st).st, stop := none }

/-- Schedule entry: which direction's goroutine runs next. -/
inductive Who where
  | s2t | t2s
deriving DecidableEq, Repr

/-- One scheduled step of `Bridge.Start`; a direction that finishes runs `closeBridge`. -/
def Bridge.step (b : Bridge) (w : Who) : Bridge :=
  match w with
  | .s2t =>
    let d := b.s2t.step b.lim b.closed b.t2s.st.delivered.length
    { b with s2t := d, closed := b.closed || d.stop.isSome }
  | .t2s =>
    let d := b.t2s.step b.lim b.closed b.s2t.st.delivered.length
    { b with t2s := d, closed := b.closed || d.stop.isSome }

def Bridge.run (b : Bridge) (sched : List Who) : Bridge := sched.foldl Bridge.step b

def Bridge.finished (b : Bridge) : Bool := b.s2t.stop.isSome && b.t2s.stop.isSome

/-- `runBridgeLifecycle`: after `Start` returned (both directions finished) the
bridge is closed (deferred `bridge.Close`) and the map entry deleted. -/
def Bridge.lifecycleEnd (b : Bridge) : Bridge :=
  if b.finished then { b with closed := true, removed := true } else b

/-! ### Source re-attachment (`handleExistingBridge` → `Bridge.SetSourceConnection`)

The source end of a running tunnel may reconnect: the server installs a new source forwarder while
the `source->target` goroutine of `Bridge.Start` is still copying from the old one.  When that copy
returns, the goroutine looks at the installed forwarder again and goes on with the new one; the
`target->source` goroutine writes through `dynamicSourceWriter`, i.e. to whatever forwarder is
installed at the moment of each `Write`. -/

/-- One source connection: its read script (followed by EOF) and the number of its read events after
which the next connection is installed (`SetSourceConnection`). -/
structure SrcGen where
  reads : List ReadEv
  attachAt : Nat := 0
deriving DecidableEq, Repr

/-- What one `CopyWithControl` call of the source loop hands to the next: the target keeps what it
received and the shared counter its value; `total` and `batchCounter` are locals of each call. -/
def nextCall (st : St) : St := { delivered := st.delivered, total := 0, batch := 0, counter := st.counter }

/-- Rest of the destination's write script when `copyFrom` returns. -/
def wsAfter (l : Limiter) : Nat → Bool → List ReadEv → List WriteEv → St → List WriteEv
  | _, _, [], ws, _ => ws
  | chk, canc, ev :: rs, ws, st =>
    if chk + 1 ≥ cloudconst.ContextCheckInterval ∧ canc then ws
    else
      match (iter l ev ws st).stop with
      | some _ => (iter l ev ws st).ws
      | none =>
        wsAfter l (if chk + 1 ≥ cloudconst.ContextCheckInterval then 0 else chk + 1) (canc || ev.cancelled)
          rs (iter l ev ws st).ws (iter l ev ws st).st

/-- Was the bridge context cancelled while a copy that left `rest` unread was running? -/
def cancelledIn (rs rest : List ReadEv) : Bool := (rs.take (rs.length - rest.length)).any (·.cancelled)

/-- Did the copy from connection `g` get as far as issuing the `Read` that follows `attachAt` read
events — the call during which the next connection is installed?  (Not if an error, a short write or
a cancellation ended the copy earlier, or the script is shorter.) -/
def reachedAttach (l : Limiter) (g : SrcGen) (ws : List WriteEv) (st : St) : Bool :=
  decide ((copy l (g.reads.take g.attachAt) ws (nextCall st)).2.1 = .eof) && decide (g.attachAt ≤ g.reads.length)

/-- The `source->target` goroutine of `Bridge.Start`: copy from the installed source forwarder; when
the copy returns and a newer forwarder has been installed meanwhile, loop — the loop head returns if
the context is done — else `break`. -/
def sourceLoop (l : Limiter) : List SrcGen → List WriteEv → St → St × Stop
  | [], _, st => (st, .eof)
  | [g], ws, st => ((copy l g.reads ws (nextCall st)).1, (copy l g.reads ws (nextCall st)).2.1)
  | g :: g' :: gs, ws, st =>
    if !reachedAttach l g ws st then
      ((copy l g.reads ws (nextCall st)).1, (copy l g.reads ws (nextCall st)).2.1)
    else if cancelledIn g.reads (copy l g.reads ws (nextCall st)).2.2 then ((copy l g.reads ws (nextCall st)).1, .ctx)
    else sourceLoop l (g' :: gs) (wsAfter l 0 false g.reads ws (nextCall st)) (copy l g.reads ws (nextCall st)).1

/-- Bytes the target had received each time the source loop reached the point where a source
connection is replaced (or, for the last connection, would be): the thresholds that decide which
source connection a byte sent by the target is written to. -/
def pausePoints (l : Limiter) : List SrcGen → List WriteEv → St → List Nat
  | [], _, _ => []
  | g :: gs, ws, st =>
    if reachedAttach l g ws st then
      (copy l (g.reads.take g.attachAt) ws (nextCall st)).1.delivered.length ::
        (if cancelledIn g.reads (copy l g.reads ws (nextCall st)).2.2 then []
         else match gs with
           | [] => []
           | _ :: _ => pausePoints l gs (wsAfter l 0 false g.reads ws (nextCall st)) (copy l g.reads ws (nextCall st)).1)
    else []

/-- The target's read events in the order they fire, grouped by the pause during which they fire:
an event gated on `after` received bytes fires once the target has received that many, and a gated
event holds back the ones behind it. -/
def splitFired : List Nat → List ReadEv → List (List ReadEv)
  | [], _ => []
  | d :: ds, evs => evs.takeWhile (fun e => decide (e.after ≤ d)) :: splitFired ds (evs.dropWhile (fun e => decide (e.after ≤ d)))

/-! ### `Bridge.Close`: the endpoints first, the statistics backend last

`Bridge.Close` tears the endpoints down and then calls `ManagerBase.Close`, which cancels the
context and runs the clean handlers synchronously — the final traffic report, i.e. calls into the
statistics backend (cloud control / storage).  The backend is external: it may take arbitrarily long. -/

structure CloseObs where
  srcClosed : Bool := false
  tgtClosed : Bool := false
  reported : Bool := false
deriving DecidableEq, Repr

/-- The effectful steps of `Bridge.Close` (selectors of the calls, in source order) executed against
a backend that stalls (`stall`) or answers: a stalled `ManagerBase.Close` never returns, so nothing
after it runs. -/
def closeRun (stall : Bool) : List String → CloseObs → CloseObs
  | [], o => o
  | s :: rest, o =>
    if s == "ManagerBase.Close" then (if stall then o else closeRun stall rest { o with reported := true })
    else if s == "sourceForwarder.Close" || s == "sourceTunnelConn.Close" || s == "sourceConn.Close" then
      closeRun stall rest { o with srcClosed := true }
    else if s == "targetForwarder.Close" || s == "targetTunnelConn.Close" || s == "targetConn.Close" then
      closeRun stall rest { o with tgtClosed := true }
    else closeRun stall rest o

/-! ### Re-attachment, concurrently

Both copy goroutines and the re-attaching source end as one interleaving semantics.  `attach`
installs the next source connection (`SetSourceConnection`) at any moment — also several times
during one copy, in which case the connections in between are never read.  The source goroutine
works on `sdir`, the copy from connection `now`; the bytes of the copies that already returned are
in `doneBytes`.  The target goroutine writes through `dynamicSourceWriter`, i.e. to the connection
installed when the write happens: `perSrc` has one entry per installed connection. -/

structure RBridge where
  lim : Limiter
  past : List (List ReadEv) := []     -- connections before the one being copied (copied or skipped)
  now : List ReadEv                   -- script of the connection the source goroutine copies from
  inst : List (List ReadEv) := []     -- connections installed since; the last one is the installed forwarder
  future : List (List ReadEv)         -- connections that will attach later
  sdir : Dir                          -- the running CopyWithControl of the source goroutine
  doneBytes : Bytes := []             -- delivered to the target by the copies that returned
  doneCount : Nat := 0                -- their contribution to the byte counter
  sdone : Bool := false               -- the source goroutine has finished
  tdir : Dir                          -- target → source
  perSrc : List Bytes := [[]]         -- bytes received by each installed source connection
  closed : Bool := false
deriving DecidableEq, Repr

inductive REv where
  | s2t | t2s | attach
deriving DecidableEq, Repr

def RBridge.init (lim : Limiter) (g : List ReadEv) (gs : List (List ReadEv)) (tw : List WriteEv)
    (tgt : List ReadEv) (sw : List WriteEv) : RBridge :=
  { lim := lim, now := g, future := gs, sdir := ⟨g, tw, {}, none⟩, tdir := ⟨tgt, sw, {}, none⟩ }

/-- All source connections, in attach order. -/
def RBridge.gens (b : RBridge) : List (List ReadEv) := b.past ++ [b.now] ++ b.inst ++ b.future

/-- What the target has received so far. -/
def RBridge.toTarget (b : RBridge) : Bytes := b.doneBytes ++ b.sdir.st.delivered

/-- Append `w` to the last entry (the installed connection's). -/
def appendLast : List Bytes → Bytes → List Bytes
  | [], w => [w]
  | [x], w => [x ++ w]
  | x :: y :: rest, w => x :: appendLast (y :: rest) w

def RBridge.step (b : RBridge) : REv → RBridge
  | .attach =>
    match b.future with
    | [] => b
    | g :: f => { b with inst := b.inst ++ [g], future := f, perSrc := b.perSrc ++ [[]] }
  | .t2s =>
    { b with
      tdir := b.tdir.step b.lim b.closed b.toTarget.length,
      perSrc := appendLast b.perSrc
        ((b.tdir.step b.lim b.closed b.toTarget.length).st.delivered.drop b.tdir.st.delivered.length),
      closed := b.closed || (b.tdir.step b.lim b.closed b.toTarget.length).stop.isSome }
  | .s2t =>
    if b.sdone then b
    else if (b.sdir.step b.lim b.closed b.tdir.st.delivered.length).stop.isSome then
      -- this copy has returned: look at the installed forwarder again
      match b.inst.getLast? with
      | some g =>
        if b.closed then
          { b with sdir := b.sdir.step b.lim b.closed b.tdir.st.delivered.length, sdone := true, closed := true }
        else
          { b with
            past := b.past ++ [b.now] ++ b.inst.dropLast, now := g, inst := [],
            doneBytes := b.doneBytes ++ (b.sdir.step b.lim b.closed b.tdir.st.delivered.length).st.delivered,
            doneCount := b.doneCount + (b.sdir.step b.lim b.closed b.tdir.st.delivered.length).st.counter,
            sdir := ⟨g, (b.sdir.step b.lim b.closed b.tdir.st.delivered.length).writes, {}, none⟩ }
      | none =>
        { b with sdir := b.sdir.step b.lim b.closed b.tdir.st.delivered.length, sdone := true, closed := true }
    else { b with sdir := b.sdir.step b.lim b.closed b.tdir.st.delivered.length }

def RBridge.run (b : RBridge) (evs : List REv) : RBridge := evs.foldl RBridge.step b

end Tunnox.C02
