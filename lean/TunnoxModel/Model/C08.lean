import TunnoxModel.Model.FMap
import TunnoxModel.Spec.TTLStore
/-!
# C08 — executable model: `connstate.Store` + the session hooks that drive it, several nodes, one store

Mirrors (tunnox-core, repaired tree)
* `internal/protocol/session/connstate/store.go`: `RegisterConnection`, `UnregisterConnection`,
  `GetConnectionState`, `FindClientNode`, `RefreshConnection`, `clientIndexPointsTo`, `makeConnectionKey`,
  `makeClientKey`, `NewStore` (ttl 0 ⇒ 5 min);
* `internal/protocol/session/packet_handler_handshake.go` `handleHandshake` (control / tunnel type, auth
  outcome, kick of the node-local old connection: unregister → registry remove → `UpdateAuth` → register);
* `internal/protocol/session/command_integration.go` `handleHeartbeat` (refresh of the records);
* `internal/protocol/session/connection_lifecycle.go` `CreateConnection`, `CloseConnection`
  (connMap, `RemoveControlConnection`, unregister);
* `internal/protocol/session/client_registry.go` `Register`, `UpdateAuth`, `Remove`/`removeConnectionLocked`,
  `GetByClientID`, `GetByConnID`;
* `internal/protocol/session/command_forwarder.go` `SendCommandToClient`/`sendCommandCrossNode` (routing decision).

The shared store is the sequential map with expiry of `Spec/TTLStore` (same `live`/`deadline` semantics,
lemmas `live_eq`, `expiry_eq_deadline`), keyed by the two key families of `connstate` instead of raw
strings.  One event = one handler call (atomic); the clock is explicit (milliseconds) and shared: storage deadlines
and the records' `ExpiresAt` are read off the same clock.

A connection id is the triple (node it was accepted on, client that uses it, serial): a connection id names one
node and one client (C07 covers re-authentication under another id); after `CloseConnection` the same id may be
accepted again (a peer that brings its own connection id and comes back) — a new connection under an old name.

`Variant` keeps the three defects found on the unchanged tree selectable; `repaired` is what the driver runs.
`Shape` is what the configured backend hands back for a stored `*Info`.
-/
namespace Tunnox.C08

/-- A connection: accepted on `node`, used by `client`, serial `k`. Rendered `<node>.<client>.<k>`. -/
structure Conn where
  node : Nat
  client : Nat
  k : Nat
  deriving DecidableEq, Repr, Inhabited

/-- Which consumer of the lookup. -/
inductive ReqKind where
  | http   -- `SendHTTPProxyRequest`
  | cmd    -- `SendCommandToClient` → `sendCommandCrossNode`
  deriving DecidableEq, Repr

/-- `makeConnectionKey` (`tunnox:conn_state:<id>`) / `makeClientKey` (`tunnox:client_conn:<id>`). -/
inductive Key where
  | conn (c : Conn)
  | client (x : Nat)
  deriving DecidableEq, Repr

/-- `connstate.Info` (the fields that decide anything). -/
structure Info where
  conn : Conn        -- ConnectionID
  clientID : Nat     -- ClientID
  nodeID : Nat       -- NodeID
  control : Bool     -- ConnType == "control"
  expiresAt : Nat    -- ExpiresAt: the application-level deadline `GetConnectionState` re-checks
  deriving DecidableEq, Repr

inductive Val where
  | info (i : Info)  -- the connection record
  | id (c : Conn)    -- the client index: a connection id string
  deriving DecidableEq, Repr

structure Entry where
  val : Val
  exp : Nat          -- absolute deadline, 0 = never
  deriving DecidableEq, Repr

abbrev Store := FMap Key Entry

/-- Same visibility rule as `TTLStore.Entry.live`. -/
def live (now : Nat) (e : Entry) : Bool := e.exp == 0 || decide (now ≤ e.exp)

/-- Same as `TTLStore.deadline` for a natural lifetime. -/
def expiry (now ttl : Nat) : Nat := if ttl = 0 then 0 else now + ttl

theorem live_eq (now : Nat) (e : Entry) (v : TTLStore.Val) : live now e = TTLStore.Entry.live now ⟨v, e.exp⟩ := rfl

theorem expiry_eq_deadline (now ttl : Nat) : expiry now ttl = TTLStore.deadline now (ttl : Int) := by
  unfold expiry TTLStore.deadline
  by_cases h : ttl = 0
  · subst h; simp
  · have h' : ¬ ((ttl : Int) ≤ 0) := by omega
    simp [h]

def find (now : Nat) (s : Store) (k : Key) : Option Entry := (FMap.lookup s k).filter (live now)
def set (now ttl : Nat) (s : Store) (k : Key) (v : Val) : Store := FMap.insert s k ⟨v, expiry now ttl⟩
def del (s : Store) (k : Key) : Store := FMap.erase s k

/-! ## Configuration -/

/-- What `storage.Get` returns for a stored `*Info`. -/
inductive Shape where
  | ptr       -- memory / local cache: the `*Info` itself
  | str       -- redis, hybrid with shared redis: the JSON string
  | bytes     -- a backend answering `[]byte`
  | jsonMap   -- a backend answering `map[string]interface{}`
  deriving DecidableEq, Repr

structure Variant where
  condDelete : Bool  -- UnregisterConnection deletes the client index only while it names this connection
  refreshHb : Bool   -- handleHeartbeat refreshes the records (and RefreshConnection renews the index)
  acceptPtr : Bool   -- GetConnectionState decodes `*Info`
  deriving DecidableEq, Repr

def repaired : Variant := ⟨true, true, true⟩
def asFound : Variant := ⟨false, false, false⟩

structure Params where
  v : Variant
  shape : Shape
  ttl : Nat          -- effective record lifetime (ms), see `effTTL`
  rsTtl : Nat := 90000   -- lifetime of the cloud runtime state (`constants.TTLClientState`, ms)
  deriving Repr

/-- `NewStore`: `ttl == 0` ⇒ 5 minutes. -/
def effTTL (ttl : Nat) : Nat := if ttl = 0 then 300000 else ttl

/-- The type switch of `GetConnectionState`. -/
def decodable (P : Params) : Bool :=
  match P.shape with
  | .ptr => P.v.acceptPtr
  | _ => true

/-! ## connstate.Store -/

inductive GS where
  | ok (i : Info)
  | notFound
  | badType
  deriving DecidableEq, Repr

/-- `GetConnectionState`: storage visibility, decode by shape, then the `ExpiresAt` re-check.  A record past its
`ExpiresAt` is reported as expired ("not connected", rendered like not-found) and deleted; the delete is not
modelled, because every reader of the record goes through this check and treats such a record as absent, and every
writer overwrites the key. -/
def getConnectionState (P : Params) (now : Nat) (s : Store) (c : Conn) : GS :=
  match find now s (.conn c) with
  | none => .notFound
  | some e =>
    match e.val with
    | .info i => if decodable P then (if now ≤ i.expiresAt then .ok i else .notFound) else .badType
    | .id _ => .badType

/-- `clientIndexPointsTo(clientKey, connectionID)`. -/
def clientIndexPointsTo (now : Nat) (s : Store) (x : Nat) (c : Conn) : Bool :=
  match find now s (.client x) with
  | none => false
  | some e =>
    match e.val with
    | .id c' => c' == c
    | .info _ => false

/-- `RegisterConnection` on the store of node `node`: `NodeID`, `CreatedAt = now`, `ExpiresAt = now + ttl` are
stamped on every registration — also when the same connection registers again. -/
def registerConnection (P : Params) (node now : Nat) (s : Store) (st : Info) : Store :=
  if st.control && decide (st.clientID > 0) then
    set now P.ttl (set now P.ttl s (.conn st.conn) (.info { st with nodeID := node, expiresAt := now + P.ttl }))
      (.client st.clientID) (.id st.conn)
  else
    set now P.ttl s (.conn st.conn) (.info { st with nodeID := node, expiresAt := now + P.ttl })

/-- The index part of `UnregisterConnection`. -/
def unregisterIndex (P : Params) (now : Nat) (s : Store) (c : Conn) : Store :=
  match getConnectionState P now s c with
  | .ok st =>
    if st.control && decide (st.clientID > 0) then
      if P.v.condDelete then
        if clientIndexPointsTo now s st.clientID c then del s (.client st.clientID) else s
      else del s (.client st.clientID)
    else s
  | _ => s

/-- `UnregisterConnection`. -/
def unregisterConnection (P : Params) (now : Nat) (s : Store) (c : Conn) : Store :=
  del (unregisterIndex P now s c) (.conn c)

inductive Look where
  | found (node : Nat) (c : Conn)
  | notFound
  | badType
  | invalid
  deriving DecidableEq, Repr

/-- `FindClientNode`. -/
def findClientNode (P : Params) (now : Nat) (s : Store) (x : Nat) : Look :=
  if x = 0 then .invalid else
  match find now s (.client x) with
  | none => .notFound
  | some e =>
    match e.val with
    | .info _ => .badType
    | .id c =>
      match getConnectionState P now s c with
      | .ok i => .found i.nodeID c
      | .notFound => .notFound
      | .badType => .badType

/-- `RefreshConnection`.  (The index is read after the record was rewritten; a `Set` on the record key does
not change what `Get` answers for the index key, so the read is modelled on `s`.) -/
def refreshConnection (P : Params) (now : Nat) (s : Store) (c : Conn) : Store :=
  match getConnectionState P now s c with
  | .ok st =>
    if st.control && decide (st.clientID > 0) && clientIndexPointsTo now s st.clientID c then
      set now P.ttl (set now P.ttl s (.conn c) (.info { st with expiresAt := now + P.ttl })) (.client st.clientID) (.id c)
    else set now P.ttl s (.conn c) (.info { st with expiresAt := now + P.ttl })
  | _ => s

/-! ## One node's SessionManager -/

structure NodeSt where
  streams : List Conn        -- streamMgr.streams: ids that have a stream (removed by CloseConnection of a connMap entry)
  conns : List Conn          -- SessionManager.connMap
  ctrl : List Conn           -- clientRegistry.connMap
  authed : List Conn         -- ControlConnection.Authenticated (ClientID set by the auth handler)
  dead : List Conn           -- connections whose stream the registry closed (`removeConnectionLocked`)
  byClient : FMap Nat Conn   -- clientRegistry.clientIDMap

def NodeSt.empty : NodeSt := ⟨[], [], [], [], [], FMap.empty⟩

def rm (c : Conn) (xs : List Conn) : List Conn := xs.filter (fun d => d ≠ c)
def add (c : Conn) (xs : List Conn) : List Conn := if c ∈ xs then xs else c :: xs

/-- `ClientRegistry.Remove` → `removeConnectionLocked` (close the stream, `unindexLocked`, drop from connMap). -/
def regRemove (n : NodeSt) (c : Conn) : NodeSt :=
  if c ∈ n.ctrl then
    { n with
      ctrl := rm c n.ctrl,
      authed := rm c n.authed,
      dead := c :: n.dead,
      -- unindexLocked: every index entry that points at this connection (a connection is used by one client)
      byClient :=
        if FMap.lookup n.byClient c.client = some c then FMap.erase n.byClient c.client else n.byClient }
  else n

structure St where
  now : Nat
  store : Store
  nodes : Nat → NodeSt
  down : List Nat := []      -- nodes whose session manager was shut down (their CrossNodePool is closed)
  -- lookups in flight: (asking node, client) ↦ what the first storage round trip (the index read) returned
  pending : FMap (Nat × Nat) (Option Conn) := FMap.empty
  -- the cloud side of the same question: `tunnox:runtime:client:state:<client>` ↦ (NodeID, ConnID, deadline),
  -- written by `client.Service` (a key family disjoint from the two of `connstate`, hence kept apart)
  rstore : FMap Nat (Nat × Conn × Nat) := FMap.empty
  -- consumers in flight: (kind, node, client) ↦ did the node-local registry have a connection of the client
  pendingReq : FMap (ReqKind × Nat × Nat) Bool := FMap.empty

/-- `CreateConnection`: a fresh stream for the id. -/
def NodeSt.addConn (n : NodeSt) (c : Conn) : NodeSt :=
  { n with conns := add c n.conns, streams := c :: n.streams, dead := rm c n.dead }
/-- `CloseConnection`: out of connMap; the stream leaves the StreamManager too when the connection was still in connMap
(so the id may come back later). -/
def NodeSt.dropConn (n : NodeSt) (c : Conn) : NodeSt :=
  { n with conns := rm c n.conns, streams := if c ∈ n.conns then rm c n.streams else n.streams }
/-- `RegisterControlConnection` of a connection not yet in the registry. -/
def NodeSt.addCtrl (n : NodeSt) (c : Conn) : NodeSt := { n with ctrl := add c n.ctrl }
/-- … and the auth handler accepted (`SetAuthenticated(true)`, `SetClientID`). -/
def NodeSt.addAuth (n : NodeSt) (c : Conn) : NodeSt := { n with ctrl := add c n.ctrl, authed := add c n.authed }

/-- After `onClose`: nothing registered any more, every stream closed (the stream table stays). -/
def NodeSt.closed (n : NodeSt) : NodeSt := ⟨n.streams, [], [], [], n.conns ++ n.dead, FMap.empty⟩

def St.init : St := ⟨0, FMap.empty, fun _ => NodeSt.empty, [], FMap.empty, FMap.empty, FMap.empty⟩

def upd (f : Nat → NodeSt) (j : Nat) (n : NodeSt) : Nat → NodeSt := fun i => if i = j then n else f i

/-- The production paths by which a connection ends; all of them reach `CloseConnection`. -/
inductive CloseKind where
  | direct      -- `SessionManager.CloseConnection` called directly (WebSocket module, API callers)
  | eof         -- adapter read loop ended (peer EOF, read error, failed handshake): `BaseAdapter.cleanupConnection`
  | disconnect  -- client sent a Disconnect command: `handleDisconnectCommand`
  | sweep       -- heartbeat timeout: `cleanupStaleConnections` → `ClientRegistry.CleanupStale` → callback
  deriving DecidableEq, Repr

inductive Ev where
  | open (c : Conn)                    -- CreateConnection
  | hs (c : Conn) (ok : Bool)          -- Handshake packet, ConnectionType "control"/"" ; ok = auth outcome
  | hsTunnel (c : Conn) (ok : Bool)    -- Handshake packet, ConnectionType "tunnel"
  | hb (c : Conn)                      -- Heartbeat packet
  | close (c : Conn) (k : CloseKind)   -- a connection ends, by one of the paths of `CloseKind`
  | kick (c : Conn)                    -- KickOldControlConnection(c.client, c): evict the node's other connection of the client
  | shutdown (n : Nat)                 -- SessionManager.Close / onClose of node `n`
  -- `FindClientNode(x)` asked on node `j` is two storage round trips; other events may fall between them:
  | lookBegin (j x : Nat)              -- … the index read (`storage.Get(clientKey)`)
  | lookEnd (j x : Nat)                -- … the record read (`GetConnectionState`) and the answer
  -- a CONSUMER of the lookup on node `j` (`SendHTTPProxyRequest`, `SendCommandToClient`, the DNS forwarders): first the
  -- node-local registry (`GetControlConnectionByClientID`), later — other events may fall in between — `FindClientNode`
  -- and the routing decision
  | reqBegin (k : ReqKind) (j x : Nat)
  | reqEnd (k : ReqKind) (j x : Nat)
  | tick (dt : Nat)
  deriving DecidableEq, Repr

/-- `CreateConnection` (limits not reached).  `streamMgr.CreateStream` refuses an id that still has a stream; an id
whose connection was closed (`CloseConnection` of a connMap entry removes the stream) may be used again. -/
def createConnection (st : St) (c : Conn) : St :=
  if c ∈ (st.nodes c.node).streams then st else
  { st with nodes := upd st.nodes c.node ((st.nodes c.node).addConn c) }

/-- Node state after the registry part of a successful control handshake: old connection of the client
removed (`Remove`), then `UpdateAuth`. -/
def hsNode (n : NodeSt) (c : Conn) : NodeSt :=
  match FMap.lookup n.byClient c.client with
  | some o =>
    if o ≠ c then { regRemove n o with byClient := FMap.insert (regRemove n o).byClient c.client c }
    else { n with byClient := FMap.insert n.byClient c.client c }
  | none => { n with byClient := FMap.insert n.byClient c.client c }

/-- Store after a successful control handshake: unregister the node-local old connection, then register. -/
def hsStore (P : Params) (now : Nat) (s : Store) (n : NodeSt) (c : Conn) : Store :=
  match FMap.lookup n.byClient c.client with
  | some o =>
    if o ≠ c then registerConnection P c.node now (unregisterConnection P now s o) ⟨c, c.client, c.node, true, 0⟩
    else registerConnection P c.node now s ⟨c, c.client, c.node, true, 0⟩
  | none => registerConnection P c.node now s ⟨c, c.client, c.node, true, 0⟩

/-- `handleHandshake`. -/
def handleHandshake (P : Params) (st : St) (c : Conn) (control ok : Bool) : St :=
  if c ∉ (st.nodes c.node).ctrl ∧ c ∉ (st.nodes c.node).conns then st   -- "connection not found"
  else if !ok then
    -- RegisterControlConnection happened, authHandler refused
    { st with nodes := upd st.nodes c.node ((st.nodes c.node).addCtrl c) }
  else if decide (c ∈ (st.nodes c.node).dead) then
    -- authenticated, but the stream was closed when the registry dropped the connection: the response cannot be sent
    { st with nodes := upd st.nodes c.node ((st.nodes c.node).addAuth c) }
  else if !control || decide (c.client = 0) then
    -- authenticated, but not a control connection of a known client: no registration
    { st with nodes := upd st.nodes c.node ((st.nodes c.node).addAuth c) }
  else
    { st with
      store := hsStore P st.now st.store (st.nodes c.node) c,
      nodes := upd st.nodes c.node (hsNode ((st.nodes c.node).addAuth c) c) }

/-- `handleHeartbeat`. -/
def handleHeartbeat (P : Params) (st : St) (c : Conn) : St :=
  if P.v.refreshHb && decide (c ∈ (st.nodes c.node).ctrl) && decide (c ∈ (st.nodes c.node).authed) && decide (c.client > 0) then
    { st with store := refreshConnection P st.now st.store c }
  else st

/-- `CloseConnection`. -/
def closeConnection (P : Params) (st : St) (c : Conn) : St :=
  { st with
    store := unregisterConnection P st.now st.store c,
    nodes := upd st.nodes c.node (regRemove ((st.nodes c.node).dropConn c) c) }

/-- `handleDisconnectCommand`: ignored unless the registry knows the connection, else `CloseConnection`. -/
def handleDisconnect (P : Params) (st : St) (c : Conn) : St :=
  if c ∈ (st.nodes c.node).ctrl then closeConnection P st c else st

/-- `cleanupStaleConnections` with `c` stale: `CleanupStale` drops it from the registry FIRST (`unindexLocked`,
delete), then the callback runs `CloseConnection(c)`, then the stream is closed. -/
def sweepStale (P : Params) (st : St) (c : Conn) : St :=
  if c ∈ (st.nodes c.node).ctrl then
    closeConnection P { st with nodes := upd st.nodes c.node (regRemove (st.nodes c.node) c) } c
  else st

/-- `KickOldControlConnection(c.client, c)` → `ClientRegistry.KickOldConnection`: the registry's connection of the
client, if it is another one, is unindexed, dropped and its stream closed.  No store access. -/
def kickOld (st : St) (c : Conn) : St :=
  match FMap.lookup (st.nodes c.node).byClient c.client with
  | some o => if o ≠ c then { st with nodes := upd st.nodes c.node (regRemove (st.nodes c.node) o) } else st
  | none => st

/-- `SessionManager.onClose`: registry and connMap emptied, every stream closed.  No store access. -/
def shutdownNode (st : St) (n : Nat) : St :=
  if n ∈ st.down then st else   -- `Close` is idempotent: `onClose` runs once
  { st with nodes := upd st.nodes n (NodeSt.closed (st.nodes n)), down := n :: st.down }

/-- First round trip of `FindClientNode`: the connection id the index names now (`none`: invalid id / no entry —
the lookup has returned already). -/
def indexRead (now : Nat) (s : Store) (x : Nat) : Option Conn :=
  if x = 0 then none else
  match find now s (.client x) with
  | none => none
  | some e =>
    match e.val with
    | .id c => some c
    | .info _ => none

/-- `FindClientNode` is read-only: its two round trips only `Get`.  The model records what the first one saw. -/
def lookupBegin (st : St) (j x : Nat) : St :=
  { st with pending := FMap.insert st.pending (j, x) (indexRead st.now st.store x) }

def lookupEnd (st : St) (j x : Nat) : St :=
  { st with pending := FMap.erase st.pending (j, x) }

/-- Answer of the lookup in flight when its second round trip runs now: the record of the connection READ EARLIER. -/
def lookupAnswer (P : Params) (st : St) (j x : Nat) : Look :=
  match FMap.lookup st.pending (j, x) with
  | some (some c) =>
    match getConnectionState P st.now st.store c with
    | .ok i => .found i.nodeID c
    | .notFound => .notFound
    | .badType => .badType
  | _ => .notFound

/-- The consumers of the lookup only read: the registry first, the shared store later.  Whatever they conclude
("state inconsistent" included) they write nothing. -/
def requestBegin (st : St) (k : ReqKind) (j x : Nat) : St :=
  { st with pendingReq := FMap.insert st.pendingReq (k, j, x) (FMap.lookup (st.nodes j).byClient x).isSome }

def requestEnd (st : St) (k : ReqKind) (j x : Nat) : St :=
  { st with pendingReq := FMap.erase st.pendingReq (k, j, x) }

def stepCore (P : Params) (st : St) : Ev → St
  | .open c => createConnection st c
  | .hs c ok => handleHandshake P st c true ok
  | .hsTunnel c ok => handleHandshake P st c false ok
  | .hb c => handleHeartbeat P st c
  | .close c .direct => closeConnection P st c
  | .close c .eof => closeConnection P st c
  | .close c .disconnect => handleDisconnect P st c
  | .close c .sweep => sweepStale P st c
  | .kick c => kickOld st c
  | .shutdown n => shutdownNode st n
  | .lookBegin j x => lookupBegin st j x
  | .lookEnd j x => lookupEnd st j x
  | .reqBegin k j x => requestBegin st k j x
  | .reqEnd k j x => requestEnd st k j x
  | .tick dt => { st with now := st.now + dt }

/-! ## The cloud runtime state (`internal/cloud/services/client/state.go`, `repos/client_state_repository.go`)

`ConnectClient` (auth handler, after it accepted a control handshake), `EnsureClientOnline` (every heartbeat of an
identified control connection), `DisconnectClientIfMatch` (`RemoveControlConnection` / the sweep callback, for an
authenticated connection the registry still held); read by `GetState` / `GetClientNodeID` / `IsClientOnNode`. -/

abbrev RStore := FMap Nat (Nat × Conn × Nat)

/-- `stateRepo.GetState`: node and connection the runtime state names now. -/
def rsGet (now : Nat) (rs : RStore) (x : Nat) : Option (Nat × Conn) :=
  match FMap.lookup rs x with
  | some v => if now ≤ v.2.2 then some (v.1, v.2.1) else none
  | none => none

/-- `ConnectClient`: a fresh state naming THIS node and THIS connection, whatever was there. -/
def connectClient (P : Params) (now : Nat) (rs : RStore) (x n : Nat) (c : Conn) : RStore :=
  FMap.insert rs x (n, c, now + P.rsTtl)

/-- `EnsureClientOnline`: touch the state that exists, rebuild it (for this connection) when it is gone. -/
def ensureClientOnline (P : Params) (now : Nat) (rs : RStore) (x n : Nat) (c : Conn) : RStore :=
  match rsGet now rs x with
  | some v => FMap.insert rs x (v.1, v.2, now + P.rsTtl)
  | none => FMap.insert rs x (n, c, now + P.rsTtl)

/-- `DisconnectClientIfMatch`. -/
def disconnectIfMatch (now : Nat) (rs : RStore) (x n : Nat) (c : Conn) : RStore :=
  if rsGet now rs x = some (n, c) then FMap.erase rs x else rs

/-- The runtime-state effect of one event, decided on the state BEFORE the event. -/
def rsStep (P : Params) (st : St) : Ev → RStore
  -- the auth handler accepted a control handshake of a known client on a connection the node has:
  -- `ConnectClient` runs before the response is sent (so also when sending fails on a closed stream)
  | .hs c ok =>
    if ok && (decide (c ∈ (st.nodes c.node).ctrl) || decide (c ∈ (st.nodes c.node).conns)) && decide (c.client > 0) then
      connectClient P st.now st.rstore c.client c.node c
    else st.rstore
  | .hb c =>
    if decide (c ∈ (st.nodes c.node).ctrl) && decide (c ∈ (st.nodes c.node).authed) && decide (c.client > 0) then
      ensureClientOnline P st.now st.rstore c.client c.node c
    else st.rstore
  -- every closing path: only for an authenticated connection the registry still holds
  -- (`RemoveControlConnection` inside `CloseConnection`; the sweep's callback does it itself)
  | .close c _ =>
    if decide (c ∈ (st.nodes c.node).ctrl) && decide (c ∈ (st.nodes c.node).authed) && decide (c.client > 0) then
      disconnectIfMatch st.now st.rstore c.client c.node c
    else st.rstore
  | _ => st.rstore

def step (P : Params) (st : St) (e : Ev) : St := { stepCore P st e with rstore := rsStep P st e }

/-- What the entry point reported: `CreateConnection` / `HandlePacket` returned nil; for the closes: this call
closed the connection (the Disconnect command and the sweep ignore a connection the registry does not hold);
for the end of a split lookup: it answered a connection. -/
def stepOk (st : St) : Ev → Bool
  | .open c => decide (c ∉ (st.nodes c.node).streams)
  | .hs c ok => ok && (decide (c ∈ (st.nodes c.node).ctrl) || decide (c ∈ (st.nodes c.node).conns)) && decide (c ∉ (st.nodes c.node).dead)
  | .hsTunnel c ok => ok && (decide (c ∈ (st.nodes c.node).ctrl) || decide (c ∈ (st.nodes c.node).conns)) && decide (c ∉ (st.nodes c.node).dead)
  | .close c .disconnect => decide (c ∈ (st.nodes c.node).ctrl)
  | .close c .sweep => decide (c ∈ (st.nodes c.node).ctrl)
  -- the lookup in flight answers a connection (no error) iff the record of the connection it read is visible
  | .lookEnd j x =>
    match FMap.lookup st.pending (j, x) with
    | some (some c) =>
      match find st.now st.store (.conn c) with
      | some e => (match e.val with | .info i => decide (st.now ≤ i.expiresAt) | .id _ => false)
      | none => false
    | _ => false
  -- the consumer in flight returned without error iff it sent on the node's own connection (and the node is up)
  | .reqEnd k j x =>
    match FMap.lookup st.pendingReq (k, j, x) with
    | some true => decide (j ∉ st.down)
    | _ => false
  | _ => true

/-! ## Observation -/

inductive Route where
  | loc                -- sent on the node's own control connection
  | cross (n : Nat)    -- forwarded to node `n`
  | none_              -- "target client not connected"
  | incons             -- "state inconsistent (on local node but not found)"
  | down               -- the asking node was shut down: its routing decision is not observed
  deriving DecidableEq, Repr

/-- Routing decision of `SendCommandToClient` on a running node `j`. -/
def routeUp (P : Params) (st : St) (j x : Nat) : Route :=
  match FMap.lookup (st.nodes j).byClient x with
  | some _ => .loc
  | none =>
    match findClientNode P st.now st.store x with
    | .found n _ => if n = j then .incons else .cross n
    | _ => .none_

/-- … and the observation of it: a node that was shut down is not asked. -/
def route (P : Params) (st : St) (j x : Nat) : Route :=
  if j ∈ st.down then .down else routeUp P st j x

/-- Decision of the consumer in flight when it ends now: the registry as read EARLIER, the store as it is NOW. -/
def requestOutcome (P : Params) (st : St) (k : ReqKind) (j x : Nat) : Route :=
  match FMap.lookup st.pendingReq (k, j, x) with
  | some true => .loc
  | _ =>
    match findClientNode P st.now st.store x with
    | .found n _ => if n = j then .incons else .cross n
    | _ => .none_

/-- What every node sees for client `x`: (`FindClientNode`, routing decision, runtime state) per node `0 … nn-1`. -/
def view (P : Params) (nn : Nat) (st : St) (x : Nat) : List (Look × Route × Option (Nat × Conn)) :=
  (List.range nn).map (fun j => (findClientNode P st.now st.store x, route P st j x, rsGet st.now st.rstore x))

/-- Per event: did the entry point succeed, and what every node sees for every watched client afterwards. -/
abbrev Obs := List (Bool × List (Nat × List (Look × Route × Option (Nat × Conn))))

def observe (P : Params) (nn : Nat) (clients : List Nat) (st : St) : List (Nat × List (Look × Route × Option (Nat × Conn))) :=
  clients.map (fun x => (x, view P nn st x))

/-- Run a history; one observation after every event. -/
def runFrom (P : Params) (nn : Nat) (clients : List Nat) : St → List Ev → Obs
  | _, [] => []
  | st, e :: es => (stepOk st e, observe P nn clients (step P st e)) :: runFrom P nn clients (step P st e) es

def run (P : Params) (nn : Nat) (clients : List Nat) (evs : List Ev) : Obs :=
  runFrom P nn clients St.init evs

end Tunnox.C08
