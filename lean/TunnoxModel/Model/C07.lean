import TunnoxModel.Gen.C07
/-
  C07 — the server's view of control connections (one per client).  Mirrors
    internal/protocol/session/client_registry.go      Register, UpdateAuth, Remove, Unregister, KickOldConnection,
                                                      CleanupStale, removeConnectionLocked, unindexLocked, DropStaleIndex,
                                                      findOldestConnectionLocked, Count, ListAuthenticated
    internal/protocol/session/packet_handler_handshake.go   handleHandshake
    internal/protocol/session/control_connection_mgr.go     RemoveControlConnection, cleanupStaleConnections
    internal/protocol/session/connection_lifecycle.go       CreateConnection/AcceptConnection, CloseConnection, GetConnectionStats
    internal/protocol/session/command_integration.go        handleHeartbeat
    internal/protocol/session/tunnel_registry.go            Register, Remove, Count
  Go maps are total functions `Nat → Option _` (absent = none); `*ControlConnection`
  pointers are object ids into the heap `obj` (two objects may carry the same ConnID, and the
  auth handler mutates an object's fields outside the registry lock, so identity matters).
  Every operation below is one atomic step, except the handshake, which is two:
  `hsAuth`/`hsChal` (up to and including the auth handler's field writes) and `hsFin` (the rest).
-/
namespace Tunnox.C07

/-- `asFound`: the index is maintained by `conn.ClientID` with the "only if the index still
points at me" guard and `UpdateAuth` never drops an old key.  `repaired`: `unindexLocked`
by connection identity, `DropStaleIndex` after the auth handler. -/
inductive Variant where
  | asFound | repaired
deriving DecidableEq, Repr

/-- The fields of a `ControlConnection` object the registry reads. -/
structure CC where
  connID : Nat
  clientID : Nat := 0      -- 0 = not bound
  auth : Bool := false
  created : Nat := 0       -- CreatedAt order (allocation sequence)
  stale : Bool := false    -- IsStale(HeartbeatTimeout)

/-- A handshake that has passed the auth handler and not yet written its response. -/
structure Pend where
  oid : Nat                -- the `clientConn` object the handler got
  ctl : Bool               -- isControlConnection

structure St where
  n : Nat                          -- connection ids in scope are 0..n-1
  cap : Nat                        -- MaxControlConnections (0 = unlimited)
  nobj : Nat                       -- objects allocated so far
  obj : Nat → CC                   -- heap of ControlConnection objects
  connMap : Nat → Option Nat       -- ClientRegistry.connMap    connID   → object
  idx : Nat → Option Nat           -- ClientRegistry.clientIDMap clientID → object
  sconn : Nat → Bool               -- SessionManager.connMap has connID
  tconn : Nat → Bool               -- TunnelRegistry.connMap has connID
  closed : Nat → Bool              -- the server closed the transport of connID
  broken : Nat → Bool              -- the peer broke the transport (writes fail)
  pend : Nat → Option Pend         -- handshake in flight on connID
  opened : Nat → Bool              -- ghost: AcceptConnection ran
  gone : Nat → Bool                -- ghost: CloseConnection ran on an opened connection
  evicted : Nat → Bool             -- ghost: removed from the registry by eviction (stream closed by the server)

def upd {α} (f : Nat → α) (k : Nat) (v : α) : Nat → α := fun x => if x = k then v else f x

def init (n cap : Nat) : St :=
  { n := n, cap := cap, nobj := 0, obj := fun _ => { connID := 0 }, connMap := fun _ => none, idx := fun _ => none,
    sconn := fun _ => false, tconn := fun _ => false, closed := fun _ => false, broken := fun _ => false,
    pend := fun _ => none, opened := fun _ => false, gone := fun _ => false, evicted := fun _ => false }

/-- `len(r.connMap)` -/
def St.count (s : St) : Nat := ((List.range s.n).filter (fun c => (s.connMap c).isSome)).length

/-- Drop the index entries of object `o` when it leaves the registry.
asFound: `if conn.Authenticated && conn.ClientID > 0 { if e, ok := clientIDMap[conn.ClientID]; ok && e.ConnID == conn.ConnID { delete } }`
repaired: `unindexLocked(conn)`: every entry that points at `conn`. -/
def unindex (v : Variant) (s : St) (o : Nat) : Nat → Option Nat :=
  match v with
  | .repaired => fun k => if s.idx k = some o then none else s.idx k
  | .asFound =>
    if (s.obj o).auth = true ∧ 0 < (s.obj o).clientID then
      match s.idx (s.obj o).clientID with
      | some e => if (s.obj e).connID = (s.obj o).connID then upd s.idx (s.obj o).clientID none else s.idx
      | none => s.idx
    else s.idx

/-- `removeConnectionLocked(conn)`: close the stream, unindex, delete from connMap. -/
def removeObj (v : Variant) (s : St) (o : Nat) : St :=
  { s with closed := upd s.closed (s.obj o).connID true,
           idx := unindex v s o,
           connMap := upd s.connMap (s.obj o).connID none,
           evicted := upd s.evicted (s.obj o).connID true }

/-- `ClientRegistry.Remove(connID)` -/
def removeConn (v : Variant) (s : St) (c : Nat) : St :=
  match s.connMap c with
  | none => s
  | some o => removeObj v s o

/-- one step of `findOldestConnectionLocked` -/
def olderOf (s : St) (acc : Option Nat) (c : Nat) : Option Nat :=
  match s.connMap c with
  | none => acc
  | some o =>
    match acc with
    | none => some o
    | some a => if (s.obj o).created < (s.obj a).created then some o else some a

/-- `findOldestConnectionLocked`: the registered object with the smallest CreatedAt. -/
def oldest (s : St) : Option Nat := (List.range s.n).foldl (olderOf s) none

/-- Register's limit check: `if max > 0 && len(connMap) >= max { removeConnectionLocked(oldest) }` -/
def evictForRoom (v : Variant) (s : St) : St :=
  if 0 < s.cap ∧ s.cap ≤ s.count then
    match oldest s with
    | some o => removeObj v s o
    | none => s
  else s

/-- insert a fresh, unauthenticated object for `c` (NewControlConnection + the tail of Register) -/
def insertNew (s : St) (c : Nat) : St :=
  { s with nobj := s.nobj + 1,
           obj := upd s.obj s.nobj { connID := c, created := s.nobj },
           connMap := upd s.connMap c (some s.nobj) }

/-- `Register(NewControlConnection(connID, …))` for a connID that is not registered. -/
def registerNew (v : Variant) (s : St) (c : Nat) : St := insertNew (evictForRoom v s) c

/-- handleHandshake, get-or-create part: the state afterwards … -/
def ensureSt (v : Variant) (s : St) (c : Nat) : St :=
  match s.connMap c with
  | some _ => s
  | none => if s.sconn c = true then registerNew v s c else s

/-- … and the `clientConn` object (none = "connection not found"). -/
def ensureObj (s : St) (c : Nat) : Option Nat :=
  match s.connMap c with
  | some o => some o
  | none => if s.sconn c = true then some s.nobj else none

/-- the auth handler's two field writes, outside any registry lock -/
def setFields (s : St) (o x : Nat) : St :=
  { s with obj := upd s.obj o { s.obj o with clientID := x, auth := true } }

def setPend (s : St) (c : Nat) (p : Option Pend) : St := { s with pend := upd s.pend c p }

/-- `ClientRegistry.UpdateAuth(connID, clientID, userID)` -/
def updateAuth (v : Variant) (s : St) (c x : Nat) : St :=
  match s.connMap c with
  | none => s
  | some o =>
    { s with obj := upd s.obj o { s.obj o with clientID := x, auth := true },
             idx := match v with
                    | .repaired => upd (fun k => if s.idx k = some o then none else s.idx k) x (some o)
                    | .asFound => upd s.idx x (some o) }

/-- `ClientRegistry.DropStaleIndex(conn)` (repaired tree only) -/
def dropStale (v : Variant) (s : St) (o : Nat) : St :=
  match v with
  | .repaired => { s with idx := fun k => if s.idx k = some o ∧ k ≠ (s.obj o).clientID then none else s.idx k }
  | .asFound => s

/-- handleHandshake after the response was written: old-connection cleanup + UpdateAuth -/
def hsIndex (v : Variant) (s : St) (p : Pend) : St :=
  if p.ctl = true ∧ (s.obj p.oid).auth = true ∧ 0 < (s.obj p.oid).clientID then
    updateAuth v
      (match s.idx (s.obj p.oid).clientID with
       | some e => if (s.obj e).connID ≠ (s.obj p.oid).connID then removeConn v s (s.obj e).connID else s
       | none => s)
      (s.obj p.oid).connID (s.obj p.oid).clientID
  else s

/-- handleHandshake from the return of the auth handler to the end -/
def hsFinish (v : Variant) (s : St) (c : Nat) (p : Pend) : St :=
  if (dropStale v s p.oid).closed c = true ∨ (dropStale v s p.oid).broken c = true then dropStale v s p.oid
  else hsIndex v (dropStale v s p.oid) p

/-- `KickOldConnection(clientID, newConnID, sendKick)`: unindex + delete under the lock, then the kick
command and `stream.Close()` — the same four updates as `removeConnectionLocked`. -/
def kickOld (v : Variant) (s : St) (x c' : Nat) : St :=
  match s.idx x with
  | none => s
  | some o => if (s.obj o).connID = c' then s else removeObj v s o

/-- is `c` registered with a stale object? -/
def staleReg (s : St) (c : Nat) : Bool :=
  match s.connMap c with
  | some o => (s.obj o).stale
  | none => false

/-- index after the locked part of `CleanupStale` -/
def sweepIdx (v : Variant) (s : St) : Nat → Option Nat := fun k =>
  match s.idx k with
  | none => none
  | some e =>
    match v with
    | .repaired => if s.connMap (s.obj e).connID = some e ∧ (s.obj e).stale = true then none else some e
    | .asFound =>
      match s.connMap (s.obj e).connID with
      | some o => if (s.obj o).stale = true ∧ (s.obj o).auth = true ∧ (s.obj o).clientID = k ∧ 0 < k then none else some e
      | none => some e

/-- `cleanupStaleConnections()`: CleanupStale + CloseConnection(connID) + stream.Close() per stale connection -/
def sweep (v : Variant) (s : St) : St :=
  { s with idx := sweepIdx v s,
           connMap := fun c => if staleReg s c = true then none else s.connMap c,
           sconn := fun c => if staleReg s c = true then false else s.sconn c,
           tconn := fun c => if staleReg s c = true then false else s.tconn c,
           closed := fun c => if staleReg s c = true then true else s.closed c,
           gone := fun c => if staleReg s c = true then (s.gone c || s.opened c) else s.gone c,
           evicted := fun c => if staleReg s c = true then true else s.evicted c }

/-- `CloseConnection(connID)` -/
def closeConn (v : Variant) (s : St) (c : Nat) : St :=
  { removeConn v
      (if s.sconn c = true then { s with sconn := upd s.sconn c false, closed := upd s.closed c true } else s) c
    with tconn := upd s.tconn c false, gone := upd s.gone c (s.gone c || s.opened c) }

/-- `ClientRegistry.Unregister(connID)`: leave the registry, keep the stream -/
def unregister (v : Variant) (s : St) (c : Nat) : St :=
  match s.connMap c with
  | none => s
  | some o => { s with idx := unindex v s o, connMap := upd s.connMap c none }

def setStale (s : St) (c : Nat) (b : Bool) : St :=
  match s.connMap c with
  | none => s
  | some o => { s with obj := upd s.obj o { s.obj o with stale := b } }

/-- `Register(NewControlConnection(c, …))` in any state of the registry (the connID may be registered):
limit check (evict the oldest), replacement of the existing entry of `c` (`removeConnectionLocked(existing)`,
which closes the stream — the one the new object shares), insert. -/
def reRegister (v : Variant) (s : St) (c : Nat) : St := insertNew (removeConn v (evictForRoom v s) c) c

inductive Op where
  | accept (c : Nat)                 -- AcceptConnection (an id in use is refused; a torn-down id may come back)
  | hsFail (c : Nat)                 -- Handshake packet, the auth handler refuses
  | hsChal (c : Nat) (ctl : Bool)    -- … the handler answers "challenge sent" (no field writes); waits at the gate
  | hsAuth (c x : Nat) (ctl : Bool)  -- … the handler authenticates as client x (SetClientID, SetAuthenticated); waits
  | hsFin (c : Nat)                  -- the rest of handleHandshake
  | kick (x c : Nat)                 -- KickOldControlConnection(x, newConnID = c)
  | sweep                            -- cleanupStaleConnections
  | age (c : Nat)                    -- c's control connection becomes older than the heartbeat timeout
  | beat (c : Nat)                   -- Heartbeat packet
  | close (c : Nat)                  -- CloseConnection
  | remove (c : Nat)                 -- RemoveControlConnection
  | unreg (c : Nat)                  -- clientRegistry.Unregister
  | treg (c : Nat)                   -- RegisterTunnelConnection
  | brk (c : Nat)                    -- the peer breaks the transport
  | reg (c x : Nat)                  -- RegisterControlConnection of a new object built from SessionManager's entry of c:
                                     -- x = 0 unauthenticated (any state: limit eviction + replacement of the existing entry);
                                     -- x > 0 pre-authenticated as x, the temporary control connection of
                                     -- notifyTargetClientToOpenTunnel (its preconditions: no connection is indexed for x,
                                     -- c is not registered as a control connection, its stream is not closed)
deriving DecidableEq, Repr

def step (v : Variant) (s : St) : Op → St
  | .accept c =>
    if c < s.n ∧ s.opened c = false then { s with sconn := upd s.sconn c true, opened := upd s.opened c true }
    else if c < s.n ∧ s.sconn c = false ∧ s.pend c = none then
      -- the id comes back after its connection was torn down (CloseConnection removed the stream from the
      -- StreamManager, so CreateStream accepts the id again): a new incarnation on a new transport
      { s with sconn := upd s.sconn c true, closed := upd s.closed c false, broken := upd s.broken c false,
               gone := upd s.gone c false, evicted := upd s.evicted c false }
    else s   -- the id is in use: CreateStream refuses ("stream already exists")
  | .hsFail c =>
    if c < s.n ∧ s.pend c = none then ensureSt v s c else s
  | .hsChal c ctl =>
    if c < s.n ∧ s.pend c = none then
      match ensureObj s c with
      | none => s
      | some o => setPend (ensureSt v s c) c (some ⟨o, ctl⟩)
    else s
  | .hsAuth c x ctl =>
    if c < s.n ∧ s.pend c = none then
      match ensureObj s c with
      | none => s
      | some o => setPend (setFields (ensureSt v s c) o x) c (some ⟨o, ctl⟩)
    else s
  | .hsFin c =>
    match s.pend c with
    | none => s
    | some p => hsFinish v (setPend s c none) c p
  | .kick x c => kickOld v s x c
  | .sweep => sweep v s
  | .age c => if c < s.n then setStale s c true else s
  | .beat c => if c < s.n then setStale s c false else s
  | .close c => if c < s.n then closeConn v s c else s
  | .remove c => if c < s.n then removeConn v s c else s
  | .unreg c => if c < s.n then unregister v s c else s
  | .treg c => if c < s.n ∧ s.sconn c = true then { s with tconn := upd s.tconn c true } else s
  | .brk c => if c < s.n then { s with broken := upd s.broken c true } else s
  | .reg c x =>
    if c < s.n ∧ s.sconn c = true then
      if x = 0 then reRegister v s c
      else if s.idx x = none ∧ s.connMap c = none ∧ s.closed c = false then
        updateAuth v (registerNew v s c) c x   -- insert, then `if conn.Authenticated && conn.ClientID > 0 { clientIDMap[x] = conn }`
      else s
    else s

def run (v : Variant) (s : St) (ops : List Op) : St := ops.foldl (step v) s

/-! ## Cloud-control faults

`RemoveControlConnection`, the stale sweep's callback and `handleHeartbeat` call the cloud control
(`DisconnectClientIfMatch`, `EnsureClientOnline`) around the registry update and only log its error.
A history with fault points is a list of `(op, the cloud-control store fails during this op)`;
the registry semantics does not look at the flag: the error is logged, the entry is removed. -/

abbrev FOp := Op × Bool

def runF (v : Variant) (s : St) (fops : List FOp) : St := run v s (fops.map Prod.fst)

/-! ## Histories driven through the adapter's read loop (adapter.go handleConnection)

Every accepted connection has a read loop (`connectionReadLoop`); when its transport is closed by
the server (eviction, CloseConnection by somebody else) or broken by the peer, `ReadPacket` fails,
the loop ends and the deferred `cleanupConnection` runs `CloseConnection(connID)` and closes the
transport.  A loop that is inside `HandlePacket` (handshake in flight) gets there only afterwards.
`settle` is that teardown for every such connection at once (the teardowns of different connections
commute); `stepAdp` = one operation, then the read loops that must end do end. -/

/-- the read loop of `c` ends: it was opened, its transport is closed or broken, no packet is being handled -/
def dead (s : St) (c : Nat) : Bool :=
  decide (c < s.n) && (s.closed c || s.broken c) && s.opened c && (s.pend c).isNone

def settle (s : St) : St :=
  { s with idx := fun k => match s.idx k with
                          | none => none
                          | some e => if dead s (s.obj e).connID = true then none else some e,
           connMap := fun c => if dead s c = true then none else s.connMap c,
           sconn := fun c => if dead s c = true then false else s.sconn c,
           tconn := fun c => if dead s c = true then false else s.tconn c,
           closed := fun c => s.closed c || (decide (c < s.n) && s.broken c && s.opened c && (s.pend c).isNone),
           gone := fun c => if dead s c = true then true else s.gone c,
           evicted := fun c => if dead s c = true ∧ (s.connMap c).isSome = true then true else s.evicted c }

def stepAdp (v : Variant) (s : St) (op : Op) : St := settle (step v s op)

def runAdp (v : Variant) (s : St) (fops : List FOp) : St := (fops.map Prod.fst).foldl (stepAdp v) s

/-! ## Finer steps (only for the recorded finding `evict-close-window`)

`KickOldConnection` releases the registry lock between removing the old connection from the
maps and closing its stream.  `FineOp` exposes that point; the theorems are about `Op`/`run`. -/

inductive FineOp where
  | op (o : Op)
  | kickLock (x c : Nat)   -- KickOldConnection(x, newConnID = c) up to `r.mu.Unlock()`
  | kickIO (c : Nat)       -- … the rest: kick command and `stream.Close()` of the kicked connection c
deriving DecidableEq, Repr

def stepFine (v : Variant) (s : St) : FineOp → St
  | .op o => step v s o
  | .kickLock x c' =>
    match s.idx x with
    | none => s
    | some o =>
      if (s.obj o).connID = c' then s
      else { s with idx := unindex v s o, connMap := upd s.connMap (s.obj o).connID none }
  | .kickIO c => { s with closed := upd s.closed c true, evicted := upd s.evicted c true }

def runFine (v : Variant) (s : St) (ops : List FineOp) : St := ops.foldl (stepFine v) s

/-! ## Observation (what the lookups and counters answer) -/

/-- `GetControlConnectionByClientID(x)`: the fields of the object returned, and whether
`GetControlConnection(its ConnID)` is that same object. -/
structure CliRes where
  conn : Nat
  clientID : Nat
  auth : Bool
  same : Bool
deriving DecidableEq, Repr

structure ConnRes where
  reg : Option (Nat × Bool)   -- GetControlConnection(c): (ClientID, Authenticated)
  inS : Bool                  -- GetConnection(c) exists
  inT : Bool                  -- tunnel registry has c
  closed : Bool               -- closed-flag of the fake transport
deriving DecidableEq, Repr

def ifcOf (r : Option CliRes) : Option Nat := r.map (fun x => x.conn)
def gidOf (r : ConnRes) : Nat := match r.reg with | some (x, _) => x | none => 0

structure Obs where
  cl : List (Option CliRes)   -- clients 1..m
  cn : List ConnRes           -- connections 0..n-1
  la : List Nat               -- ListAuthenticated, connection ids ascending
  count : Nat                 -- clientRegistry.Count()
  total : Nat                 -- GetConnectionStats().TotalConnections
  control : Nat
  tunnel : Nat
  active : Nat                -- GetActiveChannels()
  -- the other spellings of the same questions (defaults = what the primary answers say)
  altList : Nat := count      -- len(clientRegistry.List())  (shim)
  altConns : Nat := total     -- len(ListConnections())
  altActive : Nat := active   -- GetActiveConnections()
  ifc : List (Option Nat) := cl.map ifcOf   -- GetControlConnectionInterface(x): its ConnID
  gid : List Nat := cn.map gidOf            -- GetClientIDByConnectionID(c)
deriving DecidableEq, Repr

def cliRes (s : St) (x : Nat) : Option CliRes :=
  match s.idx x with
  | none => none
  | some o => some ⟨(s.obj o).connID, (s.obj o).clientID, (s.obj o).auth, s.connMap (s.obj o).connID == some o⟩

def connRes (s : St) (c : Nat) : ConnRes :=
  ⟨(s.connMap c).map (fun o => ((s.obj o).clientID, (s.obj o).auth)), s.sconn c, s.tconn c, s.closed c⟩

def regB (r : ConnRes) : Bool := r.reg.isSome
def authB (r : ConnRes) : Bool := match r.reg with | some (_, a) => a | none => false

def obsOf (s : St) (m : Nat) : Obs :=
  { cl := (List.range m).map (fun i => cliRes s (i + 1)),
    cn := (List.range s.n).map (connRes s),
    la := (List.range s.n).filter (fun c => authB (connRes s c)),
    count := ((List.range s.n).filter (fun c => regB (connRes s c))).length,
    total := ((List.range s.n).filter (fun c => (connRes s c).inS)).length,
    control := ((List.range s.n).filter (fun c => regB (connRes s c))).length,
    tunnel := ((List.range s.n).filter (fun c => (connRes s c).inT)).length,
    active := ((List.range s.n).filter (fun c => regB (connRes s c))).length
              + ((List.range s.n).filter (fun c => (connRes s c).inT)).length }

end Tunnox.C07
