import TunnoxModel.Spec.C19
/-!
  C19 — the entry points around the repository, as sequential compositions of the operations of `Model/C19.lean`:
  * internal/command/handler_http_domain_create.go  HTTPDomainCreateHandler.Handle  +
    internal/app/server/http_domain_repository_adapter.go  IsBaseDomainAllowed / IsSubdomainAvailable /
    CreateHTTPDomainMapping (CreateMapping, then UpdateMapping with the expiry `now + ttl`)
  * internal/command/handler_http_domain_delete.go  HTTPDomainDeleteHandler.Handle + DeleteHTTPDomainMapping
    (the client is the connection's authenticated `ctx.ClientID`, never a request field)
  * http_domain_mapping_repository.go  CleanupExpiredMappings / ListAllMappings / GetMappingsByClientID /
    CheckSubdomainAvailable
  * domainproxy handler.go ServeHTTP → handleSmallRequest: lookupMapping(r.Host), then the proxied request goes
    to the mapping's client with the mapping's target; errors become HTTP status codes (utils.go handleError).
  Every entry point is expanded into `Op`s (create / upd / del / look), so a history of entry-point calls IS a history
  the theorems of `Props/C19.lean` quantify over; the expansion is compared with the real code by the `c19h` run.
-/
namespace Tunnox.C19
open Gen

def seqOpAux (cf : Config) : Nat → Store → Op → PC → Store × Res
  | 0, s, _, _ => (s, .err "FUEL")
  | f + 1, s, o, pc =>
    match (stepOp cf s o pc).2.2 with
    | some r => ((stepOp cf s o pc).1, r)
    | none => seqOpAux cf f (stepOp cf s o pc).1 o (stepOp cf s o pc).2.1

/-- One operation run to completion with nothing interleaved. -/
def seqOp (cf : Config) (s : Store) (o : Op) : Store × Res := seqOpAux cf 12 s o .idle

inductive HOp
  | hcreate (client : Nat) (sub base scheme host : String) (port ttl : Nat)
  | hdelete (client id : Nat)
  | cleanup
  | listClient (client : Nat)
  | listAll
  | avail (sub base : String)
  | serve (host : String)
  | op (o : Op)
deriving DecidableEq, Repr

inductive HRes
  | res (r : Res)
  | refused (why : String)
  | cleaned (n : Nat) (deleted : List (Nat × Nat × Nat))   -- count; (id, client, expiresAt) of what disappeared
  | ids (l : List Nat)
  | flag (b : Bool)
  | served (client : Nat) (url : String)
  | status (code : Nat)
deriving DecidableEq, Repr

/-- the handler's default: 7 days -/
def defaultTTL : Nat := 7 * 24 * 3600

def targetPort (scheme : String) (port : Nat) : Nat := if port != 0 then port else if scheme == "https" then 443 else 80

/-- utils.go handleError: error code ↦ HTTP status -/
def statusOf (code : String) : Nat :=
  if code == coreerrors.CodeNotFound then 404
  else if code == coreerrors.CodeUnavailable then 503
  else if code == coreerrors.CodeForbidden then 403
  else 500

/-- ids of a list whose record exists; the list with the dangling ids removed (lazy repair of ListAll / ListByClient) -/
def liveIds (s : Store) (l : List Nat) : List Nat := l.filter (fun n => (s.data n).isSome)

/-- `CleanupExpiredMappings`: delete (as its own client) every listed mapping that is expired. -/
def cleanupFold (cf : Config) : List Nat → Store → Nat → List (Nat × Nat × Nat) → Store × Nat × List (Nat × Nat × Nat)
  | [], s, k, acc => (s, k, acc.reverse)
  | n :: rest, s, k, acc =>
    match s.data n with
    | some r =>
      if repos.HTTPDomainMapping.IsExpired cf.now r then
        match seqOp cf s (.del n r.ClientID) with
        | (s', .ok) => cleanupFold cf rest s' (k + 1) (if (s'.data n).isNone then (n, r.ClientID, r.ExpiresAt) :: acc else acc)
        | (s', _) => cleanupFold cf rest s' k acc
      else cleanupFold cf rest s k acc
    | none => cleanupFold cf rest s k acc

def stepH (cf : Config) (s : Store) : HOp → Store × HRes
  | .hcreate client sub base scheme host port ttl =>
    if client == 0 then (s, .refused "AUTH")      -- identity comes from the connection; unauthenticated ⇒ refused
    else if sub == "" || base == "" then (s, .refused "REQ")
    else if !(cf.bases.any (· == base)) then (s, .refused "BASE")
    else if (s.index (sub ++ "." ++ base)).isSome then (s, .refused "INUSE")
    else
      match seqOp cf s (.create client sub base host (targetPort scheme port)) with
      | (s1, .okId n) =>
        ((seqOp cf s1 (.upd n repos.HTTPDomainMappingStatusActive (cf.now + (if ttl == 0 then defaultTTL else ttl)) host
            (targetPort scheme port))).1, .res (.okId n))
      | (s1, r) => (s1, .res r)
  | .hdelete client id =>
    if client == 0 then (s, .refused "AUTH") else ((seqOp cf s (.del id client)).1, .res (seqOp cf s (.del id client)).2)
  | .cleanup =>
    match s.globalList with
    | none => (s, .cleaned 0 [])
    | some l =>
      let s1 := { s with globalList := some (liveIds s l) }
      let r := cleanupFold cf (liveIds s l) s1 0 []
      (r.1, .cleaned r.2.1 r.2.2)
  | .listClient c =>
    match s.clientList c with
    | none => (s, .ids [])
    | some l => ({ s with clientList := upd s.clientList c (some (liveIds s l)) }, .ids (liveIds s l))
  | .listAll =>
    match s.globalList with
    | none => (s, .ids [])
    | some l => ({ s with globalList := some (liveIds s l) }, .ids (liveIds s l))
  | .avail sub base => (s, .flag (!(s.index (sub ++ "." ++ base)).isSome))
  | .serve host =>
    match seqOp cf s (.look host) with
    | (s1, .route _ c th tp) => (s1, .served c ("http://" ++ th ++ ":" ++ toString tp ++ "/p"))
    | (s1, .err code) => (s1, .status (statusOf code))
    | (s1, _) => (s1, .status 500)
  | .op o => ((seqOp cf s o).1, .res (seqOp cf s o).2)

def runH (cf : Config) : Store → List HOp → Store × List HRes
  | s, [] => (s, [])
  | s, h :: hs => ((runH cf (stepH cf s h).1 hs).1, (stepH cf s h).2 :: (runH cf (stepH cf s h).1 hs).2)

/-- The operations an entry-point call amounts to, given its (observed) result: what the monitor is shown. -/
def expandH (cf : Config) (h : HOp) (r : HRes) : List (Op × Res) :=
  match h, r with
  | .hcreate client sub base scheme host port ttl, .res (.okId n) =>
    [(.create client sub base host (targetPort scheme port), .okId n),
     (.upd n repos.HTTPDomainMappingStatusActive (cf.now + (if ttl == 0 then defaultTTL else ttl)) host (targetPort scheme port), .ok)]
  | .hcreate client sub base scheme host port _, .res e => [(.create client sub base host (targetPort scheme port), e)]
  | .hdelete client id, .res e => [(.del id client, e)]
  | .cleanup, .cleaned _ del => del.map (fun d => (.del d.1 d.2.1, .ok))
  | .op o, .res e => [(o, e)]
  | _, _ => []

/-- Clauses about the entry points themselves: a cleanup removes only expired mappings; a refusal of the create
handler is one of its own reasons; an unauthenticated connection (client 0) is refused by both handlers. -/
def entryOK (cf : Config) (h : HOp) (r : HRes) : Bool :=
  match h, r with
  | .cleanup, .cleaned n del => del.all (fun d => d.2.2 != 0 && decide (d.2.2 < cf.now)) && decide (del.length ≤ n)
  | .cleanup, _ => false
  | .hcreate .., .refused why => why == "AUTH" || why == "REQ" || why == "BASE" || why == "INUSE"
  | .hdelete client _, .refused why => why == "AUTH" && client == 0
  | .hdelete client _, .res _ => client != 0
  | _, _ => true

end Tunnox.C19
