/-! Receiver types of the predicates translated from `internal/core/storage/hybrid/hybrid.go`
(field names equal the Go field names; imported by the generated module `Gen/C09.lean`). -/
namespace Tunnox.C09

/-- `hybrid.Config` (only the fields the routing predicates read). -/
structure HybridConfig where
  PersistentPrefixes : List String
  SharedPrefixes : List String
  SharedPersistentPrefixes : List String

/-- `hybrid.Storage` as seen by `isPersistent / isShared / isSharedPersistent / getCategory`. -/
structure HybridStorage where
  config : HybridConfig

end Tunnox.C09
