import TunnoxModel.Model.C19
/-!
  C19 — `DomainRegistry` (internal/httpservice/domain_registry.go) as an interleaving model: the arbiter of name
  ownership in the management create flow (`Register`: the loser is rolled back, the winner keeps its mapping).
  One model step per lock section, in source order:
    Register      idle → (FullDomain check) → rBase (IsBaseDomainAllowed, read lock) → rLock (write lock: "owned by a
                  different mapping ID?" AND store, one critical section) → result
    Unregister    idle → uLock (write lock: delete)
    LookupByHost  idle → lLock (read lock: map read under the normalised host)
  `split = true` is the variant in which the duplicate check runs in its own read-locked section before the store
  (check-then-store split): it has a witness theorem, the tree corresponds to `split = false`.
-/
namespace Tunnox.C19
open Gen

inductive ROp
  | register (m : PM)
  | unregister (d : String)
  | lookup (host : String)
  | unregId (id : String)                 -- UnregisterByMappingID
  | rebuild (l : List PM)                 -- Rebuild (startup / reload): the map is replaced
  | avail (sub base : String)             -- IsSubdomainAvailable
deriving DecidableEq, Repr

inductive RRes
  | ok
  | err (code : String)
  | found (id : String) (client : Nat)
  | notFound
  | flag (b : Bool)
deriving DecidableEq, Repr

inductive RPC
  | idle | rCheck | rBase | rLock | rStore | uLock | lLock | iLock | bLock | aLock
deriving DecidableEq, Repr

structure RConfig where
  split : Bool
  bases : List String

structure RThread where
  todo : List ROp
  pc : RPC

structure RCfg where
  reg : String → Option PM
  th : Nat → RThread

structure RSlot where
  tid : Nat
  ran : Bool
  inv : Option ROp
  ret : Option (ROp × RRes)
deriving DecidableEq, Repr

def RPC.isIdle : RPC → Bool
  | .idle => true
  | _ => false

/-- `IsBaseDomainAllowed` -/
def baseAllowed (cf : RConfig) (b : String) : Bool := cf.bases.isEmpty || cf.bases.any (· == b)

/-- "is this full domain owned by a different mapping ID?" -/
def ownedByOtherId (reg : String → Option PM) (m : PM) : Bool :=
  match reg m.fullDomain with
  | some ex => ex.ID != m.ID
  | none => false

def stepRegister (cf : RConfig) (reg : String → Option PM) (m : PM) (pc : RPC) : (String → Option PM) × RPC × Option RRes :=
  match pc with
  | .idle =>
    if m.fullDomain == "" then (reg, .idle, some (.err coreerrors.CodeInvalidParam))
    else if cf.split then (reg, .rCheck, none) else (reg, .rBase, none)
  | .rCheck =>   -- split variant only: duplicate check under the read lock
    if ownedByOtherId reg m then (reg, .idle, some (.err coreerrors.CodeAlreadyExists)) else (reg, .rBase, none)
  | .rBase =>
    if baseAllowed cf m.base then (reg, if cf.split then .rStore else .rLock, none)
    else (reg, .idle, some (.err coreerrors.CodeForbidden))
  | .rLock =>    -- one write-locked section: check and store
    if ownedByOtherId reg m then (reg, .idle, some (.err coreerrors.CodeAlreadyExists))
    else (upd reg m.fullDomain (some m), .idle, some .ok)
  | .rStore => (upd reg m.fullDomain (some m), .idle, some .ok)
  | _ => (reg, .idle, some (.err "BADPC"))

/-- `Rebuild`: a fresh map, filled in list order (later entries overwrite earlier ones of the same name). -/
def rebuildReg (l : List PM) : String → Option PM :=
  l.foldl (fun acc m => if m.fullDomain == "" then acc else upd acc m.fullDomain (some m)) (fun _ => none)

/-- `UnregisterByMappingID` (every mapping ID is registered under at most one name: management never renames). -/
def dropById (reg : String → Option PM) (id : String) : String → Option PM :=
  fun d => match reg d with
    | some m => if m.ID == id then none else some m
    | none => none

def stepROp (cf : RConfig) (reg : String → Option PM) (o : ROp) (pc : RPC) : (String → Option PM) × RPC × Option RRes :=
  match o with
  | .register m => stepRegister cf reg m pc
  | .unregister d =>
    match pc with
    | .idle => (reg, .uLock, none)
    | .uLock => (upd reg d none, .idle, some .ok)
    | _ => (reg, .idle, some (.err "BADPC"))
  | .lookup host =>
    match pc with
    | .idle => (reg, .lLock, none)
    | .lLock =>
      match reg (extractDomain host) with
      | some m => (reg, .idle, some (.found m.ID m.client))
      | none => (reg, .idle, some .notFound)
    | _ => (reg, .idle, some (.err "BADPC"))
  | .unregId id =>
    match pc with
    | .idle => (reg, .iLock, none)
    | .iLock => (dropById reg id, .idle, some .ok)
    | _ => (reg, .idle, some (.err "BADPC"))
  | .rebuild l =>
    match pc with
    | .idle => (reg, .bLock, none)
    | .bLock => (rebuildReg l, .idle, some .ok)
    | _ => (reg, .idle, some (.err "BADPC"))
  | .avail sub base =>
    match pc with
    | .idle => (reg, .aLock, none)
    | .aLock => (reg, .idle, some (.flag (reg (sub ++ "." ++ base)).isNone))
    | _ => (reg, .idle, some (.err "BADPC"))

def stepRThread (cf : RConfig) (c : RCfg) (t : Nat) : RCfg × RSlot :=
  match (c.th t).todo with
  | [] => (c, ⟨t, false, none, none⟩)
  | o :: rest =>
    ( ⟨(stepROp cf c.reg o (c.th t).pc).1,
       upd c.th t (match (stepROp cf c.reg o (c.th t).pc).2.2 with
                   | some _ => ⟨rest, .idle⟩
                   | none => ⟨o :: rest, (stepROp cf c.reg o (c.th t).pc).2.1⟩)⟩,
      ⟨t, true, if (c.th t).pc.isIdle then some o else none, ((stepROp cf c.reg o (c.th t).pc).2.2).map (fun r => (o, r))⟩ )

def runRSched (cf : RConfig) : RCfg → List Nat → RCfg × List RSlot
  | c, [] => (c, [])
  | c, t :: ts =>
    ((runRSched cf (stepRThread cf c t).1 ts).1, (stepRThread cf c t).2 :: (runRSched cf (stepRThread cf c t).1 ts).2)

structure RInput where
  cf : RConfig
  threads : List (List ROp)
  sched : List Nat

def initRCfg (i : RInput) : RCfg := ⟨fun _ => none, fun t => ⟨i.threads.getD t [], .idle⟩⟩

/-- After the schedule every thread runs to completion, one after the other (4 slots per operation suffice). -/
def rDrainSched (i : RInput) : List Nat :=
  (List.range i.threads.length).flatMap (fun t => List.replicate (4 * (i.threads.getD t []).length) t)

/-- The model's observation: the slots of the schedule followed by the drain. -/
def modelReg (i : RInput) : List RSlot := (runRSched i.cf (initRCfg i) (i.sched ++ rDrainSched i)).2

/-! ### the property on observations -/

/-- What an in-flight removal may take away: one name, one mapping ID, or everything (rebuild). -/
inductive Blocker
  | dom (d : String)
  | id (x : String)
  | all
deriving DecidableEq, Repr

def Blocker.blocks : Blocker → String × String → Bool
  | .dom d, o => o.1 == d
  | .id x, o => o.2 == x
  | .all, _ => true

def blockerOf : ROp → Option Blocker
  | .unregister d => some (.dom d)
  | .unregId x => some (.id x)
  | .rebuild _ => some .all
  | _ => none

structure RMon where
  ok : Bool := true
  /-- `(full domain, mapping ID)`: a `Register` of this ID for this name returned nil while no removal that could
  take it away was in flight, and no such removal has been invoked since -/
  owners : List (String × String) := []
  /-- removals in flight (Unregister / UnregisterByMappingID / Rebuild): `(thread, what it may take away)` -/
  blockers : List (Nat × Blocker) := []

def rMonInv (m : RMon) (t : Nat) (o : ROp) : RMon :=
  match blockerOf o with
  | some b => { m with owners := m.owners.filter (fun x => !b.blocks x), blockers := (t, b) :: m.blockers }
  | none => m

def rMonRet (m : RMon) (t : Nat) (o : ROp) (r : RRes) : RMon :=
  match o, r with
  | .register pm, .ok =>
    { m with
      ok := m.ok && !(m.owners.any (fun x => x.1 == pm.fullDomain && x.2 != pm.ID))
      owners := if m.blockers.any (fun b => b.2.blocks (pm.fullDomain, pm.ID)) then m.owners
                else (pm.fullDomain, pm.ID) :: m.owners.filter (·.1 != pm.fullDomain) }
  | .unregister _, _ => { m with blockers := m.blockers.filter (·.1 != t) }
  | .unregId _, _ => { m with blockers := m.blockers.filter (·.1 != t) }
  | .rebuild _, _ => { m with blockers := m.blockers.filter (·.1 != t) }
  | .lookup host, .found id _ =>
    { m with ok := m.ok && m.owners.all (fun x => !(x.1 == extractDomain host) || x.2 == id) }
  | .lookup host, .notFound =>
    { m with ok := m.ok && !(m.owners.any (fun x => x.1 == extractDomain host)) }
  | .avail sub base, .flag true =>
    { m with ok := m.ok && !(m.owners.any (fun x => x.1 == sub ++ "." ++ base)) }
  | _, _ => m

def rMonSlot (m : RMon) (s : RSlot) : RMon :=
  let m1 := match s.inv with
    | some o => rMonInv m s.tid o
    | none => m
  match s.ret with
  | some (o, r) => rMonRet m1 s.tid o r
  | none => m1

/-- **Single owner in the registry**: two `Register` calls for the same full domain with different mapping IDs are
never both told "registered" while the first still owns the name (no `Unregister` of it invoked in between), however
the calls interleave; `LookupByHost` answers with the owner, or "not found" only when nobody owns the name;
`IsSubdomainAvailable` says "available" only when nobody owns the name. -/
def holdsReg (slots : List RSlot) : Bool := (slots.foldl rMonSlot {}).ok

end Tunnox.C19
