import TunnoxModel.Gen.Security
/-!
# C18 — executable model of the lock-out machinery (core Lean only)

Mirrors, function by function (repaired tree, see KNOWN_FINDINGS `fixed:` lines):

* `internal/security/brute_force_protector.go`
  `RecordFailure` (two atomic steps: the `mu` critical section, then `banIP` under `banMu`),
  `RecordSuccess`, `IsBanned`, `banIP`, `unbanIfExpired` (the lazily spawned goroutine), `cleanup`,
  `cleanupOldFailures`;
* `internal/security/ip_manager.go`
  `IsAllowed`, `findInList`, `AddToBlacklist`, `RemoveFromBlacklist`, `AddToWhitelist`,
  `RemoveFromWhitelist`, `removeExpiredFromBlacklist` (lazily spawned), `cleanup`;
* `internal/security/rate_limiter.go`  `AllowIP`/`allow`, `TokenBucket.Take`/`refill`, `cleanup`;
* `internal/app/server/auth_handler.go` `HandleHandshake` gate order and the
  `RecordFailure`/`RecordSuccess` call sites.

Time is a `Nat` (any unit; the harness uses milliseconds), every instant is `> 0`, the zero
`time.Time` is `0`.  Maps keyed by address are total functions `Nat → Option _`.
Expiry predicates are the ones regenerated from the Go source (`Gen.security.*.isExpired`).
-/
namespace Tunnox.C18
open Tunnox.PredPrelude Gen

/-! ## A. BruteForceProtector -/

/-- `security.BruteForceConfig` (durations in the unit of the time line). -/
structure BruteForceConfig where
  MaxFailures : Nat
  TimeWindow : Nat
  BanDuration : Nat
  PermanentBanAt : Nat
deriving Repr

/-- `security.FailureRecord` -/
structure FailureRecord where
  Failures : List Nat
  TotalCount : Nat
deriving Repr

/-- Decision taken by `RecordFailure` inside the `mu` critical section. -/
inductive Dec | none | temp | perm
deriving DecidableEq, Repr

/-- Everything the protector keeps about one address: `failures[ip]`, `bannedIPs[ip]`, and the
decisions of `RecordFailure` calls that have left the `mu` critical section but not yet run `banIP`. -/
structure Comp where
  fr : Option FailureRecord
  ban : Option BanRecord
  pend : List Dec
  /-- collected by the scan phase of a clean-up pass that is split in two critical sections
  (`sweepScan`), consumed by its delete phase (`sweepDelete`) -/
  marked : Bool

def Comp.empty : Comp := ⟨none, none, [], false⟩

/-- `failTime.After(now.Add(-TimeWindow))` -/
def inWindow (cfg : BruteForceConfig) (now ft : Nat) : Bool := decide (now < ft + cfg.TimeWindow)

/-- `cleanupOldFailures` -/
def cleanupOldFailures (cfg : BruteForceConfig) (now : Nat) (r : FailureRecord) : FailureRecord :=
  ⟨r.Failures.filter (inWindow cfg now), r.TotalCount⟩

/-- The decision at the end of the `mu` critical section of `RecordFailure`
(permanent threshold first, then the window threshold). -/
def decide2 (cfg : BruteForceConfig) (recent total : Nat) : Dec :=
  if total ≥ cfg.PermanentBanAt then .perm
  else if recent ≥ cfg.MaxFailures then .temp
  else .none

/-- `RecordFailure`, first atomic step: get-or-create, append, count, prune. -/
def recordStep1 (cfg : BruteForceConfig) (now : Nat) (fr : Option FailureRecord) : FailureRecord :=
  cleanupOldFailures cfg now
    ⟨(fr.getD ⟨[], 0⟩).Failures ++ [now], (fr.getD ⟨[], 0⟩).TotalCount + 1⟩

def recordDec (cfg : BruteForceConfig) (now : Nat) (fr : Option FailureRecord) : Dec :=
  decide2 cfg (recordStep1 cfg now fr).Failures.length (recordStep1 cfg now fr).TotalCount

/-- `banIP(ip, duration, …)`: a permanent record is kept when a temporary ban arrives. -/
def banIP (now duration : Nat) (ban : Option BanRecord) : Option BanRecord :=
  match ban with
  | some ex =>
    if timeIsZero ex.ExpiresAt && decide (duration > 0) then some ex
    else some ⟨now, if duration > 0 then now + duration else 0⟩
  | none => some ⟨now, if duration > 0 then now + duration else 0⟩

/-- `RecordFailure`, second atomic step. -/
def applyDec (cfg : BruteForceConfig) (now : Nat) (d : Dec) (ban : Option BanRecord) : Option BanRecord :=
  match d with
  | .perm => banIP now 0 ban
  | .temp => banIP now cfg.BanDuration ban
  | .none => ban

/-- `IsBanned` (answer only; the goroutine it spawns is the separate event `asyncUnban`). -/
def isBanned (now : Nat) (ban : Option BanRecord) : Bool :=
  match ban with
  | none => false
  | some r => !(security.BanRecord.isExpired now r)

/-- `unbanIfExpired` -/
def unbanIfExpired (now : Nat) (ban : Option BanRecord) : Option BanRecord :=
  match ban with
  | none => none
  | some r => if security.BanRecord.isExpired now r then none else some r

/-- `cleanup`, ban table part -/
def cleanupBan (now : Nat) (ban : Option BanRecord) : Option BanRecord :=
  match ban with
  | none => none
  | some r => if timeIsZero r.ExpiresAt then some r else if timeAfter now r.ExpiresAt then none else some r

/-- `cleanup`, failure table part -/
def cleanupFr (cfg : BruteForceConfig) (now : Nat) (fr : Option FailureRecord) : Option FailureRecord :=
  match fr with
  | none => none
  | some r => if (cleanupOldFailures cfg now r).Failures.length == 0 then none else some (cleanupOldFailures cfg now r)

/-- scan phase of a two-phase sweep: is this record a temporary ban that is over? -/
def sweepMark (now : Nat) (ban : Option BanRecord) : Bool :=
  match ban with
  | none => false
  | some r => !(timeIsZero r.ExpiresAt) && timeAfter now r.ExpiresAt

/-- Events on the protector.  `fail` is a whole `RecordFailure` call; `failRec`/`failBan i` are its
two atomic steps taken apart (`failBan i` applies the `i`-th pending decision); `asyncUnban` is one
execution of the goroutine spawned by `IsBanned`, at whatever later point the scheduler runs it.
`cleanup` is the clean-up pass as the code has it (`skel_cleanup`: one `mu` section, one `banMu`
section, back to back); `cleanFr`/`cleanBan` are those two sections taken apart, and
`sweepScan`/`sweepDelete` are a ban sweep cut into a scan phase and a delete phase that looks at each
collected record again before deleting it — any other event may sit between the phases. -/
inductive Ev
  | fail (ip : Nat) | failRec (ip : Nat) | failBan (ip : Nat) (i : Nat)
  | success (ip : Nat) | query (ip : Nat) | asyncUnban (ip : Nat) | cleanup
  | cleanFr | cleanBan | sweepScan | sweepDelete
deriving Repr

def Ev.target : Ev → Option Nat
  | .fail a | .failRec a | .failBan a _ | .success a | .query a | .asyncUnban a => some a
  | .cleanup | .cleanFr | .cleanBan | .sweepScan | .sweepDelete => none

/-- One event on the component of its address (for `cleanup`: on every component). -/
def compStep (cfg : BruteForceConfig) (t : Nat) (e : Ev) (c : Comp) : Comp × Option Bool :=
  match e with
  | .fail _ =>
    (⟨some (recordStep1 cfg t c.fr), applyDec cfg t (recordDec cfg t c.fr) c.ban, c.pend, c.marked⟩,
     some (recordDec cfg t c.fr != .none))
  | .failRec _ =>
    (⟨some (recordStep1 cfg t c.fr), c.ban,
      if recordDec cfg t c.fr != .none then c.pend ++ [recordDec cfg t c.fr] else c.pend, c.marked⟩, none)
  | .failBan _ i =>
    (⟨c.fr, applyDec cfg t (c.pend.getD i .none) c.ban, c.pend.eraseIdx i, c.marked⟩, none)
  | .success _ => (⟨none, c.ban, c.pend, c.marked⟩, none)
  | .query _ => (c, some (isBanned t c.ban))
  | .asyncUnban _ => (⟨c.fr, unbanIfExpired t c.ban, c.pend, c.marked⟩, none)
  | .cleanup => (⟨cleanupFr cfg t c.fr, cleanupBan t c.ban, c.pend, c.marked⟩, none)
  | .cleanFr => (⟨cleanupFr cfg t c.fr, c.ban, c.pend, c.marked⟩, none)
  | .cleanBan => (⟨c.fr, cleanupBan t c.ban, c.pend, c.marked⟩, none)
  | .sweepScan => (⟨c.fr, c.ban, c.pend, sweepMark t c.ban⟩, none)
  | .sweepDelete => (⟨c.fr, if c.marked then cleanupBan t c.ban else c.ban, c.pend, false⟩, none)

abbrev State := Nat → Comp
def State.empty : State := fun _ => Comp.empty

abbrev TEv := Nat × Ev

def step (cfg : BruteForceConfig) (te : TEv) (st : State) : State × Option Bool :=
  match te.2.target with
  | some a => (fun k => if k = a then (compStep cfg te.1 te.2 (st a)).1 else st k,
               (compStep cfg te.1 te.2 (st a)).2)
  | none => (fun k => (compStep cfg te.1 te.2 (st k)).1, none)

/-- The answers (RecordFailure's result, IsBanned's result) along a time line. -/
def run (cfg : BruteForceConfig) : List TEv → State → List (Option Bool)
  | [], _ => []
  | e :: es, st => (step cfg e st).2 :: run cfg es (step cfg e st).1

/-- Time stamps never decrease and are positive. -/
def Sorted : Nat → List (Nat × α) → Prop
  | _, [] => True
  | t0, e :: es => t0 ≤ e.1 ∧ Sorted e.1 es

instance : (t0 : Nat) → (es : List (Nat × α)) → Decidable (Sorted t0 es)
  | _, [] => inferInstanceAs (Decidable True)
  | _, e :: es => @instDecidableAnd _ _ _ (instDecidableSorted e.1 es)

/-! ## B. IPManager -/

/-- A blacklist/whitelist key: a plain address (`plen = none`) or a CIDR block. IPv4, 32 bits. -/
structure IPKey where
  addr : Nat
  plen : Option Nat
deriving DecidableEq, Repr

/-- exact string match for plain keys, `ipNet.Contains` for CIDR keys -/
def IPKey.matches (k : IPKey) (ip : Nat) : Bool :=
  match k.plen with
  | none => k.addr == ip
  | some n => (k.addr >>> (32 - n)) == (ip >>> (32 - n))

structure IPM where
  blacklist : IPKey → Option IPRecord
  whitelist : IPKey → Option IPRecord
  bkeys : List IPKey   -- keys ever inserted into `blacklist` (iteration domain of `range list`)
  wkeys : List IPKey
  /-- the records persisted in the shared storage (`saveToStorage` / `removeFromStorage`), which a
  manager created later over the same storage loads (`loadFromStorage`).  The storage's own TTL only
  drops records that are already expired; those are inert once loaded, so it is not modelled. -/
  sblack : IPKey → Option IPRecord
  swhite : IPKey → Option IPRecord

def IPM.empty : IPM := ⟨fun _ => none, fun _ => none, [], [], fun _ => none, fun _ => none⟩

/-- `removeFromStorage` for exactly the keys that a step deleted from the in-memory list. -/
def syncDel (old new s : IPKey → Option IPRecord) : IPKey → Option IPRecord :=
  fun k => if (old k).isSome && (new k).isNone then none else s k

/-- in-memory blacklist after `removeExpiredFromBlacklist(ip)` -/
def asyncRemoveList (t ip : Nat) (bl : IPKey → Option IPRecord) : IPKey → Option IPRecord :=
  fun k =>
    if k = ⟨ip, none⟩ then
      (match bl k with
       | some r => if security.IPRecord.isExpired t r then none else some r
       | none => none)
    else bl k

/-- in-memory blacklist after `cleanup()` -/
def cleanupList (t : Nat) (bl : IPKey → Option IPRecord) : IPKey → Option IPRecord :=
  fun k =>
    match bl k with
    | some r => if timeIsZero r.ExpiresAt then some r else if timeAfter t r.ExpiresAt then none else some r
    | none => none

/-- The records `findInList` looks at, in its order: the exact key first, then the CIDR keys. -/
def candidates (ip : Nat) (list : IPKey → Option IPRecord) (keys : List IPKey) : List IPRecord :=
  (⟨ip, none⟩ :: keys.filter (fun k => k.plen.isSome)).filterMap
    (fun k => if k.matches ip then list k else none)

/-- `findInList`: an unexpired match if there is one, else an expired match, else nothing. -/
def findInList (now ip : Nat) (list : IPKey → Option IPRecord) (keys : List IPKey) : Option IPRecord :=
  match (candidates ip list keys).find? (fun r => !(security.IPRecord.isExpired now r)) with
  | some r => some r
  | none => (candidates ip list keys).head?

/-- `IsAllowed` -/
def isAllowed (now ip : Nat) (m : IPM) : Bool :=
  if (findInList now ip m.whitelist m.wkeys).isSome then true
  else match findInList now ip m.blacklist m.bkeys with
    | some r => security.IPRecord.isExpired now r
    | none => true

inductive IEv
  | addBlack (k : IPKey) (dur : Nat) | removeBlack (k : IPKey)
  | addWhite (k : IPKey) | removeWhite (k : IPKey)
  | isAllowed (ip : Nat) | asyncRemove (ip : Nat) | cleanup
  /-- a new `IPManager` is created over the same storage (node restart, another node taking over)
  and answers from now on: `NewIPManager` → `loadFromStorage` -/
  | restart
deriving Repr

def upd (m : IPKey → Option α) (k : IPKey) (v : Option α) : IPKey → Option α :=
  fun k' => if k' = k then v else m k'

def ipmStep (t : Nat) (e : IEv) (m : IPM) : IPM × Option Bool :=
  match e with
  | .addBlack k dur =>
    ({ m with blacklist := upd m.blacklist k (some ⟨t, if dur > 0 then t + dur else 0⟩), bkeys := k :: m.bkeys,
              sblack := upd m.sblack k (some ⟨t, if dur > 0 then t + dur else 0⟩) }, none)
  | .removeBlack k =>
    ({ m with blacklist := upd m.blacklist k none,
              sblack := syncDel m.blacklist (upd m.blacklist k none) m.sblack }, none)
  | .addWhite k =>
    ({ m with whitelist := upd m.whitelist k (some ⟨t, 0⟩), wkeys := k :: m.wkeys,
              swhite := upd m.swhite k (some ⟨t, 0⟩) }, none)
  | .removeWhite k =>
    ({ m with whitelist := upd m.whitelist k none,
              swhite := syncDel m.whitelist (upd m.whitelist k none) m.swhite }, none)
  | .isAllowed ip => (m, some (isAllowed t ip m))
  | .asyncRemove ip =>
    ({ m with blacklist := asyncRemoveList t ip m.blacklist,
              sblack := syncDel m.blacklist (asyncRemoveList t ip m.blacklist) m.sblack }, none)
  | .cleanup =>
    ({ m with blacklist := cleanupList t m.blacklist,
              sblack := syncDel m.blacklist (cleanupList t m.blacklist) m.sblack }, none)
  | .restart => ({ m with blacklist := m.sblack, whitelist := m.swhite }, none)

def ipmRun : List (Nat × IEv) → IPM → List (Option Bool)
  | [], _ => []
  | e :: es, m => (ipmStep e.1 e.2 m).2 :: ipmRun es (ipmStep e.1 e.2 m).1

/-! ## C. RateLimiter (IP buckets) -/

/-- `security.RateLimitConfig`; `TTL` in time-line units. -/
structure RateLimitConfig where
  Rate : Nat
  Burst : Nat
  TTL : Nat
deriving Repr

/-- `security.TokenBucket`.  `tokens` is kept exactly, in units of `1/U` token, where `U` is the
number of time-line units per second (the Go code uses `float64`; see the assumptions). -/
structure TokenBucket where
  tokens : Nat
  lastRefill : Nat
deriving Repr

/-- `refill` -/
def refill (cfg : RateLimitConfig) (U now : Nat) (b : TokenBucket) : TokenBucket :=
  ⟨min (b.tokens + (now - b.lastRefill) * cfg.Rate) (cfg.Burst * U), now⟩

/-- `Take(1)` after `refill` -/
def take1 (U : Nat) (b : TokenBucket) : TokenBucket × Bool :=
  if b.tokens ≥ U then (⟨b.tokens - U, b.lastRefill⟩, true) else (b, false)

/-- `allow`: get-or-create (full bucket), then `Take(1)`. -/
def allowB (cfg : RateLimitConfig) (U now : Nat) (b : Option TokenBucket) : TokenBucket × Bool :=
  take1 U (refill cfg U now (b.getD ⟨cfg.Burst * U, now⟩))

/-- `cleanup`: an idle bucket is dropped. -/
def cleanupB (cfg : RateLimitConfig) (now : Nat) (b : Option TokenBucket) : Option TokenBucket :=
  match b with
  | none => none
  | some b => if now - b.lastRefill > cfg.TTL then none else some b

inductive REv | allow (ip : Nat) | cleanup
deriving Repr

abbrev RState := Nat → Option TokenBucket

def rlStep (cfg : RateLimitConfig) (U t : Nat) (e : REv) (st : RState) : RState × Option Bool :=
  match e with
  | .allow a => (fun k => if k = a then some (allowB cfg U t (st a)).1 else st k, some (allowB cfg U t (st a)).2)
  | .cleanup => (fun k => cleanupB cfg t (st k), none)

def rlRun (cfg : RateLimitConfig) (U : Nat) : List (Nat × REv) → RState → List (Option Bool)
  | [], _ => []
  | e :: es, st => (rlStep cfg U e.1 e.2 st).2 :: rlRun cfg U es (rlStep cfg U e.1 e.2 st).1

/-! ### `allow` cut into its critical sections

`allow` = lookup under `mu.RLock` · (on a miss: `mu.Lock`, double check, insert a full bucket,
`mu.Unlock`) · `bucket.Take` under the bucket's own lock (`skel_allow`).  A caller between two
sections holds a *pointer* to a bucket; `cleanup` may drop that bucket from the table in between
(it then empties and seals it — tokens, capacity, rate zero — so `Take` on it refuses).  Bucket identity is a
generation number per address, advanced by every drop. -/

/-- where a call in flight stands -/
inductive Call
  | missed              -- looked up, no bucket: about to enter the create section
  | holding (gen : Nat) -- holds the bucket of that generation: about to `Take`
deriving DecidableEq, Repr

inductive XEv
  | allow (ip : Nat) | cleanup
  | lookup (ip : Nat) | create (ip : Nat) (i : Nat) | take (ip : Nat) (i : Nat)
deriving Repr

structure XState where
  buckets : RState
  gen : Nat → Nat
  calls : Nat → List Call

def XState.empty : XState := ⟨fun _ => none, fun _ => 0, fun _ => []⟩

def setAt {α} (f : Nat → α) (a : Nat) (v : α) : Nat → α := fun k => if k = a then v else f k

def xStep (cfg : RateLimitConfig) (U t : Nat) (e : XEv) (s : XState) : XState × Option Bool :=
  match e with
  | .allow a => ({ s with buckets := (rlStep cfg U t (.allow a) s.buckets).1 }, (rlStep cfg U t (.allow a) s.buckets).2)
  | .cleanup =>
    ({ s with buckets := (rlStep cfg U t .cleanup s.buckets).1,
              gen := fun k => if (s.buckets k).isSome && (cleanupB cfg t (s.buckets k)).isNone then s.gen k + 1 else s.gen k }, none)
  | .lookup a =>
    ({ s with calls := setAt s.calls a (s.calls a ++ [if (s.buckets a).isSome then .holding (s.gen a) else .missed]) }, none)
  | .create a i =>
    match (s.calls a)[i]? with
    | some .missed =>
      ({ s with buckets := setAt s.buckets a (some ((s.buckets a).getD ⟨cfg.Burst * U, t⟩)),
                calls := setAt s.calls a ((s.calls a).set i (.holding (s.gen a))) }, none)
    | _ => (s, none)
  | .take a i =>
    match (s.calls a)[i]? with
    | some (.holding g) =>
      if g = s.gen a && (s.buckets a).isSome then
        ({ s with buckets := setAt s.buckets a (some (allowB cfg U t (s.buckets a)).1),
                  calls := setAt s.calls a ((s.calls a).eraseIdx i) }, some (allowB cfg U t (s.buckets a)).2)
      else ({ s with calls := setAt s.calls a ((s.calls a).eraseIdx i) }, some false)
    | _ => (s, none)

def xRun (cfg : RateLimitConfig) (U : Nat) : List (Nat × XEv) → XState → List (Option Bool)
  | [], _ => []
  | e :: es, s => (xStep cfg U e.1 e.2 s).2 :: xRun cfg U es (xStep cfg U e.1 e.2 s).1

/-! ## D. HandleHandshake: gate order and call sites -/

/-- What a handshake attempt turns out to be once it is past the gates. -/
inductive HKind
  | anonOk      -- ClientID 0, credentials generated         → RecordSuccess
  | anonFail    -- ClientID 0, GenerateAnonymousCredentials errs → RecordFailure
  | unknown     -- ClientID > 0, no such client              → RecordFailure
  | noChallenge -- phase 2 without pending challenge         → RecordFailure
  | badResp     -- phase 1 then phase 2 with a wrong HMAC    → RecordFailure
  | good        -- phase 1 then phase 2 with the right HMAC  → RecordSuccess
  | phase1      -- phase 1 only                              → neither
  | expired     -- known client whose credentials have expired → refused, neither recorded
deriving DecidableEq, Repr

def HKind.anon : HKind → Bool
  | .anonOk | .anonFail => true
  | _ => false

/-- failure / success / neither -/
def HKind.outcome : HKind → Option Bool
  | .anonOk | .good => some true
  | .phase1 | .expired => none
  | _ => some false

/-- Response classes of `HandleHandshake`. -/
inductive HResp | blk | ban | rate | ok | fail | chal
deriving DecidableEq, Repr

/-- response of an attempt that records neither a failure nor a success -/
def HKind.neutralResp : HKind → HResp
  | .expired => .fail
  | _ => .chal

structure HState where
  ipm : IPM
  bf : State
  rl : RState

def HState.empty : HState := ⟨IPM.empty, State.empty, fun _ => none⟩

structure HCfg where
  bf : BruteForceConfig
  rl : RateLimitConfig
  U : Nat

/-- Events of a handshake time line: attempts, administrative list changes and the asynchronous paths. -/
inductive HEv
  | hs (ip : Nat) (k : HKind)
  | ipm (e : IEv)
  | bf (e : Ev)
  | rlCleanup
deriving Repr

/-- `HandleHandshake`: 1. IsAllowed, 2. IsBanned, 3. AllowIP for ClientID 0, then the outcome. -/
def handshake (cfg : HCfg) (t ip : Nat) (k : HKind) (s : HState) : HState × HResp :=
  if !(isAllowed t ip s.ipm) then (s, .blk)
  else if isBanned t (s.bf ip).ban then (s, .ban)
  else if k.anon && !(allowB cfg.rl cfg.U t (s.rl ip)).2 then
    ({ s with rl := (rlStep cfg.rl cfg.U t (.allow ip) s.rl).1 }, .rate)
  else
    match k.outcome with
    | some true =>
      ({ s with rl := if k.anon then (rlStep cfg.rl cfg.U t (.allow ip) s.rl).1 else s.rl,
                bf := (step cfg.bf (t, .success ip) s.bf).1 }, .ok)
    | some false =>
      ({ s with rl := if k.anon then (rlStep cfg.rl cfg.U t (.allow ip) s.rl).1 else s.rl,
                bf := (step cfg.bf (t, .fail ip) s.bf).1 }, .fail)
    | none => (s, k.neutralResp)

def hStep (cfg : HCfg) (t : Nat) (e : HEv) (s : HState) : HState × Option HResp :=
  match e with
  | .hs ip k => ((handshake cfg t ip k s).1, some (handshake cfg t ip k s).2)
  | .ipm e => ({ s with ipm := (ipmStep t e s.ipm).1 }, none)
  | .bf e => ({ s with bf := (step cfg.bf (t, e) s.bf).1 }, none)
  | .rlCleanup => ({ s with rl := (rlStep cfg.rl cfg.U t .cleanup s.rl).1 }, none)

def hRun (cfg : HCfg) : List (Nat × HEv) → HState → List (Option HResp)
  | [], _ => []
  | e :: es, s => (hStep cfg e.1 e.2 s).2 :: hRun cfg es (hStep cfg e.1 e.2 s).1

end Tunnox.C18
