import TunnoxModel.Model.Src
import TunnoxModel.Gen.Socks
/-
  C20 — SOCKS5 parsing.  Mirrors
    internal/client/socks5/listener.go        Listener.Handshake, SendError
    internal/client/socks5/udp_relay.go       UDPRelay.parseUDPHeader, buildUDPHeader
    internal/protocol/adapter/socks_auth.go   SocksAdapter.handleHandshake, handlePasswordAuth
    internal/protocol/adapter/socks_request.go SocksAdapter.handleRequest, sendReply
  Protocol constants come from `Gen.socks5` / `Gen.adapter` (regenerated from the Go source).
  `net.IP.String` for non-IPv4 addresses and `net.ParseIP` are parameters (`IPText`), DESIGN §3.
  Go strings are byte strings here (`Text`), so non-UTF-8 domain names are covered.
-/
namespace Tunnox.C20
open Gen

abbrev Text := Bytes

/-- The library functions the code relies on.  `str4 b` is `net.IP(b).String()` for a 4-byte address
(dotted decimal; the driver instantiates it with `dotted` below), `str16 b` the same for a 16-byte
address that is not IPv4-mapped; `parse h` is `net.ParseIP(h)` followed by the code's
`To4()`/`To16()` cascade: `none` (not an IP literal), 4 bytes (IPv4 or IPv4-mapped), or 16 bytes. -/
structure IPText where
  str4 : Bytes → Text
  str16 : Bytes → Text
  parse : Text → Option Bytes

def u8 (n : Nat) : Byte := UInt8.ofNat n

def byteAt (b : Bytes) (i : Nat) : Nat := (b.getD i 0).toNat

/-- `binary.BigEndian.Uint16`. -/
def be16 (b : Bytes) : Nat := byteAt b 0 * 256 + byteAt b 1

/-- `binary.BigEndian.PutUint16(_, uint16(p))`. -/
def putBe16 (p : Nat) : Bytes := [u8 (p / 256 % 256), u8 (p % 256)]

/-- Decimal text of a number (`strconv.Itoa`). -/
def decText (n : Nat) : Text := (Nat.repr n).toList.map (fun ch => UInt8.ofNat ch.toNat)

/-- Dotted decimal of a 4-byte address. -/
def dotted : Bytes → Text
  | [a, b, c, d] =>
    decText a.toNat ++ [46] ++ decText b.toNat ++ [46] ++ decText c.toNat ++ [46] ++ decText d.toNat
  | _ => [63]

/-- `net.IP.To4() != nil` on a 16-byte slice: `::ffff:a.b.c.d`. -/
def isV4Mapped (b : Bytes) : Bool :=
  b.length == 16 && (b.take 10).all (· == 0) && byteAt b 10 == 255 && byteAt b 11 == 255

/-- `net.IP(b).String()` for `len(b)` 4 or 16. -/
def ipString (c : IPText) (b : Bytes) : Text :=
  if b.length = 4 then c.str4 b
  else if isV4Mapped b then c.str4 (b.drop 12)
  else c.str16 b

/-! ### Stream parsers: a program of `io.ReadFull` calls

`read n short k`: `io.ReadFull(conn, make([]byte, n))`; on a short read the function returns `short`,
otherwise continues with `k data`.  Both the listener's `Handshake` and the adapter's
`handleHandshake`/`handleRequest` are such programs; they are run over a chunked source (`runSrc`,
what the driver executes) and over a flat byte string (`runFlat`, used by the proofs). -/

inductive P (α : Type) where
  | done (a : α)
  | read (n : Nat) (short : α) (k : Bytes → P α)

/-- Run over a chunked source. The source after a short read is exhausted. -/
def P.runSrc {α : Type} : P α → Src → α × Src
  | .done a, s => (a, s)
  | .read n e k, s =>
    match s.readFull n with
    | .ok d s' => (k d).runSrc s'
    | .short _ tl => (e, ⟨[], tl⟩)

/-- Run over a flat byte string; returns the bytes left unread. -/
def P.runFlat {α : Type} : P α → Bytes → α × Bytes
  | .done a, bs => (a, bs)
  | .read n e k, bs =>
    if n ≤ bs.length then (k (bs.take n)).runFlat (bs.drop n) else (e, [])

/-! ### `Listener.Handshake` -/

/-- Where `Handshake` returned an error (one constructor per `return nil, …`). -/
inductive HsErr where
  | readVersion | badVersion | noMethods | readMethods | noAcceptable
  | readRequest | badReqVersion | badCmd
  | readIPv4 | readDomLen | readDomain | readIPv6 | badAtyp | readPort
deriving DecidableEq, Repr

/-- `HandshakeResult`. -/
structure HsRes where
  cmd : Nat
  host : Text
  port : Nat
deriving DecidableEq, Repr

inductive HsOut where
  | ok (r : HsRes)
  | fail (e : HsErr)
deriving DecidableEq, Repr

/-- Return value plus the bytes written to the connection. -/
structure Hs where
  out : HsOut
  written : Bytes
deriving DecidableEq, Repr

/-- `SendError`: `VER REP RSV ATYP=IPv4 0.0.0.0 0`. -/
def sendError (rep : Nat) : Bytes :=
  [u8 socks5.Version, u8 rep, 0, u8 socks5.AddrIPv4, 0, 0, 0, 0, 0, 0]

def readPort (w : Bytes) (cmd : Nat) (host : Text) : P Hs :=
  .read 2 ⟨.fail .readPort, w⟩ fun portBuf =>
  .done ⟨.ok ⟨cmd, host, be16 portBuf⟩, w⟩

/-- Second half of `Handshake`: the request, after `w` has been written. -/
def request (c : IPText) (w : Bytes) : P Hs :=
  .read 4 ⟨.fail .readRequest, w⟩ fun buf =>
  if byteAt buf 0 ≠ socks5.Version then
    .done ⟨.fail .badReqVersion, w ++ sendError socks5.RepFailure⟩
  else if byteAt buf 1 ≠ socks5.CmdConnect ∧ byteAt buf 1 ≠ socks5.CmdUDPAssoc then
    .done ⟨.fail .badCmd, w ++ sendError socks5.RepCmdNotSupp⟩
  else if byteAt buf 3 = socks5.AddrIPv4 then
    .read 4 ⟨.fail .readIPv4, w⟩ fun addr => readPort w (byteAt buf 1) (ipString c addr)
  else if byteAt buf 3 = socks5.AddrDomain then
    .read 1 ⟨.fail .readDomLen, w⟩ fun lenBuf =>
    .read (byteAt lenBuf 0) ⟨.fail .readDomain, w⟩ fun domain => readPort w (byteAt buf 1) domain
  else if byteAt buf 3 = socks5.AddrIPv6 then
    .read 16 ⟨.fail .readIPv6, w⟩ fun addr => readPort w (byteAt buf 1) (ipString c addr)
  else
    .done ⟨.fail .badAtyp, w ++ sendError socks5.RepAddrNotSupp⟩

/-- `Listener.Handshake` as a read program. -/
def handshakeP (c : IPText) : P Hs :=
  .read 2 ⟨.fail .readVersion, []⟩ fun buf =>
  if byteAt buf 0 ≠ socks5.Version then .done ⟨.fail .badVersion, []⟩
  else if byteAt buf 1 = 0 then .done ⟨.fail .noMethods, []⟩
  else
    .read (byteAt buf 1) ⟨.fail .readMethods, []⟩ fun methods =>
    if methods.any (fun m => m.toNat == socks5.AuthNone) then
      request c [u8 socks5.Version, u8 socks5.AuthNone]
    else
      .done ⟨.fail .noAcceptable, [u8 socks5.Version, u8 socks5.AuthNoMatch]⟩

/-- `Listener.Handshake(conn)` where `conn` delivers `s`. -/
def handshake (c : IPText) (s : Src) : Hs × Src := (handshakeP c).runSrc s

/-! ### `SocksAdapter.handleHandshake` + `handleRequest` (as called by `handleSocksConnection`) -/

/-- Adapter configuration: `authEnabled` and the single credential pair. -/
structure AdCfg where
  auth : Bool
  user : Text
  pass : Text
deriving DecidableEq, Repr

inductive AdErr where
  | readHandshake | badVersion | readMethods | noAcceptable
  | readAuthHeader | badAuthVersion | readUser | readPassLen | readPass | badCreds
  | readRequest | badReqVersion | badCmd
  | readIPv4 | readDomLen | readDomain | readIPv6 | badAtyp | readPort
deriving DecidableEq, Repr

inductive AdOut where
  | ok (target : Text)            -- `fmt.Sprintf("%s:%d", targetAddr, port)`
  | fail (e : AdErr)
deriving DecidableEq, Repr

structure Ad where
  out : AdOut
  written : Bytes
deriving DecidableEq, Repr

/-- `sendReply(conn, rep, "0.0.0.0", 0)`. -/
def sendReply0 (rep : Nat) : Bytes :=
  [u8 adapter.socks5Version, u8 rep, 0, u8 adapter.socksAddrTypeIPv4, 0, 0, 0, 0, 0, 0]

def adPort (w : Bytes) (host : Text) : P Ad :=
  .read 2 ⟨.fail .readPort, w⟩ fun portBuf =>
  .done ⟨.ok (host ++ [58] ++ decText (be16 portBuf)), w⟩

/-- `handleRequest`. -/
def adRequest (c : IPText) (w : Bytes) : P Ad :=
  .read 4 ⟨.fail .readRequest, w⟩ fun buf =>
  if byteAt buf 0 ≠ adapter.socks5Version then .done ⟨.fail .badReqVersion, w⟩
  else if byteAt buf 1 ≠ adapter.socksCmdConnect then
    .done ⟨.fail .badCmd, w ++ sendReply0 adapter.socksRepCommandNotSupported⟩
  else if byteAt buf 3 = adapter.socksAddrTypeIPv4 then
    .read 4 ⟨.fail .readIPv4, w⟩ fun addr => adPort w (ipString c addr)
  else if byteAt buf 3 = adapter.socksAddrTypeDomain then
    .read 1 ⟨.fail .readDomLen, w⟩ fun lenBuf =>
    .read (byteAt lenBuf 0) ⟨.fail .readDomain, w⟩ fun domain => adPort w domain
  else if byteAt buf 3 = adapter.socksAddrTypeIPv6 then
    .read 16 ⟨.fail .readIPv6, w⟩ fun addr => adPort w (ipString c addr)
  else
    .done ⟨.fail .badAtyp, w ++ sendReply0 adapter.socksRepAddrTypeNotSupported⟩

/-- `handlePasswordAuth` (RFC 1929), then the request. -/
def adPasswordAuth (c : IPText) (cfg : AdCfg) (w : Bytes) : P Ad :=
  .read 2 ⟨.fail .readAuthHeader, w⟩ fun buf =>
  if byteAt buf 0 ≠ 1 then .done ⟨.fail .badAuthVersion, w⟩
  else
    .read (byteAt buf 1) ⟨.fail .readUser, w⟩ fun username =>
    .read 1 ⟨.fail .readPassLen, w⟩ fun passwordLenBuf =>
    .read (byteAt passwordLenBuf 0) ⟨.fail .readPass, w⟩ fun password =>
    if username = cfg.user ∧ password = cfg.pass then adRequest c (w ++ [1, 0])
    else .done ⟨.fail .badCreds, w ++ [1, 1]⟩

/-- `handleHandshake` (greeting read as two full reads: header, then the method list). -/
def adHandshakeP (c : IPText) (cfg : AdCfg) : P Ad :=
  .read 2 ⟨.fail .readHandshake, []⟩ fun buf =>
  if byteAt buf 0 ≠ adapter.socks5Version then .done ⟨.fail .badVersion, []⟩
  else
    .read (byteAt buf 1) ⟨.fail .readMethods, []⟩ fun methods =>
    if cfg.auth then
      if methods.any (fun m => m.toNat == adapter.socksAuthPassword) then
        adPasswordAuth c cfg [u8 adapter.socks5Version, u8 adapter.socksAuthPassword]
      else .done ⟨.fail .noAcceptable, [u8 adapter.socks5Version, u8 adapter.socksAuthNoMatch]⟩
    else
      if methods.any (fun m => m.toNat == adapter.socksAuthNone) then
        adRequest c [u8 adapter.socks5Version, u8 adapter.socksAuthNone]
      else .done ⟨.fail .noAcceptable, [u8 adapter.socks5Version, u8 adapter.socksAuthNoMatch]⟩

def adNegotiate (c : IPText) (cfg : AdCfg) (s : Src) : Ad × Src := (adHandshakeP c cfg).runSrc s

/-! ### UDP-associate datagram header -/

inductive UErr where
  | tooShort | frag | shortIPv4 | shortDomain | shortDomainName | shortIPv6 | badAtyp
deriving DecidableEq, Repr

/-- `(dstHost, dstPort, payload)`. -/
structure UDest where
  host : Text
  port : Nat
  payload : Bytes
deriving DecidableEq, Repr

inductive UOut where
  | ok (d : UDest)
  | fail (e : UErr)
deriving DecidableEq, Repr

/-- Tail of `parseUDPHeader`: port at `headerLen-2`, payload from `headerLen`. -/
def udpFinish (data : Bytes) (host : Text) (headerLen : Nat) : UOut :=
  .ok ⟨host, be16 ((data.drop (headerLen - 2)).take 2), data.drop headerLen⟩

/-- `parseUDPHeader`. -/
def parseUDPHeader (c : IPText) (data : Bytes) : UOut :=
  if data.length < 4 then .fail .tooShort
  else if byteAt data 2 ≠ 0 then .fail .frag
  else if byteAt data 3 = socks5.AddrIPv4 then
    if data.length < 10 then .fail .shortIPv4
    else udpFinish data (ipString c ((data.drop 4).take 4)) 10
  else if byteAt data 3 = socks5.AddrDomain then
    if data.length < 5 then .fail .shortDomain
    else if data.length < 5 + byteAt data 4 + 2 then .fail .shortDomainName
    else udpFinish data ((data.drop 5).take (byteAt data 4)) (5 + byteAt data 4 + 2)
  else if byteAt data 3 = socks5.AddrIPv6 then
    if data.length < 22 then .fail .shortIPv6
    else udpFinish data (ipString c ((data.drop 4).take 16)) 22
  else .fail .badAtyp

/-- `buildUDPHeader`: the address family is chosen by `net.ParseIP(dstHost)`; lengths and the port
are truncated by the `byte(…)` / `uint16(…)` conversions. -/
def buildUDPHeader (c : IPText) (dstHost : Text) (dstPort : Nat) (payload : Bytes) : Bytes :=
  match c.parse dstHost with
  | some ip =>
    if ip.length = 4 then [0, 0, 0, u8 socks5.AddrIPv4] ++ ip ++ putBe16 dstPort ++ payload
    else [0, 0, 0, u8 socks5.AddrIPv6] ++ ip ++ putBe16 dstPort ++ payload
  | none =>
    [0, 0, 0, u8 socks5.AddrDomain, u8 (dstHost.length % 256)] ++ dstHost ++ putBe16 dstPort ++ payload

/-! ### `Listener.handleConnection`: what is done with a parsed request

`handleConnection` = `Handshake`, then `handleConnect` (CONNECT: the tunnel creator gets the parsed
host and port, the listener's mapping identity and the connection itself, i.e. every byte the
application sent after the request) or `handleUDPAssociate` (the relay creator; reply with the
relay's address).  The creators are parameters (`ConnCfg`): present or nil, succeed or fail. -/

structure ConnCfg where
  mapping : Text          -- ListenerConfig.MappingID
  target : Nat            -- ListenerConfig.TargetClientID
  secret : Text           -- ListenerConfig.SecretKey
  hasTunnel : Bool        -- tunnelCreator != nil
  tunnelOk : Bool         -- CreateSOCKS5Tunnel calls onSuccess and returns nil / returns an error
  hasRelay : Bool         -- udpRelayCreator != nil
  relayOk : Bool          -- CreateUDPRelay returns bindAddr / an error
  bindIP : Bytes          -- bindAddr.IP (4 or 16 bytes)
  bindPort : Nat          -- bindAddr.Port
deriving DecidableEq, Repr

inductive ConnEv where
  /-- `CreateSOCKS5Tunnel(conn, mapping, target, host, port, secret, _)`; `data` = what is still readable from `conn`. -/
  | tunnel (mapping : Text) (target : Nat) (host : Text) (port : Nat) (secret : Text) (data : Bytes)
  /-- `CreateUDPRelay(conn, mapping, target, secret)`. -/
  | relay (mapping : Text) (target : Nat) (secret : Text)
deriving DecidableEq, Repr

structure ConnObs where
  events : List ConnEv
  written : Bytes
  closed : Bool           -- `conn.Close()` called by the listener
deriving DecidableEq, Repr

/-- A Go string constant as bytes (ASCII). -/
def asciiText (s : String) : Text := s.toList.map (fun ch => UInt8.ofNat ch.toNat)

/-- `SendSuccess`: bound address `0.0.0.0:0`. -/
def sendSuccess : Bytes :=
  [u8 socks5.Version, u8 socks5.RepSuccess, 0, u8 socks5.AddrIPv4, 0, 0, 0, 0, 0, 0]

/-- `net.IP.To4()`. -/
def to4 (ip : Bytes) : Option Bytes :=
  if ip.length = 4 then some ip else if isV4Mapped ip then some (ip.drop 12) else none

/-- `SendSuccessWithBind`: `ip := bindAddr.IP.To4(); if ip == nil { ip = net.IPv4zero }`. -/
def sendSuccessWithBind (ip : Bytes) (port : Nat) : Bytes :=
  [u8 socks5.Version, u8 socks5.RepSuccess, 0, u8 socks5.AddrIPv4] ++ (to4 ip).getD [0, 0, 0, 0] ++ putBe16 port

/-- `handleConnect` (`w`: written so far; `data`: the rest of the connection). -/
def handleConnect (cfg : ConnCfg) (w : Bytes) (host : Text) (port : Nat) (data : Bytes) : ConnObs :=
  if host = asciiText socks5.VirtualDNSIP ∧ port = 853 then ⟨[], w ++ sendError socks5.RepFailure, true⟩
  else if ¬ cfg.hasTunnel then ⟨[], w ++ sendError socks5.RepFailure, true⟩
  else if cfg.tunnelOk then
    ⟨[.tunnel cfg.mapping cfg.target host port cfg.secret data], w ++ sendSuccess, false⟩
  else ⟨[.tunnel cfg.mapping cfg.target host port cfg.secret data], w ++ sendError socks5.RepFailure, true⟩

/-- `handleUDPAssociate`. -/
def handleUDPAssociate (cfg : ConnCfg) (w : Bytes) : ConnObs :=
  if ¬ cfg.hasRelay then ⟨[], w ++ sendError socks5.RepCmdNotSupp, true⟩
  else if cfg.relayOk then
    ⟨[.relay cfg.mapping cfg.target cfg.secret], w ++ sendSuccessWithBind cfg.bindIP cfg.bindPort, false⟩
  else ⟨[.relay cfg.mapping cfg.target cfg.secret], w ++ sendError socks5.RepFailure, true⟩

/-- `handleConnection(conn)` where `conn` delivers `s`. -/
def handleConnection (c : IPText) (cfg : ConnCfg) (s : Src) : ConnObs :=
  match (handshake c s).1.out with
  | .fail _ => ⟨[], (handshake c s).1.written, true⟩
  | .ok r =>
    if r.cmd = socks5.CmdConnect then
      handleConnect cfg (handshake c s).1.written r.host r.port (handshake c s).2.flat
    else if r.cmd = socks5.CmdUDPAssoc then handleUDPAssociate cfg (handshake c s).1.written
    else ⟨[], (handshake c s).1.written ++ sendError socks5.RepCmdNotSupp, true⟩

/-! ### `UDPRelay.readLoop` / `handlePacket`: datagrams in flight over the shared read buffer

`readLoop` reads every datagram into one buffer `buf`, and starts one goroutine per datagram which
parses the header and hands the payload to the destination's tunnel (`SendPacket`).  The reader and
the started goroutines interleave freely; the model is a transition system whose schedule is an
arbitrary list of steps.  What a goroutine holds is explicit (`Job`): its own copy of the datagram
(the code: `dataCopy := make(...); copy(dataCopy, buf[:n]); go r.handlePacket(dataCopy)`), or —
the hazard variant, used only for the witness theorem — a slice of `buf` that is copied when the
goroutine first runs. -/

/-- How `readLoop` hands a datagram to its goroutine. -/
inductive Handoff where
  | copyAtRead        -- the code: detached copy made by the reader before `go`
  | aliasUntilRun     -- header parsed by the reader, payload still a slice of `buf` until the goroutine runs
deriving DecidableEq, Repr

/-- A started `handlePacket` goroutine that has not run yet. -/
inductive Job where
  | owned (data : Bytes)
  | alias (host : Text) (port : Nat) (off len : Nat)
deriving DecidableEq, Repr

structure Relay where
  buf : Bytes             -- the reader's buffer (content after the last `ReadFromUDP`)
  queue : List Bytes      -- datagrams waiting in the socket, in arrival order
  jobs : List Job         -- started goroutines, any of which may run next
  sent : List UDest       -- `SendPacket` calls so far: tunnel destination and bytes
deriving DecidableEq, Repr

/-- `ReadFromUDP(buf)` of datagram `d`: the first `len d` bytes are overwritten, the rest stays. -/
def overwrite (buf d : Bytes) : Bytes := d ++ buf.drop d.length

/-- The `go …` statement of `readLoop` after `n` bytes were read. -/
def spawn (c : IPText) (v : Handoff) (buf : Bytes) (n : Nat) : Option Job :=
  match v with
  | .copyAtRead => some (.owned (buf.take n))
  | .aliasUntilRun =>
    match parseUDPHeader c (buf.take n) with
    | .ok d => some (.alias d.host d.port (n - d.payload.length) d.payload.length)
    | .fail _ => none

/-- `handlePacket` up to `session.tunnel.SendPacket(payload)`: what is sent, if anything. -/
def runJob (c : IPText) (buf : Bytes) : Job → Option UDest
  | .owned data =>
    match parseUDPHeader c data with
    | .ok d => some d
    | .fail _ => none
  | .alias host port off len => some ⟨host, port, (buf.drop off).take len⟩

inductive RStep where
  | read              -- one iteration of `readLoop` (no-op when the socket is empty)
  | run (i : Nat)     -- the `i`-th started goroutine runs to its `SendPacket` (no-op when absent)
deriving DecidableEq, Repr

def Relay.step (c : IPText) (v : Handoff) (s : Relay) : RStep → Relay
  | .read =>
    match s.queue with
    | [] => s
    | d :: q =>
      ⟨overwrite s.buf d, q, s.jobs ++ (spawn c v (overwrite s.buf d) d.length).toList, s.sent⟩
  | .run i =>
    match s.jobs[i]? with
    | none => s
    | some j => ⟨s.buf, s.queue, s.jobs.eraseIdx i, s.sent ++ (runJob c s.buf j).toList⟩

def Relay.exec (c : IPText) (v : Handoff) (s : Relay) (sch : List RStep) : Relay :=
  sch.foldl (Relay.step c v) s

/-- The relay with datagrams `ds` sent to its socket and nothing read yet. -/
def Relay.init (ds : List Bytes) : Relay := ⟨[], ds, [], []⟩

/-- Nothing left to do. -/
def Relay.quiescent (s : Relay) : Bool := s.queue.isEmpty && s.jobs.isEmpty

/-! ### Where a parsed datagram goes, and the way back

`handlePacket`: port 53 with a DNS handler installed goes over the control channel (`QueryDNS` with
server `host:53`, the virtual DNS address replaced by the default server); everything else to the
destination's tunnel.  Way back: `receiveLoop` / `handleDNSQuery` wrap the answer with
`buildUDPHeader(dstHost, dstPort, answer)` — the original host text, also for the virtual DNS. -/

inductive Route where
  | tunnel (d : UDest)
  | dns (server : Text) (query : Bytes)
deriving DecidableEq, Repr

def isDnsRoute (dns : Bool) (d : UDest) : Bool := d.port == 53 && dns

def dnsServer (host : Text) : Text :=
  (if host = asciiText socks5.VirtualDNSIP then asciiText socks5.DefaultDNSServer else host) ++ [58] ++ decText 53

def route (dns : Bool) (d : UDest) : Route :=
  if isDnsRoute dns d then .dns (dnsServer d.host) d.payload else .tunnel d

/-- The datagram sent back to the application for the answer `resp` to the packet `d`. -/
def replyDatagram (c : IPText) (d : UDest) (resp : Bytes) : Bytes := buildUDPHeader c d.host d.port resp

/-! ### `SocksAdapter.handleSocksConnection` without a session

The whole per-connection function: negotiate; then, no session being attached to the adapter, answer
"general SOCKS server failure" and close (`defer clientConn.Close()` closes in every case). -/

def adConnection (c : IPText) (cfg : AdCfg) (s : Src) : Bytes × Src :=
  match (adNegotiate c cfg s).1.out with
  | .ok _ => ((adNegotiate c cfg s).1.written ++ sendReply0 adapter.socksRepServerFailure, (adNegotiate c cfg s).2)
  | .fail _ => ((adNegotiate c cfg s).1.written, (adNegotiate c cfg s).2)

end Tunnox.C20
