/-!
# C17 — the per-mapping connection slot across the life of a tunnel

`mapping.BaseMappingHandler.handleConnection` (client/mapping/base.go), one connection = one thread:

1. `acquireConnectionSlot` (CAS loop: refuse when `limit > 0 && count >= limit`, else `count+1`),
   then `PrepareConnection`, `CheckMappingQuota`, `DialTunnel`, `NewTunnel` (no shared state);
2. `tunnelManager.RegisterTunnel(tun)` — from here on the tunnel can be closed by anybody
   (`CloseTunnel`, peer's `TunnelClosed`, `OnTunnelError` … → `Tunnel.Close` → `OnClosed` → slot back);
3. `tun.Start()` — fails with "invalid state transition" when the tunnel was closed in the window
   after step 2; then the deferred clean-up gives the slot back because `slotOwnedByTunnel` is false.

The slot is given back through ONE `sync.OnceFunc(h.releaseConnectionSlot)` shared by `OnClosed` and
the deferred clean-up (`once = true`).  `once = false` is the variant in which both call
`releaseConnectionSlot` directly (seeded regression `mapping-slot-released-twice`).

Atomic steps: the three steps above (`Sch.step i`) and `Tunnel.Close` of connection `i`'s tunnel
(`Sch.close i`), interleaved arbitrarily; `Tunnel.Close` runs its body at most once (CAS on the state).
-/
namespace Tunnox.C17Slot

/-- Where a connection is. -/
inductive St where
  | idle        -- not yet accepted
  | acq         -- holds a slot, tunnel not yet registered
  | reg         -- tunnel registered, not started (the window)
  | regClosed   -- tunnel was closed in the window (slot given back by `OnClosed`); `Start()` will fail
  | run         -- tunnel started, owns the slot
  | fin         -- refused / failed to start / closed
deriving DecidableEq, Repr

inductive Sch where
  | step (i : Nat)
  | close (i : Nat)
  | stepFail (i : Nat)   -- the next step of connection `i`, and the injectable call in it FAILS
                         -- (`PrepareConnection` / `CheckMappingQuota` / `DialTunnel`; `RegisterTunnel`)
deriving DecidableEq, Repr

/-- One event per schedule entry that does something, with the number of live tunnels the observer
counts right after it (`TunnelManager.CountTunnels`). -/
inductive Ev where
  | acq (i n : Nat)   -- slot taken
  | ref (i n : Nat)   -- refused at the limit
  | reg (i n : Nat)   -- tunnel registered
  | sta (i n : Nat)   -- tunnel started
  | fal (i n : Nat)   -- `Start()` failed (closed in the window)
  | cls (i n : Nat)   -- tunnel closed
  | ncl (i n : Nat)   -- `CloseTunnel`: no such tunnel
  | dfl (i n : Nat)   -- slot taken, then prepare / quota / dial failed: slot given back, nothing registered
  | rfl (i n : Nat)   -- `RegisterTunnel` failed: slot given back
deriving DecidableEq, Repr

structure Cfg where
  cnt : Int               -- `activeConnCount`
  tunnels : List Nat      -- the handler's `TunnelManager` (registered, not closed), in registration order
  st : Nat → St
  trace : List Ev

def upd (f : Nat → St) (i : Nat) (s : St) : Nat → St := fun j => if j = i then s else f j

/-- `limit > 0 && count >= limit`. -/
def full (limit : Nat) (cnt : Int) : Bool := decide (0 < limit) && decide ((limit : Int) ≤ cnt)

def stepConn (once : Bool) (limit : Nat) (c : Cfg) (i : Nat) : Cfg :=
  match c.st i with
  | .idle =>
    if full limit c.cnt then
      { c with st := upd c.st i .fin, trace := c.trace ++ [.ref i c.tunnels.length] }
    else
      { c with cnt := c.cnt + 1, st := upd c.st i .acq, trace := c.trace ++ [.acq i c.tunnels.length] }
  | .acq => { c with tunnels := c.tunnels ++ [i], st := upd c.st i .reg,
                     trace := c.trace ++ [.reg i (c.tunnels.length + 1)] }
  | .reg => { c with st := upd c.st i .run, trace := c.trace ++ [.sta i c.tunnels.length] }
  | .regClosed =>
    -- Start() fails; deferred clean-up: `if !slotOwnedByTunnel { releaseSlot() }`
    { c with cnt := if once then c.cnt else c.cnt - 1,
             st := upd c.st i .fin, trace := c.trace ++ [.fal i c.tunnels.length] }
  | .run => c
  | .fin => c

/-- The step of connection `i` in which its injectable call fails (error paths of `handleConnection`:
each returns through the deferred clean-up, which gives the slot back because no tunnel owns it). -/
def failConn (once : Bool) (limit : Nat) (c : Cfg) (i : Nat) : Cfg :=
  match c.st i with
  | .idle =>
    if full limit c.cnt then
      { c with st := upd c.st i .fin, trace := c.trace ++ [.ref i c.tunnels.length] }
    else
      -- acquireConnectionSlot; … fails; deferred releaseSlot(): count + 1 - 1
      { c with st := upd c.st i .fin, trace := c.trace ++ [.dfl i c.tunnels.length] }
  | .acq => { c with cnt := c.cnt - 1, st := upd c.st i .fin, trace := c.trace ++ [.rfl i c.tunnels.length] }
  | _ => stepConn once limit c i

/-- `Tunnel.Close` of connection `i`'s tunnel (unregister, `OnClosed` gives the slot back). -/
def closeConn (c : Cfg) (i : Nat) : Cfg :=
  match c.st i with
  | .reg => { c with cnt := c.cnt - 1, tunnels := c.tunnels.erase i, st := upd c.st i .regClosed,
                     trace := c.trace ++ [.cls i (c.tunnels.erase i).length] }
  | .run => { c with cnt := c.cnt - 1, tunnels := c.tunnels.erase i, st := upd c.st i .fin,
                     trace := c.trace ++ [.cls i (c.tunnels.erase i).length] }
  | _ => { c with trace := c.trace ++ [.ncl i c.tunnels.length] }

def step (once : Bool) (limit : Nat) (c : Cfg) : Sch → Cfg
  | .step i => stepConn once limit c i
  | .close i => closeConn c i
  | .stepFail i => failConn once limit c i

def run (once : Bool) (limit : Nat) (c : Cfg) (σ : List Sch) : Cfg := σ.foldl (step once limit) c

def init : Cfg := ⟨0, [], fun _ => .idle, []⟩

/-! ## The property on observations -/

structure SpecSt where
  acqd : List Nat   -- hold a slot, tunnel not registered yet
  live : List Nat   -- registered / running tunnels
  good : Bool

def capOk (limit n : Nat) : Bool := limit == 0 || decide (n ≤ limit)

/-- A slot is held from its acquisition until the tunnel is closed (or, if it never got a tunnel,
…it still holds it): an acquisition while `limit` slots are held is a violation, and the number of
live tunnels reported after every step is the reference number and within the limit. -/
def specStep (limit : Nat) (s : SpecSt) : Ev → SpecSt
  | .acq i n =>
    ⟨s.acqd ++ [i], s.live,
     s.good && (limit == 0 || decide (s.acqd.length + s.live.length < limit)) && !s.acqd.contains i && !s.live.contains i &&
       n == s.live.length && capOk limit n⟩
  | .ref _ n => ⟨s.acqd, s.live, s.good && n == s.live.length && capOk limit n⟩
  | .reg i n =>
    ⟨s.acqd.erase i, s.live ++ [i], s.good && s.acqd.contains i && n == s.live.length + 1 && capOk limit n⟩
  | .sta _ n => ⟨s.acqd, s.live, s.good && n == s.live.length && capOk limit n⟩
  | .fal _ n => ⟨s.acqd, s.live, s.good && n == s.live.length && capOk limit n⟩
  | .cls i n =>
    ⟨s.acqd, s.live.erase i, s.good && s.live.contains i && n == (s.live.erase i).length && capOk limit n⟩
  | .ncl _ n => ⟨s.acqd, s.live, s.good && n == s.live.length && capOk limit n⟩
  | .dfl _ n => ⟨s.acqd, s.live, s.good && n == s.live.length && capOk limit n⟩
  | .rfl i n => ⟨s.acqd.erase i, s.live, s.good && s.acqd.contains i && n == s.live.length && capOk limit n⟩

def replay (limit : Nat) (tr : List Ev) : SpecSt := tr.foldl (specStep limit) ⟨[], [], true⟩

def holds (limit : Nat) (tr : List Ev) : Bool := (replay limit tr).good

end Tunnox.C17Slot
