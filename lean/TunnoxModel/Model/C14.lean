import TunnoxModel.Gen.C14
/-!
C14 — executable model of the tiered store facade `hybrid.Storage`
(`internal/core/storage/hybrid/hybrid.go`, `hybrid_ops.go`; core Lean only).

All operations of one case act on ONE key.  Each tier holds one `Cell` for that key.  A facade call is a
thread; one schedule entry lets one thread perform ONE tier operation (`cache.Get`, `persistent.Set`, …),
which is the atomic-step granularity (every tier call is atomic inside the tier).  A schedule entry may
carry a fault tag: the tier operation performed by that step fails iff it addresses the tagged tier.

Routing (`route`) is computed with the *generated* translations of `getCategory` / `getCacheForKey`
(`Gen.hybrid.Storage.*`), i.e. from the current Go source text and for arbitrary prefix tables.

Two variants:
* `.repaired` — the code after the `fix:` commits: `Set`, `Delete`, the cache-miss path of `Get`, list
  append/remove and `SetExpiration` run under the per-key lock (`lockKey`), the cache write-back is
  performed synchronously inside that critical section.  Lock acquisition is merged into the first tier
  step of the critical section, release into its last one (acquire is a right mover, release a left mover).
* `.asFound` — the code as found: no lock, write-back by a spawned goroutine (a new thread whose only
  step is the `cache.Set`), list append/remove = get-list; modify; set.

Ghost fields (`Cell.ver`, `Thread.cver`, `Thread.rver`, `St.nver`) number the committed writes; they are
not part of any observation and only serve the proofs.
-/
namespace Tunnox.C14
open Gen.hybrid

inductive Variant | asFound | repaired
  deriving DecidableEq, Repr

/-- Stored values: scalar strings `s<n>`, counters, lists of element ids. -/
inductive Val
  | str (n : Nat)
  | int (n : Nat)
  | list (xs : List Nat)
  | jl (xs : List Nat)      -- the same list as a JSON string (what remote storage / Redis answer)
  deriving DecidableEq, Repr, Inhabited

structure Cell where
  val : Option Val := none
  ttl : Nat := 0
  ver : Nat := 0
  deriving DecidableEq, Repr, Inhabited

/-- Facade calls. `wbk` is the spawned write-back goroutine of the as-found `Get`. -/
inductive Op
  | get | ex | set (v : Val) (ttl : Nat) | del
  | getl | app (x : Nat) | rem (x : Nat)
  | incr | exp (ttl : Nat)
  | setnx (v : Val) (ttl : Nat)          -- SetNX (cache tier of the key, atomic in the tier)
  | hset (v : Val) | hget | hdel         -- SetHash/GetHash/DeleteHash of one field (the case key is `key:field`)
  | wbk
  deriving DecidableEq, Repr, Inhabited

/-- Results as the caller sees them (`nf` = ErrKeyNotFound, `inv` = ErrInvalidType, `err` = any other error). -/
inductive Res
  | ok | val (v : Val) | bool (b : Bool) | nf | err | inv
  deriving DecidableEq, Repr, Inhabited

inductive PC
  | start
  | readP                                  -- `persistent.Get` pending (cache missed)
  | wb (v : Val) (ver : Nat)               -- cache write-back `cache.Set(v, wbTTL)` pending
  | write (v : Val) (ttl : Nat)            -- list op: the `Set` phase starts
  | writeC (v : Val) (ttl : Nat) (ver : Nat) -- `cache.Set` pending after `persistent.Set` succeeded
  | delP (cerr : Bool)                     -- `persistent.Delete` pending after `cache.Delete`
  | exP                                    -- `persistent.Exists` pending
  | expW (v : Val) (ver : Nat) (ttl : Nat) -- SetExpiration: `cache.Set(v, ttl)` pending
  | done
  deriving DecidableEq, Repr, Inhabited

structure Thread where
  op : Op
  pc : PC := .start
  inv : Option Nat := none     -- index of the first step taken
  ret : Option Nat := none     -- index of the latest step taken
  res : Option Res := none     -- set when the call has returned
  cver : Option Nat := none    -- ghost: number of the commit this call performed
  rver : Option Nat := none    -- ghost: version of the content a read returned
  node : Nat := 0              -- the facade instance (cluster node) the call is issued on: 0 or 1
  deriving Repr, Inhabited

inductive Act | get | ex | set (v : Val) (ttl : Nat) | del | incr | setnx (v : Val) (ttl : Nat)
  deriving DecidableEq, Repr
inductive Outc | miss | hit (v : Val) | ok | fail | b (x : Bool)
  deriving DecidableEq, Repr

/-- One tier call as the tier doubles of the harness record it. -/
structure Ev where
  tid : Nat
  tier : Tier
  act : Act
  out : Outc
  deriving DecidableEq, Repr

/-- Shared state: the cells of the key (local cache and key lock of node 0, shared cache, persistent tier;
`c1`/`lock1`: local cache and key lock of a second node on the same shared cache and persistent tier),
the commit counter. -/
structure St where
  c : Cell := {}
  s : Cell := {}
  p : Cell := {}
  lock : Option Nat := none
  nver : Nat := 0
  c1 : Cell := {}
  lock1 : Option Nat := none
  deriving Repr, Inhabited

def St.cell (σ : St) : Tier → Cell
  | .cache => σ.c | .shared => σ.s | .persistent => σ.p

def St.setCell (σ : St) (t : Tier) (x : Cell) : St :=
  match t with
  | .cache => { σ with c := x }
  | .shared => { σ with s := x }
  | .persistent => { σ with p := x }

/-! ## Routing (hybrid.go `getCategory`, `getCacheForKey`, and the per-category branches) -/

/-- What the facade methods derive from the key, once. -/
structure Route where
  cat : Nat
  ck : Tier          -- cache tier used by Get/Set/Delete/Exists and the list operations
  pe : Bool          -- the persistent tier takes part
  aux : Tier         -- tier used by Incr / SetExpiration / the hash methods (`cacheTierFor`)
  hashTTL : Nat      -- TTL of SetHash (DefaultCacheTTL)
  swallow : Bool     -- `Set` only logs a cache error (setPersistent / setSharedPersistent)
  passErr : Bool     -- `Get`/`Exists` hand a cache error to the caller (pure shared data)
  dfl : Nat          -- TTL that `Set` substitutes for ttl = 0
  wbTTL : Nat        -- TTL of the cache write-back
  listTTL : Nat      -- TTL that AppendToList/RemoveFromList pass to `Set`
  deriving Repr

def route (h : Storage) (key : String) : Route :=
  let cat := Storage.getCategory h key
  let isSP := cat == DataCategorySharedPersistent
  let isS := cat == DataCategoryShared
  let isP := cat == DataCategoryPersistent
  { cat := cat
    ck := if isS then (Storage.getCacheForKey h key).getD .cache
          else if isSP then (h.sharedCache).getD ((h.cache).getD .cache)
          else (h.cache).getD .cache
    pe := (isP || isSP) && h.config.EnablePersistent
    aux := (Storage.cacheTierFor h key).getD .cache
    hashTTL := h.config.DefaultCacheTTL
    swallow := isP || isSP
    passErr := isS
    dfl := if isP then h.config.PersistentCacheTTL else if isSP then h.config.SharedCacheTTL
           else h.config.DefaultCacheTTL
    wbTTL := if isP then h.config.PersistentCacheTTL
             else if h.config.SharedCacheTTL == 0 then h.config.DefaultCacheTTL else h.config.SharedCacheTTL
    listTTL := if isSP then h.config.SharedCacheTTL else if isP then h.config.PersistentCacheTTL
               else h.config.DefaultCacheTTL }

def Route.setTTL (R : Route) (ttl : Nat) : Nat := if ttl == 0 then R.dfl else ttl

/-! ## One step of one thread -/

structure Out where
  st : St
  th : Thread
  evs : List Ev := []
  spawn : Option Thread := none

def fails (ft : Option Tier) (t : Tier) : Bool := ft == some t

/-- GetList's decoding of the stored value (hybrid_ops.go `GetList`). -/
def decodeList : Val → Option (List Nat)
  | .list xs => some xs
  | .jl xs => some xs
  | _ => none

/-- Result of Get/GetList for a stored value. -/
def readRes (op : Op) (v : Val) : Res :=
  match op with
  | .getl => match decodeList v with
             | some xs => .val (.list xs)
             | none => .inv
  | _ => .val v

/-- New list of AppendToList / RemoveFromList. -/
def modify (op : Op) (xs : List Nat) : List Nat :=
  match op with
  | .app x => xs ++ [x]
  | .rem x => xs.filter (fun y => y != x)
  | _ => xs

def finish (th : Thread) (r : Res) : Thread := { th with pc := .done, res := some r }

def unlock (σ : St) : St := { σ with lock := none }

/-- The list operation continues with the list it read (`none` = key absent). -/
def listCont (op : Op) (σ : St) (th : Thread) (R : Route) (cur : Option Val) : St × Thread :=
  match cur with
  | none =>
    match op with
    | .app x => (σ, { th with pc := .write (.list [x]) R.listTTL })
    | _ => (unlock σ, finish th .nf)
  | some v =>
    match decodeList v with
    | some xs => (σ, { th with pc := .write (.list (modify op xs)) R.listTTL })
    | none => (unlock σ, finish th .inv)

/-- The first write of `Set` (also the write phase of the list operations):
`persistent.Set` when the persistent tier takes part, else the only `cache.Set`. -/
def writeStep (R : Route) (tid : Nat) (ft : Option Tier) (σ : St) (th : Thread) (v : Val) (ttl : Nat) : Out :=
  if R.pe then
    if fails ft .persistent then
      { st := unlock σ, th := finish th .err, evs := [⟨tid, .persistent, .set v 0, .fail⟩] }
    else
      let n := σ.nver + 1
      { st := { σ with p := ⟨some v, 0, n⟩, nver := n },
        th := { th with pc := .writeC v (R.setTTL ttl) n, cver := some n },
        evs := [⟨tid, .persistent, .set v 0, .ok⟩] }
  else
    if fails ft R.ck then
      { st := unlock σ, th := finish th (if R.swallow then .ok else .err),
        evs := [⟨tid, R.ck, .set v (R.setTTL ttl), .fail⟩] }
    else
      let n := σ.nver + 1
      { st := unlock ({ σ with nver := n }.setCell R.ck ⟨some v, R.setTTL ttl, n⟩),
        th := { finish th .ok with cver := some n },
        evs := [⟨tid, R.ck, .set v (R.setTTL ttl), .ok⟩] }

/-- One tier operation of thread `th` (which is enabled). `lk`: the key lock exists (repaired variant). -/
def stepThread (lk : Bool) (R : Route) (tid : Nat) (ft : Option Tier) (σ : St) (th : Thread) : Out :=
  let hold : St := if lk then { σ with lock := some tid } else σ
  match th.op, th.pc with
  -- Get / GetList ----------------------------------------------------------------------------------
  | .get, .start | .getl, .start =>
    let cc := σ.cell R.ck
    if fails ft R.ck then
      if R.passErr then { st := σ, th := finish th .err, evs := [⟨tid, R.ck, .get, .fail⟩] }
      else if R.pe then { st := σ, th := { th with pc := .readP }, evs := [⟨tid, R.ck, .get, .fail⟩] }
      else { st := σ, th := { finish th .nf with rver := some cc.ver }, evs := [⟨tid, R.ck, .get, .fail⟩] }
    else
      match cc.val with
      | some v => { st := σ, th := { finish th (readRes th.op v) with rver := some cc.ver },
                    evs := [⟨tid, R.ck, .get, .hit v⟩] }
      | none =>
        if R.pe && !R.passErr then { st := σ, th := { th with pc := .readP }, evs := [⟨tid, R.ck, .get, .miss⟩] }
        else { st := σ, th := { finish th .nf with rver := some cc.ver }, evs := [⟨tid, R.ck, .get, .miss⟩] }
  | .get, .readP | .getl, .readP =>
    if fails ft .persistent then
      { st := unlock σ, th := finish th .err, evs := [⟨tid, .persistent, .get, .fail⟩] }
    else
      match σ.p.val with
      | none => { st := unlock σ, th := { finish th .nf with rver := some σ.p.ver },
                  evs := [⟨tid, .persistent, .get, .miss⟩] }
      | some v =>
        if lk then { st := hold, th := { th with pc := .wb v σ.p.ver }, evs := [⟨tid, .persistent, .get, .hit v⟩] }
        else { st := σ, th := { finish th (readRes th.op v) with rver := some σ.p.ver },
               evs := [⟨tid, .persistent, .get, .hit v⟩],
               spawn := some { op := .wbk, pc := .wb v σ.p.ver } }
  | .get, .wb v ver | .getl, .wb v ver =>
    let σ' := if fails ft R.ck then σ else σ.setCell R.ck ⟨some v, R.wbTTL, ver⟩
    { st := unlock σ', th := { finish th (readRes th.op v) with rver := some ver },
      evs := [⟨tid, R.ck, .set v R.wbTTL, if fails ft R.ck then .fail else .ok⟩] }
  | .wbk, .wb v ver =>
    let σ' := if fails ft R.ck then σ else σ.setCell R.ck ⟨some v, R.wbTTL, ver⟩
    { st := σ', th := finish th .ok,
      evs := [⟨tid, R.ck, .set v R.wbTTL, if fails ft R.ck then .fail else .ok⟩] }
  -- Exists -----------------------------------------------------------------------------------------
  | .ex, .start =>
    let cc := σ.cell R.ck
    if fails ft R.ck then
      if R.passErr then { st := σ, th := finish th .err, evs := [⟨tid, R.ck, .ex, .fail⟩] }
      else if R.pe then { st := σ, th := { th with pc := .exP }, evs := [⟨tid, R.ck, .ex, .fail⟩] }
      else { st := σ, th := { finish th (.bool false) with rver := some cc.ver }, evs := [⟨tid, R.ck, .ex, .fail⟩] }
    else if cc.val.isSome then
      { st := σ, th := { finish th (.bool true) with rver := some cc.ver }, evs := [⟨tid, R.ck, .ex, .b true⟩] }
    else if R.pe && !R.passErr then
      { st := σ, th := { th with pc := .exP }, evs := [⟨tid, R.ck, .ex, .b false⟩] }
    else
      { st := σ, th := { finish th (.bool false) with rver := some cc.ver }, evs := [⟨tid, R.ck, .ex, .b false⟩] }
  | .ex, .exP =>
    if fails ft .persistent then
      { st := σ, th := finish th .err, evs := [⟨tid, .persistent, .ex, .fail⟩] }
    else
      { st := σ, th := { finish th (.bool σ.p.val.isSome) with rver := some σ.p.ver },
        evs := [⟨tid, .persistent, .ex, .b σ.p.val.isSome⟩] }
  -- Set --------------------------------------------------------------------------------------------
  | .set v ttl, .start => writeStep R tid ft hold th v ttl
  | .set _ _, .writeC v ttl ver | .app _, .writeC v ttl ver | .rem _, .writeC v ttl ver =>
    let σ' := if fails ft R.ck then σ else σ.setCell R.ck ⟨some v, ttl, ver⟩
    { st := unlock σ', th := finish th .ok,
      evs := [⟨tid, R.ck, .set v ttl, if fails ft R.ck then .fail else .ok⟩] }
  -- Delete -----------------------------------------------------------------------------------------
  | .del, .start =>
    if R.pe then
      if fails ft R.ck then
        { st := hold, th := { th with pc := .delP true }, evs := [⟨tid, R.ck, .del, .fail⟩] }
      else
        { st := hold.setCell R.ck ⟨none, 0, (σ.cell R.ck).ver⟩, th := { th with pc := .delP false },
          evs := [⟨tid, R.ck, .del, .ok⟩] }
    else
      if fails ft R.ck then
        { st := unlock σ, th := finish th .err, evs := [⟨tid, R.ck, .del, .fail⟩] }
      else
        let n := σ.nver + 1
        { st := unlock ({ σ with nver := n }.setCell R.ck ⟨none, 0, n⟩),
          th := { finish th .ok with cver := some n }, evs := [⟨tid, R.ck, .del, .ok⟩] }
  | .del, .delP cerr =>
    if fails ft .persistent then
      { st := unlock σ, th := finish th .err, evs := [⟨tid, .persistent, .del, .fail⟩] }
    else
      let n := σ.nver + 1
      { st := unlock { σ with p := ⟨none, 0, n⟩, nver := n },
        th := { finish th (if cerr then .err else .ok) with cver := some n },
        evs := [⟨tid, .persistent, .del, .ok⟩] }
  -- AppendToList / RemoveFromList --------------------------------------------------------------------
  | .app _, .start | .rem _, .start =>
    let cc := σ.cell R.ck
    if fails ft R.ck then
      if R.passErr || !R.pe then
        -- the cache error is the GetList error unless a persistent lookup follows; for the
        -- non-shared categories `Get` reports a cache error as "not found"
        if R.passErr then { st := unlock σ, th := finish th .err, evs := [⟨tid, R.ck, .get, .fail⟩] }
        else
          let r := listCont th.op hold th R none
          { st := r.1, th := r.2, evs := [⟨tid, R.ck, .get, .fail⟩] }
      else { st := hold, th := { th with pc := .readP }, evs := [⟨tid, R.ck, .get, .fail⟩] }
    else
      match cc.val with
      | some v =>
        let r := listCont th.op hold th R (some v)
        { st := r.1, th := r.2, evs := [⟨tid, R.ck, .get, .hit v⟩] }
      | none =>
        if R.pe && !R.passErr then
          { st := hold, th := { th with pc := .readP }, evs := [⟨tid, R.ck, .get, .miss⟩] }
        else
          let r := listCont th.op hold th R none
          { st := r.1, th := r.2, evs := [⟨tid, R.ck, .get, .miss⟩] }
  | .app _, .readP | .rem _, .readP =>
    if fails ft .persistent then
      { st := unlock σ, th := finish th .err, evs := [⟨tid, .persistent, .get, .fail⟩] }
    else
      match σ.p.val with
      | none =>
        let r := listCont th.op σ th R none
        { st := r.1, th := r.2, evs := [⟨tid, .persistent, .get, .miss⟩] }
      | some v =>
        if lk then { st := σ, th := { th with pc := .wb v σ.p.ver }, evs := [⟨tid, .persistent, .get, .hit v⟩] }
        else
          let r := listCont th.op σ th R (some v)
          { st := r.1, th := r.2, evs := [⟨tid, .persistent, .get, .hit v⟩],
            spawn := some { op := .wbk, pc := .wb v σ.p.ver } }
  | .app _, .wb v ver | .rem _, .wb v ver =>
    let σ' := if fails ft R.ck then σ else σ.setCell R.ck ⟨some v, R.wbTTL, ver⟩
    let r := listCont th.op σ' th R (some v)
    { st := r.1, th := r.2, evs := [⟨tid, R.ck, .set v R.wbTTL, if fails ft R.ck then .fail else .ok⟩] }
  | .app _, .write v ttl | .rem _, .write v ttl => writeStep R tid ft σ th v ttl
  -- Incr (delegated to the tier's atomic counter) -----------------------------------------------------
  | .incr, .start =>
    let cc := σ.cell R.aux
    if fails ft R.aux then { st := σ, th := finish th .err, evs := [⟨tid, R.aux, .incr, .fail⟩] }
    else
      match cc.val with
      | none =>
        let n := σ.nver + 1
        { st := { σ with nver := n }.setCell R.aux ⟨some (.int 1), 0, n⟩,
          th := { finish th (.val (.int 1)) with cver := some n }, evs := [⟨tid, R.aux, .incr, .hit (.int 1)⟩] }
      | some (.int k) =>
        let n := σ.nver + 1
        { st := { σ with nver := n }.setCell R.aux ⟨some (.int (k + 1)), cc.ttl, n⟩,
          th := { finish th (.val (.int (k + 1))) with cver := some n },
          evs := [⟨tid, R.aux, .incr, .hit (.int (k + 1))⟩] }
      | some _ => { st := σ, th := finish th .inv, evs := [⟨tid, R.aux, .incr, .miss⟩] }
  -- SetExpiration -------------------------------------------------------------------------------------
  | .exp ttl, .start =>
    let cc := σ.cell R.aux
    if fails ft R.aux then { st := unlock σ, th := finish th .err, evs := [⟨tid, R.aux, .get, .fail⟩] }
    else
      match cc.val with
      | none => { st := unlock σ, th := finish th .nf, evs := [⟨tid, R.aux, .get, .miss⟩] }
      | some v => { st := hold, th := { th with pc := .expW v cc.ver ttl }, evs := [⟨tid, R.aux, .get, .hit v⟩] }
  | .exp _, .expW v ver ttl =>
    if fails ft R.aux then
      { st := unlock σ, th := finish th .err, evs := [⟨tid, R.aux, .set v ttl, .fail⟩] }
    else
      { st := unlock (σ.setCell R.aux ⟨some v, ttl, ver⟩), th := finish th .ok,
        evs := [⟨tid, R.aux, .set v ttl, .ok⟩] }
  -- SetNX (atomic set-if-absent of the cache tier of the key, `cacheTierFor`; no key lock) -------------------------
  | .setnx v ttl, .start =>
    let cc := σ.cell R.aux
    if fails ft R.aux then { st := σ, th := finish th .err, evs := [⟨tid, R.aux, .setnx v ttl, .fail⟩] }
    else
      match cc.val with
      | some _ => { st := σ, th := finish th (.bool false), evs := [⟨tid, R.aux, .setnx v ttl, .b false⟩] }
      | none =>
        let n := σ.nver + 1
        { st := { σ with nver := n }.setCell R.aux ⟨some v, ttl, n⟩,
          th := { finish th (.bool true) with cver := some n }, evs := [⟨tid, R.aux, .setnx v ttl, .b true⟩] }
  -- SetHash / GetHash / DeleteHash (cache tier of the field key only, no key lock) ----------------------
  | .hset v, .start =>
    if fails ft R.aux then { st := σ, th := finish th .err, evs := [⟨tid, R.aux, .set v R.hashTTL, .fail⟩] }
    else
      let n := σ.nver + 1
      { st := { σ with nver := n }.setCell R.aux ⟨some v, R.hashTTL, n⟩,
        th := { finish th .ok with cver := some n }, evs := [⟨tid, R.aux, .set v R.hashTTL, .ok⟩] }
  | .hget, .start =>
    if fails ft R.aux then { st := σ, th := finish th .err, evs := [⟨tid, R.aux, .get, .fail⟩] }
    else
      match (σ.cell R.aux).val with
      | some v => { st := σ, th := finish th (.val v), evs := [⟨tid, R.aux, .get, .hit v⟩] }
      | none => { st := σ, th := finish th .nf, evs := [⟨tid, R.aux, .get, .miss⟩] }
  | .hdel, .start =>
    if fails ft R.aux then { st := σ, th := finish th .err, evs := [⟨tid, R.aux, .del, .fail⟩] }
    else
      let n := σ.nver + 1
      { st := { σ with nver := n }.setCell R.aux ⟨none, 0, n⟩,
        th := { finish th .ok with cver := some n }, evs := [⟨tid, R.aux, .del, .ok⟩] }
  -- unreachable combinations: the call is over -----------------------------------------------------
  | _, _ => { st := σ, th := { th with pc := .done } }

/-- The step at this program point starts a critical section (needs the key lock to be free). -/
def needsLock (op : Op) (pc : PC) : Bool :=
  match op, pc with
  | .set _ _, .start | .del, .start | .app _, .start | .rem _, .start | .exp _, .start => true
  | .get, .readP | .getl, .readP => true
  | _, _ => false

def enabled (lk : Bool) (σ : St) (tid : Nat) (th : Thread) : Bool :=
  th.pc != .done && (!lk || !needsLock th.op th.pc || σ.lock.isNone || σ.lock == some tid)

/-! ## Configurations and runs -/

structure Cfg where
  st : St := {}
  threads : List Thread := []
  now : Nat := 1
  trace : List Ev := []     -- most recent first
  deriving Repr, Inhabited

/-- A schedule entry: which thread performs its next tier operation, and the tier whose
operation fails at this step (if the step addresses it).  With `evict = some t` the entry is an
environment step instead: the cache tier `t` (local cache of node `tid` for `t = .cache`) drops its entry
of the key (TTL expiry, eviction, cache restart). -/
structure Entry where
  tid : Nat
  fault : Option Tier := none
  evict : Option Tier := none
  deriving Repr, DecidableEq

def Variant.lk : Variant → Bool
  | .repaired => true
  | .asFound => false

/-- The state as node 1 sees it: its own local cache and key lock in the places of node 0's. -/
def swapN (σ : St) : St := { σ with c := σ.c1, c1 := σ.c, lock := σ.lock1, lock1 := σ.lock }

def view (n : Nat) (σ : St) : St := if n = 0 then σ else swapN σ

/-- A cache tier loses its entry (the version tag of the cell is kept). -/
def evictCell (n : Nat) (t : Tier) (σ : St) : St :=
  view n ((view n σ).setCell t ⟨none, 0, ((view n σ).cell t).ver⟩)

def stepCfg (V : Variant) (R : Route) (cfg : Cfg) (e : Entry) : Cfg :=
  match e.evict with
  | some t => { cfg with st := evictCell e.tid t cfg.st, now := cfg.now + 1 }
  | none =>
  match cfg.threads[e.tid]? with
  | none => { cfg with now := cfg.now + 1 }
  | some th =>
    if enabled V.lk (view th.node cfg.st) e.tid th then
      let th0 := { th with inv := some (th.inv.getD cfg.now), ret := some cfg.now }
      let o := stepThread V.lk R e.tid e.fault (view th.node cfg.st) th0
      { st := view th.node o.st
        threads := (cfg.threads.set e.tid o.th) ++ (o.spawn.map (fun t => { t with node := th.node })).toList
        now := cfg.now + 1
        trace := o.evs.reverse ++ cfg.trace }
    else { cfg with now := cfg.now + 1 }

def run (V : Variant) (R : Route) (cfg : Cfg) (sch : List Entry) : Cfg :=
  sch.foldl (stepCfg V R) cfg

/-- Initial configuration: the three cells, one thread per call. -/
def initCfg (c s p : Option Val) (ops : List Op) : Cfg :=
  { st := { c := ⟨c, 0, 0⟩, s := ⟨s, 0, 0⟩, p := ⟨p, 0, 0⟩ }
    threads := ops.map (fun o => { op := o }) }

/-- Threads of a case: call `i` is issued on node `nodes[i]` (node 0 when the list is shorter). -/
def mkThreads : List Op → List Nat → List Thread
  | [], _ => []
  | o :: os, ns => { op := o, node := ns.headD 0 } :: mkThreads os ns.tail

/-- Initial configuration of a two-node case (node 1 starts with an empty local cache). -/
def initCfgN (c s p : Option Val) (ops : List Op) (nodes : List Nat) : Cfg :=
  { st := { c := ⟨c, 0, 0⟩, s := ⟨s, 0, 0⟩, p := ⟨p, 0, 0⟩ }
    threads := mkThreads ops nodes }

/-- What a sequential `Get` issued after everything has returned sees (no write-back modelled:
the tiers' contents are reported before it runs). -/
def finalGet (R : Route) (σ : St) : Res :=
  match (σ.cell R.ck).val with
  | some v => .val v
  | none => if R.pe && !R.passErr then
              match σ.p.val with
              | some v => .val v
              | none => .nf
            else .nf

/-! ## Observations -/

structure ThObs where
  op : Op
  inv : Nat        -- 0 = never scheduled
  ret : Nat
  res : Option Res
  deriving DecidableEq, Repr

structure Obs where
  ths : List ThObs
  fin : Option Val × Option Val × Option Val   -- cache, shared, persistent
  fget : Res
  trace : List Ev                              -- in execution order
  fin1 : Option Val := none                    -- local cache of node 1
  fget1 : Res := .nf                           -- final sequential `Get` on node 1
  deriving Repr

def obsOf (R : Route) (cfg : Cfg) : Obs :=
  { ths := cfg.threads.map (fun t => ⟨t.op, t.inv.getD 0, t.ret.getD 0, t.res⟩)
    fin := (cfg.st.c.val, cfg.st.s.val, cfg.st.p.val)
    fget := finalGet R cfg.st
    trace := cfg.trace.reverse
    fin1 := cfg.st.c1.val
    fget1 := finalGet R (swapN cfg.st) }

/-- The model: run the schedule, report what an observer sees. -/
def model (V : Variant) (R : Route) (c s p : Option Val) (ops : List Op) (sch : List Entry) : Obs :=
  obsOf R (run V R (initCfg c s p ops) sch)


/-- The model of a case whose calls are spread over two nodes. -/
def modelN (V : Variant) (R : Route) (c s p : Option Val) (ops : List Op) (nodes : List Nat)
    (sch : List Entry) : Obs :=
  obsOf R (run V R (initCfgN c s p ops nodes) sch)

end Tunnox.C14
