import TunnoxModel.Spec.TTLStore
import TunnoxModel.Gen.StorageMem
/-!
  C13 — executable model of `memory.Storage`
  (internal/core/storage/memory/memory.go, memory_ops.go), method by method, over an
  explicit clock.  `m.data` is an `FMap String Item`; `Item = {val, exp}` mirrors
  `StorageItem{Value, Expiration}` (`exp = 0` ⇔ `Expiration.IsZero()`).

  Each method is one critical section of `m.mu` (lock facts: `Props/C13.lean`), hence one
  atomic function `Store → Store × Res`.  `GetHash`/`GetAllHash`/`GetExpiration` have a
  second critical section that removes the entry when the first one saw it expired
  (`gcKey`); sequentially both run back to back.

  The model keeps the per-method treatment of expired entries exactly as in the code:
  `Get`/`Exists`/`GetList` leave them, `RemoveFromList`/`DeleteHash`/`SetExpiration`/`SetNX`/
  `CompareAndSwap`/`GetHash`… delete them, `SetHash`/`IncrBy`/`AppendToList` reset them.
-/
namespace Tunnox.C13
open Tunnox Tunnox.TTLStore

abbrev Item := Entry
abbrev Data := FMap String Item

/-- `constants.DefaultDataTTL` in ns (regenerated from the source). -/
def defaultTTL : Nat := Gen.cloudconstants.DefaultDataTTL

/-- `!item.Expiration.IsZero() && time.Now().After(item.Expiration)` -/
def expired (now : Nat) (it : Item) : Bool := !(it.exp == 0) && decide (it.exp < now)

/-- `expirationFor(ttl)`: `ttl <= 0` ⇒ zero time, else `time.Now().Add(ttl)`. -/
def expirationFor (now : Nat) (ttl : Int) : Nat := if ttl ≤ 0 then 0 else now + ttl.toNat

/-- memory.go `Set` -/
def Set (now : Nat) (m : Data) (k : String) (v : Val) (ttl : Int) : Data × Res :=
  (m.insert k ⟨v, expirationFor now ttl⟩, .ok)

/-- memory.go `Get` (lazy: an expired entry is reported missing, not deleted) -/
def Get (now : Nat) (m : Data) (k : String) : Data × Res :=
  match m.lookup k with
  | none => (m, .notFound)
  | some it => if expired now it then (m, .notFound) else (m, .val it.val)

/-- memory.go `Delete` -/
def Delete (m : Data) (k : String) : Data × Res := (m.erase k, .ok)

/-- memory.go `Exists` -/
def Exists (now : Nat) (m : Data) (k : String) : Data × Res :=
  match m.lookup k with
  | none => (m, .bool false)
  | some it => if expired now it then (m, .bool false) else (m, .bool true)

/-- memory_ops.go `GetList` = `Get` + type assertion -/
def GetList (now : Nat) (m : Data) (k : String) : Data × Res :=
  match (Get now m k).2 with
  | .val (.list xs) => (m, .val (.list xs))
  | .val _ => (m, .invalidType)
  | r => (m, r)

/-- memory_ops.go `AppendToList` -/
def AppendToList (now : Nat) (m : Data) (k : String) (a : Atom) : Data × Res :=
  match m.lookup k with
  | none => (m.insert k ⟨.list [a], now + defaultTTL⟩, .ok)
  | some it =>
    if expired now it then (m.insert k ⟨.list [a], now + defaultTTL⟩, .ok)
    else match it.val with
      | .list xs => (m.insert k ⟨.list (xs ++ [a]), it.exp⟩, .ok)
      | _ => (m, .invalidType)

/-- memory_ops.go `RemoveFromList` -/
def RemoveFromList (now : Nat) (m : Data) (k : String) (a : Atom) : Data × Res :=
  match m.lookup k with
  | none => (m, .ok)
  | some it =>
    if expired now it then (m.erase k, .ok)
    else match it.val with
      | .list xs => (m.insert k ⟨.list (xs.filter (fun x => x ≠ a)), it.exp⟩, .ok)
      | _ => (m, .invalidType)

/-- memory_ops.go `SetHash` (creates with the default lifetime; resets an expired entry and a
non-hash value in place) -/
def SetHash (now : Nat) (m : Data) (k f : String) (a : Atom) : Data × Res :=
  match m.lookup k with
  | none => (m.insert k ⟨.hash (FMap.insert FMap.empty f a), now + defaultTTL⟩, .ok)
  | some it =>
    if expired now it then (m.insert k ⟨.hash (FMap.insert FMap.empty f a), now + defaultTTL⟩, .ok)
    else match it.val with
      | .hash h => (m.insert k ⟨.hash (FMap.insert h f a), it.exp⟩, .ok)
      | _ => (m.insert k ⟨.hash (FMap.insert FMap.empty f a), it.exp⟩, .ok)

/-- Second critical section of `GetHash`/`GetAllHash`/`GetExpiration`: delete if still expired. -/
def gcKey (now : Nat) (m : Data) (k : String) : Data × Res :=
  match m.lookup k with
  | none => (m, .ok)
  | some it => if expired now it then (m.erase k, .ok) else (m, .ok)

/-- memory_ops.go `GetHash` -/
def GetHash (now : Nat) (m : Data) (k f : String) : Data × Res :=
  match m.lookup k with
  | none => (m, .notFound)
  | some it =>
    if expired now it then ((gcKey now m k).1, .notFound)
    else match it.val with
      | .hash h =>
        match FMap.lookup h f with
        | some a => (m, .val (.atom a))
        | none => (m, .notFound)
      | _ => (m, .invalidType)

/-- memory_ops.go `GetAllHash` -/
def GetAllHash (now : Nat) (m : Data) (k : String) : Data × Res :=
  match m.lookup k with
  | none => (m, .notFound)
  | some it =>
    if expired now it then ((gcKey now m k).1, .notFound)
    else match it.val with
      | .hash h => (m, .val (.hash h))
      | _ => (m, .invalidType)

/-- memory_ops.go `DeleteHash` -/
def DeleteHash (now : Nat) (m : Data) (k f : String) : Data × Res :=
  match m.lookup k with
  | none => (m, .ok)
  | some it =>
    if expired now it then (m.erase k, .ok)
    else match it.val with
      | .hash h => (m.insert k ⟨.hash (FMap.erase h f), it.exp⟩, .ok)
      | _ => (m, .invalidType)

/-- memory_ops.go `IncrBy` (`Incr` = `IncrBy 1`) -/
def IncrBy (now : Nat) (m : Data) (k : String) (d : Int) : Data × Res :=
  match m.lookup k with
  | none => (m.insert k ⟨.atom (.int (wrap64 (0 + d))), now + defaultTTL⟩, .int (wrap64 (0 + d)))
  | some it =>
    if expired now it then
      (m.insert k ⟨.atom (.int (wrap64 (0 + d))), now + defaultTTL⟩, .int (wrap64 (0 + d)))
    else match it.val with
      | .atom (.int c) => (m.insert k ⟨.atom (.int (wrap64 (c + d))), it.exp⟩, .int (wrap64 (c + d)))
      | _ => (m, .invalidType)

/-- memory_ops.go `SetExpiration` (repaired: an expired entry is missing; `ttl <= 0` ⇒ permanent) -/
def SetExpiration (now : Nat) (m : Data) (k : String) (ttl : Int) : Data × Res :=
  match m.lookup k with
  | none => (m, .notFound)
  | some it =>
    if expired now it then (m.erase k, .notFound)
    else (m.insert k ⟨it.val, expirationFor now ttl⟩, .ok)

/-- memory_ops.go `GetExpiration` (repaired: a permanent key reports 0) -/
def GetExpiration (now : Nat) (m : Data) (k : String) : Data × Res :=
  match m.lookup k with
  | none => (m, .notFound)
  | some it =>
    if expired now it then ((gcKey now m k).1, .notFound)
    else if it.exp == 0 then (m, .dur 0)
    else (m, .dur (it.exp - now))

/-- memory_ops.go `CleanupExpired`: `for key, item := range m.data { if expired { delete } }` -/
def CleanupExpired (now : Nat) (m : Data) : Data × Res :=
  ((FMap.keys m).foldl (fun acc k => (gcKey now acc k).1) m, .ok)

/-- memory_ops.go `SetNX` (repaired: same expiry test as `Get`) -/
def SetNX (now : Nat) (m : Data) (k : String) (v : Val) (ttl : Int) : Data × Res :=
  match m.lookup k with
  | none => (m.insert k ⟨v, expirationFor now ttl⟩, .bool true)
  | some it =>
    if !(expired now it) then (m, .bool false)
    else ((m.erase k).insert k ⟨v, expirationFor now ttl⟩, .bool true)

/-- `item.Value != oldValue` for `oldValue : any` holding an atom or nil -/
def valueDiffers (v : Val) (old : Option Atom) : Bool :=
  match old with
  | none => true
  | some a => decide (v ≠ .atom a)

/-- memory_ops.go `CompareAndSwap` (repaired: zero Expiration = never expires; `ttl <= 0` ⇒ permanent) -/
def CompareAndSwap (now : Nat) (m : Data) (k : String) (old : Option Atom) (new : Val) (ttl : Int) :
    Data × Res :=
  match m.lookup k with
  | none =>
    match old with
    | none => (m.insert k ⟨new, expirationFor now ttl⟩, .bool true)
    | some _ => (m, .bool false)
  | some it =>
    if expired now it then
      match old with
      | none => ((m.erase k).insert k ⟨new, expirationFor now ttl⟩, .bool true)
      | some _ => (m.erase k, .bool false)
    else if valueDiffers it.val old then (m, .bool false)
    else (m.insert k ⟨new, expirationFor now ttl⟩, .bool true)

/-- One storage call on the memory backend. -/
def step (now : Nat) (op : Op) (m : Data) : Data × Res :=
  match op with
  | .set k v t => Set now m k v t
  | .get k => Get now m k
  | .delete k => Delete m k
  | .exists k => Exists now m k
  | .setNX k v t => SetNX now m k v t
  | .cas k o n t => CompareAndSwap now m k o n t
  | .expire k t => SetExpiration now m k t
  | .ttl k => GetExpiration now m k
  | .getList k => GetList now m k
  | .append k a => AppendToList now m k a
  | .remove k a => RemoveFromList now m k a
  | .hset k f a => SetHash now m k f a
  | .hget k f => GetHash now m k f
  | .hall k => GetAllHash now m k
  | .hdel k f => DeleteHash now m k f
  | .incrBy k d => IncrBy now m k d
  | .gc => CleanupExpired now m
  | .gcKey k => gcKey now m k

/-- Results of a sequential history on the memory backend. -/
def run : History → Data → List Res
  | [], _ => []
  | (now, op) :: h, m => (step now op m).2 :: run h (step now op m).1

/-- Final map of a sequential history. -/
def exec : History → Data → Data
  | [], m => m
  | (now, op) :: h, m => exec h (step now op m).1

/-! ## Concurrent callers: every call is one atomic step taken in lock order -/

/-- Pop the next call of thread `i`. -/
def popThread (progs : List (List Op)) (i : Nat) : Option (Op × List (List Op)) :=
  match progs[i]? with
  | some (op :: rest) => some (op, progs.set i rest)
  | _ => none

/-- Run the schedule (thread indices; an index of a finished/unknown thread is skipped).
Returns the trace `(thread, call, result)` in lock order. -/
def runSched (now : Nat) : List Nat → Data → List (List Op) → List (Nat × Op × Res)
  | [], _, _ => []
  | i :: is, m, progs =>
    match popThread progs i with
    | some x => (i, x.1, (step now x.1 m).2) :: runSched now is (step now x.1 m).1 x.2
    | none => runSched now is m progs

/-- Map after the schedule. -/
def execSched (now : Nat) : List Nat → Data → List (List Op) → Data
  | [], m, _ => m
  | i :: is, m, progs =>
    match popThread progs i with
    | some x => execSched now is (step now x.1 m).1 x.2
    | none => execSched now is m progs

/-- Programs left after the schedule. -/
def remaining : List Nat → List (List Op) → List (List Op)
  | [], progs => progs
  | i :: is, progs =>
    match popThread progs i with
    | some x => remaining is x.2
    | none => remaining is progs

/-- The schedule runs every thread to completion. -/
def completes (sched : List Nat) (progs : List (List Op)) : Bool :=
  (remaining sched progs).all List.isEmpty

/-! ## Lock facts (T2): tokens of `Gen.Skel.Mem_*` -/

/-- Tokens that touch the guarded data (`m.data`, an item's fields, a stored hash). -/
def accessTokens : List String := ["@m.data", "@item.Value", "@item.Expiration", "@hash", "delete"]

/-- Every access to guarded data lies between a lock and its unlock.  `defer mu.Unlock` keeps the
lock to the end; a block that ends in `return` (`{ret` … `}`) does not change the lock state of
the code after it. -/
def lockedOK : List String → Bool → List Bool → Bool
  | [], _, _ => true
  | t :: ts, held, stk =>
    if t == "mu.Lock" || t == "mu.RLock" then lockedOK ts true stk
    else if t == "mu.Unlock" || t == "mu.RUnlock" then lockedOK ts false stk
    else if t == "{ret" then lockedOK ts held (held :: stk)
    else if t == "}" then
      match stk with
      | h :: s => lockedOK ts h s
      | [] => false
    else if accessTokens.contains t then held && lockedOK ts held stk
    else lockedOK ts held stk

/-- Number of critical sections of a method = number of (non-deferred) `Lock`/`RLock` calls. -/
def sectionCount (sk : List String) : Nat :=
  (sk.filter (fun t => t == "mu.Lock" || t == "mu.RLock")).length

/-- Tokens from the last `mu.Lock` on. -/
def lastSection : List String → List String → List String
  | [], acc => acc
  | t :: ts, acc => if t == "mu.Lock" then lastSection ts [t] else lastSection ts (acc ++ [t])

/-- Every `delete` in the section is preceded (in that section) by the expiry re-check. -/
def rechecksBeforeDelete : List String → Bool → Bool → Bool
  | [], _, _ => true
  | t :: ts, z, a =>
    if t == "IsZero" then rechecksBeforeDelete ts true a
    else if t == "After" then rechecksBeforeDelete ts z true
    else if t == "delete" then z && a && rechecksBeforeDelete ts z a
    else rechecksBeforeDelete ts z a

/-- A method is ONE atomic step: it has at most one critical section, or exactly two where the
second one only deletes after re-checking expiry under the write lock (the invisible `gcKey`). -/
def atomicMethod (sk : List String) : Bool :=
  decide (sectionCount sk ≤ 1) ||
  (sectionCount sk == 2 && (lastSection sk []).contains "delete" && rechecksBeforeDelete (lastSection sk []) false false)

/-- The skeletons of all modelled methods, regenerated from the source. -/
def allSkeletons : List (List String) :=
  [Gen.Skel.Mem_Set, Gen.Skel.Mem_Get, Gen.Skel.Mem_Delete, Gen.Skel.Mem_Exists, Gen.Skel.Mem_SetList,
   Gen.Skel.Mem_GetList, Gen.Skel.Mem_AppendToList, Gen.Skel.Mem_RemoveFromList, Gen.Skel.Mem_SetHash,
   Gen.Skel.Mem_GetHash, Gen.Skel.Mem_GetAllHash, Gen.Skel.Mem_DeleteHash, Gen.Skel.Mem_Incr,
   Gen.Skel.Mem_IncrBy, Gen.Skel.Mem_SetExpiration, Gen.Skel.Mem_GetExpiration, Gen.Skel.Mem_CleanupExpired,
   Gen.Skel.Mem_SetNX, Gen.Skel.Mem_CompareAndSwap, Gen.Skel.Mem_expirationFor,
   -- not part of the modelled call vocabulary, but they touch the same guarded map
   Gen.Skel.Mem_Watch, Gen.Skel.Mem_QueryByPrefix, Gen.Skel.Mem_ZAdd, Gen.Skel.Mem_ZRem, Gen.Skel.Mem_ZRangeByScore,
   Gen.Skel.Mem_ZRemRangeByScore, Gen.Skel.Mem_ZScore, Gen.Skel.Mem_ZCard, Gen.Skel.Mem_onClose]

/-- Every modelled method of the current source is one atomic step (T2). -/
def atomicCalls : Bool := allSkeletons.all atomicMethod

/-! ## A sweep split into a scan and a later delete phase -/

/-- Scan phase: the keys whose entry is expired at `now` (state unchanged). -/
def scanExpired (now : Nat) (m : Data) : List String :=
  (FMap.keys m).filter (fun k => match m.lookup k with | some it => expired now it | none => false)

/-- Delete phase re-checking expiry for every collected key (what `CleanupExpired` does, and the
only sound way to split it). -/
def deleteChecked (now : Nat) (m : Data) (ks : List String) : Data :=
  ks.foldl (fun acc k => (gcKey now acc k).1) m

/-- Delete phase WITHOUT re-check (seeded regression "two-phase cleanup"). -/
def deleteBlind (m : Data) (ks : List String) : Data := ks.foldl (fun acc k => acc.erase k) m

/-- Steps of a history with internal sweep phases. -/
inductive MStep where
  | call (op : Op)
  | sweepDelete (checked : Bool) (ks : List String)

/-- Results of the calls of a history in which delete phases of earlier scans are interleaved. -/
def runM : List (Nat × MStep) → Data → List Res
  | [], _ => []
  | (now, .call op) :: h, m => (step now op m).2 :: runM h (step now op m).1
  | (now, .sweepDelete true ks) :: h, m => runM h (deleteChecked now m ks)
  | (_, .sweepDelete false ks) :: h, m => runM h (deleteBlind m ks)

/-- The calls of such a history. -/
def callsOf : List (Nat × MStep) → History
  | [] => []
  | (now, .call op) :: h => (now, op) :: callsOf h
  | (_, .sweepDelete _ _) :: h => callsOf h

def allChecked : List (Nat × MStep) → Bool
  | [] => true
  | (_, .call _) :: h => allChecked h
  | (_, .sweepDelete c _) :: h => c && allChecked h

def monoM : List (Nat × MStep) → Bool
  | [] => true
  | [_] => true
  | a :: b :: h => decide (a.1 ≤ b.1) && monoM (b :: h)

/-- What thread `i` saw. -/
def project (i : Nat) (tr : List (Nat × Op × Res)) : List Res :=
  (tr.filter (fun e => e.1 == i)).map (fun e => e.2.2)

/-- What the callers `0 … n-1` report for a trace: their own answers, rendered, in program order. -/
def observeThreads (render : Res → String) (n : Nat) (tr : List (Nat × Op × Res)) : List (List String) :=
  (List.range n).map (fun i => (project i tr).map render)

end Tunnox.C13
