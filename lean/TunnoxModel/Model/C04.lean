import TunnoxModel.Gen.C04
/-!
# C04 — the open-tunnel dispatcher as a pure decision function (executable model, core Lean only)

One Lean function per Go function, same order of checks:

* `openTunnel`              — `SessionManager.handleTunnelOpen`            (internal/protocol/session/packet_handler_tunnel.go)
* `findControlConnection`   — `findOrCreateControlConnection`              (same file)
* `handleTunnelOpenAuth`    — `ServerTunnelHandler.HandleTunnelOpen`       (internal/app/server/tunnel_handler.go)
* `resumeTunnel`            — `ServerTunnelHandler.resumeTunnel`           (same file)
* `validateWithSecretKey`   — `ServerTunnelHandler.validateWithSecretKey`  (same file)
* `validateMapping`         — `conncode.Service.ValidateMapping`           (internal/cloud/services/conncode/activation.go)
* `Gen.models.PortMapping.{IsExpired,IsValid,CanBeAccessedBy}` — TRANSLATED from internal/cloud/models/port_mapping_helpers.go
* `handleExistingBridge`, `isSourceClient`, `handleTargetBridge`, `processCrossNodeForward`
                             — packet_handler_tunnel_bridge.go, packet_handler_tunnel.go, cross_node_session.go

Scope of the model (what is a parameter, not modelled code):
* the transport object behind the stream may assert a client id (`GetClientID`) and allow a temporary control
  connection (`CanCreateTemporaryControlConn`): both are inputs (`ConnIdent.streamClientID`, `.tempOK`); no
  transport in the repository does so today, the harness drives these paths with a double;
* the tunnel state is the state *at arrival*, plus (`Late`) the bridge / waiting route that appears while a
  request that found nothing at arrival is polling;
* a bridge for tunnel id `t` exists only for a mapping that existed when it was created (`startSourceBridge`).
-/
namespace Tunnox.C04
open Gen

/-- What the cloud control answers: the mappings that exist when the request arrives, and the clock. -/
structure World where
  mappings : List PortMapping
  now : Nat
  nodeID : String
  /-- nodes whose address cannot be resolved / dialled (`CreateDedicatedConnection` fails) -/
  unreachable : List String := []
deriving Repr

/-- `CloudControl.GetPortMapping` / `PortMappingService.GetPortMapping`: lookup by id (`none` = not found). -/
def World.getPortMapping (w : World) (id : String) : Option PortMapping :=
  w.mappings.find? (fun m => m.ID == id)

/-- Identity of the requesting connection as the session manager knows it. -/
structure ConnIdent where
  /-- a ControlConnection is registered under this connection id (a handshake packet was processed) -/
  hasControl : Bool
  /-- `ControlConnection.ClientID` (0 = none) -/
  clientID : Nat
  /-- `ControlConnection.Authenticated` -/
  authenticated : Bool
  /-- the transport object behind the stream (`conn.Stream.GetReader()`) answers `CanCreateTemporaryControlConn()`
  with true (a transport that authenticated its peer itself) -/
  tempOK : Bool
  /-- what that transport object answers to `GetClientID()` (0 = it has no such method / no client) -/
  streamClientID : Nat
deriving DecidableEq, Repr

/-- The control connection `handleTunnelOpen` works with. -/
structure ClientConn where
  clientID : Nat
  authenticated : Bool
deriving DecidableEq, Repr

/-- `packet.TunnelOpenRequest` as decoded from the payload (`wellFormed = false`: the payload is not JSON). -/
structure Req where
  wellFormed : Bool
  MappingID : String
  TunnelID : String
  SecretKey : String
  ResumeToken : String
deriving DecidableEq, Repr

/-- What the node knows about `req.TunnelID` when the request arrives. -/
inductive TunnelState
  /-- no bridge, no route -/
  | none
  /-- `tunnelBridges[req.TunnelID]` exists, created for `mappingID`; `served`: a target is already attached -/
  | bridge (mappingID : String) (served : Bool)
  /-- the routing table has a waiting entry for the tunnel, registered by node `node` for `mappingID` -/
  | remote (mappingID : String) (node : String)
deriving DecidableEq, Repr

inductive Ack | none | ok | fail
deriving DecidableEq, Repr

inductive Attach
  | none
  /-- `bridge.SetSourceConnection` / new bridge with this connection as source -/
  | source
  /-- `bridge.SetTargetConnection` -/
  | target
  /-- `forwardToSourceNode`: piped to the node that holds the bridge -/
  | forward (node : String)
deriving DecidableEq, Repr

/-- How `handleTunnelOpen` returns: mode switch (connection handed over), error, or still polling. -/
inductive Ret | switch | err | pending
deriving DecidableEq, Repr

structure Outcome where
  ack : Ack
  attach : Attach
  ret : Ret
deriving DecidableEq, Repr

/-- The refusal every failed check produces: failure acknowledgement, nothing attached, error returned. -/
def refuse : Outcome := ⟨.fail, .none, .err⟩

/-- `conncode.Service.ValidateMapping` (true = no error). -/
def validateMapping (w : World) (mappingID : String) (clientID : Nat) : Bool :=
  match w.getPortMapping mappingID with
  | none => false
  | some mapping => models.PortMapping.CanBeAccessedBy w.now mapping clientID

/-- `ServerTunnelHandler.validateWithSecretKey` (true = no error). -/
def validateWithSecretKey (secretKey : String) (mapping : PortMapping) : Bool :=
  !(mapping.SecretKey != secretKey)

/-- `ServerTunnelHandler.resumeTunnel`: the cloud control does not implement
`ValidateTunnelResumeToken`, the type assertion fails, the request is refused. -/
def resumeTunnel : Bool := false

/-- `ServerTunnelHandler.HandleTunnelOpen` (true = nil error). -/
def handleTunnelOpenAuth (w : World) (clientID : Nat) (req : Req) : Bool :=
  if req.ResumeToken != "" then resumeTunnel
  else if clientID == 0 then false
  else if req.MappingID != "" && req.SecretKey == "" then
    validateMapping w req.MappingID clientID
  else if req.SecretKey != "" then
    match w.getPortMapping req.MappingID with
    | none => false
    | some portMapping =>
      if !(models.PortMapping.IsValid w.now portMapping) then false
      else if !(validateWithSecretKey req.SecretKey portMapping) then false
      else if portMapping.ListenClientID != clientID && portMapping.TargetClientID != clientID then false
      else true
  else false

/-- `findOrCreateControlConnection`: the control connection registered under this connection id; else, when
the transport object allows it, a temporary one carrying the client id the transport asserts (authenticated
exactly when that id is positive); else none (failure ack).  The stream processor itself has no client id. -/
def findControlConnection (id : ConnIdent) : Option ClientConn :=
  if id.hasControl then some ⟨id.clientID, id.authenticated⟩
  else if id.tempOK then some ⟨id.streamClientID, decide (id.streamClientID > 0)⟩
  else none

/-- `extractClientID(conn.Stream, netConn)`: the client id the transport object asserts (0 = none). -/
def extractClientID (id : ConnIdent) : Nat := id.streamClientID

/-- the side decision of `handleExistingBridge`: source when the *stream's* client id is the mapping's listen client -/
def existingBridgeIsSource (w : World) (id : ConnIdent) (req : Req) : Bool :=
  if req.MappingID != "" then
    match w.getPortMapping req.MappingID with
    | some mapping => extractClientID id == mapping.ListenClientID
    | none => false
  else false

/-- `handleExistingBridge`: success ack, then source (reconnect) or target.  `Bridge.SetTargetConnection` keeps an
established target: when the bridge is already served the newcomer is not attached (it is closed). -/
def handleExistingBridge (w : World) (id : ConnIdent) (req : Req) (served : Bool) : Outcome :=
  ⟨.ok, (if existingBridgeIsSource w id req then .source else if served then .none else .target), .switch⟩

/-- `isSourceClient` (the post-authorisation one in packet_handler_tunnel.go). -/
def isSourceClient (w : World) (id : ConnIdent) (clientConn : ClientConn) (req : Req) : Bool :=
  if req.MappingID == "" then false
  else match w.getPortMapping req.MappingID with
    | none => false
    | some mapping =>
      (if extractClientID id == 0 && clientConn.authenticated then clientConn.clientID else extractClientID id)
        == mapping.ListenClientID

/-- `processCrossNodeForward` after the mapping check: a route to this very node waits for the local
bridge (never appears in a fixed tunnel state: times out without any ack); otherwise forward. -/
def processCrossNodeForward (w : World) (node : String) : Outcome :=
  if node == w.nodeID then ⟨.none, .none, .pending⟩
  else if w.unreachable.contains node then ⟨.ok, .none, .err⟩   -- forwardToSourceNode: ack, then the dial fails
  else ⟨.ok, .forward node, .switch⟩

/-- What appears for `req.TunnelID` WHILE a request that found nothing at arrival polls the routing table
(`handleTargetBridge` → `handleCrossNodeTargetConnection` → `lookupTunnelRouting`). -/
inductive Late
  /-- nothing appears before the poll times out -/
  | none
  /-- a waiting route for the tunnel is registered by node `node` for `mappingID` (`startSourceBridge` on that
  node); `bridgeAppears`: on this node the bridge itself is there too (it is registered before the route) -/
  | route (mappingID : String) (node : String) (bridgeAppears : Bool)
  /-- configuration: this node has no routing table (`tunnelRouting == nil`): nothing can be polled,
  `handleCrossNodeTargetConnection` fails at once -/
  | noRouting
  /-- a bridge for `mappingID` is registered on this node in the WINDOW between the dispatcher's own look-up of
  `tunnelBridges` (nothing found, success ack written) and the second look-up inside `handleTargetBridge` /
  the insert-if-absent of `startSourceBridge` -/
  | window (mappingID : String)
  /-- `startSourceBridge` for `mappingID` runs on this node (bridge registered, route naming this node registered)
  between the dispatcher's look-up of `tunnelBridges` (nothing found) and its look-up of the routing table: the
  request takes the route branch with no acknowledgement sent yet, `handleLocalBridgeWait` finds the bridge -/
  | early (mappingID : String)
deriving DecidableEq, Repr

/-- `handleLocalBridgeWait`: polls `tunnelBridges` (5 s); attaches as target when the bridge is there. -/
def handleLocalBridgeWait (bridgeAppears : Bool) : Outcome :=
  if bridgeAppears then ⟨.ok, .target, .switch⟩ else ⟨.ok, .none, .pending⟩

/-- `processCrossNodeForward` reached from the poll (the success ack of `handleTunnelOpen` is already out):
mapping comparison FIRST, then the "bridge is on this node" shortcut, else forward (no second acknowledgement:
`ackSent`; `handleTargetBridge` passes the mode switch of `forwardToSourceNode` on as success). -/
def processCrossNodeForwardLate (w : World) (req : Req) (mappingID node : String) (bridgeAppears : Bool) : Outcome :=
  if mappingID != req.MappingID then ⟨.ok, .none, .err⟩
  else if node == w.nodeID then handleLocalBridgeWait bridgeAppears
  else if w.unreachable.contains node then ⟨.ok, .none, .err⟩
  else ⟨.ok, .forward node, .switch⟩

/-- `handleTargetBridge` (success ack already out): the second look-up of `tunnelBridges` — a bridge found
there is joined only if it belongs to the request's mapping; no bridge: poll the routing table. -/
def handleTargetBridge (w : World) (req : Req) : Late → Outcome
  | .window mappingID =>
    if mappingID != req.MappingID then ⟨.ok, .none, .err⟩ else ⟨.ok, .target, .switch⟩
  | .none => ⟨.ok, .none, .pending⟩
  | .early _ => ⟨.ok, .none, .pending⟩   -- not reached: `.early` is consumed by the dispatcher's route branch
  | .noRouting => ⟨.ok, .none, .err⟩
  | .route mappingID node bridgeAppears => processCrossNodeForwardLate w req mappingID node bridgeAppears

/-- `handleSourceBridge` → `startSourceBridge`: insert-if-absent under `bridgeLock`; a bridge registered in
the window makes it fail with "tunnel already exists" (nothing attached). -/
def handleSourceBridge : Late → Outcome
  | .window _ => ⟨.ok, .none, .err⟩
  | _ => ⟨.ok, .source, .switch⟩

/-- `SessionManager.handleTunnelOpen` (repaired order: authorise, then dispatch); `late` is what appears while
the request polls (only looked at on the polling branch). -/
def openTunnelDyn (w : World) (id : ConnIdent) (req : Req) (ts : TunnelState) (late : Late) : Outcome :=
  if !req.wellFormed then refuse
  else match findControlConnection id with
    | none => refuse
    | some clientConn =>
      if !(handleTunnelOpenAuth w clientConn.clientID req) then refuse
      else match ts with
        | .bridge mappingID served =>
          if mappingID != req.MappingID then refuse else handleExistingBridge w id req served
        | .remote mappingID node =>
          if mappingID != req.MappingID then refuse else processCrossNodeForward w node
        | .none =>
          match late with
          | .early mappingID =>
            -- route branch of handleTunnelOpen (ackSent = false): rejectTunnelOfOtherMapping, or
            -- handleLocalBridgeWait acknowledges, attaches as target; handleTunnelOpen returns the mode switch
            if mappingID != req.MappingID then refuse else ⟨.ok, .target, .switch⟩
          | _ =>
            if isSourceClient w id clientConn req then handleSourceBridge late
            else handleTargetBridge w req late

/-- The dispatcher when nothing changes while the request is handled. -/
def openTunnel (w : World) (id : ConnIdent) (req : Req) (ts : TunnelState) : Outcome :=
  openTunnelDyn w id req ts .none

/-! ## Updates of the mapping record (whole-record read-modify-write)

`conncode.Service.{RecordMappingUsage, RevokeMapping}`, `PortMappingRepo.{UpdatePortMappingStats,
UpdatePortMappingStatus}` (internal/cloud/services/conncode/activation.go, internal/cloud/repos/mapping_repository.go):
each reads the whole record, changes some fields and writes the whole record back. -/

/-- What an update does to the copy it read (on the fields the open-tunnel decision looks at). -/
inductive Update
  /-- `RecordMappingUsage`: sets `LastActive` only -/
  | usage
  /-- `UpdatePortMappingStats`: sets `TrafficStats` only -/
  | stats
  /-- `UpdatePortMappingStatus status` -/
  | status (s : String)
  /-- `RevokeMapping` → `PortMapping.Revoke`: `IsRevoked = true`, `Status = inactive` -/
  | revoke
deriving DecidableEq, Repr

def Update.apply : Update → PortMapping → PortMapping
  | .usage, m => m
  | .stats, m => m
  | .status s, m => { m with Status := s }
  | .revoke, m => { m with IsRevoked := true, Status := Gen.models.MappingStatusInactive }

/-- Repaired code: every update holds `repos.LockPortMapping(id)` from its read to its write, so updates of one
record take effect one after the other, in some order. -/
def runSerial (us : List Update) (m : PortMapping) : PortMapping :=
  us.foldl (fun r u => u.apply r) m

/-- One step of an update thread under the code as found (no lock): read the record into a private copy, or write
the changed private copy back. -/
inductive RmwStep
  | read (thread : Nat)
  | write (thread : Nat)
deriving DecidableEq, Repr

structure RmwCfg where
  record : PortMapping
  /-- the private copy each thread holds (by thread index) -/
  copies : List (Nat × PortMapping)
deriving Repr

def RmwCfg.step (threads : List Update) (c : RmwCfg) : RmwStep → RmwCfg
  | .read t => { c with copies := (t, c.record) :: c.copies.filter (fun p => p.1 != t) }
  | .write t =>
    match threads[t]?, c.copies.find? (fun p => p.1 == t) with
    | some u, some p => { c with record := u.apply p.2 }
    | _, _ => c

/-- As found: any interleaving of the threads' reads and writes. -/
def runInterleaved (threads : List Update) (sched : List RmwStep) (m : PortMapping) : PortMapping :=
  (sched.foldl (RmwCfg.step threads) ⟨m, []⟩).record

/-! ## The source-node side of a forwarded target (`CrossNodeListener.handleTargetReady`)

`forwardToSourceNode` sends `EncodeTargetReadyMessage(req.TunnelID, nodeID)` = `tunnelID|nodeID`; the node that holds
the bridge decodes it (`DecodeTargetReadyMessage`: split at the LAST `|`, nothing trimmed) and attaches the forwarded
connection to `tunnelBridges[decoded id]`.  No mapping is compared there: everything rests on the tunnel id the
target node authorised being the tunnel id the source node looks up.  (internal/protocol/session/crossnode/frame.go,
cross_node_listener.go) -/

def encodeTargetReady (tunnelID nodeID : List Char) : List Char := tunnelID ++ '|' :: nodeID

/-- split at the last `|` -/
def decodeTargetReady : List Char → Option (List Char × List Char)
  | [] => none
  | c :: cs =>
    match decodeTargetReady cs with
    | some (a, b) => some (c :: a, b)
    | none => if c == '|' then some ([], cs) else none

/-- the bridges of the source node: (tunnel id, mapping id) -/
abbrev Bridges := List (List Char × String)

def Bridges.lookup (bs : Bridges) (tunnelID : List Char) : Option String :=
  (bs.find? (fun b => b.1 == tunnelID)).map (·.2)

/-- `handleTargetReady`: the mapping of the bridge the forwarded connection is attached to (`none`: no such bridge). -/
def handleTargetReady (bs : Bridges) (payload : List Char) : Option String :=
  match decodeTargetReady payload with
  | some (tunnelID, _) => bs.lookup tunnelID
  | none => none

/-- a decoder that trims white space around the payload first (what must NOT be done: the id is client-chosen) -/
def decodeTargetReadyTrimmed (payload : List Char) : Option (List Char × List Char) :=
  decodeTargetReady ((payload.dropWhile Char.isWhitespace).reverse.dropWhile Char.isWhitespace).reverse

/-- The dispatcher as found (before the repair): an existing bridge or a waiting route is served *before*
any credential check, for whatever connection names the tunnel id.  Kept to state the witnesses. -/
def openTunnelAsFound (w : World) (id : ConnIdent) (req : Req) (ts : TunnelState) : Outcome :=
  if !req.wellFormed then refuse
  else match ts with
    | .bridge _ served => handleExistingBridge w id req served
    | .remote _ node => processCrossNodeForward w node
    | .none => openTunnel w id req .none

end Tunnox.C04
