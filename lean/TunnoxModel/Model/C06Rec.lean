/-
  C06 — the stored connection-code record.  Field names equal the Go field names of
  internal/cloud/models/tunnel_connection_code.go `TunnelConnectionCode`, because the predicates
  `IsExpired / IsValidForActivation / CanBeActivatedBy` are translated from the Go source into
  `Gen/C06.lean` over this structure.  Times are `Nat`; addresses are indices into the fixed
  address tables of the harness; optional pointers are `Option`.
-/
namespace Tunnox.C06

structure TunnelConnectionCode where
  TargetClientID : Nat := 0
  TargetAddress : Nat := 0
  ActivationExpiresAt : Nat := 0
  IsActivated : Bool := false
  ActivatedBy : Option Nat := none
  MappingID : Option Nat := none
  IsRevoked : Bool := false
deriving DecidableEq, Repr, Inhabited

end Tunnox.C06
