import TunnoxModel.Gen.C03
/-!
# C03 — executable model of the handshake state machine

Mirrors, function by function and in the same order of checks:

* `internal/app/server/auth_handler.go`: `HandleHandshake` (gates 1–3, first connection,
  client lookup, expiry, phase 1 / phase 2), `handleFirstConnection`, `handleChallengePhase1`,
  `handleChallengePhase2`;
* `internal/security/secretkey_manager.go`: `VerifyResponse` (symbolic HMAC), `GenerateChallenge` (fresh nonce);
* `internal/security/brute_force_protector.go`: `RecordFailure`, `RecordSuccess`, `IsBanned`, `BanIP`, `UnbanIP`;
* `internal/security/ip_manager.go`: `IsAllowed` (blacklist only; the whitelist is not modelled);
* `internal/security/rate_limiter.go`: `AllowIP` (integral tokens, no refill inside a sequence; `refill` = time passing);
* `internal/protocol/session/packet_handler_handshake.go`: `handleHandshake` (parse, get-or-create control
  connection, call the handler, write the response, evict the old control connection, `UpdateAuth`);
* `internal/protocol/session/client_registry.go`: `Register`, `UpdateAuth`, `Remove`/`removeConnectionLocked`.

Crypto is symbolic: client `k` owns secret `Key.client k`; a response is `hmac key nonce | junk` where `key` may also
be the empty string, the client's stored ciphertext bytes or its deprecated plaintext field; nonces are numbered in
order of issue (trusted base: secrets pairwise distinct, nonces never repeat, HMAC collision free).
Connections, clients, addresses and nonces are natural numbers; finite maps are total functions.
-/
namespace Tunnox.C03
open Gen

/-- point update of a total map -/
def upd {α} (f : Nat → α) (i : Nat) (v : α) : Nat → α := fun j => if j = i then v else f j

@[simp] theorem upd_same {α} (f : Nat → α) (i : Nat) (v : α) : upd f i v i = v := by simp [upd]
theorem upd_other {α} (f : Nat → α) (i j : Nat) (v : α) (h : j ≠ i) : upd f i v j = f j := by simp [upd, h]
theorem upd_apply {α} (f : Nat → α) (i j : Nat) (v : α) : upd f i v j = if j = i then v else f j := rfl

/-! ## Messages -/

/-- `HandshakeRequest.ConnectionType` -/
inductive Ty | control | tunnel | empty | weird
deriving DecidableEq, Repr

/-- which challenge a response was computed over: the latest / the previous challenge the client
*received* on connection `d` -/
inductive NRef | last (d : Nat) | prev (d : Nat)
deriving DecidableEq, Repr

/-- the key a response was computed under: the secret client `k` was given at registration, the empty key, the
bytes of client `k`'s stored ciphertext, or the content of client `k`'s deprecated plaintext field.  Only
`client k` is the secret that `Decrypt` yields for a `usable` client `k`. -/
inductive Key | client (k : Nat) | empty | cipher (k : Nat) | plain (k : Nat)
deriving DecidableEq, Repr

/-- a numeral is the secret of that client -/
instance (n : Nat) : OfNat Key n := ⟨.client n⟩

/-- `HandshakeRequest.ChallengeResponse` as sent: empty, junk, or an HMAC under client `key`'s secret -/
inductive RespRef | none | junk | hmac (key : Key) (r : NRef)
deriving DecidableEq, Repr

/-- the same after resolving the reference (`n = none`: a nonce the server never issued) -/
inductive Resp | none | junk | hmac (key : Key) (n : Option Nat)
deriving DecidableEq, Repr

/-- `HandshakeRequest.ClientID`: client number `k` of the table (`k ≥` table size: an id that does
not exist) or the id 0 (with a token that is not a first-connection token) -/
inductive CRef | idx (k : Nat) | zero
deriving DecidableEq, Repr

inductive Event
  | fc (c : Nat) (ty : Ty)                                  -- ClientID 0, token "new-client" / "anonymous:…"
  | hs (c : Nat) (ty : Ty) (k : CRef) (resp : RespRef)      -- every other well-formed handshake request
  | mal (c : Nat)                                           -- payload that is not JSON
  | ban (ip : Nat) | unban (ip : Nat)                       -- BruteForceProtector.BanIP (temporary, long) / UnbanIP
  | banp (ip : Nat)                                         -- BanIP(ip, 0): a permanent ban
  | bans (ip : Nat)                                         -- BanIP with a duration that has run out before the next event
  | bl (ip : Nat) | unbl (ip : Nat)                         -- IPManager.AddToBlacklist / RemoveFromBlacklist (one address)
  | blr (g : Nat) | unblr (g : Nat)                         -- the same for a CIDR range: range `g` covers addresses 2g, 2g+1
  | restart                                                 -- a new IPManager over the same storage replaces the live one
  | wl (ip : Nat) | unwl (ip : Nat)                         -- IPManager.AddToWhitelist / RemoveFromWhitelist (one address)
  | unexp (k : Nat)                                         -- the client's credentials never expire (ExpiresAt = nil)
  | claim (k : Nat)                                         -- client service UpdateClient with a UserID: claimed, ExpiresAt KEPT
  | bind (k : Nat)                                          -- client service BindToUser: UserID set, ExpiresAt cleared
  | ext (k : Nat)                                           -- client service ExtendExpiration(days > 0): ExpiresAt in the future
  | issue (fails : Bool)                                    -- from now on GenerateAnonymousCredentials fails / works again
  | refill (ip : Nat)                                       -- time passes for the anonymous-connection limiter
  | exp (k : Nat) | del (k : Nat) | strip (k : Nat) (st : SecState)   -- credentials expire / config deleted / stored secret becomes `st`
deriving DecidableEq, Repr

def Event.conn? : Event → Option Nat
  | .fc c _ => some c | .hs c _ _ _ => some c | .mal c => some c | _ => none

/-! ## State -/

/-- `*ControlConnection` as far as the handshake touches it -/
structure Ctl where
  auth : Bool := false
  id : Option Nat := none          -- ClientID (none = 0)
  pending : Option Nat := none     -- PendingChallenge (none = "")
deriving DecidableEq, Repr, Inhabited

/-- What the outside world knows and does, updated in the same way by the model and by the observer
(`Spec.holds`): the challenges each connection *received*, the nonces of accepted-and-acknowledged phase-2
messages, administrative bans, the blacklist and the credential table flags. -/
structure Env where
  lastCh : Nat → Option Nat := fun _ => none
  prevCh : Nat → Option Nat := fun _ => none
  usedSeen : List Nat := []
  seen : List Nat := []                     -- every challenge value a client ever received, newest first
  xban : Nat → Bool := fun _ => false       -- ghost: banned by an explicit `ban`/`banp` event (⊆ banned)
  xperm : Nat → Bool := fun _ => false      -- ghost: permanently banned by an explicit `banp` event (⊆ perm)
  bl : Nat → Bool := fun _ => false         -- IPManager.blacklist
  blr : Nat → Bool := fun _ => false        -- IPManager.blacklist, CIDR entries (per range)
  wl : Nat → Bool := fun _ => false         -- IPManager.whitelist (exact entries)
  issueFails : Bool := false                -- fault: credential generation (storage / crypto) fails
  cl : Nat → ClientConfigT := fun _ => {}   -- ClientConfig per client number

/-- `IPManager.findInList(ip, blacklist) != nil`: an exact entry for the address or a CIDR entry whose range contains
it.  The blacklist is persisted (`saveToStorage` / `removeFromStorage`) and reloaded by `NewIPManager`
(`loadFromStorage`), so it is the same for the live instance and for one created later over the same storage.
A whitelisted address is never blocked (`IsAllowed` looks at the whitelist first). -/
def Env.blocked (g : Env) (ip : Nat) : Bool := !g.wl ip && (g.bl ip || g.blr (ip / 2))

/-- what a written HandshakeResponse looks like (or that none was written) -/
inductive RespObs | ok | new (k : Nat) | ch (n : Nat) | fail | none | na
deriving DecidableEq, Repr

structure Srv where
  now : Nat                                   -- the clock (frozen during a sequence; `exp` moves ExpiresAt instead)
  nConns : Nat
  ipOf : Nat → Nat
  nIps : Nat
  rlBurst : Nat
  nClients : Nat := 0
  ctl : Nat → Option Ctl := fun _ => none     -- ClientRegistry.connMap
  closed : Nat → Bool := fun _ => false       -- the connection's StreamProcessor was closed (by eviction)
  reg : Nat → Option Nat := fun _ => none     -- ClientRegistry.clientIDMap (client ↦ ConnID)
  banned : Nat → Bool := fun _ => false       -- BruteForceProtector.bannedIPs: a record that has not expired
  perm : Nat → Bool := fun _ => false         -- … and that record is permanent (ExpiresAt zero)
  fails : Nat → Nat := fun _ => 0             -- failures inside the window (= TotalCount while no window elapses)
  rlUsed : Nat → Nat := fun _ => 0            -- tokens taken from the address's bucket
  nextNonce : Nat := 0
  accepted : List Nat := []                   -- ghost: nonce of every accepted phase 2, newest first
  env : Env := {}

def Env.resolveN (g : Env) : NRef → Option Nat
  | .last d => g.lastCh d
  | .prev d => g.prevCh d

def Env.resolve (g : Env) : RespRef → Resp
  | .none => .none
  | .junk => .junk
  | .hmac key r => .hmac key (g.resolveN r)

def ttl30 : Nat := anonymous.AnonymousExpirationDays * 24 * 3600 * 1000000000

/-- The observer's update of `Env`: it sees the event and the response that was written. `nc` = table size
before the event. -/
def Env.track (g : Env) (now nc : Nat) (e : Event) (r : RespObs) : Env :=
  match e with
  | .fc _ _ => g
  | .hs c _ _ resp =>
    match r with
    | .ch n => { g with lastCh := upd g.lastCh c (some n), prevCh := upd g.prevCh c (g.lastCh c), seen := n :: g.seen }
    | .ok =>
      match g.resolve resp with
      | .hmac _ (some n) => { g with usedSeen := n :: g.usedSeen }
      | _ => g
    | _ => g
  | .mal _ => g
  | .ban ip => { g with xban := upd g.xban ip true }
  | .unban ip => { g with xban := upd g.xban ip false, xperm := upd g.xperm ip false }
  | .banp ip => { g with xban := upd g.xban ip true, xperm := upd g.xperm ip true }
  | .bans ip => if g.xperm ip then g else { g with xban := upd g.xban ip false }
  | .bl ip => { g with bl := upd g.bl ip true }
  | .unbl ip => { g with bl := upd g.bl ip false }
  | .blr r => { g with blr := upd g.blr r true }
  | .unblr r => { g with blr := upd g.blr r false }
  | .restart => g
  | .wl ip => { g with wl := upd g.wl ip true }
  | .unwl ip => { g with wl := upd g.wl ip false }
  | .unexp k => if k < nc && !(g.cl k).deleted then { g with cl := upd g.cl k { g.cl k with ExpiresAt := none } } else g
  | .claim k => if k < nc && !(g.cl k).deleted then { g with cl := upd g.cl k { g.cl k with UserID := "u" } } else g
  | .bind k => if k < nc && !(g.cl k).deleted then { g with cl := upd g.cl k { g.cl k with UserID := "u", ExpiresAt := none } } else g
  | .ext k => if k < nc && !(g.cl k).deleted then { g with cl := upd g.cl k { g.cl k with ExpiresAt := some (now + ttl30) } } else g
  | .issue b => { g with issueFails := b }
  | .refill _ => g
  | .exp k => if k < nc && !(g.cl k).deleted then { g with cl := upd g.cl k { g.cl k with ExpiresAt := some (now - 1) } } else g
  | .del k => if k < nc then { g with cl := upd g.cl k { g.cl k with deleted := true } } else g
  | .strip k st => if k < nc && !(g.cl k).deleted then { g with cl := upd g.cl k { g.cl k with secret := st } } else g

/-! ## security package -/

/-- `BruteForceProtector.RecordFailure`: count, then ban permanently at `PermanentBanAt`, else temporarily at `MaxFailures`. -/
def recordFailure (s : Srv) (ip : Nat) : Srv :=
  if s.fails ip + 1 ≥ security.DefaultPermanentBanAt then
    { s with fails := upd s.fails ip (s.fails ip + 1), banned := upd s.banned ip true, perm := upd s.perm ip true }
  else if s.fails ip + 1 ≥ security.DefaultMaxFailures then
    { s with fails := upd s.fails ip (s.fails ip + 1), banned := upd s.banned ip true }
  else { s with fails := upd s.fails ip (s.fails ip + 1) }

/-- `BruteForceProtector.RecordSuccess` -/
def recordSuccess (s : Srv) (ip : Nat) : Srv := { s with fails := upd s.fails ip 0 }

/-- `IPManager.IsAllowed` -/
def isAllowed (s : Srv) (ip : Nat) : Bool := !s.env.blocked ip
/-- `BruteForceProtector.IsBanned` -/
def isBanned (s : Srv) (ip : Nat) : Bool := s.banned ip

/-- `RateLimiter.AllowIP` -/
def allowIP (s : Srv) (ip : Nat) : Srv × Bool :=
  if s.rlUsed ip < s.rlBurst then ({ s with rlUsed := upd s.rlUsed ip (s.rlUsed ip + 1) }, true) else (s, false)

/-- `SecretKeyManager.VerifyResponse(config.SecretKeyEncrypted, challenge, response)` for client `k`:
decrypt the stored key (possible only for a `usable` stored secret; otherwise the answer is `false` whatever the
response), compute the HMAC over the challenge, compare. -/
def verifyResponse (cfg : ClientConfigT) (k n : Nat) (resp : Resp) : Bool :=
  cfg.secret == .usable && resp == .hmac (.client k) (some n)

/-! ## auth handler -/

def getCtl (s : Srv) (c : Nat) : Ctl := (s.ctl c).getD {}
def setCtl (s : Srv) (c : Nat) (v : Ctl) : Srv := { s with ctl := upd s.ctl c (some v) }

/-- the handler's verdict -/
inductive HRes | ok | issued (k : Nat) | challenge (n : Nat) | err
deriving DecidableEq, Repr

structure Req where
  zeroId : Bool      -- req.ClientID == 0
  first : Bool       -- isFirstConnection
  k : CRef
  resp : Resp

/-- `cloudControl.GetClientConfig(req.ClientID)` -/
def getClientConfig (s : Srv) : CRef → Option (Nat × ClientConfigT)
  | .zero => none
  | .idx k => if k < s.nClients && !(s.env.cl k).deleted then some (k, s.env.cl k) else none

/-- `handleFirstConnection`: new credentials, RecordSuccess, SetClientID, SetAuthenticated. -/
def handleFirstConnection (s : Srv) (c ip : Nat) : Srv × HRes :=
  if s.env.issueFails then (recordFailure s ip, .err)      -- GenerateAnonymousCredentials failed: RecordFailure, error
  else
  (setCtl (recordSuccess { s with nClients := s.nClients + 1 } ip) c { getCtl s c with id := some s.nClients, auth := true },
   .issued s.nClients)

/-- `handleChallengePhase1` -/
def handleChallengePhase1 (s : Srv) (c : Nat) (cfg : ClientConfigT) : Srv × HRes :=
  if cfg.secret == .empty || cfg.secret == .legacy then (s, .err)      -- config.SecretKeyEncrypted == ""
  else (setCtl { s with nextNonce := s.nextNonce + 1 } c { getCtl s c with pending := some s.nextNonce }, .challenge s.nextNonce)

/-- `handleChallengePhase2`: no pending challenge → failure; clear it; verify; only then bind the identity. -/
def handleChallengePhase2 (s : Srv) (c ip k : Nat) (cfg : ClientConfigT) (resp : Resp) : Srv × HRes :=
  match (getCtl s c).pending with
  | none => (recordFailure s ip, .err)
  | some n =>
    if !verifyResponse cfg k n resp then
      (recordFailure (setCtl s c { getCtl s c with pending := none }) ip, .err)
    else
      (setCtl (recordSuccess { s with accepted := n :: s.accepted } ip) c { auth := true, id := some k, pending := none }, .ok)

/-- steps 4 and 5 of `HandleHandshake` (after the three gates): first connection, or look the client up,
check expiry, and run phase 1 (empty response) or phase 2. -/
def authenticate (s : Srv) (c : Nat) (req : Req) : Srv × HRes :=
  if req.first then handleFirstConnection s c (s.ipOf c)
  else
    match getClientConfig s req.k with
    | none => (recordFailure s (s.ipOf c), .err)
    | some kc =>
      if models.ClientConfig.IsExpired s.now kc.2 then (s, .err)
      else if req.resp == .none then handleChallengePhase1 s c kc.2
      else handleChallengePhase2 s c (s.ipOf c) kc.1 kc.2 req.resp

/-- `ServerAuthHandler.HandleHandshake`: blacklist, ban, anonymous rate limit, then `authenticate`. -/
def HandleHandshake (s : Srv) (c : Nat) (req : Req) : Srv × HRes :=
  if !isAllowed s (s.ipOf c) then (s, .err)
  else if isBanned s (s.ipOf c) then (s, .err)
  else if req.zeroId then
    (if (allowIP s (s.ipOf c)).2 then authenticate (allowIP s (s.ipOf c)).1 c req else (s, .err))
  else authenticate s c req

/-! ## session layer -/

/-- `ClientRegistry.unindexLocked(conn)`: drop every client-index entry that points at the connection object.
The index holds object pointers; for connections that are in `connMap` (the only ones ever indexed or unindexed)
object identity and connection id coincide, so the model keeps connection ids. -/
def unindex (reg : Nat → Option Nat) (o : Nat) : Nat → Option Nat :=
  fun y => if reg y == some o then none else reg y

/-- `ClientRegistry.Remove(connID)` → `removeConnectionLocked`: close the stream, `unindexLocked`, drop the connection. -/
def removeConn (s : Srv) (o : Nat) : Srv :=
  match s.ctl o with
  | none => s
  | some _ => { s with closed := upd s.closed o true, reg := unindex s.reg o, ctl := upd s.ctl o none }

/-- `ClientRegistry.DropStaleIndex(conn)`: drop the entries that point at the connection under a client id other than
its current `ClientID` (called right after the auth handler returned without error). -/
def dropStaleIndex (s : Srv) (c : Nat) : Srv :=
  { s with reg := fun y => if s.reg y == some c && (getCtl s c).id != some y then none else s.reg y }

/-- "old connection exists and is another one": `clientRegistry.Remove(oldConn.GetConnID())` -/
def evictOld (s : Srv) (c x : Nat) : Srv :=
  match s.reg x with
  | some o => if o != c then removeConn s o else s
  | none => s

/-- `ClientRegistry.UpdateAuth(connID, clientID, userID)`: set the fields, `unindexLocked`, index under the client id -/
def updateAuth (s : Srv) (c x : Nat) : Srv :=
  { s with ctl := upd s.ctl c (some { getCtl s c with id := some x, auth := true }),
           reg := upd (unindex s.reg c) x (some c) }

/-- the block guarded by `isControlConnection && IsAuthenticated() && GetClientID() > 0`:
evict the connection currently registered for the client if it is another one, then `UpdateAuth`. -/
def registryUpdate (s : Srv) (c x : Nat) : Srv := updateAuth (evictOld s c x) c x

def respOf : HRes → RespObs
  | .ok => .ok | .issued k => .new k | .challenge n => .ch n | .err => .fail

/-- get-or-create the control connection of `c` (`NewControlConnection` + `RegisterControlConnection`) -/
def ensureCtl (s : Srv) (c : Nat) : Srv :=
  if (s.ctl c).isNone then { s with ctl := upd s.ctl c (some {}) } else s

/-- after `DropStaleIndex`: write the response (a closed stream makes that fail: return), then, for a control
connection that is authenticated with a client id, update the registry. -/
def respondOk (t : Srv) (c : Nat) (ty : Ty) (res : HRes) : Srv × RespObs :=
  if t.closed c then (t, .none)
  else if ty != .tunnel && (getCtl t c).auth && (getCtl t c).id.isSome then
    (registryUpdate t c ((getCtl t c).id.getD 0), respOf res)
  else (t, respOf res)

/-- the tail of `handleHandshake` after `authHandler.HandleHandshake` returned `res`: on error write a failure
response and return; otherwise `DropStaleIndex`, then `respondOk`. -/
def respond (t : Srv) (c : Nat) (ty : Ty) (res : HRes) : Srv × RespObs :=
  if res == .err then (t, if t.closed c then .none else .fail)
  else respondOk (dropStaleIndex t c) c ty res

/-- `SessionManager.handleHandshake` on an already parsed request. -/
def handleHandshake (s : Srv) (c : Nat) (ty : Ty) (req : Req) : Srv × RespObs :=
  if c ≥ s.nConns then (s, .none)                                      -- "connection not found"
  else respond (HandleHandshake (ensureCtl s c) c req).1 c ty (HandleHandshake (ensureCtl s c) c req).2

/-- everything but the `Env` bookkeeping -/
def stepCore (s : Srv) : Event → Srv × RespObs
  | .fc c ty => handleHandshake s c ty { zeroId := true, first := true, k := .zero, resp := .none }
  | .hs c ty k resp => handleHandshake s c ty { zeroId := k == .zero, first := false, k := k, resp := s.env.resolve resp }
  | .mal _ => (s, .none)                                              -- json.Unmarshal fails before anything else
  | .ban ip => ({ s with banned := upd s.banned ip true }, .na)
  | .unban ip => ({ s with banned := upd s.banned ip false, perm := upd s.perm ip false }, .na)
  | .banp ip => ({ s with banned := upd s.banned ip true, perm := upd s.perm ip true }, .na)
  -- `banIP`: a temporary ban never replaces a permanent one; otherwise it replaces the record, and this one has run out
  | .bans ip => (if s.perm ip then s else { s with banned := upd s.banned ip false }, .na)
  | .bl _ => (s, .na)
  | .unbl _ => (s, .na)
  | .blr _ => (s, .na)
  | .unblr _ => (s, .na)
  | .restart => (s, .na)      -- `loadFromStorage` restores exactly what `saveToStorage`/`removeFromStorage` kept
  | .refill ip => ({ s with rlUsed := upd s.rlUsed ip 0 }, .na)
  | .exp _ => (s, .na)
  | .wl _ => (s, .na)
  | .unwl _ => (s, .na)
  | .unexp _ => (s, .na)
  | .claim _ => (s, .na)
  | .bind _ => (s, .na)
  | .ext _ => (s, .na)
  | .issue _ => (s, .na)
  | .del _ => (s, .na)
  | .strip _ _ => (s, .na)

/-- one event: the server's transition, then the world's bookkeeping of what it saw -/
def step (s : Srv) (e : Event) : Srv × RespObs :=
  ({ (stepCore s e).1 with env := s.env.track s.now s.nClients e (stepCore s e).2 }, (stepCore s e).2)

/-! ## observations -/

structure ConnObs where
  auth : Bool
  id : Option Nat
  pending : Option Nat
deriving DecidableEq, Repr

structure ObsState where
  conns : List (Option ConnObs)     -- per connection: none = no control connection registered
  lookups : List (Option Nat)       -- per client: GetControlConnectionByClientID ↦ connection
  bans : List Bool                  -- per address: IsBanned
  bls : List Bool                   -- per address: !IsAllowed
deriving DecidableEq, Repr

structure StepObs where
  resp : RespObs
  st : ObsState
deriving DecidableEq, Repr

def connObs (o : Ctl) : ConnObs := ⟨o.auth, o.id, o.pending⟩

def obsState (s : Srv) : ObsState :=
  { conns := (List.range s.nConns).map (fun c => (s.ctl c).map connObs),
    lookups := (List.range s.nClients).map s.reg,
    bans := (List.range s.nIps).map s.banned,
    bls := (List.range s.nIps).map s.env.blocked }

def run (s : Srv) : List Event → List StepObs
  | [] => []
  | e :: es => ⟨(step s e).2, obsState (step s e).1⟩ :: run (step s e).1 es

/-- initial state: `ips` = address of each connection, `nc` pre-provisioned clients (stored-secret state of client `k`:
`secs[k]`, default usable), limiter burst `burst` -/
def Srv.init (now : Nat) (ips : List Nat) (nc burst : Nat) (secs : List SecState := []) : Srv :=
  { now := now, nConns := ips.length, ipOf := fun c => ips.getD c 0, nIps := ips.foldl (fun m i => max m (i + 1)) 0,
    rlBurst := burst, nClients := nc,
    env := { cl := fun k => { ExpiresAt := some (now + ttl30), secret := secs.getD k .usable } } }

end Tunnox.C03

namespace Tunnox.C03
/-- the state after a history -/
def runState (s : Srv) : List Event → Srv
  | [] => s
  | e :: es => runState (step s e).1 es
end Tunnox.C03
