import TunnoxModel.Model.C19
/-!
  C19 — single storage-failure injection for `CreateMapping` (rollback paths).
  `createFault … k` is one sequential run of `CreateMapping` in which the `k`-th storage call fails
  (1 Incr, 2 SetNX index, 3 Set record, 4 AppendToList client, 5 AppendToList global; `k = 0` or `k > 5`: no failure).
  Mirrors http_domain_mapping_repository.go CreateMapping steps 3–10 with their rollbacks.
-/
namespace Tunnox.C19
open Gen

def createFault (cf : Config) (s : Store) (cl : Nat) (sub base th : String) (tp k : Nat) : Store × Res :=
  if !(isBaseDomainSupported cf base) then (s, .err coreerrors.CodeInvalidParam)
  else if k = 1 then (s, .err coreerrors.CodeStorageError)
  else if !(repos.HTTPDomainMapping.Validate (mkRec (s.next + 1) cl sub base th tp))
    then ({ s with next := s.next + 1 }, .err coreerrors.CodeValidationError)
  else if k = 2 then ({ s with next := s.next + 1 }, .err coreerrors.CodeStorageError)
  else match s.index (sub ++ "." ++ base) with
    | some _ => ({ s with next := s.next + 1 }, .err coreerrors.CodeAlreadyExists)
    | none =>
      if k = 3 then
        -- Set record fails: rollback deletes the index entry just claimed
        ({ s with next := s.next + 1, index := upd (upd s.index (sub ++ "." ++ base) (some (s.next + 1))) (sub ++ "." ++ base) none },
         .err coreerrors.CodeStorageError)
      else if k = 4 then
        -- client list append fails: rollback deletes record and index entry
        ({ s with next := s.next + 1,
                  index := upd (upd s.index (sub ++ "." ++ base) (some (s.next + 1))) (sub ++ "." ++ base) none,
                  data := upd (upd s.data (s.next + 1) (some (mkRec (s.next + 1) cl sub base th tp))) (s.next + 1) none },
         .err coreerrors.CodeStorageError)
      else
        ({ s with next := s.next + 1,
                  index := upd s.index (sub ++ "." ++ base) (some (s.next + 1)),
                  data := upd s.data (s.next + 1) (some (mkRec (s.next + 1) cl sub base th tp)),
                  clientList := upd s.clientList cl (appendId (s.next + 1) (s.clientList cl)),
                  globalList := if k = 5 then s.globalList else appendId (s.next + 1) s.globalList },
         .okId (s.next + 1))

/-- The store after running the operations of thread 0 of `i` one after the other (the harness's "pre" phase). -/
def seqStore (i : Input) : Store :=
  (drain i.cf i.threads.length (drainFuel i) (runSched i.cf (initCfg i) i.sched).1).1.st

/-- What the fault harness observes: the store before, the result, the store after. -/
structure FaultObs where
  before : Final
  res : Res
  after : Final

def Final.sameEntries (a b : Final) : Bool :=
  a.idx == b.idx && a.recs == b.recs && a.clists == b.clists && a.glist == b.glist

/-- A create that did not succeed leaves no index, record or list entry behind. -/
def holdsFault (o : FaultObs) : Bool :=
  match o.res with
  | .okId _ => true
  | .err _ => o.before.sameEntries o.after
  | _ => false

/-- The fault case: `pre` runs first (no failure), then the create with its `k`-th storage call failing.
`i` carries `pre` as thread 0; `uni` is `i` with the faulty create appended (only used to enumerate the digest). -/
def modelFault (i uni : Input) (cl : Nat) (sub base th : String) (tp k : Nat) : FaultObs :=
  { before := finalOf uni (seqStore i)
    res := (createFault i.cf (seqStore i) cl sub base th tp k).2
    after := finalOf uni (createFault i.cf (seqStore i) cl sub base th tp k).1 }

end Tunnox.C19
