import TunnoxModel.Model.C19Types
import TunnoxModel.Gen.C19
/-!
  C19 — a public domain routes only to its single rightful owner.  Executable model.

  Mirrors, one Lean function per Go function and one model step per storage call:
  * internal/cloud/repos/http_domain_mapping_repository.go
      CreateMapping  (isBaseDomainSupported, generateMappingID/Incr, Validate, SetNX index, Set data,
                      addToClientMappingList, addToGlobalMappingList)
      DeleteMapping  (GetMapping, owner check, SetNX delete claim, Get index, conditional Delete index,
                      Delete data, list removals, deferred release of the claim)
                     — `.asFound`: no claim, index deleted unconditionally (the tree before the fix)
      UpdateMapping  (GetMapping, immutable-field check, Validate, Set data)
      LookupByDomain / GetMapping
  * internal/httpservice/modules/domainproxy/mapping_lookup.go
      extractDomain, lookupMapping (three stages), lookupFromRepositoryWithRepo
  * internal/httpservice/domain_registry.go   Register, LookupByHost

  The store is the small sequential key/value semantics the repository relies on (Get/Set/Delete/
  SetNX/Incr/list append+remove on `memory.Storage`), kept local to this file: finite maps are total
  functions, so that every invariant is a plain `∀ key`.  Interleaving semantics: a configuration is
  the store plus one program counter per client thread; `stepThread t` runs thread `t` from one
  storage call to the next (the gated harness store makes the real code do exactly that).
-/
namespace Tunnox.C19
open Gen

abbrev Rec := HTTPDomainMapping

/-- Point update of a total map. -/
def upd {α β} [DecidableEq α] (f : α → β) (k : α) (v : β) : α → β := fun x => if x = k then v else f x

/-- `models.PortMapping` as far as `lookupMapping` reads it (`expires = 0` ↔ `ExpiresAt == nil`). -/
structure PM where
  ID : String
  client : Nat
  thost : String
  tport : Nat
  sub : String
  base : String
  status : String
  revoked : Bool
  expires : Nat
deriving DecidableEq, Repr

/-- `PortMapping.FullDomain()` for an HTTP mapping. -/
def PM.fullDomain (m : PM) : String :=
  if m.sub == "" || m.base == "" then "" else m.sub ++ "." ++ m.base

inductive Op
  | create (client : Nat) (sub base thost : String) (tport : Nat)
  | del (id : Nat) (client : Nat)
  | upd (id : Nat) (status : String) (exp : Nat) (thost : String) (tport : Nat)
  | look (host : String)
deriving DecidableEq, Repr

inductive Res
  | okId (n : Nat)
  | ok
  | err (code : String)
  | route (pid : String) (client : Nat) (thost : String) (tport : Nat)
deriving DecidableEq, Repr

inductive Variant | asFound | repaired
deriving DecidableEq, Repr

structure Config where
  variant : Variant
  now : Nat
  bases : List String
  cloud : List PM

/-- ghost record of a successful index claim: who claimed which name with which target -/
structure Origin where
  dom : String
  client : Nat
  thost : String
  tport : Nat
deriving DecidableEq, Repr

structure Store where
  next : Nat
  index : String → Option Nat
  data : Nat → Option Rec
  claims : Nat → Bool
  clientList : Nat → Option (List Nat)
  globalList : Option (List Nat)
  registry : String → Option PM
  /-- ghost: origin of mapping `n`, set by the successful index claim -/
  born : Nat → Option Origin
  /-- ghost: every delete request invoked so far, `(id, client)` -/
  delReq : List (Nat × Nat)
  /-- ghost: the creating `CreateMapping` has stored the record of mapping `n` (step 8) -/
  written : Nat → Bool

inductive PC
  | idle
  | cIncr | cSetNX (n : Nat) | cSetData (n : Nat) | cAppC (n : Nat) | cAppG (n : Nat)
  | dGet | dClaim (r : Rec) | dIdxGet (r : Rec) | dIdxDel (r : Rec) | dData (r : Rec) | dRemC (r : Rec)
  | dRemG (r : Rec) | dRelease
  | uGet0 | uGet1 (r : Rec) | uSet (r : Rec)
  | lIdx | lData (n : Nat) | lCloud
deriving DecidableEq, Repr

def PC.isIdle : PC → Bool
  | .idle => true
  | _ => false

structure Thread where
  todo : List Op
  pc : PC

structure Cfg where
  st : Store
  th : Nat → Thread

/-- What one scheduler slot shows: the thread, whether it had anything to run, the operation invoked in it (if any), the operation
that returned in it with its result (if any). -/
structure Slot where
  tid : Nat
  ran : Bool
  inv : Option Op
  ret : Option (Op × Res)
deriving DecidableEq, Repr

/-! ### pure helpers -/

/-- `fmt.Sprintf("hdm_%d", n)` -/
def mappingID (n : Nat) : String := "hdm_" ++ toString n

/-- `extractDomain` (mapping_lookup.go): everything before the last `:`; the host itself if none. -/
def extractDomainL (h : List Char) : List Char :=
  if h.contains ':' then ((h.reverse.dropWhile (· != ':')).drop 1).reverse else h

def extractDomain (h : String) : String := String.ofList (extractDomainL h.toList)

/-- `isBaseDomainSupported` -/
def isBaseDomainSupported (cf : Config) (b : String) : Bool := cf.bases.any (· == b)

/-- The record `CreateMapping` builds (step 4). -/
def mkRec (n client : Nat) (sub base thost : String) (tport : Nat) : Rec :=
  ⟨mappingID n, sub, base, sub ++ "." ++ base, client, thost, tport, repos.HTTPDomainMappingStatusActive, 0⟩

/-- `convertHTTPDomainMappingToPortMapping` (only the fields the proxy reads afterwards). -/
def toPM (r : Rec) : PM :=
  ⟨r.ID, r.ClientID, r.TargetHost, r.TargetPort, r.Subdomain, r.BaseDomain, models.MappingStatusActive, false, r.ExpiresAt⟩

def routeOf (m : PM) : Res := .route m.ID m.client m.thost m.tport

/-- The status / revocation / expiry checks `lookupMapping` applies to a registry or cloud mapping. -/
def pmCheck (now : Nat) (m : PM) : Res :=
  if m.status != models.MappingStatusActive then .err coreerrors.CodeUnavailable
  else if m.revoked then .err coreerrors.CodeForbidden
  else if m.expires != 0 && decide (m.expires < now) then .err coreerrors.CodeForbidden
  else routeOf m

/-- `DomainRegistry.Register` (protocol is always http here). -/
def registerPM (cf : Config) (reg : String → Option PM) (m : PM) : String → Option PM :=
  if m.fullDomain == "" then reg
  else if !(cf.bases.isEmpty || cf.bases.any (· == m.base)) then reg
  else match reg m.fullDomain with
    | some ex => if ex.ID != m.ID then reg else upd reg m.fullDomain (some m)
    | none => upd reg m.fullDomain (some m)

/-- The cloud-control double: first entry whose (non-empty) full domain equals the key. -/
def cloudFind (cf : Config) (key : String) : Option PM :=
  cf.cloud.find? (fun m => m.fullDomain != "" && m.fullDomain == key)

/-- Stage 2 of `lookupMapping`: the old in-memory registry; falls through to the cloud stage. -/
def registryStage (cf : Config) (s : Store) (host : String) : Store × PC × Option Res :=
  match s.registry (extractDomain host) with
  | some m => (s, .idle, some (pmCheck cf.now m))
  | none => (s, .lCloud, none)

def removeId (n : Nat) (l : Option (List Nat)) : Option (List Nat) := l.map (·.filter (· != n))
def appendId (n : Nat) (l : Option (List Nat)) : Option (List Nat) := some (l.getD [] ++ [n])

/-! ### one storage step of one operation -/

def stepCreate (cf : Config) (s : Store) (client : Nat) (sub base thost : String) (tport : Nat) (pc : PC) :
    Store × PC × Option Res :=
  match pc with
  | .idle =>
    if isBaseDomainSupported cf base then (s, .cIncr, none) else (s, .idle, some (.err coreerrors.CodeInvalidParam))
  | .cIncr =>
    if repos.HTTPDomainMapping.Validate (mkRec (s.next + 1) client sub base thost tport)
    then ({ s with next := s.next + 1 }, .cSetNX (s.next + 1), none)
    else ({ s with next := s.next + 1 }, .idle, some (.err coreerrors.CodeValidationError))
  | .cSetNX n =>
    match s.index (sub ++ "." ++ base) with
    | none => ({ s with index := upd s.index (sub ++ "." ++ base) (some n),
                        born := upd s.born n (some ⟨sub ++ "." ++ base, client, thost, tport⟩) }, .cSetData n, none)
    | some _ => (s, .idle, some (.err coreerrors.CodeAlreadyExists))
  | .cSetData n => ({ s with data := upd s.data n (some (mkRec n client sub base thost tport)), written := upd s.written n true }, .cAppC n, none)
  | .cAppC n => ({ s with clientList := upd s.clientList client (appendId n (s.clientList client)) }, .cAppG n, none)
  | .cAppG n => ({ s with globalList := appendId n s.globalList }, .idle, some (.okId n))
  | _ => (s, .idle, some (.err "BADPC"))

def stepDelete (cf : Config) (s : Store) (n client : Nat) (pc : PC) : Store × PC × Option Res :=
  match pc with
  | .idle => ({ s with delReq := (n, client) :: s.delReq }, .dGet, none)
  | .dGet =>
    match s.data n with
    | none => (s, .idle, some .ok)
    | some r =>
      if r.ClientID != client then (s, .idle, some (.err coreerrors.CodeForbidden))
      else match cf.variant with
        | .repaired => (s, .dClaim r, none)
        | .asFound => (s, .dIdxDel r, none)
  | .dClaim r =>
    if s.claims n then (s, .idle, some (.err coreerrors.CodeConflict))
    else ({ s with claims := upd s.claims n true }, .dIdxGet r, none)
  | .dIdxGet r => if s.index r.FullDomain == some n then (s, .dIdxDel r, none) else (s, .dData r, none)
  | .dIdxDel r => ({ s with index := upd s.index r.FullDomain none }, .dData r, none)
  | .dData r => ({ s with data := upd s.data n none }, .dRemC r, none)
  | .dRemC r => ({ s with clientList := upd s.clientList client (removeId n (s.clientList client)) }, .dRemG r, none)
  | .dRemG _ =>
    match cf.variant with
    | .repaired => ({ s with globalList := removeId n s.globalList }, .dRelease, none)
    | .asFound => ({ s with globalList := removeId n s.globalList }, .idle, some .ok)
  | .dRelease => ({ s with claims := upd s.claims n false }, .idle, some .ok)
  | _ => (s, .idle, some (.err "BADPC"))

def stepUpdate (s : Store) (n : Nat) (status : String) (exp : Nat) (thost : String) (tport : Nat) (pc : PC) :
    Store × PC × Option Res :=
  match pc with
  | .idle => (s, .uGet0, none)
  | .uGet0 =>
    match s.data n with
    | none => (s, .idle, some (.err coreerrors.CodeMappingNotFound))
    | some r => (s, .uGet1 { r with Status := status, ExpiresAt := exp, TargetHost := thost, TargetPort := tport }, none)
  | .uGet1 r =>
    match s.data n with
    | none => (s, .idle, some (.err coreerrors.CodeMappingNotFound))
    | some ex =>
      if r.Subdomain != ex.Subdomain || r.BaseDomain != ex.BaseDomain || r.FullDomain != ex.FullDomain
          || r.ClientID != ex.ClientID
      then (s, .idle, some (.err coreerrors.CodeInvalidRequest))
      else if !(repos.HTTPDomainMapping.Validate r) then (s, .idle, some (.err coreerrors.CodeValidationError))
      else (s, .uSet r, none)
  | .uSet r => ({ s with data := upd s.data n (some r) }, .idle, some .ok)
  | _ => (s, .idle, some (.err "BADPC"))

def stepLookup (cf : Config) (s : Store) (host : String) (pc : PC) : Store × PC × Option Res :=
  match pc with
  | .idle => (s, .lIdx, none)
  | .lIdx =>
    match s.index (extractDomain host) with
    | none => registryStage cf s host
    | some n => (s, .lData n, none)
  | .lData n =>
    match s.data n with
    | none => registryStage cf s host
    | some r =>
      if !(repos.HTTPDomainMapping.IsActive cf.now r) then
        (if repos.HTTPDomainMapping.IsExpired cf.now r then (s, .idle, some (.err coreerrors.CodeForbidden))
         else (s, .idle, some (.err coreerrors.CodeUnavailable)))
      else (s, .idle, some (routeOf (toPM r)))
  | .lCloud =>
    match cloudFind cf (extractDomain host) with
    | none => (s, .idle, some (.err coreerrors.CodeNotFound))
    | some m =>
      match pmCheck cf.now m with
      | .route a b c d => ({ s with registry := registerPM cf s.registry m }, .idle, some (.route a b c d))
      | r => (s, .idle, some r)
  | _ => (s, .idle, some (.err "BADPC"))

def stepOp (cf : Config) (s : Store) (o : Op) (pc : PC) : Store × PC × Option Res :=
  match o with
  | .create c sub base th tp => stepCreate cf s c sub base th tp pc
  | .del n c => stepDelete cf s n c pc
  | .upd n st e th tp => stepUpdate s n st e th tp pc
  | .look h => stepLookup cf s h pc

/-- Thread `t` runs from its current gate to the next one. -/
def stepThread (cf : Config) (c : Cfg) (t : Nat) : Cfg × Slot :=
  match (c.th t).todo with
  | [] => (c, ⟨t, false, none, none⟩)
  | o :: rest =>
    ( ⟨(stepOp cf c.st o (c.th t).pc).1,
       upd c.th t (match (stepOp cf c.st o (c.th t).pc).2.2 with
                   | some _ => ⟨rest, .idle⟩
                   | none => ⟨o :: rest, (stepOp cf c.st o (c.th t).pc).2.1⟩)⟩,
      ⟨t, true, if (c.th t).pc.isIdle then some o else none, ((stepOp cf c.st o (c.th t).pc).2.2).map (fun r => (o, r))⟩ )

/-- Run a schedule (a list of thread ids), collecting the slots. -/
def runSched (cf : Config) : Cfg → List Nat → Cfg × List Slot
  | c, [] => (c, [])
  | c, t :: ts =>
    ((runSched cf (stepThread cf c t).1 ts).1, (stepThread cf c t).2 :: (runSched cf (stepThread cf c t).1 ts).2)

/-- Threads `0 … n-1` that still have work, in order: one drain round. -/
def pending (c : Cfg) (n : Nat) : List Nat := (List.range n).filter (fun t => !(c.th t).todo.isEmpty)

/-- After the schedule the harness lets every unfinished thread run round-robin; `fuel` rounds. -/
def drain (cf : Config) (n : Nat) : Nat → Cfg → Cfg × List Slot
  | 0, c => (c, [])
  | fuel + 1, c =>
    if (pending c n).isEmpty then (c, [])
    else ((drain cf n fuel (runSched cf c (pending c n)).1).1,
          (runSched cf c (pending c n)).2 ++ (drain cf n fuel (runSched cf c (pending c n)).1).2)

structure Input where
  cf : Config
  reg : List PM
  threads : List (List Op)
  sched : List Nat

def initStore (i : Input) : Store :=
  { next := 0, index := fun _ => none, data := fun _ => none, claims := fun _ => false,
    clientList := fun _ => none, globalList := none,
    registry := i.reg.foldl (registerPM i.cf) (fun _ => none),
    born := fun _ => none, delReq := [], written := fun _ => false }

def initCfg (i : Input) : Cfg :=
  ⟨initStore i, fun t => ⟨i.threads.getD t [], .idle⟩⟩

/-- Enough drain rounds: every operation needs at most 10 slots. -/
def drainFuel (i : Input) : Nat := 10 * (i.threads.map List.length).sum + 1

/-- The final store as the harness prints it. -/
structure Final where
  next : Nat
  idx : List (String × Nat)
  recs : List (Nat × Rec)
  claims : List Nat
  clists : List (Nat × List Nat)
  glist : Option (List Nat)
  reg : List (String × PM)

structure Obs where
  slots : List Slot
  final : Final

def createDomains : List Op → List String
  | [] => []
  | .create _ sub base _ _ :: r => (sub ++ "." ++ base) :: createDomains r
  | _ :: r => createDomains r

def opClients : List Op → List Nat
  | [] => []
  | .create c _ _ _ _ :: r => c :: opClients r
  | .del _ c :: r => c :: opClients r
  | _ :: r => opClients r

def allOps (i : Input) : List Op := i.threads.flatten

def finalOf (i : Input) (s : Store) : Final :=
  { next := s.next
    idx := (createDomains (allOps i)).eraseDups.filterMap (fun d => (s.index d).map (fun n => (d, n)))
    recs := (List.range' 1 s.next).filterMap (fun n => (s.data n).map (fun r => (n, r)))
    claims := (List.range' 1 s.next).filter (fun n => s.claims n)
    clists := (opClients (allOps i)).eraseDups.filterMap (fun c => (s.clientList c).map (fun l => (c, l)))
    glist := s.globalList
    reg := ((i.reg ++ i.cf.cloud).map PM.fullDomain).eraseDups.filterMap (fun d => (s.registry d).map (fun m => (d, m))) }

/-- The model's observation for a case. -/
def model (i : Input) : Obs :=
  { slots := (runSched i.cf (initCfg i) i.sched).2 ++
             (drain i.cf i.threads.length (drainFuel i) (runSched i.cf (initCfg i) i.sched).1).2
    final := finalOf i (drain i.cf i.threads.length (drainFuel i) (runSched i.cf (initCfg i) i.sched).1).1.st }

end Tunnox.C19
