import TunnoxModel.Gen.C06
/-
  C06 — a connection code creates at most one mapping, and only while valid.  Mirrors
    internal/cloud/services/conncode/activation.go   ActivateConnectionCode, RevokeConnectionCode, claimCode
    internal/cloud/repos/connection_code_repository.go  TryClaim, ReleaseClaim, GetByCode, Update (Set/Set | Delete)
    internal/cloud/models/tunnel_connection_code.go   Activate, Revoke  (IsValidForActivation/CanBeActivatedBy: Gen/C06.lean)
    internal/cloud/services/port_mapping_service.go   CreatePortMapping, DeletePortMapping
    internal/cloud/services/conncode/service.go       CreateConnectionCode (one `create` event), quota read
  Interleaving semantics: every activation / revocation is a thread (its own node); one scheduled step is one
  *phase* = the storage operations of one of  claim | get | quota | create | update | rollback | release
  (the local computation that follows a phase belongs to the same step).  Environment events: the code is
  generated (`create`), its activation period runs out (`expire`).  Each thread carries at most one storage
  failure (`Fault`).  Variant `.asFound` = the code before the repair (no claim); `.repaired` = current code.
-/
namespace Tunnox.C06
open Gen

inductive Variant where
  | asFound | repaired
deriving DecidableEq, Repr

inductive Kind where
  | activate | revoke
deriving DecidableEq, Repr

/-- The one storage operation of a thread that fails (if any).  Failures the code absorbs
(ID-generator retry, client-index appends, anything inside the roll-back) have no effect and are `.none`. -/
inductive Fault where
  | none
  | claim        -- TryClaim: SetNX fails
  | get          -- GetByCode: storage.Get fails
  | createFail   -- CreatePortMapping: the record write or the global-list append fails
  | updCode      -- Update: the first write (by-code key) fails
  | updId        -- Update: the second write fails (the by-code key is already written / deleted)
  | updLast      -- Update: the third write fails (only the delete branch has one: the index removal)
  | release      -- ReleaseClaim: Delete fails
deriving DecidableEq, Repr

structure Mapping where
  id : Nat
  owner : Nat               -- (ghost) index of the creating thread
  pre : Bool                -- existed before the run (quota filler, not created from the code)
  ListenClientID : Nat
  ListenAddress : Nat
  TargetClientID : Nat
  TargetAddress : Nat
deriving DecidableEq, Repr

inductive Res where
  | ok (m : Mapping)        -- ActivateConnectionCode returned this mapping
  | rok                     -- RevokeConnectionCode returned nil
  | missing | notfound | forbidden | used | expired | badaddr | quota | busy | storage | internal
  | seen (activated revoked : Bool)   -- GetConnectionCode (status poll) returned the record with these flags
deriving DecidableEq, Repr

inductive Pc where
  | start | claimed | checked | decided | created | rollback | revUpd | releasing | done
deriving DecidableEq, Repr

/-- Parameters of a case: what was fixed when the code was generated, the quota, the clock value at which
the activation period ends, and whether the storage key outlives that moment (`sticky`: a record whose storage
TTL is longer than its activation period; `Update` always re-writes it with the remaining period). -/
structure Params where
  tc : Nat
  ta : Nat
  max : Nat
  sticky : Bool
  expAt : Nat := 100
  /-- Lifetime of the claim key, in stalls: the claim lapses at the `lease`-th stall after it was taken
  (`codeClaimTTL` divided by the length of one stall, rounded up; 30 s / 3.5 s → 9). -/
  lease : Nat := 9
deriving DecidableEq, Repr

structure Store where
  now : Nat := 0
  created : Bool := false
  present : Bool := false               -- the by-code key exists
  sticky : Bool := false
  code : TunnelConnectionCode := {}
  claim : Option Nat := none            -- holder of the claim key
  claimAge : Nat := 0                   -- stalls since the claim key was written (its TTL runs in wall-clock time)
  maps : List Mapping := []             -- port-mapping records
  nextId : Nat := 0
  -- ghost state (never read by the steps)
  okMap : Option Mapping := none        -- the mapping of the activation that succeeded
  revDone : Bool := false               -- a revocation succeeded
  pending : Option Mapping := none      -- created, its activation not yet finished
  -- claim keys of OTHER spellings of the code (the claim key is the raw string of the request)
  oclaims : List Nat := []
deriving DecidableEq, Repr

structure Thread where
  kind : Kind
  listener : Nat
  laddr : Nat
  fault : Fault := .none
  pc : Pc := .start
  loc : TunnelConnectionCode := {}      -- the local copy read by GetByCode
  m : Option Mapping := none            -- the mapping this activation created
  del : Bool := false                   -- Update found the period over: it deletes the record instead of writing it
  res : Option Res := none
  /-- How the request spells the code: 0 = exactly the generated string; n ≠ 0 = another string (upper case,
  surrounding blanks, …).  Claim key and record key are both the raw string, so a request with another
  spelling claims another key and finds no record. -/
  spell : Nat := 0
  /-- The call is a status poll (`Service.GetConnectionCode`): it reads the record without a claim and writes
  nothing.  Its storage read is two scheduling points: performed (the value is fixed) and returned. -/
  poll : Bool := false
deriving DecidableEq, Repr

/-- An activation / revocation that spells the code as generated: the calls the claim serialises. -/
def Thread.isMain (t : Thread) : Bool := t.spell == 0 && !t.poll

/-- cloudutils.ParseListenAddress on the harness table ["", "0.0.0.0:9001", "127.0.0.1:9002", "no-port-here", "0.0.0.0:70000"]. -/
def listenOk (a : Nat) : Bool := a == 1 || a == 2
/-- cloudutils.ParseTargetAddress on ["", "tcp://10.0.0.5:8080", "udp://192.168.1.9:53", "bogus-target"]. -/
def targetOk (a : Nat) : Bool := a == 1 || a == 2

/-- End of a call: with the claim the deferred release is still to come. -/
def fin (v : Variant) (t : Thread) (r : Res) : Thread :=
  { t with res := some r, pc := if v = .repaired then .releasing else .done }

/-- GetClientPortMappings: mappings in which the client is listener or target. -/
def involves (c : Nat) (m : Mapping) : Bool := m.ListenClientID == c || m.TargetClientID == c

/-- ConnectionCodeRepository.Update: returns the store and whether it succeeded. -/
def updateRec (st : Store) (t : Thread) : Store × Bool :=
  if t.del then
    if !st.present then (st, true)                                   -- Delete: GetByID finds nothing: nil
    else if t.fault = .updCode then (st, false)
    else if t.fault = .updId || t.fault = .updLast then ({ st with present := false }, false)
    else ({ st with present := false }, true)
  else
    if t.fault = .updCode then (st, false)
    else if t.fault = .updId then ({ st with present := true, sticky := false, code := t.loc }, false)
    else ({ st with present := true, sticky := false, code := t.loc }, true)

/-- claimCode. -/
def claimStep (st : Store) (i : Nat) (t : Thread) : Store × Thread :=
  if t.fault = .claim then (st, { t with pc := .done, res := some .storage })
  else match st.claim with
    | some _ => (st, { t with pc := .done, res := some .busy })
    | none => ({ st with claim := some i, claimAge := 0 }, { t with pc := .claimed })

/-- GetByCode + CanBeActivatedBy + address parsing (activation). -/
def getStepA (v : Variant) (st : Store) (t : Thread) : Store × Thread :=
  if t.fault = .get then (st, fin v t .storage)
  else if !st.present then (st, fin v t .notfound)
  else if !TunnelConnectionCode.CanBeActivatedBy st.now st.code t.listener then
    (st, fin v t (if st.code.IsRevoked then .forbidden else if st.code.IsActivated then .used
                  else if TunnelConnectionCode.IsExpired st.now st.code then .expired else .forbidden))
  else if !(listenOk t.laddr && targetOk st.code.TargetAddress) then (st, fin v t .badaddr)
  else (st, { t with pc := .checked, loc := st.code })

/-- GetByCode + TunnelConnectionCode.Revoke (revocation); decides Update's branch. -/
def getStepR (v : Variant) (p : Params) (st : Store) (t : Thread) : Store × Thread :=
  if t.fault = .get then (st, fin v t .storage)
  else if !st.present then (st, fin v t .notfound)
  else if st.code.IsActivated || st.code.IsRevoked then (st, fin v t .internal)
  else (st, { t with pc := .revUpd, loc := { st.code with IsRevoked := true }, del := decide (p.expAt ≤ st.now) })

/-- One phase of a request that spells the code differently (`t.spell ≠ 0`): it claims the key of ITS string,
looks up the record under ITS string (there is none), releases its claim.  It never touches the code's record,
its claim or the mappings. -/
def tstepO (v : Variant) (st : Store) (t : Thread) : Store × Thread :=
  match t.pc with
  | .start =>
    if t.kind = .activate && (t.listener = 0 || t.laddr = 0) then (st, { t with pc := .done, res := some .missing })
    else if v = .repaired then
      if t.fault = .claim then (st, { t with pc := .done, res := some .storage })
      else if st.oclaims.contains t.spell then (st, { t with pc := .done, res := some .busy })
      else ({ st with oclaims := t.spell :: st.oclaims }, { t with pc := .claimed })
    else (st, fin v t (if t.fault = .get then .storage else .notfound))
  | .claimed => (st, fin v t (if t.fault = .get then .storage else .notfound))
  | .releasing =>
    if t.fault = .release then (st, { t with pc := .done })
    else ({ st with oclaims := st.oclaims.filter (· != t.spell) }, { t with pc := .done })
  | _ => (st, { t with pc := .done })

/-- A status poll: the read is performed (what it will report is fixed now), later it returns. -/
def tstepP (st : Store) (t : Thread) : Store × Thread :=
  match t.pc with
  | .start =>
    (st, { t with pc := .claimed,
                  res := some (if t.spell == 0 && st.present then .seen st.code.IsActivated st.code.IsRevoked else .notfound) })
  | _ => (st, { t with pc := .done })

/-- One phase of thread `i` that spells the code as generated. -/
def tstepMain (v : Variant) (p : Params) (st : Store) (i : Nat) (t : Thread) : Store × Thread :=
  match t.kind, t.pc with
  | .activate, .start =>
    if t.listener = 0 || t.laddr = 0 then (st, { t with pc := .done, res := some .missing })
    else if v = .repaired then claimStep st i t else getStepA v st t
  | .revoke, .start => if v = .repaired then claimStep st i t else getStepR v p st t
  | .activate, .claimed => getStepA v st t
  | .revoke, .claimed => getStepR v p st t
  | _, .checked =>
    -- quota read, then connCode.Activate on the local copy (re-check with the current clock)
    if p.max ≤ (st.maps.filter (involves t.listener)).length then (st, fin v t .quota)
    else if !TunnelConnectionCode.CanBeActivatedBy st.now t.loc t.listener then (st, fin v t .internal)
    else (st, { t with pc := .decided, loc := { t.loc with IsActivated := true, ActivatedBy := some t.listener } })
  | _, .decided =>
    -- CreatePortMapping; then Update reads the clock
    if t.fault = .createFail then (st, fin v t .storage)
    else
      ({ st with maps := st.maps ++ [⟨st.nextId, i, false, t.listener, t.laddr, t.loc.TargetClientID, t.loc.TargetAddress⟩],
                 nextId := st.nextId + 1,
                 pending := some ⟨st.nextId, i, false, t.listener, t.laddr, t.loc.TargetClientID, t.loc.TargetAddress⟩ },
       { t with pc := .created, m := some ⟨st.nextId, i, false, t.listener, t.laddr, t.loc.TargetClientID, t.loc.TargetAddress⟩,
                loc := { t.loc with MappingID := some st.nextId }, del := decide (p.expAt ≤ st.now) })
  | _, .created =>
    match t.m with
    | none => (st, t)
    | some m =>
      if (updateRec st t).2 then
        ({ (updateRec st t).1 with okMap := some m, pending := none }, fin v t (.ok m))
      else ((updateRec st t).1, { t with pc := .rollback, res := some .storage })
  | _, .rollback =>
    match t.m with
    | none => (st, t)
    | some m =>
      ({ st with maps := st.maps.filter (fun x => x.id != m.id), pending := none },
       { t with pc := if v = .repaired then .releasing else .done })
  | _, .revUpd =>
    if (updateRec st t).2 then ({ (updateRec st t).1 with revDone := true }, fin v t .rok)
    else ((updateRec st t).1, fin v t .storage)
  | _, .releasing =>
    if t.fault = .release then (st, { t with pc := .done }) else ({ st with claim := none }, { t with pc := .done })
  | _, .done => (st, t)

/-- One phase of thread `i`. -/
def tstep (v : Variant) (p : Params) (st : Store) (i : Nat) (t : Thread) : Store × Thread :=
  if t.isMain then tstepMain v p st i t else if t.poll then tstepP st t else tstepO v st t

inductive Ev where
  | create            -- CreateConnectionCode stores the code (a second one concerns another code: no effect)
  | expire            -- the clock passes ActivationExpiresAt
  | th (i : Nat)      -- thread i runs its next phase
  | stall             -- wall-clock time passes while every call is stuck (slow storage, GC pause, queueing):
                      -- nothing happens except that the claim key ages; at its `lease`-th stall it is gone
deriving DecidableEq, Repr

structure Config where
  st : Store
  ths : List Thread
deriving DecidableEq, Repr

def step (v : Variant) (p : Params) (c : Config) : Ev → Config
  | .create =>
    if c.st.created then c
    else { c with st := { c.st with created := true, present := true, sticky := p.sticky,
                                    code := { TargetClientID := p.tc, TargetAddress := p.ta, ActivationExpiresAt := p.expAt } } }
  | .expire =>
    if c.st.created then { c with st := { c.st with now := p.expAt + 1, present := c.st.present && c.st.sticky } } else c
  | .th i =>
    match c.ths[i]? with
    | none => c
    | some t => { st := (tstep v p c.st i t).1, ths := c.ths.set i (tstep v p c.st i t).2 }
  | .stall =>
    match c.st.claim with
    | none => c
    | some _ =>
      if p.lease ≤ c.st.claimAge + 1 then { c with st := { c.st with claim := none, claimAge := 0 } }
      else { c with st := { c.st with claimAge := c.st.claimAge + 1 } }

/-- The claim outlives the history: the stalls still to come, added to the age of the current claim, stay below the
lease.  (The code neither renews the claim nor checks it again before it writes; its correctness rests on
`codeClaimTTL` being longer than any call can be stuck.) -/
def leaseOk (p : Params) (c : Config) (evs : List Ev) : Bool := decide (c.st.claimAge + evs.count .stall < p.lease)

def run (v : Variant) (p : Params) (c : Config) (evs : List Ev) : Config := evs.foldl (step v p) c

/-- After the scheduled events every thread is run to completion, in index order (a call has at most 7 phases). -/
def drain (n : Nat) : List Ev := (List.range n).flatMap (fun i => List.replicate 8 (Ev.th i))

/-- Initial store: `preN` mappings of client `preC` that have nothing to do with the code. -/
def initStore (preC preN : Nat) : Store :=
  { maps := (List.range preN).map (fun k => ⟨k, 0, true, preC, 1, 999999, 1⟩), nextId := preN }

def init (preC preN : Nat) (ths : List Thread) : Config := { st := initStore preC preN, ths := ths }

/-- `GenerateUnique`: the first of at most `fuel` candidates that does not exist yet
(crypto/rand candidates are arbitrary: the list is chosen by the adversary). -/
def generateUnique (exists_ : Nat → Bool) : Nat → List Nat → Option Nat
  | 0, _ => none
  | _, [] => none
  | fuel + 1, c :: cs => if exists_ c then generateUnique exists_ fuel cs else some c

end Tunnox.C06
