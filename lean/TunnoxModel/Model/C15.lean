import TunnoxModel.Gen.IDGen
/-!
# C15 — executable model of id generation over one shared store

Mirrors
* `internal/core/idgen/generator.go`: `StorageIDGenerator.Generate` (≤ `MaxAttempts` candidates,
  return only after a successful mark, `ErrIDExhausted` otherwise), `tryMarkAsUsed` (atomic `SetNX`
  when the store is a `CASStore`; otherwise `mu.Lock; Exists; Set; mu.Unlock`), `Release` (`Delete`);
* `internal/core/node/node_id_allocator.go`: `AllocateNodeID` (slot scan `NodeIDMin..NodeIDMax`, each
  slot claimed with `SetNX(Runtime)` + `NodeIDLockTTL`), `renewNodeID` (`Set` + TTL), `Release`;
* `internal/utils/random/random.go`: `Int64` (`min + u % (max-min+1)`), `String` (`Charset[b % len]`).

Atomic step = one storage call (the store is the small sequential map with expiry defined here; the
shared `Spec/TTLStore` did not exist when this file was written).  The candidate streams, the
schedule, the pre-existing markers and the clock are chosen by the adversary.
-/
namespace Tunnox.C15
open Gen

/-! ## The store: key ↦ expiry instant (0 = never expires) -/

/-- `(kind, id)`; `kind` stands for the generator's `keyPrefix`. -/
abbrev Key := Nat × Nat
abbrev Store := List (Key × Nat)

def lookup : Store → Key → Option Nat
  | [], _ => none
  | p :: r, k => if p.1 = k then some p.2 else lookup r k

/-- memory backend: `Expiration.IsZero() || now.Before(Expiration)`. -/
def alive (now e : Nat) : Bool := e == 0 || decide (now < e)

def live (s : Store) (now : Nat) (k : Key) : Bool :=
  match lookup s k with
  | none => false
  | some e => alive now e

def erase : Store → Key → Store
  | [], _ => []
  | p :: r, k => if p.1 = k then erase r k else p :: erase r k
def put (s : Store) (k : Key) (e : Nat) : Store := (k, e) :: erase s k
/-- `ttl <= 0` ⇒ never expires. -/
def expiry (now ttl : Nat) : Nat := if ttl = 0 then 0 else now + ttl
/-- `CleanupExpired`: the expiry GC drops every entry of a key that is not live (one atomic pass). -/
def sweep (s : Store) (now : Nat) : Store := s.filter (fun p => live s now p.1)

/-! ## Candidates (utils/random) -/

/-- `random.Int64(ClientIDMin, ClientIDMax)` on the raw 64-bit value `u`. -/
def clientCand (u : Nat) : Nat :=
  idgen.ClientIDMin + u % (idgen.ClientIDMax - idgen.ClientIDMin + 1)

/-- `random.String`: byte `b` selects `Charset[b % len(Charset)]`; the id is the digit string read
in base `len(Charset)`. -/
def strCand (bytes : List Nat) : Nat :=
  bytes.foldl (fun acc b => acc * random.Charset.length + b % random.Charset.length) 0

/-! ## Threads -/

inductive Op where
  | gen (kind : Nat) (cands : Nat → Nat)   -- Generate / AllocateNodeID; `cands a` = candidate of attempt `a`
  | rel (kind id : Nat)                     -- Release(id)
  | relOwn                                  -- Release of the id this thread obtained last (NodeIDAllocator.Release)
  | sweep                                   -- Storage.CleanupExpired (expiry GC pass over the claim store)
  | renewOwn                                -- NodeIDAllocator.renewNodeID (heartbeat) for the id obtained last

inductive PC where
  | try_ (att : Nat)      -- about to mark candidate number `att`
  | locked (att : Nat)    -- fallback path: holds the instance mutex, `Exists` said absent, about to `Set`

structure Thread where
  inst : Nat              -- generator instance (owner of the fallback mutex)
  ops : List Op
  pc : PC
  own : Option Key        -- (kind, id) obtained last and not released through relOwn
  hb : Bool               -- the heartbeat goroutine started by the claim is still running

/-- What an outside observer sees, in the order it happens. -/
inductive Ev where
  | ok (tid kind id : Nat)
  | exh (tid kind : Nat)
  | rel (tid kind id : Nat)                 -- Release(id): release by id, whoever calls it
  | relo (tid kind id : Nat)                -- release-own: the caller releases the id it holds (NodeIDAllocator.Release)
  | rnw (tid kind id : Nat)
  | nop (tid : Nat)
  | dead (tid kind id : Nat)                -- the heartbeat tick of holder `tid` found no heartbeat running: nothing renewed
  | swp (tid : Nat)                         -- a CleanupExpired pass completed
  | err (tid : Nat)                         -- the call returned a (storage) error to its caller
  | tick (dt : Nat)
deriving DecidableEq, Repr

structure Params where
  cas : Bool              -- the store implements `SetNX` (storage.CASStore)
  ttl : Nat → Nat         -- marker TTL per kind
  maxAtt : Nat → Nat      -- attempts per kind (`MaxAttempts`; number of node slots)
  renewShared : Bool      -- renewal writes the tier the claim lives in (repaired code); false = as found
  hbSurvives : Bool       -- the heartbeat outlives `AllocateNodeID` (it gets the caller's ctx); false = seeded defect

structure Cfg where
  store : Store
  now : Nat
  locks : List Nat        -- instances whose fallback mutex is held
  threads : Nat → Thread
  trace : List Ev

inductive Sch where
  | step (tid : Nat)
  | tick (dt : Nat)
  | fault (tid : Nat)     -- the storage call of this step fails with a transient error (not applied)

def upd (ts : Nat → Thread) (i : Nat) (t : Thread) : Nat → Thread := fun j => if j = i then t else ts j

def finishOp (t : Thread) : Thread := { t with ops := t.ops.tail, pc := .try_ 0 }

/-- Thread after candidate number `a` was refused: next attempt, or `ErrIDExhausted`. -/
def failThread (P : Params) (kind a : Nat) (t : Thread) : Thread :=
  if a + 1 < P.maxAtt kind then { t with pc := .try_ (a + 1) } else finishOp t
def failEvs (P : Params) (tid kind a : Nat) : List Ev :=
  if a + 1 < P.maxAtt kind then [] else [.exh tid kind]

/-- Successful mark of candidate `id`: `Generate` returns it. -/
def okCfg (P : Params) (c : Cfg) (tid kind id : Nat) (t : Thread) (locks : List Nat) : Cfg :=
  { c with store := put c.store (kind, id) (expiry c.now (P.ttl kind)),
           locks := locks,
           threads := upd c.threads tid { finishOp t with own := some (kind, id), hb := P.hbSurvives },
           trace := c.trace ++ [.ok tid kind id] }

def failCfg (P : Params) (c : Cfg) (tid kind a : Nat) (t : Thread) : Cfg :=
  { c with threads := upd c.threads tid (failThread P kind a t),
           trace := c.trace ++ failEvs P tid kind a }

/-- One storage call of thread `tid`. -/
def stepThread (P : Params) (c : Cfg) (tid : Nat) : Cfg :=
  match (c.threads tid).ops with
  | [] => c
  | .rel kind id :: _ =>
    { c with store := erase c.store (kind, id),
             threads := upd c.threads tid (finishOp (c.threads tid)),
             trace := c.trace ++ [.rel tid kind id] }
  | .sweep :: _ =>
    { c with store := sweep c.store c.now,
             threads := upd c.threads tid (finishOp (c.threads tid)),
             trace := c.trace ++ [.swp tid] }
  | .relOwn :: _ =>
    match (c.threads tid).own with
    | none => { c with threads := upd c.threads tid (finishOp (c.threads tid)), trace := c.trace ++ [.nop tid] }
    | some k =>
      { c with store := erase c.store k,
               threads := upd c.threads tid { finishOp (c.threads tid) with own := none },
               trace := c.trace ++ [.relo tid k.1 k.2] }
  | .renewOwn :: _ =>
    -- the 30 s ticker of the holder's heartbeat fires
    match (c.threads tid).own with
    | none => { c with threads := upd c.threads tid (finishOp (c.threads tid)), trace := c.trace ++ [.nop tid] }
    | some k =>
      if (c.threads tid).hb then
        { c with store := if P.renewShared then put c.store k (expiry c.now (P.ttl k.1)) else c.store,
                 threads := upd c.threads tid (finishOp (c.threads tid)),
                 trace := c.trace ++ [.rnw tid k.1 k.2] }
      else
        { c with threads := upd c.threads tid (finishOp (c.threads tid)),
                 trace := c.trace ++ [.dead tid k.1 k.2] }
  | .gen kind cands :: _ =>
    match (c.threads tid).pc with
    | .try_ a =>
      if P.cas then
        -- casStore.SetNX(key, data, ttl)
        if live c.store c.now (kind, cands a) then failCfg P c tid kind a (c.threads tid)
        else okCfg P c tid kind (cands a) (c.threads tid) c.locks
      else
        -- g.mu.Lock(); exists := g.storage.Exists(key)
        if (c.threads tid).inst ∈ c.locks then c
        else if live c.store c.now (kind, cands a) then failCfg P c tid kind a (c.threads tid)
        else { c with locks := (c.threads tid).inst :: c.locks,
                      threads := upd c.threads tid { c.threads tid with pc := .locked a } }
    | .locked a =>
      if P.cas then c
      else
        -- g.storage.Set(key, data, ttl); (deferred) g.mu.Unlock()
        okCfg P c tid kind (cands a) (c.threads tid) (c.locks.erase (c.threads tid).inst)

/-- One storage call of thread `tid` that returns an error without having been applied.
`Generate`/`AllocateNodeID`: `tryMarkAsUsed`/`tryAcquireNodeID` error ⇒ log, `continue` (next candidate
or exhaustion) — the candidate is never handed out.  `Release`/`renewNodeID`: the error is returned
to the caller (who, in this model, does not retry: a failed release-own forgets the id). -/
def stepFault (P : Params) (c : Cfg) (tid : Nat) : Cfg :=
  match (c.threads tid).ops with
  | [] => c
  | .rel _ _ :: _ =>
    { c with threads := upd c.threads tid (finishOp (c.threads tid)), trace := c.trace ++ [.err tid] }
  | .sweep :: _ =>
    { c with threads := upd c.threads tid (finishOp (c.threads tid)), trace := c.trace ++ [.err tid] }
  | .relOwn :: _ =>
    match (c.threads tid).own with
    | none => { c with threads := upd c.threads tid (finishOp (c.threads tid)), trace := c.trace ++ [.nop tid] }
    | some _ =>
      { c with threads := upd c.threads tid { finishOp (c.threads tid) with own := none },
               trace := c.trace ++ [.err tid] }
  | .renewOwn :: _ =>
    match (c.threads tid).own with
    | none => { c with threads := upd c.threads tid (finishOp (c.threads tid)), trace := c.trace ++ [.nop tid] }
    | some _ =>
      { c with threads := upd c.threads tid (finishOp (c.threads tid)), trace := c.trace ++ [.err tid] }
  | .gen kind _ :: _ =>
    match (c.threads tid).pc with
    | .try_ a =>
      if P.cas then failCfg P c tid kind a (c.threads tid)            -- SetNX error
      else if (c.threads tid).inst ∈ c.locks then c                    -- blocked on the mutex: no call
      else failCfg P c tid kind a (c.threads tid)                      -- Lock; Exists error; Unlock
    | .locked a =>
      if P.cas then c
      else { failCfg P c tid kind a (c.threads tid) with               -- Set error; Unlock
             locks := c.locks.erase (c.threads tid).inst }

def step (P : Params) (c : Cfg) : Sch → Cfg
  | .step tid => stepThread P c tid
  | .fault tid => stepFault P c tid
  | .tick dt => { c with now := c.now + dt, trace := c.trace ++ [.tick dt] }

def run (P : Params) (c : Cfg) (σ : List Sch) : Cfg := σ.foldl (step P) c

def mkThread (p : Nat × List Op) : Thread := ⟨p.1, p.2, .try_ 0, none, false⟩

/-- Threads `0..n-1` run the given programs, every other index is an idle thread. -/
def mkThreads (progs : List (Nat × List Op)) : Nat → Thread :=
  fun i => match progs[i]? with
    | some p => mkThread p
    | none => ⟨0, [], .try_ 0, none, false⟩

def init (pre : Store) (progs : List (Nat × List Op)) : Cfg := ⟨pre, 0, [], mkThreads progs, []⟩

/-- Keys with a live marker (what the store double reports at the end). -/
def liveKeys (s : Store) (now : Nat) : List Key := (s.map (·.1)).filter (live s now)

end Tunnox.C15
