import TunnoxModel.Spec.TTLStore
/-!
  C13 — reference semantics of the list fragment of `memory.Storage`
  (memory_ops.go `SetList`, `GetList`, `AppendToList`, `RemoveFromList`; memory.go `Delete`).

  Go slices are references `(array, len)` into backing arrays with a capacity.  The store keeps
  such a reference per list key; `GetList` hands the stored reference to the caller; the caller may
  keep it (a *register*), look at it later and pass it to `SetList` again.  This model makes that
  explicit: a heap of arrays, holders (keys and caller registers) of references, and the exact
  places where the code writes into an existing array (`append` with spare capacity) or allocates.
  Capacities chosen by the Go runtime are parameters of the calls (`spare`), so theorems quantify
  over every growth policy.

  `Spec` side (value semantics): every holder simply holds a list; an answer never changes after it
  was returned and a call on key `a` never changes key `b`.
-/
namespace Tunnox.C13.Alias
open Tunnox Tunnox.TTLStore

/-- A cell of a backing array (`none` = Go `nil`, e.g. a zeroed tail). -/
abbrev Cell := Option Atom

/-- A slice header. -/
structure Ref where
  arr : Nat
  len : Nat
  deriving DecidableEq, Repr

/-- Who holds a reference: the store under a key, or the caller in a register. -/
inductive Holder where
  | key (k : String)
  | reg (r : Nat)
  deriving DecidableEq, Repr

structure St where
  holders : FMap Holder Ref
  heap : FMap Nat (List Cell)      -- array id ↦ cells; length = capacity
  next : Nat                        -- next fresh array id

def St.empty : St := ⟨FMap.empty, FMap.empty, 0⟩

/-- What is seen through a reference. -/
def deref (heap : FMap Nat (List Cell)) (r : Ref) : List Cell := ((heap.lookup r.arr).getD []).take r.len

inductive LOp where
  | setList (k : String) (xs : List Atom) (spare : Nat)   -- SetList(k, fresh caller slice with spare capacity)
  | setListFrom (k : String) (r : Nat)                    -- SetList(k, the slice held in register r)
  | hold (r : Nat) (k : String)                           -- reg r := GetList(k)
  | peek (r : Nat)                                        -- look at the held answer again
  | getList (k : String)
  | append (k : String) (a : Atom) (spare : Nat)          -- spare: capacity beyond len+1 if the runtime reallocates
  | remove (k : String) (a : Atom)
  | delete (k : String)
  deriving Repr

inductive LRes where
  | ok
  | notFound
  | list (xs : List Cell)
  deriving DecidableEq, Repr

/-- `.repaired`: the code this run checks. `.setListByRef`: `SetList` as found (keeps the caller's
slice). `.removeInPlace`: seeded regression (`slices.DeleteFunc` compacts the stored array). -/
inductive Variant where
  | repaired
  | setListByRef
  | removeInPlace
  deriving DecidableEq, Repr

/-- Allocate a fresh array. -/
def alloc (st : St) (cells : List Cell) : St := ⟨st.holders, st.heap.insert st.next cells, st.next + 1⟩

def keep (a : Atom) (c : Cell) : Bool := decide (c ≠ some a)

/-- `SetList` of a slice seen as `cells` (length = len) — stores a private copy (repaired). -/
def storeCopy (st : St) (k : String) (cells : List Cell) : St :=
  ⟨(alloc st cells).holders.insert (.key k) ⟨st.next, cells.length⟩, (alloc st cells).heap, (alloc st cells).next⟩

def step (v : Variant) (op : LOp) (st : St) : St × LRes :=
  match op with
  | .setList k xs spare =>
    match v with
    | .setListByRef =>
      -- the caller's array itself, spare capacity included
      (⟨(alloc st (xs.map some ++ List.replicate spare none)).holders.insert (.key k) ⟨st.next, xs.length⟩,
        (alloc st (xs.map some ++ List.replicate spare none)).heap, st.next + 1⟩, .ok)
    | _ => (storeCopy st k (xs.map some), .ok)
  | .setListFrom k r =>
    match st.holders.lookup (.reg r) with
    | none => (storeCopy st k [], .ok)            -- nil slice
    | some ref =>
      match v with
      | .setListByRef => (⟨st.holders.insert (.key k) ref, st.heap, st.next⟩, .ok)
      | _ => (storeCopy st k (deref st.heap ref), .ok)
  | .hold r k =>
    match st.holders.lookup (.key k) with
    | none => (⟨st.holders.erase (.reg r), st.heap, st.next⟩, .notFound)
    | some ref => (⟨st.holders.insert (.reg r) ref, st.heap, st.next⟩, .list (deref st.heap ref))
  | .peek r =>
    match st.holders.lookup (.reg r) with
    | none => (st, .list [])
    | some ref => (st, .list (deref st.heap ref))
  | .getList k =>
    match st.holders.lookup (.key k) with
    | none => (st, .notFound)
    | some ref => (st, .list (deref st.heap ref))
  | .append k a spare =>
    match st.holders.lookup (.key k) with
    | none => (⟨(alloc st [some a]).holders.insert (.key k) ⟨st.next, 1⟩, (alloc st [some a]).heap, st.next + 1⟩, .ok)
    | some ref =>
      let cells := (st.heap.lookup ref.arr).getD []
      if ref.len < cells.length then
        -- spare capacity: written in place, beyond the length every other holder has
        (⟨st.holders.insert (.key k) ⟨ref.arr, ref.len + 1⟩, st.heap.insert ref.arr (cells.set ref.len (some a)), st.next⟩, .ok)
      else
        (⟨(alloc st (deref st.heap ref ++ some a :: List.replicate spare none)).holders.insert (.key k) ⟨st.next, (deref st.heap ref).length + 1⟩,
          (alloc st (deref st.heap ref ++ some a :: List.replicate spare none)).heap, st.next + 1⟩, .ok)
  | .remove k a =>
    match st.holders.lookup (.key k) with
    | none => (st, .ok)
    | some ref =>
      let kept := (deref st.heap ref).filter (keep a)
      match v with
      | .removeInPlace =>
        let cells := (st.heap.lookup ref.arr).getD []
        (⟨st.holders.insert (.key k) ⟨ref.arr, kept.length⟩,
          st.heap.insert ref.arr (kept ++ List.replicate (ref.len - kept.length) none ++ cells.drop ref.len), st.next⟩, .ok)
      | _ =>
        -- `make([]any, 0, len(list))` + append of the kept members: a fresh array of capacity len
        (⟨(alloc st (kept ++ List.replicate (ref.len - kept.length) none)).holders.insert (.key k) ⟨st.next, kept.length⟩,
          (alloc st (kept ++ List.replicate (ref.len - kept.length) none)).heap, st.next + 1⟩, .ok)
  | .delete k => (⟨st.holders.erase (.key k), st.heap, st.next⟩, .ok)

def run (v : Variant) : List LOp → St → List LRes
  | [], _ => []
  | op :: ops, st => (step v op st).2 :: run v ops (step v op st).1

/-! ## Value semantics (the sequential map: holders hold lists) -/

abbrev SpecSt := FMap Holder (List Atom)

def specStep (op : LOp) (sp : SpecSt) : SpecSt × LRes :=
  match op with
  | .setList k xs _ => (sp.insert (.key k) xs, .ok)
  | .setListFrom k r => (sp.insert (.key k) ((sp.lookup (.reg r)).getD []), .ok)
  | .hold r k =>
    match sp.lookup (.key k) with
    | none => (sp.erase (.reg r), .notFound)
    | some xs => (sp.insert (.reg r) xs, .list (xs.map some))
  | .peek r => (sp, .list (((sp.lookup (.reg r)).getD []).map some))
  | .getList k =>
    match sp.lookup (.key k) with
    | none => (sp, .notFound)
    | some xs => (sp, .list (xs.map some))
  | .append k a _ =>
    match sp.lookup (.key k) with
    | none => (sp.insert (.key k) [a], .ok)
    | some xs => (sp.insert (.key k) (xs ++ [a]), .ok)
  | .remove k a =>
    match sp.lookup (.key k) with
    | none => (sp, .ok)
    | some xs => (sp.insert (.key k) (xs.filter (fun x => x ≠ a)), .ok)
  | .delete k => (sp.erase (.key k), .ok)

def specRun : List LOp → SpecSt → List LRes
  | [], _ => []
  | op :: ops, sp => (specStep op sp).2 :: specRun ops (specStep op sp).1

end Tunnox.C13.Alias
