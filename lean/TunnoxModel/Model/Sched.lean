/-!
# Sched — interleaving semantics for schedule-quantified properties (core Lean only)

Shared library (first used by C16; meant for C06, C14, C15, C17, C19).

A concurrent system is `N` threads running one small-step function over a shared
state `σ`; each thread has a local state `π` (program counter + locals).

* `Prog σ π`            `step tid shared local = (shared', local')`, ONE atomic step of thread
                        `tid`.  A finished or blocked thread must *stutter* (return its
                        arguments unchanged) — that is how "waiting for a mutex" is modelled.
* `Cfg σ π`             shared state + list of thread-local states (index = thread id).
* `Schedule`            `List Nat`: which thread moves next. Ids out of range are no-ops.
* `stepAt p c i`        configuration after thread `i` takes one step.
* `run p s c`           configuration after the whole schedule `s`.
* `rounds n k`          `k` round-robin passes over threads `0..n-1` (a fair "drain").
* `Quiescent p c`       no thread can change `c` any more.

Generic lemmas
* `run_append`, `run_length`
* `inv_stepAt_of_local` prove `Inv (stepAt …)` by looking at the one thread that moves
* `inv_run`             an invariant of every step is an invariant of every schedule
* `getElem?_stepAt_ne`  a step of thread `i` leaves the locals of `j ≠ i` alone
* `quiescent_run`       a quiescent configuration is a fixpoint of every schedule
* `mu_run_le`           under "stutter or decrease" the measure never grows along a schedule
* `rounds_quiescent`    if every step either stutters or decreases a measure `μ`, then
                        `μ c` round-robin passes reach a quiescent configuration
                        (termination under a fair scheduler; deadlock-freedom is then
                        the property-specific lemma "quiescent ⇒ all threads done")
* `sum_map_set_lt`      the arithmetic needed to show that a sum-of-weights measure decreases

Style: no `let (a,b) :=` in definitions, `.1/.2` projections only.
-/
namespace Tunnox.Sched

/-- One atomic step of thread `tid`. Must stutter when the thread is finished or blocked. -/
structure Prog (σ π : Type) where
  step : Nat → σ → π → σ × π

/-- Shared state and the thread-local states, thread id = list index. -/
structure Cfg (σ π : Type) where
  sh : σ
  ths : List π

abbrev Schedule := List Nat

variable {σ π : Type}

/-- Thread `i` takes one step (no-op when `i` is not a thread). -/
def stepAt (p : Prog σ π) (c : Cfg σ π) (i : Nat) : Cfg σ π :=
  match c.ths[i]? with
  | none => c
  | some l => ⟨(p.step i c.sh l).1, c.ths.set i (p.step i c.sh l).2⟩

/-- Run a whole schedule. -/
def run (p : Prog σ π) : Schedule → Cfg σ π → Cfg σ π
  | [], c => c
  | i :: s, c => run p s (stepAt p c i)

/-- `k` round-robin passes over thread ids `0 … n-1`. -/
def rounds (n : Nat) : Nat → Schedule
  | 0 => []
  | k + 1 => List.range n ++ rounds n k

/-- No thread can change the configuration. -/
def Quiescent (p : Prog σ π) (c : Cfg σ π) : Prop := ∀ i, stepAt p c i = c

theorem stepAt_none (p : Prog σ π) (c : Cfg σ π) (i : Nat) (h : c.ths[i]? = none) :
    stepAt p c i = c := by
  simp [stepAt, h]

theorem stepAt_some (p : Prog σ π) (c : Cfg σ π) (i : Nat) (l : π) (h : c.ths[i]? = some l) :
    stepAt p c i = ⟨(p.step i c.sh l).1, c.ths.set i (p.step i c.sh l).2⟩ := by
  simp [stepAt, h]

theorem run_append (p : Prog σ π) (s t : Schedule) (c : Cfg σ π) :
    run p (s ++ t) c = run p t (run p s c) := by
  induction s generalizing c with
  | nil => rfl
  | cons i s ih => exact ih (stepAt p c i)

theorem stepAt_length (p : Prog σ π) (c : Cfg σ π) (i : Nat) :
    (stepAt p c i).ths.length = c.ths.length := by
  unfold stepAt
  split <;> simp

theorem run_length (p : Prog σ π) (s : Schedule) (c : Cfg σ π) :
    (run p s c).ths.length = c.ths.length := by
  induction s generalizing c with
  | nil => rfl
  | cons i s ih => rw [run, ih, stepAt_length]

/-- A step of thread `i` leaves the local state of every other thread alone. -/
theorem getElem?_stepAt_ne (p : Prog σ π) (c : Cfg σ π) (i j : Nat) (h : i ≠ j) :
    (stepAt p c i).ths[j]? = c.ths[j]? := by
  unfold stepAt
  split
  · rfl
  · simp [List.getElem?_set_ne h]

/-- The local state of the thread that moved. -/
theorem getElem?_stepAt_self (p : Prog σ π) (c : Cfg σ π) (i : Nat) (l : π)
    (h : c.ths[i]? = some l) : (stepAt p c i).ths[i]? = some (p.step i c.sh l).2 := by
  have hi : i < c.ths.length := by
    cases hlt : decide (i < c.ths.length) with
    | true => exact of_decide_eq_true hlt
    | false =>
      have : c.ths[i]? = none := List.getElem?_eq_none (Nat.le_of_not_lt (of_decide_eq_false hlt))
      rw [this] at h; cases h
  rw [stepAt_some p c i l h]
  simp [List.getElem?_set_self hi]

/-- To show an invariant survives `stepAt` it suffices to treat the case of an existing
thread `i` with local state `l` making its step. -/
theorem inv_stepAt_of_local (p : Prog σ π) (Inv : Cfg σ π → Prop) (c : Cfg σ π) (i : Nat)
    (hc : Inv c)
    (h : ∀ l, c.ths[i]? = some l → Inv ⟨(p.step i c.sh l).1, c.ths.set i (p.step i c.sh l).2⟩) :
    Inv (stepAt p c i) := by
  cases hl : c.ths[i]? with
  | none => rw [stepAt_none p c i hl]; exact hc
  | some l => rw [stepAt_some p c i l hl]; exact h l hl

/-- **Generic invariant lemma**: preserved by every step ⇒ holds after every schedule. -/
theorem inv_run (p : Prog σ π) (Inv : Cfg σ π → Prop)
    (hstep : ∀ c i, Inv c → Inv (stepAt p c i)) :
    ∀ (s : Schedule) (c : Cfg σ π), Inv c → Inv (run p s c) := by
  intro s
  induction s with
  | nil => intro c h; exact h
  | cons i s ih => intro c h; exact ih _ (hstep c i h)

theorem quiescent_run (p : Prog σ π) (c : Cfg σ π) (h : Quiescent p c) (s : Schedule) :
    run p s c = c := by
  induction s with
  | nil => rfl
  | cons i s ih => rw [run, h i, ih]

/-- Under "stutter or decrease", the measure never grows along a schedule. -/
theorem mu_run_le (p : Prog σ π) (Inv : Cfg σ π → Prop) (μ : Cfg σ π → Nat)
    (hinv : ∀ c i, Inv c → Inv (stepAt p c i))
    (hdec : ∀ c i, Inv c → stepAt p c i = c ∨ μ (stepAt p c i) < μ c) :
    ∀ (s : Schedule) (c : Cfg σ π), Inv c → μ (run p s c) ≤ μ c := by
  intro s
  induction s with
  | nil => intro c _; exact Nat.le_refl _
  | cons j s ih =>
    intro c hc
    rw [run]
    cases hdec c j hc with
    | inl h => rw [h]; exact ih c hc
    | inr h => exact Nat.le_trans (ih _ (hinv c j hc)) (Nat.le_of_lt h)

/-- One pass either changes nothing (and then every scheduled thread stutters) or
strictly decreases the measure. -/
theorem pass_progress (p : Prog σ π) (Inv : Cfg σ π → Prop) (μ : Cfg σ π → Nat)
    (hinv : ∀ c i, Inv c → Inv (stepAt p c i))
    (hdec : ∀ c i, Inv c → stepAt p c i = c ∨ μ (stepAt p c i) < μ c) :
    ∀ (l : Schedule) (c : Cfg σ π), Inv c →
      (run p l c = c ∧ ∀ i ∈ l, stepAt p c i = c) ∨ μ (run p l c) < μ c := by
  intro l
  induction l with
  | nil => intro c _; exact Or.inl ⟨rfl, by intro i hi; cases hi⟩
  | cons j l ih =>
    intro c hc
    cases hdec c j hc with
    | inl hst =>
      rw [run, hst]
      cases ih c hc with
      | inl h =>
        refine Or.inl ⟨h.1, ?_⟩
        intro i hi
        cases hi with
        | head => exact hst
        | tail _ hi' => exact h.2 i hi'
      | inr h => exact Or.inr h
    | inr hlt =>
      rw [run]
      cases ih (stepAt p c j) (hinv c j hc) with
      | inl h => rw [h.1]; exact Or.inr hlt
      | inr h => exact Or.inr (Nat.lt_trans h hlt)

/-- **Termination under a fair scheduler**: if, under an invariant, every step either
stutters or strictly decreases `μ`, then `k ≥ μ c` round-robin passes over all threads
reach a quiescent configuration. -/
theorem rounds_quiescent (p : Prog σ π) (Inv : Cfg σ π → Prop) (μ : Cfg σ π → Nat) (n : Nat)
    (hinv : ∀ c i, Inv c → Inv (stepAt p c i))
    (hdec : ∀ c i, Inv c → stepAt p c i = c ∨ μ (stepAt p c i) < μ c) :
    ∀ (k : Nat) (c : Cfg σ π), Inv c → c.ths.length ≤ n → μ c ≤ k →
      Quiescent p (run p (rounds n k) c) := by
  intro k
  induction k with
  | zero =>
    intro c hc _ hk i
    simp only [rounds, run]
    cases hdec c i hc with
    | inl h => exact h
    | inr h => omega
  | succ k ih =>
    intro c hc hn hk
    simp only [rounds]
    rw [run_append]
    cases pass_progress p Inv μ hinv hdec (List.range n) c hc with
    | inl h =>
      have hq : Quiescent p c := by
        intro i
        cases Nat.lt_or_ge i n with
        | inl hlt => exact h.2 i (List.mem_range.mpr hlt)
        | inr hge => exact stepAt_none p c i (List.getElem?_eq_none (Nat.le_trans hn hge))
      rw [h.1, quiescent_run p c hq]
      exact hq
    | inr h =>
      apply ih
      · exact inv_run p Inv hinv _ c hc
      · rw [run_length]; exact hn
      · omega

/-- Arithmetic for sum-of-weights measures: replacing thread `i`'s local state by one of
strictly smaller weight, while no other weight grows, decreases the sum. -/
theorem sum_map_set_lt (w w' : π → Nat) :
    ∀ (ths : List π) (i : Nat) (l l' : π), ths[i]? = some l →
      (∀ x, w' x ≤ w x) → w' l' < w l →
      ((ths.set i l').map w').sum < (ths.map w).sum := by
  intro ths
  induction ths with
  | nil => intro i l l' h; simp at h
  | cons a t ih =>
    intro i l l' h hle hlt
    have hmono : ∀ (u : List π), (u.map w').sum ≤ (u.map w).sum := by
      intro u
      induction u with
      | nil => simp
      | cons b u ihu =>
        simp only [List.map_cons, List.sum_cons]
        have := hle b
        omega
    cases i with
    | zero =>
      simp only [List.getElem?_cons_zero, Option.some.injEq] at h
      subst h
      simp only [List.set_cons_zero, List.map_cons, List.sum_cons]
      have := hmono t
      omega
    | succ i =>
      simp only [List.getElem?_cons_succ] at h
      simp only [List.set_cons_succ, List.map_cons, List.sum_cons]
      have := ih i l l' h hle hlt
      have := hle a
      omega

end Tunnox.Sched
