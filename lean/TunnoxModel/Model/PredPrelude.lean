/- Fixed abstractions used by the translated predicates in `Gen/Pred.lean`. -/
namespace Tunnox.PredPrelude

/-- Times are natural numbers (nanoseconds); an optional time is `Option Nat`. -/
class TimeLike (α : Type) where
  toTime : α → Nat
instance : TimeLike Nat := ⟨id⟩
instance : TimeLike (Option Nat) := ⟨fun o => o.getD 0⟩

/-- `now.After(x)` -/
def timeAfter {α} [TimeLike α] (now : Nat) (x : α) : Bool := decide (TimeLike.toTime x < now)
/-- `now.Before(x)` -/
def timeBefore {α} [TimeLike α] (now : Nat) (x : α) : Bool := decide (now < TimeLike.toTime x)
/-- `x.IsZero()` -/
def timeIsZero {α} [TimeLike α] (x : α) : Bool := TimeLike.toTime x == 0

/-- `strings.HasPrefix(k, p)` -/
def hasPrefix (k p : String) : Bool := p.toList.isPrefixOf k.toList

end Tunnox.PredPrelude
