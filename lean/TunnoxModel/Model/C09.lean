import TunnoxModel.Gen.C09
/-!
# C09 — executable model of the tunnel routing table over the storage backends

Mirrors (file : function)
* `internal/protocol/session/tunnel/routing.go` : `NewRoutingTable`, `RegisterWaitingTunnel`,
  `LookupWaitingTunnel`, `RemoveWaitingTunnel`, `GetNodeAddress`, `RegisterNodeAddress`, `makeKey`
* `internal/core/storage/memory/memory.go` : `Set`, `Get`, `Delete`
* `internal/core/storage/redis/redis.go` : `Set` (JSON-encodes everything but strings/bytes), `Get` (string), `Delete`
* `internal/core/storage/hybrid/hybrid.go` : `Set/Get/Delete` for keys of category *shared*
  (`getCategory`, `isShared` are the functions regenerated in `Gen/C09.lean`; `getCacheForKey` by hand)
* `internal/protocol/session/server_bridge.go` : `startSourceBridge` (bridge map, then register),
  `runBridgeLifecycle` (bridge map delete, then remove)

Time is in milliseconds. There are two clocks: the wall clock of the nodes (`time.Now()`; also the
clock of every in-memory store) and the clock of the Redis server (TTL of Redis keys).  They advance
independently in the model — a node whose clock lags or a Redis that is slow to expire must both be
covered by the explicit expiry check / the key TTL.

`encoding/json` is modelled at the level of JSON *values* (`JObj`): which keys an encoded record has
(taken from the regenerated struct-tag table), which Go type each decoded field needs, and the
`float64` detour of `map[string]interface{}`.  The text layer (escaping, number syntax, RFC 3339
times) is assumed to round-trip (DESIGN §3.5) and is compared with the real library by the harness.
-/
namespace Tunnox.C09
open Gen

/-- `tunnel.WaitingState`. -/
structure Rec where
  tunnelID : String
  mappingID : String
  secretKey : String
  sourceNodeID : String
  sourceClientID : Int
  targetClientID : Int
  targetHost : String
  targetPort : Int
  createdAt : Nat
  expiresAt : Nat
deriving DecidableEq, Repr

/-- JSON values that occur in an encoded `WaitingState`. -/
inductive J where
  | str (s : String)
  | num (n : Int)
  | time (t : Nat)
  | null
deriving DecidableEq, Repr

abbrev JObj := List (String × J)

/-! ## Record codec (`json.Marshal` / `json.Unmarshal` on `WaitingState`) -/

/-- The value of the Go field `goName` of `r`. -/
def fieldJ (r : Rec) (goName : String) : J :=
  if goName == "TunnelID" then .str r.tunnelID
  else if goName == "MappingID" then .str r.mappingID
  else if goName == "SecretKey" then .str r.secretKey
  else if goName == "SourceNodeID" then .str r.sourceNodeID
  else if goName == "SourceClientID" then .num r.sourceClientID
  else if goName == "TargetClientID" then .num r.targetClientID
  else if goName == "TargetHost" then .str r.targetHost
  else if goName == "TargetPort" then .num r.targetPort
  else if goName == "CreatedAt" then .time r.createdAt
  else if goName == "ExpiresAt" then .time r.expiresAt
  else .null

/-- JSON object key of a struct field `(Go name, Go type, json tag)`. -/
def jsonKey (f : String × String × String) : String := if f.2.2 == "" then f.1 else f.2.2

/-- Fields that `encoding/json` writes (tag `-` is skipped). -/
def codecFields : List (String × String × String) := C09.WaitingState_fields.filter (fun f => f.2.2 != "-")

def encodeRec (r : Rec) : JObj := codecFields.map (fun f => (jsonKey f, fieldJ r f.1))

def getField (o : JObj) (goName : String) : Option J :=
  match codecFields.find? (fun f => f.1 == goName) with
  | none => none
  | some f => o.lookup (jsonKey f)

def int64Min : Int := -9223372036854775808
def int64Max : Int := 9223372036854775807

/-- Decoding into a Go `string` field: absent / null leave the zero value, another JSON type is an error. -/
def decStr : Option J → Option String
  | none => some ""
  | some .null => some ""
  | some (.str s) => some s
  | _ => none

/-- Decoding into `int64` / `int`: the number must fit. -/
def decInt : Option J → Option Int
  | none => some 0
  | some .null => some 0
  | some (.num n) => if int64Min ≤ n ∧ n ≤ int64Max then some n else none
  | _ => none

def decTime : Option J → Option Nat
  | none => some 0
  | some .null => some 0
  | some (.time t) => some t
  | _ => none

def decodeRec (o : JObj) : Option Rec :=
  match decStr (getField o "TunnelID"), decStr (getField o "MappingID"), decStr (getField o "SecretKey"),
        decStr (getField o "SourceNodeID"), decInt (getField o "SourceClientID"), decInt (getField o "TargetClientID"),
        decStr (getField o "TargetHost"), decInt (getField o "TargetPort"),
        decTime (getField o "CreatedAt"), decTime (getField o "ExpiresAt") with
  | some a, some b, some c, some d, some e, some f, some g, some h, some i, some j => some ⟨a, b, c, d, e, f, g, h, i, j⟩
  | _, _, _, _, _, _, _, _, _, _ => none

/-! ## `float64` detour of `map[string]interface{}` -/

def two53 : Nat := 9007199254740992

/-- Nearest `float64` of a natural number (round half to even on 53 significant bits). -/
def roundF64Nat (n : Nat) : Nat :=
  if n ≤ two53 then n
  else
    let e := n.log2 + 1 - 53
    let q := n >>> e
    let rem := n % 2 ^ e
    let half := 2 ^ (e - 1)
    (if rem > half || (rem == half && q % 2 == 1) then q + 1 else q) <<< e

def numDigits (n : Nat) : Nat := (Nat.toDigits 10 n).length

/-- `v` rounded to `d` significant decimal digits (nearest, ties to even). -/
def roundDigits (v d : Nat) : Nat :=
  if numDigits v ≤ d then v
  else
    let p := 10 ^ (numDigits v - d)
    (if 2 * (v % p) > p || (2 * (v % p) == p && (v / p) % 2 == 1) then v / p + 1 else v / p) * p

/-- `json.Marshal` of a `float64` holding the integer `v`: the shortest decimal that reads back as
the same `float64` (`strconv.AppendFloat(…, 'f', -1, 64)`), which `Unmarshal` then parses as an integer. -/
def shortestDec (v : Nat) : Nat :=
  ((List.range 17).findSome? (fun i => if roundF64Nat (roundDigits v (i + 1)) == v then some (roundDigits v (i + 1)) else none)).getD v

/-- An integer after `int64 → JSON → float64 → JSON`: unchanged up to 2^53, beyond that the
shortest decimal of the nearest `float64`. -/
def roundF64 (n : Int) : Int :=
  if n.natAbs ≤ two53 then n
  else if n < 0 then -(shortestDec (roundF64Nat n.natAbs) : Int) else (shortestDec (roundF64Nat n.natAbs) : Int)

def viaFloat : J → J
  | .num n => .num (roundF64 n)
  | j => j

/-- `json.Unmarshal(text, &interface{})`: every number becomes a `float64`. -/
def toMap (o : JObj) : JObj := o.map (fun p => (p.1, viaFloat p.2))

/-! ## Values as the storage backends hold / return them -/

inductive Val where
  | ptr (r : Rec)        -- *WaitingState (memory keeps what it was given)
  | json (o : JObj)      -- Go string holding the JSON text of an object
  | jbytes (o : JObj)    -- []byte holding the JSON text of an object
  | jmap (o : JObj)      -- map[string]interface{}
  | raw (s : String)     -- a plain Go string (node address)
  | rawBytes (s : String)
deriving DecidableEq, Repr

/-- The Go type name the type switch of `LookupWaitingTunnel` sees. -/
def shapeName : Val → String
  | .ptr _ => "*WaitingState"
  | .json _ => "string"
  | .raw _ => "string"
  | .jbytes _ => "[]byte"
  | .rawBytes _ => "[]byte"
  | .jmap _ => "map[string]interface{}"

/-- `redis.Storage.Set`: strings and bytes are stored as they are, anything else as its JSON text;
`Get` hands back a string. -/
def jsonify : Val → Val
  | .ptr r => .json (encodeRec r)
  | .jbytes o => .json o
  | .jmap o => .json o
  | .rawBytes s => .raw s
  | v => v

/-- Store kinds: the in-memory map, Redis, and two harness doubles around the in-memory map that
return the remaining shapes of the type switch (a JSON-decoding store and a byte-returning store). -/
inductive SK where
  | mem | redis | dmap | dbytes
deriving DecidableEq, Repr

def onSet : SK → Val → Val
  | .mem, v => v
  | _, v => jsonify v

def onGet : SK → Val → Val
  | .dmap, .json o => .jmap (toMap o)
  | .dbytes, .json o => .jbytes o
  | .dbytes, .raw s => .rawBytes s
  | _, v => v

structure Entry where
  val : Val
  exp : Option Nat      -- absolute deadline on the store's clock; none = never expires
deriving DecidableEq, Repr

abbrev KV := String → Option Entry

/-- memory.go `Get`: gone when `now.After(expiration)`; Redis: gone when the TTL has run out. -/
def entryLive (sk : SK) (clock : Nat) (e : Entry) : Bool :=
  match e.exp with
  | none => true
  | some x => if sk == .redis then decide (clock < x) else decide (clock ≤ x)

def skGet (sk : SK) (kv : KV) (clock : Nat) (key : String) : Option Val :=
  match kv key with
  | none => none
  | some e => if entryLive sk clock e then some (onGet sk e.val) else none

/-- `Set(key, value, ttl)`: `ttl ≤ 0` ⇒ no expiry (memory.go, redis.go). -/
def skSet (sk : SK) (kv : KV) (clock : Nat) (key : String) (v : Val) (ttl : Nat) : KV :=
  fun k => if k = key then some ⟨onSet sk v, if ttl = 0 then none else some (clock + ttl)⟩ else kv k

def skDel (kv : KV) (key : String) : KV := fun k => if k = key then none else kv k

/-! ## Configurations -/

inductive Backend where
  | memory        -- one memory.Storage shared by the routing tables of all nodes
  | redis         -- one Redis server, every node has its own redis.Storage client
  | hybridRedis   -- every node has its own hybrid.Storage (own local cache) over one shared Redis
  | hybridLocal   -- hybrid.Storage without a shared cache: every node only has its own local cache
  | dblMap        -- double: JSON-decoding store (returns map[string]interface{})
  | dblBytes      -- double: store returning []byte
deriving DecidableEq, Repr

structure Cfg where
  backend : Backend
  ttls : List Nat     -- per node: the ttl (ms) given to NewRoutingTable; 0 = default
deriving Repr

def msOfNs (n : Nat) : Nat := n / 1000000

/-- `NewRoutingTable`: `ttl == 0` ⇒ 30 s. -/
def tableTTL (cfg : Cfg) (n : Nat) : Nat :=
  if cfg.ttls.getD n 0 == 0 then msOfNs C09.NewRoutingTable_defaultTTL else cfg.ttls.getD n 0

def nodeAddrTTL : Nat := msOfNs tunnel.NodeAddressTTL

def defaultHybrid : HybridStorage :=
  ⟨⟨C09.DefaultConfig_PersistentPrefixes, C09.DefaultConfig_SharedPrefixes, C09.DefaultConfig_SharedPersistentPrefixes⟩⟩

/-- hybrid.go `Set/Get/Delete` + `getCacheForKey` for node `n`: index of the store that carries
`key` (0 = the shared store, `n+1` = the local cache of node `n`).  `none`: the key is not of
category *shared*; those paths (persistent / runtime data) are not modelled here. -/
def hybridIdx (hasShared : Bool) (n : Nat) (key : String) : Option Nat :=
  if hybrid.Storage.getCategory defaultHybrid key == hybrid.DataCategoryShared then
    (if hybrid.Storage.isShared defaultHybrid key && hasShared then some 0 else some (n + 1))
  else none

def storeIdx : Backend → Nat → String → Option Nat
  | .hybridRedis, n, key => hybridIdx true n key
  | .hybridLocal, n, key => hybridIdx false n key
  | _, _, _ => some 0

def storeKind : Backend → Nat → SK
  | .memory, _ => .mem
  | .redis, _ => .redis
  | .hybridRedis, 0 => .redis
  | .hybridRedis, _ => .mem
  | .hybridLocal, _ => .mem
  | .dblMap, _ => .dmap
  | .dblBytes, _ => .dbytes

/-- hybrid.go `setShared`: `ttl == 0` ⇒ `DefaultCacheTTL`. -/
def effTTL : Backend → Nat → Nat
  | .hybridRedis, ttl => if ttl == 0 then msOfNs C09.DefaultConfig_DefaultCacheTTL else ttl
  | .hybridLocal, ttl => if ttl == 0 then msOfNs C09.DefaultConfig_DefaultCacheTTL else ttl
  | _, ttl => ttl

structure World where
  wall : Nat                      -- time.Now() of the nodes, ms
  rclk : Nat                      -- clock of the Redis server, ms
  stores : Nat → KV
  bridges : Nat → String → Bool   -- SessionManager.tunnelBridges of node n
  inflight : Nat → String → Option (Option (Option Val))
    -- lookups of node n for an id whose storage Get has been answered by the store but whose reply has not
    -- been consumed yet (outer Option: error / answered; inner: ErrKeyNotFound / value)

def clockOf (w : World) (sk : SK) : Nat := if sk == .redis then w.rclk else w.wall

def World.setStore (w : World) (i : Nat) (kv : KV) : World :=
  { w with stores := fun j => if j = i then kv else w.stores j }

/-- `storage.Set` through node `n`; `none` = an error (unmodelled path). -/
def storageSet (b : Backend) (w : World) (n : Nat) (key : String) (v : Val) (ttl : Nat) : Option World :=
  match storeIdx b n key with
  | none => none
  | some i => some (w.setStore i (skSet (storeKind b i) (w.stores i) (clockOf w (storeKind b i)) key v (effTTL b ttl)))

/-- `storage.Get`; outer `none` = error, inner `none` = `ErrKeyNotFound`. -/
def storageGet (b : Backend) (w : World) (n : Nat) (key : String) : Option (Option Val) :=
  match storeIdx b n key with
  | none => none
  | some i => some (skGet (storeKind b i) (w.stores i) (clockOf w (storeKind b i)) key)

def storageDelete (b : Backend) (w : World) (n : Nat) (key : String) : Option World :=
  match storeIdx b n key with
  | none => none
  | some i => some (w.setStore i (skDel (w.stores i) key))

/-! ## RoutingTable -/

inductive Res where
  | ok
  | errParam
  | notFound
  | expired
  | errInternal
  | errStorage
  | errData
  | exists_
  | found (r : Rec)
  | addr (s : String)
  | skip
  | forwarded (src addr : String)   -- dedicated cross-node connection opened to `addr`, the address of node `src`
  | errNoAddr                       -- the source node has no usable address
  | localAttached                   -- the source bridge is on this very node: the target was attached to it
  | localWait                       -- the record names this node but it has no such bridge (it waits for one)
  | pending                         -- the polling lookup has not found the id yet and keeps polling
  | timeout                         -- the polling lookup gave up (its context ended)
deriving DecidableEq, Repr

def registerWaitingTunnel (cfg : Cfg) (w : World) (n : Nat) (r : Rec) : World × Res :=
  if r.tunnelID == "" then (w, .errParam)
  else
    match storageSet cfg.backend w n (C09.makeKey r.tunnelID)
        (.ptr { r with createdAt := w.wall, expiresAt := w.wall + tableTTL cfg n }) (tableTTL cfg n) with
    | some w' => (w', .ok)
    | none => (w, .errStorage)

/-- The type switch of `LookupWaitingTunnel` (the handled type names are the regenerated case list). -/
def decodeValue (v : Val) : Option Rec :=
  if !(C09.LookupWaitingTunnel_cases.contains (shapeName v)) then none
  else
    match v with
    | .ptr r => some r
    | .json o => decodeRec o
    | .jbytes o => decodeRec o
    | .jmap o => decodeRec o
    | .raw _ => none
    | .rawBytes _ => none

def lookupWaitingTunnel (cfg : Cfg) (w : World) (n : Nat) (tid : String) : World × Res :=
  if tid == "" then (w, .errParam)
  else
    match storageGet cfg.backend w n (C09.makeKey tid) with
    | none => (w, .errStorage)
    | some none => (w, .notFound)
    | some (some v) =>
      match decodeValue v with
      | none => (w, .errInternal)
      | some r =>
        -- (repaired: the expired record is left to its key TTL; an unconditional Delete here could remove a
        -- newer registration of the id made while this lookup was in flight)
        if w.wall > r.expiresAt then (w, .expired)
        else (w, .found r)

/-- A lookup whose storage round trip is slow, first half: the store answers the Get now. -/
def slowBegin (cfg : Cfg) (w : World) (n : Nat) (tid : String) : World × Res :=
  if tid == "" then (w, .errParam)
  else
    ({ w with inflight := fun m t =>
        if m = n ∧ t = tid then some (storageGet cfg.backend w n (C09.makeKey tid)) else w.inflight m t }, .pending)

/-- Second half: the reply arrives — whatever happened meanwhile — and the lookup finishes with the
type switch and the explicit expiry check at the time of arrival. -/
def slowEnd (w : World) (n : Nat) (tid : String) : World × Res :=
  match w.inflight n tid with
  | none => (w, .skip)
  | some got =>
    ({ w with inflight := fun m t => if m = n ∧ t = tid then none else w.inflight m t },
      match got with
      | none => .errStorage
      | some none => .notFound
      | some (some v) =>
        match decodeValue v with
        | none => .errInternal
        | some r => if w.wall > r.expiresAt then .expired else .found r)

def removeWaitingTunnel (cfg : Cfg) (w : World) (n : Nat) (tid : String) : World × Res :=
  if tid == "" then (w, .errParam)
  else ((storageDelete cfg.backend w n (C09.makeKey tid)).getD w, .ok)

def registerNodeAddress (cfg : Cfg) (w : World) (n : Nat) (nid addr : String) : World × Res :=
  match storageSet cfg.backend w n (C09.RegisterNodeAddress_key nid) (.raw addr) nodeAddrTTL with
  | some w' => (w', .ok)
  | none => (w, .errStorage)

/-- `GetNodeAddress`.  A JSON-text string under an address key would be returned verbatim by the Go
code; the model answers `errData` there — `C09_main` shows the case cannot arise (key families are disjoint). -/
def getNodeAddress (cfg : Cfg) (w : World) (n : Nat) (nid : String) : Res :=
  match storageGet cfg.backend w n (C09.GetNodeAddress_key nid) with
  | none => .errStorage
  | some none => .notFound
  | some (some (.raw s)) => if s != "" then .addr s else .errData
  | some (some (.rawBytes s)) => if s != "" then .addr s else .errData
  | some (some _) => .errData

/-! ## Session level: `startSourceBridge` / `runBridgeLifecycle` -/

def nodeName (n : Nat) : String := "node-" ++ toString n

/-- `startSourceBridge`: refuse a second bridge for the id on this node; otherwise insert the bridge
and only then register the waiting state (source node = this node). -/
def startSourceBridge (cfg : Cfg) (w : World) (n : Nat) (r : Rec) : World × Res :=
  if w.bridges n r.tunnelID then (w, .exists_)
  else
    ((registerWaitingTunnel cfg
      { w with bridges := fun m t => if m = n ∧ t = r.tunnelID then true else w.bridges m t } n
      { r with sourceNodeID := nodeName n }).1, .ok)

/-- End of `runBridgeLifecycle`: delete the bridge from the map, then remove the routing record. -/
def endBridge (cfg : Cfg) (w : World) (n : Nat) (tid : String) : World × Res :=
  if w.bridges n tid then
    ((removeWaitingTunnel cfg
      { w with bridges := fun m t => if m = n ∧ t = tid then false else w.bridges m t } n tid).1, .ok)
  else (w, .skip)

/-! ## Forwarding a target connection to the source node

`cross_node_session.go` `lookupTunnelRouting` + `forwardToSourceNode` →
`tunnel_connection_manager.go` `CreateDedicatedConnection`: the routing record names the source
node, the node's address is asked from the routing table (`getNodeAddr = RoutingTable.GetNodeAddress`,
components_session.go) **for every tunnel**, then that address is dialled.  The manager keeps no
address state of its own (the per-tunnel connection map is emptied by `CloseTunnel` when the tunnel
ends; the harness ends every forwarded tunnel).  Dialling a registered address is assumed to succeed. -/

def forwardTarget (cfg : Cfg) (w : World) (n : Nat) (tid : String) : World × Res :=
  match (lookupWaitingTunnel cfg w n tid).2 with
  | .found r =>
    ((lookupWaitingTunnel cfg w n tid).1,
      -- processCrossNodeForward: the source node is this node ⇒ handleLocalBridgeWait, else forwardToSourceNode
      if r.sourceNodeID == nodeName n then
        (if (lookupWaitingTunnel cfg w n tid).1.bridges n tid then .localAttached else .localWait)
      else
        match getNodeAddress cfg (lookupWaitingTunnel cfg w n tid).1 n r.sourceNodeID with
        | .addr a => .forwarded r.sourceNodeID a
        | _ => .errNoAddr)
  | res => ((lookupWaitingTunnel cfg w n tid).1, res)

/-! ## Polling lookup of the target node

`cross_node_session.go` `lookupTunnelRouting`: look up; *found* ends the loop with the record;
`ErrNotFound` / `ErrExpired` mean "not yet" (sleep 50 → 100 → 200 ms, try again) until the context
ends; any other error ends the loop as a storage error.  A polling lookup is split into two events so
that a history can put anything between two of its polls: `pollStart … k` runs the first `k` polls,
`pollEnd` runs one more poll and then lets the context end. -/

def pollLoop (cfg : Cfg) (n : Nat) (tid : String) : Nat → World → World × Res
  | 0, w => (w, .pending)
  | k + 1, w =>
    match (lookupWaitingTunnel cfg w n tid).2 with
    | .notFound => pollLoop cfg n tid k (lookupWaitingTunnel cfg w n tid).1
    | .expired => pollLoop cfg n tid k (lookupWaitingTunnel cfg w n tid).1
    | .found r => ((lookupWaitingTunnel cfg w n tid).1, .found r)
    | _ => ((lookupWaitingTunnel cfg w n tid).1, .errStorage)

def pollEnd (cfg : Cfg) (w : World) (n : Nat) (tid : String) : World × Res :=
  match (pollLoop cfg n tid 1 w).2 with
  | .pending => ((pollLoop cfg n tid 1 w).1, .timeout)
  | res => ((pollLoop cfg n tid 1 w).1, res)

/-! ## Restart of a node (crash: no cleanup runs)

All in-process state of node `n` is lost — its bridge map, and the node-local cache of its tiered
store — while everything in shared storage stays: the routing records of its tunnels remain until
removed or lapsed, its address remains registered. -/

def isHybrid : Backend → Bool
  | .hybridRedis => true
  | .hybridLocal => true
  | _ => false

def restartNode (cfg : Cfg) (w : World) (n : Nat) : World :=
  { w with
    bridges := fun m t => if m = n then false else w.bridges m t,
    inflight := fun m t => if m = n then none else w.inflight m t,
    stores := fun i => if isHybrid cfg.backend ∧ i = n + 1 then (fun _ => none) else w.stores i }

/-! ## Histories -/

inductive Ev where
  | reg (n : Nat) (r : Rec)
  | look (n : Nat) (tid : String)
  | rem (n : Nat) (tid : String)
  | remDead (n : Nat) (tid : String)   -- RemoveWaitingTunnel called with a cancelled / expired context (node shutdown)
  | open_ (n : Nat) (r : Rec)
  | endB (n : Nat) (tid : String)
  | adv (d : Nat)        -- time passes everywhere
  | advWall (d : Nat)    -- only the nodes' clock
  | advStore (d : Nat)   -- only the Redis server's clock
  | regAddr (n : Nat) (nid addr : String)
  | getAddr (n : Nat) (nid : String)
  | fwd (n : Nat) (tid : String)   -- a target connection for `tid` arrives on node n and is forwarded
  | pollStart (n : Nat) (tid : String) (k : Nat)
  | pollEnd (n : Nat) (tid : String)
  | restart (n : Nat)
  | slowBegin (n : Nat) (tid : String)   -- a lookup starts; the store answers its Get; the reply is delayed
  | slowEnd (n : Nat) (tid : String)     -- the delayed reply arrives and that lookup completes
deriving DecidableEq, Repr

def step (cfg : Cfg) (w : World) : Ev → World × Res
  | .reg n r => registerWaitingTunnel cfg w n r
  | .look n tid => lookupWaitingTunnel cfg w n tid
  | .rem n tid => removeWaitingTunnel cfg w n tid
  -- the removal does not depend on the caller's context: at shutdown runBridgeLifecycle passes the session
  -- manager's (already cancelled) context and the record must go all the same
  | .remDead n tid => removeWaitingTunnel cfg w n tid
  | .open_ n r => startSourceBridge cfg w n r
  | .endB n tid => endBridge cfg w n tid
  | .adv d => ({ w with wall := w.wall + d, rclk := w.rclk + d }, .skip)
  | .advWall d => ({ w with wall := w.wall + d }, .skip)
  | .advStore d => ({ w with rclk := w.rclk + d }, .skip)
  | .regAddr n nid a => registerNodeAddress cfg w n nid a
  | .getAddr n nid => (w, getNodeAddress cfg w n nid)
  | .fwd n tid => forwardTarget cfg w n tid
  | .pollStart n tid k => pollLoop cfg n tid k w
  | .pollEnd n tid => pollEnd cfg w n tid
  | .restart n => (restartNode cfg w n, .skip)
  | .slowBegin n tid => slowBegin cfg w n tid
  | .slowEnd n tid => slowEnd w n tid

def runFrom (cfg : Cfg) (w : World) : List Ev → List Res
  | [] => []
  | e :: es => (step cfg w e).2 :: runFrom cfg (step cfg w e).1 es

def wall0 : Nat := 1000000
def rclk0 : Nat := 5000000

def World.init : World := ⟨wall0, rclk0, fun _ _ => none, fun _ _ => false, fun _ _ => none⟩

def run (cfg : Cfg) (evs : List Ev) : List Res := runFrom cfg World.init evs

end Tunnox.C09
