import TunnoxModel.Driver.Util
import TunnoxModel.Spec.C18
/-!
Line protocol of C18 (all numbers decimal, times in milliseconds of the case's time line):

  bf <MaxFailures> <TimeWindow> <BanDuration> <PermanentBanAt> <ev>…
       ev = <t>:f:<ip> | <t>:r:<ip> | <t>:b:<ip>:<i> | <t>:s:<ip> | <t>:q:<ip> | <t>:u:<ip> | <t>:c
            | <t>:cf | <t>:cb | <t>:ss | <t>:sd      (clean-up cut into its critical sections; model only)
  race <mode> <MaxFailures> <TimeWindow> <BanDuration> <PermanentBanAt> <addrs> <workers> <rounds> <seed>
       a racing run: per round <addrs> addresses with an elapsed, unswept ban; <workers> goroutines each
       add one threshold-reaching failure per address while the real clean-up runs (mode manual: called by
       the harness behind a barrier; mode ticker: the protector's own periodic goroutine).
       observation: lost <k> = addresses for which RecordFailure reported a ban and IsBanned, asked right
       after (well inside the ban period), said no.
  ip <ev>…
       ev = <t>:ab:<addr>/<plen|x>:<dur> | <t>:rb:<key> | <t>:aw:<key> | <t>:rw:<key> | <t>:al:<ip> | <t>:ar:<ip> | <t>:c
            | <t>:rs    (a new IPManager over the same storage takes over)
  rl <Rate> <Burst> <TTL> <U> <ev>…
       ev = <t>:a:<ip> | <t>:c
            | <t>:lk:<ip> | <t>:cr:<ip>:<i> | <t>:tk:<ip>:<i>   (AllowIP cut into its critical sections: lookup, create, Take;
              <i> = position among the calls of <ip> in flight; the harness runs lk/tk on a bucket that exists)
  race2 <mode> <Rate> <Burst> <TTL> <callers> <rounds> <seed>
       <callers> goroutines call AllowIP for one address that has no bucket (first contact, or just evicted by cleanup)
       at the same moment; observation: excess <k> = the most by which a round exceeded the burst (refill over the round's span allowed for).
  bfd <ev>… | rld <ev>… | hsd <ev>…   the same with the shipped default configuration (components built with a
       nil config, as the server does); model configuration = the regenerated defaults, in milliseconds
  hs <MaxFailures> <TimeWindow> <BanDuration> <PermanentBanAt> <Rate> <Burst> <TTL> <U> <ev>…
       ev = <t>:h:<ip>:<kind> | <t>:i:<ip-manager ev without time> | <t>:p:<protector ev without time> | <t>:rc
observation: one token per event: 1 | 0 | - (bf, ip, rl);  blk | ban | rate | ok | fail | chal | - (hs)
-/
namespace Tunnox.Drv.C18
open Tunnox.C18

def parseEv (ps : List String) : Option Ev :=
  match ps with
  | ["f", a] => a.toNat?.map .fail
  | ["r", a] => a.toNat?.map .failRec
  | ["b", a, i] => match a.toNat?, i.toNat? with
    | some a, some i => some (.failBan a i)
    | _, _ => none
  | ["s", a] => a.toNat?.map .success
  | ["q", a] => a.toNat?.map .query
  | ["u", a] => a.toNat?.map .asyncUnban
  | ["c"] => some .cleanup
  | ["cf"] => some .cleanFr
  | ["cb"] => some .cleanBan
  | ["ss"] => some .sweepScan
  | ["sd"] => some .sweepDelete
  | _ => none

def parseKey (s : String) : Option IPKey :=
  match s.splitOn "/" with
  | [a, "x"] => a.toNat?.map (⟨·, none⟩)
  | [a, n] => match a.toNat?, n.toNat? with
    | some a, some n => some ⟨a, some n⟩
    | _, _ => none
  | _ => none

def parseIEv (ps : List String) : Option IEv :=
  match ps with
  | ["ab", k, d] => match parseKey k, d.toNat? with
    | some k, some d => some (.addBlack k d)
    | _, _ => none
  | ["rb", k] => (parseKey k).map .removeBlack
  | ["aw", k] => (parseKey k).map .addWhite
  | ["rw", k] => (parseKey k).map .removeWhite
  | ["al", a] => a.toNat?.map .isAllowed
  | ["ar", a] => a.toNat?.map .asyncRemove
  | ["c"] => some .cleanup
  | ["rs"] => some .restart
  | _ => none

def parseREv (ps : List String) : Option REv :=
  match ps with
  | ["a", a] => a.toNat?.map .allow
  | ["c"] => some .cleanup
  | _ => none

def parseXEv (ps : List String) : Option XEv :=
  match ps with
  | ["a", a] => a.toNat?.map .allow
  | ["c"] => some .cleanup
  | ["lk", a] => a.toNat?.map .lookup
  | ["cr", a, i] => match a.toNat?, i.toNat? with
    | some a, some i => some (.create a i)
    | _, _ => none
  | ["tk", a, i] => match a.toNat?, i.toNat? with
    | some a, some i => some (.take a i)
    | _, _ => none
  | _ => none

def parseKind : String → Option HKind
  | "anonOk" => some .anonOk | "anonFail" => some .anonFail | "unknown" => some .unknown
  | "noChallenge" => some .noChallenge | "badResp" => some .badResp | "good" => some .good
  | "phase1" => some .phase1 | "expired" => some .expired | _ => none

def parseHEv (ps : List String) : Option HEv :=
  match ps with
  | ["h", a, k] => match a.toNat?, parseKind k with
    | some a, some k => some (.hs a k)
    | _, _ => none
  -- 4th field: how the harness presents the attempt (address form, token spelling); same model event
  | ["h", a, k, _variant] => match a.toNat?, parseKind k with
    | some a, some k => some (.hs a k)
    | _, _ => none
  | "i" :: rest => (parseIEv rest).map .ipm
  | "p" :: rest => (parseEv rest).map .bf
  | ["rc"] => some .rlCleanup
  | _ => none

/-- `<t>:<rest…>` -/
def parseTimed {α} (f : List String → Option α) (tok : String) : Option (Nat × α) :=
  match tok.splitOn ":" with
  | t :: rest => match t.toNat?, f rest with
    | some t, some e => some (t, e)
    | _, _ => none
  | _ => none

def showB : Option Bool → String
  | some true => "1" | some false => "0" | none => "-"

def parseB : String → Option (Option Bool)
  | "1" => some (some true) | "0" => some (some false) | "-" => some none | _ => none

def showR : Option HResp → String
  | some .blk => "blk" | some .ban => "ban" | some .rate => "rate" | some .ok => "ok"
  | some .fail => "fail" | some .chal => "chal" | none => "-"

def parseR : String → Option (Option HResp)
  | "blk" => some (some .blk) | "ban" => some (some .ban) | "rate" => some (some .rate)
  | "ok" => some (some .ok) | "fail" => some (some .fail) | "chal" => some (some .chal)
  | "-" => some none | _ => none

inductive Case
  | bf (cfg : BruteForceConfig) (es : List TEv)
  | ip (es : List (Nat × IEv))
  | rl (cfg : RateLimitConfig) (U : Nat) (es : List (Nat × XEv))
  | race2 (cfg : RateLimitConfig) (evict : Bool) (callers : Nat)
  | hs (cfg : HCfg) (es : List (Nat × HEv))
  | race (cfg : BruteForceConfig)

/-- the shipped defaults (`NewBruteForceProtector(nil, …)`, `NewRateLimiter(nil, nil, …)` — what the
server wires), nanoseconds → milliseconds -/
def defaultBF : BruteForceConfig :=
  ⟨Gen.security.DefaultBruteForceConfig.MaxFailures, Gen.security.DefaultBruteForceConfig.TimeWindow / 1000000,
   Gen.security.DefaultBruteForceConfig.BanDuration / 1000000, Gen.security.DefaultBruteForceConfig.PermanentBanAt⟩
def defaultRL : RateLimitConfig :=
  ⟨Gen.security.DefaultIPRateLimitConfig.Rate, Gen.security.DefaultIPRateLimitConfig.Burst,
   Gen.security.DefaultIPRateLimitConfig.TTL / 1000000⟩

def parseCase (ts : List String) : Option Case :=
  match ts with
  | "bfd" :: evs => (evs.mapM (parseTimed parseEv)).map (.bf defaultBF)
  | "rld" :: evs => (evs.mapM (parseTimed parseXEv)).map (.rl defaultRL 1000)
  | ["race2", mode, r, b, ttl, k, _rounds, _seed] =>
    match natList [r, b, ttl, k] with
    | some [r, b, ttl, k] => some (.race2 ⟨r, b, ttl⟩ (mode.startsWith "evict") k)
    | _ => none
  | "hsd" :: evs => (evs.mapM (parseTimed parseHEv)).map (.hs ⟨defaultBF, defaultRL, 1000⟩)
  | "bf" :: m :: w :: b :: p :: evs =>
    match natList [m, w, b, p], evs.mapM (parseTimed parseEv) with
    | some [m, w, b, p], some es => some (.bf ⟨m, w, b, p⟩ es)
    | _, _ => none
  | ["race", _mode, m, w, b, p, _addrs, _workers, _rounds, _seed] =>
    match natList [m, w, b, p] with
    | some [m, w, b, p] => some (.race ⟨m, w, b, p⟩)
    | _ => none
  | "ip" :: evs => (evs.mapM (parseTimed parseIEv)).map .ip
  | "rl" :: r :: b :: ttl :: u :: evs =>
    match natList [r, b, ttl, u], evs.mapM (parseTimed parseXEv) with
    | some [r, b, ttl, u], some es => some (.rl ⟨r, b, ttl⟩ u es)
    | _, _ => none
  | "hs" :: m :: w :: b :: p :: r :: bu :: ttl :: u :: evs =>
    match natList [m, w, b, p, r, bu, ttl, u], evs.mapM (parseTimed parseHEv) with
    | some [m, w, b, p, r, bu, ttl, u], some es => some (.hs ⟨⟨m, w, b, p⟩, ⟨r, bu, ttl⟩, u⟩ es)
    | _, _ => none
  | _ => none

/-- What one address goes through in a racing round, with the sweep cut around its failure in the
least favourable way: `MaxFailures` failures (ban), the ban period passes, the scan phase sees the
elapsed record, the next failure lands, the delete phase runs, the address is asked. -/
def raceTimeline (cfg : BruteForceConfig) : List TEv :=
  (List.replicate cfg.MaxFailures (1, Ev.fail 1)) ++
  [(cfg.BanDuration + 2, .sweepScan), (cfg.BanDuration + 2, .fail 1), (cfg.BanDuration + 2, .sweepDelete),
   (cfg.BanDuration + 3, .query 1)]

/-- the time line's answers with the last one (the query) replaced by what was observed -/
def raceObs (cfg : BruteForceConfig) (refused : Bool) : List (Option Bool) :=
  (run cfg (raceTimeline cfg) State.empty).dropLast ++ [some refused]

/-- All callers of a racing round look the address up before any of them enters the create section
(the least favourable placement); in the evict flavour the address had a bucket that the clean-up
pass dropped just before. -/
def race2Timeline (cfg : RateLimitConfig) (evict : Bool) (k : Nat) : List (Nat × XEv) :=
  let t := if evict then cfg.TTL + 2 else 1
  (if evict then [(1, XEv.allow 1), (t, .cleanup)] else []) ++
  List.replicate k (t, .lookup 1) ++ (List.replicate k [(t, XEv.create 1 0), (t, .take 1 0)]).flatten

/-- the time line's answers with `m` of the callers admitted -/
def race2Obs (_cfg : RateLimitConfig) (evict : Bool) (k m : Nat) : List (Option Bool) :=
  (if evict then [some true, none] else []) ++ List.replicate k none ++
  ((List.range k).map (fun i => [none, some (decide (i < m))])).flatten

def runModel (ts : List String) : String :=
  match parseCase ts with
  | some (.bf cfg es) => " ".intercalate ((run cfg es State.empty).map showB)
  | some (.ip es) => " ".intercalate ((ipmRun es IPM.empty).map showB)
  | some (.rl cfg u es) => " ".intercalate ((xRun cfg u es XState.empty).map showB)
  | some (.race2 cfg ev k) =>
    s!"excess {admitted (xAllowsOf 1 (race2Timeline cfg ev k) (xRun cfg 1000 (race2Timeline cfg ev k) XState.empty))
        - (if ev then 1 else 0) - cfg.Burst}"
  | some (.hs cfg es) => " ".intercalate ((hRun cfg es HState.empty).map showR)
  | some (.race cfg) =>
    if (run cfg (raceTimeline cfg) State.empty).getLast? == some (some true) then "lost 0" else "lost any"
  | none => "bad-case"

/-- The property predicates of `Spec/C18.lean` on an observation; an observation that does not
parse (panic, timeout, …) is a failure. -/
def runHolds (caseToks obsToks : List String) : String :=
  match parseCase caseToks with
  | some (.bf cfg es) =>
    match obsToks.mapM parseB with
    | some obs => boolStr (holdsBF cfg es obs)
    | none => "false"
  | some (.ip es) =>
    match obsToks.mapM parseB with
    | some obs => boolStr (holdsIPM es obs)
    | none => "false"
  | some (.rl cfg u es) =>
    match obsToks.mapM parseB with
    | some obs => boolStr (holdsRLX cfg u es obs)
    | none => "false"
  | some (.race2 cfg ev k) =>
    match obsToks with
    | ["excess", x] =>
      match x.toNat? with
      | some x => boolStr (holdsRLX cfg 1000 (race2Timeline cfg ev k) (race2Obs cfg ev k (if x = 0 then min k cfg.Burst else cfg.Burst + x)))
      | none => "false"
    | _ => "false"
  | some (.hs cfg es) =>
    match obsToks.mapM parseR with
    | some obs => boolStr (holdsHS cfg es obs)
    | none => "false"
  | some (.race cfg) =>
    match obsToks with
    | ["lost", k] =>
      match k.toNat? with
      | some k => boolStr (holdsBF cfg (raceTimeline cfg) (raceObs cfg (k == 0)))
      | none => "false"
    | _ => "false"
  | none => "false"

end Tunnox.Drv.C18
