import TunnoxModel.Driver.Util
import TunnoxModel.Spec.C14
/-!
Line protocol for C14 (see harness/c14/main.go):

  run [asfound] pe <0|1> sh <0|1> cfg (default | custom <nP> p… <nS> s… <nSP> sp…) key <key>
      init <c> <s> <p> ops <n> <op>… [nodes <n> <0|1>…] sch <m> <entry>…
  values  `-` (absent) | s<n> | i<n> | L | L<a>,<b>,… | J | J<a>,<b>,…  (J: the list as a JSON string)
  ops     get | ex | set:<val>:<ttl> | del | getl | app:<n> | rem:<n> | incr | exp:<ttl>
          also setnx:<val>:<ttl> | hset:<val> | hget | hdel   (hash methods: the case key is <key>:<field>)
  entry   <tid> | <tid>!c | <tid>!s | <tid>!p      (fault on the cache / shared / persistent tier)
          | E<node><c|s>                            (the local cache of <node> / the shared cache drops the entry)

  obs:  th <k> <inv>:<ret>:<res>… fin <c> <s> <p> fget <res> [c1 <val> fget1 <res>] tr <j> <ev>…
  res   ok | nf | err | inv | v=<val> | b=<0|1> | -        (`-` = has not returned)
  ev    <tid>/<c|s|p>/<act>/<out>   act: get | ex | set=<val>=<ttl> | del | incr
                                    out: miss | hit=<val> | ok | fail | b0 | b1
-/
namespace Tunnox.Drv.C14
open Tunnox.C14

def splitOnChar (s : String) (c : Char) : List String := s.splitOn (String.singleton c)

def parseVal (s : String) : Option (Option Val) :=
  if s == "-" then some none
  else match s.toList with
    | 's' :: r => (String.ofList r).toNat?.map (fun n => some (.str n))
    | 'i' :: r => (String.ofList r).toNat?.map (fun n => some (.int n))
    | 'L' :: r =>
      if r.isEmpty then some (some (.list []))
      else ((splitOnChar (String.ofList r) ',').mapM String.toNat?).map (fun xs => some (.list xs))
    | 'J' :: r =>
      if r.isEmpty then some (some (.jl []))
      else ((splitOnChar (String.ofList r) ',').mapM String.toNat?).map (fun xs => some (.jl xs))
    | _ => none

def parseVal1 (s : String) : Option Val := (parseVal s).bind id

def natsStr (xs : List Nat) : String := ",".intercalate (xs.map toString)

def valStr : Val → String
  | .str n => s!"s{n}"
  | .int n => s!"i{n}"
  | .list xs => "L" ++ natsStr xs
  | .jl xs => "J" ++ natsStr xs

def ovalStr : Option Val → String
  | none => "-"
  | some v => valStr v

def parseOp (s : String) : Option Op :=
  match splitOnChar s ':' with
  | ["get"] => some .get
  | ["ex"] => some .ex
  | ["del"] => some .del
  | ["getl"] => some .getl
  | ["incr"] => some .incr
  | ["wbk"] => some .wbk
  | ["set", v, t] => do pure (.set (← parseVal1 v) (← t.toNat?))
  | ["setnx", v, t] => do pure (.setnx (← parseVal1 v) (← t.toNat?))
  | ["hset", v] => (parseVal1 v).map .hset
  | ["hget"] => some .hget
  | ["hdel"] => some .hdel
  | ["app", x] => x.toNat?.map .app
  | ["rem", x] => x.toNat?.map .rem
  | ["exp", t] => t.toNat?.map .exp
  | _ => none

def parseEntry (s : String) : Option Entry :=
  match s.toList with
  | 'E' :: n :: t :: [] =>
    -- eviction: E<node><c|s>
    match (String.singleton n).toNat?, t with
    | some k, 'c' => some ⟨k, none, some .cache⟩
    | some k, 's' => some ⟨k, none, some .shared⟩
    | _, _ => none
  | _ =>
  match splitOnChar s '!' with
  | [t] => t.toNat?.map (fun n => ⟨n, none, none⟩)
  | [t, "c"] => t.toNat?.map (fun n => ⟨n, some .cache, none⟩)
  | [t, "s"] => t.toNat?.map (fun n => ⟨n, some .shared, none⟩)
  | [t, "p"] => t.toNat?.map (fun n => ⟨n, some .persistent, none⟩)
  | _ => none

structure Case where
  V : Variant
  h : Storage
  key : String
  c : Option Val
  s : Option Val
  p : Option Val
  ops : List Op
  sch : List Entry
  nodes : List Nat := []
  sh : Bool := false

def defaultConfig (pe : Bool) : Config :=
  { PersistentPrefixes := Gen.hybrid.DefaultConfig.PersistentPrefixes
    SharedPrefixes := Gen.hybrid.DefaultConfig.SharedPrefixes
    SharedPersistentPrefixes := Gen.hybrid.DefaultConfig.SharedPersistentPrefixes
    DefaultCacheTTL := Gen.hybrid.DefaultConfig.DefaultCacheTTL
    PersistentCacheTTL := Gen.hybrid.DefaultConfig.PersistentCacheTTL
    SharedCacheTTL := Gen.hybrid.DefaultConfig.SharedCacheTTL
    EnablePersistent := pe }

def bit : String → Option Bool
  | "1" => some true | "0" => some false | _ => none

def takeCounted (ts : List String) : Option (List String × List String) :=
  match ts with
  | n :: rest => do takeN (← n.toNat?) rest
  | [] => none

def parseCfg (pe : Bool) : List String → Option (Config × List String)
  | "default" :: rest => some (defaultConfig pe, rest)
  | "custom" :: rest => do
    let (ps, rest) ← takeCounted rest
    let (ss, rest) ← takeCounted rest
    let (sps, rest) ← takeCounted rest
    pure ({ defaultConfig pe with PersistentPrefixes := ps, SharedPrefixes := ss,
                                   SharedPersistentPrefixes := sps }, rest)
  | _ => none

def parseBody (V : Variant) : List String → Option Case
  | "pe" :: pe :: "sh" :: sh :: "cfg" :: rest => do
    let pe ← bit pe
    let sh ← bit sh
    let (cfg, rest) ← parseCfg pe rest
    match rest with
    | "key" :: key :: "init" :: c :: s :: p :: "ops" :: rest => do
      let (ops, rest) ← takeCounted rest
      let hh : Storage := { config := cfg, cache := some .cache, sharedCache := if sh then some .shared else none }
      match rest with
      | "sch" :: rest => do
        let (sch, _) ← takeCounted rest
        pure { V := V, h := hh, sh := sh
               key := key, c := ← parseVal c, s := ← parseVal s, p := ← parseVal p
               ops := ← ops.mapM parseOp, sch := ← sch.mapM parseEntry }
      | "nodes" :: rest => do
        let (ns, rest) ← takeCounted rest
        match rest with
        | "sch" :: rest => do
          let (sch, _) ← takeCounted rest
          pure { V := V, h := hh, sh := sh, nodes := ← ns.mapM String.toNat?
                 key := key, c := ← parseVal c, s := ← parseVal s, p := ← parseVal p
                 ops := ← ops.mapM parseOp, sch := ← sch.mapM parseEntry }
        | _ => none
      | _ => none
    | _ => none
  | _ => none

def parseCase : List String → Option Case
  | "run" :: "asfound" :: rest => parseBody .asFound rest
  | "run" :: rest => parseBody .repaired rest
  | _ => none

def resStr : Option Res → String
  | none => "-"
  | some .ok => "ok"
  | some .nf => "nf"
  | some .err => "err"
  | some .inv => "inv"
  | some (.val v) => "v=" ++ valStr v
  | some (.bool b) => if b then "b=1" else "b=0"

def parseRes (s : String) : Option (Option Res) :=
  match s with
  | "-" => some none
  | "ok" => some (some .ok)
  | "nf" => some (some .nf)
  | "err" => some (some .err)
  | "inv" => some (some .inv)
  | "b=1" => some (some (.bool true))
  | "b=0" => some (some (.bool false))
  | _ => match splitOnChar s '=' with
    | ["v", v] => (parseVal1 v).map (fun x => some (.val x))
    | _ => none

def tierStr : Tier → String
  | .cache => "c" | .shared => "s" | .persistent => "p"

def parseTier : String → Option Tier
  | "c" => some .cache | "s" => some .shared | "p" => some .persistent | _ => none

def actStr : Act → String
  | .get => "get" | .ex => "ex" | .del => "del" | .incr => "incr"
  | .set v t => s!"set={valStr v}={t}"
  | .setnx v t => s!"setnx={valStr v}={t}"

def outStr : Outc → String
  | .miss => "miss" | .ok => "ok" | .fail => "fail"
  | .hit v => "hit=" ++ valStr v
  | .b x => if x then "b1" else "b0"

def evStr (e : Ev) : String := s!"{e.tid}/{tierStr e.tier}/{actStr e.act}/{outStr e.out}"

def parseAct (s : String) : Option Act :=
  match splitOnChar s '=' with
  | ["get"] => some .get | ["ex"] => some .ex | ["del"] => some .del | ["incr"] => some .incr
  | ["set", v, t] => do pure (.set (← parseVal1 v) (← t.toNat?))
  | ["setnx", v, t] => do pure (.setnx (← parseVal1 v) (← t.toNat?))
  | _ => none

def parseOut (s : String) : Option Outc :=
  match splitOnChar s '=' with
  | ["miss"] => some .miss | ["ok"] => some .ok | ["fail"] => some .fail
  | ["b1"] => some (.b true) | ["b0"] => some (.b false)
  | ["hit", v] => (parseVal1 v).map .hit
  | _ => none

def parseEv (s : String) : Option Ev :=
  match splitOnChar s '/' with
  | [t, tr, a, o] => do pure ⟨← t.toNat?, ← parseTier tr, ← parseAct a, ← parseOut o⟩
  | _ => none

def obsStr (two : Bool) (o : Obs) : String :=
  let ths := o.ths.map (fun t => s!"{t.inv}:{t.ret}:{resStr t.res}")
  let evs := o.trace.map evStr
  " ".intercalate (["th", toString ths.length] ++ ths ++
    ["fin", ovalStr o.fin.1, ovalStr o.fin.2.1, ovalStr o.fin.2.2, "fget", resStr (some o.fget)] ++
    (if two then ["c1", ovalStr o.fin1, "fget1", resStr (some o.fget1)] else []) ++
    ["tr", toString evs.length] ++ evs)

def parseTh (s : String) : Option (Nat × Nat × Option Res) :=
  match splitOnChar s ':' with
  | [a, b, r] => do pure (← a.toNat?, ← b.toNat?, ← parseRes r)
  | _ => none

/-- Threads beyond the calls of the case are spawned write-back goroutines. -/
def zipOps (ops : List Op) : List (Nat × Nat × Option Res) → List ThObs
  | [] => []
  | (a, b, r) :: rest =>
    match ops with
    | o :: os => ⟨o, a, b, r⟩ :: zipOps os rest
    | [] => ⟨.wbk, a, b, r⟩ :: zipOps [] rest

def parseTail (ops : List Op) (ths : List (Nat × Nat × Option Res)) (c s p fg : String)
    (c1 : Option Val) (fg1 : Res) (rest : List String) : Option Obs := do
  let (evs, _) ← takeCounted rest
  let fg ← parseRes fg
  pure { ths := zipOps ops ths, fin := (← parseVal c, ← parseVal s, ← parseVal p)
         fget := ← fg, trace := ← evs.mapM parseEv, fin1 := c1, fget1 := fg1 }

def parseObs (ops : List Op) : List String → Option Obs
  | "th" :: rest => do
    let (ths, rest) ← takeCounted rest
    let ths ← ths.mapM parseTh
    match rest with
    | "fin" :: c :: s :: p :: "fget" :: fg :: "tr" :: rest => parseTail ops ths c s p fg none .nf rest
    | "fin" :: c :: s :: p :: "fget" :: fg :: "c1" :: c1 :: "fget1" :: fg1 :: "tr" :: rest => do
      let f1 ← parseRes fg1
      parseTail ops ths c s p fg (← parseVal c1) (← f1) rest
    | _ => none
  | _ => none

def Case.info (k : Case) : CaseInfo :=
  { key := k.key, sh := k.sh, twoNode := k.nodes.any (· != 0), evicts := k.sch.any (·.evict.isSome) }

def runModel (ts : List String) : String :=
  match parseCase ts with
  | some k => obsStr k.info.twoNode (modelN k.V (route k.h k.key) k.c k.s k.p k.ops k.nodes k.sch)
  | none => "bad-case"

def runHolds (caseToks obsToks : List String) : String :=
  match parseCase caseToks with
  | some k =>
    match parseObs k.ops obsToks with
    | some o => boolStr (holdsAll (route k.h k.key) k.info k.c k.s k.p o)
    | none => "false"
  | none => "bad-case"

end Tunnox.Drv.C14
