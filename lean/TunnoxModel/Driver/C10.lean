import TunnoxModel.Driver.Util
import TunnoxModel.Spec.C10
/-!
Line protocol for C10.

  st  <tail> rw <0|1> [tk <nil | n (<keyhex> <a|c>)*n> pre <m>] me <hex> ev <n> <event>*n ch <k> <size>*k rd <m> <size>*m [rv <n> <event>*n rr <k> <size>*k | cut <k>]
        event:  w <len> <seed> | cw | cl | f <tidhex> <ty> <len> <seed>
      obs:  wr <k> (ok:<n>|closed|err:<n>)*k rd <j> (x:<n>|d:<hex>|eof|err:<kind>|fuel)*j rb <0|1> wb <0|1>
            (x:<n> = the next n bytes of the case's reference stream, see `refStream`)
  dec <tail> st <hex> ch <k> <size>*k
      obs:  fr <m> (<idhex> <ty> <datahex>)*m stop <kind> left <n> alloc <a>
  rt  <tail> fr <n> (<idhex> <ty> <len> <seed>)*n ch <k> <size>*k
      obs:  acc <n> (0|1)*n fr <m> (<idhex> <ty> <datahex>)*m stop <kind> left <n> alloc <a>

  pl  <same tokens as st>   the first <pre> events are residual frames on an idle pooled connection
      obs:  reused <0|1> <st observation of the remaining events>
  tm  <tunnel id hex> <node id hex>     Encode/DecodeTargetReadyMessage;  obs: ok <tidhex> <nodehex> | invalid
  ls  tid <hex> node <hex> br <hex> ty <n> hid <hex> pay <len> <seed> back <len> <seed> co <0|1|2>
      obs:  fwd <0|1> up <hex> down <hex>          (the real CrossNodeListener.handleConnection)
  fw  me <hex> up <len> <seed> down <len> <seed> cs <k> <size>*k [opt <ct> <cl> <ord> [<le> <re>]]
      obs:  up <hex> down <hex> done <0|1> cnt <sent|na> <recv|na> closes <n|na>

Payloads are `(len, seed)` pairs expanded by `genBytes` (same function in the Go harness).
-/
namespace Tunnox.Drv.C10
open Tunnox.C10

/-- Deterministic payload: byte i = (seed + 131 i + 7 ⌊i/256⌋) mod 256. -/
def genBytes (len seed : Nat) : Bytes :=
  (List.range len).map (fun i => UInt8.ofNat ((seed + i * 131 + i / 256 * 7) % 256))

def kindStr : FErr → String
  | .eof => "eof" | .header .eof => "header-eof" | .header .err => "header-err"
  | .tooLarge => "toolarge" | .data .eof => "data-eof" | .data .err => "data-err"

def kindOf : String → Option FErr
  | "eof" => some .eof | "header-eof" => some (.header .eof) | "header-err" => some (.header .err)
  | "toolarge" => some .tooLarge | "data-eof" => some (.data .eof) | "data-err" => some (.data .err)
  | _ => none

/-! ### parsing helpers -/

def parseSizes (tag : String) : List String → Option (List Nat × List String)
  | t :: k :: ts =>
    if t == tag then do
      let k ← k.toNat?
      let (sz, rest) ← takeN k ts
      let sz ← natList sz
      pure (sz, rest)
    else none
  | _ => none

def parseEvents : Nat → List String → Option (List Ev × List String)
  | 0, ts => some ([], ts)
  | n + 1, "w" :: l :: s :: ts => do
    let l ← l.toNat?
    let s ← s.toNat?
    let (r, ts') ← parseEvents n ts
    pure (.write (genBytes l s) :: r, ts')
  | n + 1, "cw" :: ts => do
    let (r, ts') ← parseEvents n ts
    pure (.closeWrite :: r, ts')
  | n + 1, "cl" :: ts => do
    let (r, ts') ← parseEvents n ts
    pure (.close :: r, ts')
  | n + 1, "f" :: tid :: ty :: l :: s :: ts => do
    let tid ← bytesOfHex tid
    let ty ← ty.toNat?
    let l ← l.toNat?
    let s ← s.toNat?
    let (r, ts') ← parseEvents n ts
    pure (.inject tid ty (genBytes l s) :: r, ts')
  | _, _ => none

/-- `<keyhex> <a|c>` pairs of the scripted tracker double: the string `IsTunnelClosed` is asked about,
and whether that tunnel is closed (`c`) or still active (`a`); unlisted strings are unknown (not closed). -/
def parseTrk : Nat → List String → Option (List (Bytes × Bool) × List String)
  | 0, ts => some ([], ts)
  | n + 1, k :: st :: ts => do
    let k ← bytesOfHex k
    if st != "a" && st != "c" then none
    let (r, ts') ← parseTrk n ts
    pure ((k, st == "c") :: r, ts')
  | _, _ => none

def trackerOf (tbl : Option (List (Bytes × Bool))) : Tracker :=
  tbl.map (fun t => fun s => t.any (fun e => e.1 == s && e.2))

structure StCase where
  tail : Tail
  rw : Bool
  trk : Option (List (Bytes × Bool))   -- none = NewFrameStream, some = NewFrameStreamWithTracker
  pre : Nat
  me : Bytes
  evs : List Ev
  chunks : List Nat
  reads : List Nat
  rv : Option (List Ev × List Nat) := none   -- reverse phase: B's events, A's read sizes
  cutAt : Option Nat := none                 -- the connection is lost after this many bytes of the wire

def parseStRest (tail : Tail) (rw : Bool) (trk : Option (List (Bytes × Bool))) (pre : Nat) : List String → Option StCase
  | "me" :: me :: "ev" :: n :: ts => do
    let me ← bytesOfHex me
    let n ← n.toNat?
    let (evs, ts) ← parseEvents n ts
    let (ch, ts) ← parseSizes "ch" ts
    let (rd, ts) ← parseSizes "rd" ts
    match ts with
    | "rv" :: k :: ts => do
      let k ← k.toNat?
      let (rev, ts) ← parseEvents k ts
      let (rr, _) ← parseSizes "rr" ts
      pure ⟨tail, rw, trk, pre, me, evs, ch, rd, some (rev, rr), none⟩
    | ["cut", k] => do
      let k ← k.toNat?
      pure ⟨tail, rw, trk, pre, me, evs, ch, rd, none, some k⟩
    | _ => pure ⟨tail, rw, trk, pre, me, evs, ch, rd, none, none⟩
  | _ => none

/-- `tk nil | tk <n> (<keyhex> <a|c>)*n`, then `pre <m>` (the receiving stream is created only after the
first `m` events are on the connection — pure timing, invisible to the model: a `Src` holds all bytes
that will ever arrive), then the rest.  Without a `tk` segment: `NewFrameStream`, `pre 0`. -/
def parseSt : List String → Option StCase
  | tl :: "rw" :: rw :: "tk" :: "nil" :: "pre" :: m :: ts => do
    let tail ← tailOfString tl
    let m ← m.toNat?
    parseStRest tail (rw == "1") none m ts
  | tl :: "rw" :: rw :: "tk" :: n :: ts => do
    let tail ← tailOfString tl
    let n ← n.toNat?
    let (tbl, ts) ← parseTrk n ts
    match ts with
    | "pre" :: m :: ts => do
      let m ← m.toNat?
      parseStRest tail (rw == "1") (some tbl) m ts
    | _ => none
  | tl :: "rw" :: rw :: ts => do
    let tail ← tailOfString tl
    parseStRest tail (rw == "1") none 0 ts
  | _ => none

def parseFramesGen : Nat → List String → Option (List Frame × List String)
  | 0, ts => some ([], ts)
  | n + 1, i :: ty :: l :: s :: ts => do
    let id ← bytesOfHex i
    let ty ← ty.toNat?
    let l ← l.toNat?
    let s ← s.toNat?
    let (r, ts') ← parseFramesGen n ts
    pure (⟨id, ty, genBytes l s⟩ :: r, ts')
  | _, _ => none

def parseFramesHex : Nat → List String → Option (List Frame × List String)
  | 0, ts => some ([], ts)
  | n + 1, i :: ty :: d :: ts => do
    let id ← bytesOfHex i
    let ty ← ty.toNat?
    let d ← bytesOfHex d
    let (r, ts') ← parseFramesHex n ts
    pure (⟨id, ty, d⟩ :: r, ts')
  | _, _ => none

/-! ### observations -/

def wresStr : WRes → String
  | .ok n => s!"ok:{n}" | .closedPipe => "closed" | .err n => s!"err:{n}"

def rresStr : RRes → String
  | .data d => "d:" ++ hexOfBytes d | .eof => "eof" | .err e => "err:" ++ kindStr e | .fuel => "fuel"

/-- Reference stream of a case: the payloads of all `w` events and of all injected data frames carrying
our id string, in order (a function of the case text only — no close/accept logic).  Read results are
written relative to it: `x:<n>` = "the next `n` bytes of the reference stream at the cursor", anything
else literally (`d:<hex>`); the cursor advances by the size of every data result.  The encoding is
lossless (`decReads ∘ encReads = id`); it only keeps the observation lines of 64 KiB writes short. -/
def refStream (me : Bytes) : List Ev → Bytes
  | [] => []
  | .write p :: evs => p ++ refStream me evs
  | .inject tid ty d :: evs =>
    if tid == me && ty == Gen.crossnode.FrameTypeData then d ++ refStream me evs else refStream me evs
  | _ :: evs => refStream me evs

def encReads : Bytes → List RRes → List String
  | _, [] => []
  | xs, .data d :: rs =>
    (if !d.isEmpty && d.isPrefixOf xs then s!"x:{d.length}" else "d:" ++ hexOfBytes d) ::
      encReads (xs.drop d.length) rs
  | xs, r :: rs => rresStr r :: encReads xs rs

def stObsStr (me : Bytes) (evs : List Ev) (o : StObs) : String :=
  let ws := o.writes.foldl (fun acc w => acc ++ " " ++ wresStr w) ""
  let rs := String.intercalate " " (encReads (refStream me evs) o.reads)
  s!"wr {o.writes.length}{ws} rd {o.reads.length}" ++ (if o.reads.isEmpty then "" else " " ++ rs) ++
    s!" rb {if o.rbroken then 1 else 0} wb {if o.wbroken then 1 else 0}"

def afterColon (s : String) : String := (s.splitOn ":").getD 1 ""

def parseWRes (s : String) : Option WRes :=
  if s == "closed" then some .closedPipe
  else if s.startsWith "ok:" then (afterColon s).toNat?.map .ok
  else if s.startsWith "err:" then (afterColon s).toNat?.map .err
  else none

def parseRRes (s : String) : Option RRes :=
  if s == "eof" then some .eof
  else if s == "fuel" then some .fuel
  else if s.startsWith "d:" then (bytesOfHex (afterColon s)).map .data
  else if s.startsWith "err:" then (kindOf (afterColon s)).map .err
  else none

def decReads : Bytes → List String → Option (List RRes)
  | _, [] => some []
  | xs, t :: ts =>
    if t.startsWith "x:" then do
      let n ← (afterColon t).toNat?
      if n = 0 || n > xs.length then none
      else
        let rest ← decReads (xs.drop n) ts
        pure (.data (xs.take n) :: rest)
    else do
      let r ← parseRRes t
      let rest ← decReads (match r with | .data d => xs.drop d.length | _ => xs) ts
      pure (r :: rest)

def parseStObs (ref : Bytes) : List String → Option StObs
  | "wr" :: k :: ts => do
    let k ← k.toNat?
    let (ws, ts) ← takeN k ts
    let ws ← ws.mapM parseWRes
    match ts with
    | "rd" :: j :: ts => do
      let j ← j.toNat?
      let (rs, ts) ← takeN j ts
      let rs ← decReads ref rs
      match ts with
      | ["rb", rb, "wb", wb] =>
        if (rb == "0" || rb == "1") && (wb == "0" || wb == "1") then pure ⟨ws, rs, rb == "1", wb == "1"⟩ else none
      | _ => none
    | _ => none
  | _ => none

def decObsStr (o : DecObs) : String :=
  let fr := o.frames.foldl (fun acc f => acc ++ s!" {hexOfBytes f.id} {f.ty} {hexOfBytes f.data}") ""
  s!"fr {o.frames.length}{fr} stop {kindStr o.stop} left {o.leftover} alloc {o.alloc}"

def parseDecObs : List String → Option DecObs
  | "fr" :: m :: ts => do
    let m ← m.toNat?
    let (fs, ts) ← parseFramesHex m ts
    match ts with
    | ["stop", k, "left", n, "alloc", a] => do
      let k ← kindOf k
      let n ← n.toNat?
      let a ← a.toNat?
      pure ⟨fs, k, n, a⟩
    | _ => none
  | _ => none

/-! ### cases -/

/-- The wire is cut by the case's chunk sizes, the remainder into 4 KiB chunks (any chunking gives the
same observation, `C10_stream_main`; one huge trailing chunk only makes the model's `readFull` walk
its whole length again for every frame). -/
def cutWire (sizes : List Nat) (b : Bytes) : List Bytes :=
  chunkBy (sizes ++ List.replicate (b.length / 4096 + 1) 4096) b

def modelSt (c : StCase) : StObs :=
  runStream (trackerOf c.trk) c.me c.evs (cutWire c.chunks) c.tail c.rw c.reads

/-- `pl`: the first `pre` events are the residual frames on the idle pooled connection. -/
def modelPl (c : StCase) : PlObs :=
  runPool (trackerOf c.trk) c.me (c.evs.take c.pre) (c.evs.drop c.pre) (cutWire c.chunks) c.tail c.rw c.reads

structure DecCase where
  tail : Tail
  stream : Bytes
  chunks : List Nat

def parseDec : List String → Option DecCase
  | tl :: "st" :: st :: ts => do
    let tail ← tailOfString tl
    let st ← bytesOfHex st
    let (ch, _) ← parseSizes "ch" ts
    pure ⟨tail, st, ch⟩
  | _ => none

def modelDec (c : DecCase) : DecObs :=
  readAll (c.stream.length + 1) ⟨chunkBy c.chunks c.stream, c.tail⟩

structure RtCase where
  tail : Tail
  frames : List Frame
  chunks : List Nat

def parseRt : List String → Option RtCase
  | tl :: "fr" :: n :: ts => do
    let tail ← tailOfString tl
    let n ← n.toNat?
    let (fs, ts) ← parseFramesGen n ts
    let (ch, _) ← parseSizes "ch" ts
    pure ⟨tail, fs, ch⟩
  | _ => none

def modelRt (c : RtCase) : List Bool × DecObs :=
  let w := writeAll c.frames
  (w.1, readAll (w.2.length + 1) ⟨chunkBy c.chunks w.2, c.tail⟩)

def accStr (acc : List Bool) : String :=
  acc.foldl (fun s b => s ++ (if b then " 1" else " 0")) s!"acc {acc.length}"

def parseAcc : List String → Option (List Bool × List String)
  | "acc" :: n :: ts => do
    let n ← n.toNat?
    let (xs, rest) ← takeN n ts
    if xs.all (fun x => x == "0" || x == "1") then pure (xs.map (· == "1"), rest) else none
  | _ => none

structure FwCase where
  me : Bytes
  up : Bytes
  down : Bytes
  cs : List Nat
  ct : Bool    -- config has traffic counters
  cl : Bool    -- config has a LocalConnCloser
  le : Nat := 0   -- local reader: 0 plain, 1 last bytes with io.EOF, 2 last bytes with another error
  re : Bool := false  -- stream side reports end-of-stream with its last bytes

def parseFw : List String → Option FwCase
  | "me" :: me :: "up" :: ul :: us :: "down" :: dl :: ds :: ts => do
    let me ← bytesOfHex me
    let ul ← ul.toNat?
    let us ← us.toNat?
    let dl ← dl.toNat?
    let ds ← ds.toNat?
    let (cs, ts) ← parseSizes "cs" ts
    -- optional: opt <ct> <cl> <ord>   (ord = which direction finishes first: harness timing only)
    match ts with
    | "opt" :: ct :: cl :: _ :: le :: re :: _ => do
      let le ← le.toNat?
      pure ⟨me, genBytes ul us, genBytes dl ds, cs, ct == "1", cl == "1", le, re == "1"⟩
    | "opt" :: ct :: cl :: _ => pure ⟨me, genBytes ul us, genBytes dl ds, cs, ct == "1", cl == "1", 0, false⟩
    | _ => pure ⟨me, genBytes ul us, genBytes dl ds, cs, false, false, 0, false⟩
  | _ => none

/-- The local reader's script: the upload in the case's pieces; with `le` ≠ 0 the last piece carries the
end (io.EOF) or an error. -/
def fwReads (c : FwCase) : List LRead :=
  let ps := chunkBy c.cs c.up
  let e : Option Tail := if c.le == 1 then some .eof else if c.le == 2 then some .err else none
  match ps.reverse with
  | [] => [⟨[], e⟩]
  | l :: r => (r.reverse.map (fun d => ⟨d, none⟩)) ++ [⟨l, e⟩]

def fwObsStr (o : FwObs) : String :=
  let cnt := match o.cnt with | some (a, b) => s!"{a} {b}" | none => "na na"
  let cl := match o.closes with | some n => s!"{n}" | none => "na"
  s!"up {hexOfBytes o.up} down {hexOfBytes o.down} done {if o.done then 1 else 0} cnt {cnt} closes {cl}"

def parseFwObs : List String → Option FwObs
  | ["up", u, "down", d, "done", x, "cnt", a, b, "closes", c] => do
    let u ← bytesOfHex u
    let d ← bytesOfHex d
    let cnt ← (if a == "na" && b == "na" then some none else do
      let a ← a.toNat?
      let b ← b.toNat?
      pure (some (a, b)))
    let cl ← (if c == "na" then some none else c.toNat?.map some)
    if x == "0" || x == "1" then pure ⟨u, d, x == "1", cnt, cl⟩ else none
  | _ => none

structure LsCase where
  tid : Bytes
  node : Bytes
  br : Bytes
  ty : Nat
  hid : Bytes
  pay : Bytes
  back : Bytes

def parseLs : List String → Option LsCase
  | ["tid", t, "node", n, "br", b, "ty", ty, "hid", h, "pay", pl, ps, "back", bl, bs, "co", _] => do
    let t ← bytesOfHex t
    let n ← bytesOfHex n
    let b ← bytesOfHex b
    let ty ← ty.toNat?
    let h ← bytesOfHex h
    let pl ← pl.toNat?
    let ps ← ps.toNat?
    let bl ← bl.toNat?
    let bs ← bs.toNat?
    pure ⟨t, n, b, ty, h, genBytes pl ps, genBytes bl bs⟩
  | _ => none

/-- The model of the `ls` scenario: the target side's wire through `runListener` (any chunking gives the
same result, `C10_chunk_indep`/`C10_listener_exact`; 4 KiB chunks here), the answer raw. -/
def modelLs (c : LsCase) : Bool × Bytes × Bytes :=
  match writeFrame ⟨tunnelIDFromString c.hid, c.ty, encodeTargetReady c.tid c.node⟩ with
  | none => (false, [], [])
  | some w =>
    match runListener c.br ⟨cutWire [] (w ++ c.pay), .eof⟩ with
    | some up => (true, up, c.back)
    | none => (false, [], [])

def lsObsStr (o : Bool × Bytes × Bytes) : String :=
  s!"fwd {if o.1 then 1 else 0} up {hexOfBytes o.2.1} down {hexOfBytes o.2.2}"

def tmObsStr : Option (Bytes × Bytes) → String
  | some (t, n) => s!"ok {hexOfBytes t} {hexOfBytes n}"
  | none => "invalid"

def runModel (ts : List String) : String :=
  match ts with
  | ["tm", t, n] =>
    match bytesOfHex t, bytesOfHex n with
    | some t, some n => tmObsStr (decodeTargetReady (encodeTargetReady t n))
    | _, _ => "bad-case"
  | "ls" :: rest =>
    match parseLs rest with
    | some c => lsObsStr (modelLs c)
    | none => "bad-case"
  | "pl" :: rest =>
    match parseSt rest with
    | some c =>
      let o := modelPl c
      s!"reused {if o.reused then 1 else 0} " ++ stObsStr c.me (c.evs.drop c.pre) o.st
    | none => "bad-case"
  | "fw" :: rest =>
    match parseFw rest with
    | some c => fwObsStr (runForwardR c.me (fwReads c) c.down c.ct c.cl c.re)
    | none => "bad-case"
  | "st" :: rest =>
    match parseSt rest with
    | some c =>
      match c.rv with
      | none =>
        match c.cutAt with
        | none => stObsStr c.me c.evs (modelSt c)
        | some k => stObsStr c.me c.evs
            (runStreamCut (trackerOf c.trk) c.me c.evs (cutWire c.chunks) c.tail c.rw c.reads k)
      | some (rev, rr) =>
        let o := runDuplex (trackerOf c.trk) c.me c.evs (cutWire c.chunks) c.tail c.rw c.reads rev rr
        stObsStr c.me c.evs o.fwd ++ " rv " ++ stObsStr c.me rev o.rev
    | none => "bad-case"
  | "dec" :: rest =>
    match parseDec rest with
    | some c => decObsStr (modelDec c)
    | none => "bad-case"
  | "rt" :: rest =>
    match parseRt rest with
    | some c => let m := modelRt c; accStr m.1 ++ " " ++ decObsStr m.2
    | none => "bad-case"
  | _ => "bad-case"

/-- The theorem's predicate on an observation; anything unparsable (panic, timeout, …) is `false`. -/
def runHolds (caseToks obsToks : List String) : String :=
  match caseToks with
  | "ls" :: rest =>
    match parseLs rest, obsToks with
    | some c, ["fwd", f, "up", u, "down", d] =>
      match bytesOfHex u, bytesOfHex d with
      | some u, some d =>
        if f != "0" && f != "1" then "false"
        else boolStr (holdsLs c.tid c.node c.br c.ty c.hid c.pay c.back (f == "1", u, d))
      | _, _ => "false"
    | some _, _ => "false"
    | none, _ => "bad-case"
  | ["tm", t, n] =>
    match bytesOfHex t, bytesOfHex n with
    | some t, some n =>
      match obsToks with
      | ["ok", a, b] =>
        match bytesOfHex a, bytesOfHex b with
        | some a, some b => boolStr (holdsTm t n (some (a, b)))
        | _, _ => "false"
      | ["invalid"] => boolStr (holdsTm t n none)
      | _ => "false"
    | _, _ => "bad-case"
  | "pl" :: rest =>
    match parseSt rest, obsToks with
    | some c, "reused" :: b :: ots =>
      if b != "0" && b != "1" then "false" else
      match parseStObs (refStream c.me (c.evs.drop c.pre)) ots with
      | some o => boolStr (holdsStream c.me (c.evs.drop c.pre) c.tail c.reads o)
      | none => "false"
    | some _, _ => "false"
    | none, _ => "bad-case"
  | "fw" :: rest =>
    match parseFw rest, parseFwObs obsToks with
    | some c, some o => boolStr (holdsFw (readData (fwReads c)) c.down c.ct c.cl o)
    | some _, none => "false"
    | none, _ => "bad-case"
  | "st" :: rest =>
    match parseSt rest with
    | some c =>
      match c.rv with
      | none =>
        match parseStObs (refStream c.me c.evs) obsToks with
        | some o =>
          match c.cutAt with
          | none => boolStr (holdsStream c.me c.evs c.tail c.reads o)
          | some _ => boolStr (holdsCut c.me c.evs c.reads o)
        | none => "false"
      | some (rev, rr) =>
        match parseStObs (refStream c.me c.evs) (obsToks.takeWhile (· != "rv")),
              parseStObs (refStream c.me rev) ((obsToks.dropWhile (· != "rv")).drop 1) with
        | some f, some r => boolStr (holdsDuplex c.me c.evs c.tail c.rw c.reads rev rr ⟨f, r⟩)
        | _, _ => "false"
    | none => "bad-case"
  | "dec" :: rest =>
    match parseDec rest, parseDecObs obsToks with
    | some c, some o => boolStr (holdsDec c.stream c.tail o)
    | some _, none => "false"
    | none, _ => "bad-case"
  | "rt" :: rest =>
    match parseRt rest, parseAcc obsToks with
    | some c, some (acc, ots) =>
      match parseDecObs ots with
      | some o => boolStr (holdsRt c.frames c.tail acc o)
      | none => "false"
    | some _, none => "false"
    | none, _ => "bad-case"
  | _ => "bad-case"

end Tunnox.Drv.C10
