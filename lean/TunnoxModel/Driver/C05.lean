import TunnoxModel.Driver.Util
import TunnoxModel.Driver.C01
import TunnoxModel.Model.C05
import TunnoxModel.Gen.C05
namespace Tunnox.Drv.C05
open Tunnox.C05

/-- Observation tokens: `pk <n> … stop <stage> left <k> alloc <a>`; anything else
(panic, timeout, crash) is an unparsed observation. -/
def parseObs (ts : List String) : Obs :=
  match ts with
  | "pk" :: n :: rest =>
    match n.toNat?, (rest.dropWhile (· != "alloc")) with
    | some n, "alloc" :: a :: _ =>
      match a.toNat? with
      | some a => ⟨rest.contains "stop", n, a⟩
      | none => ⟨false, 0, 0⟩
    | _, _ => ⟨false, 0, 0⟩
  | _ => ⟨false, 0, 0⟩

/-- Dispatcher cases: `disp <type byte> …` — the model answer is the translated routing table of
`SessionManager.HandlePacket`: the `default` branch returns the "unhandled packet type" error,
every other branch hands the packet to a handler (whose answer, error or reply, is not modelled). -/
def dispModel (ts : List String) : String :=
  match ts with
  | ty :: _ =>
    match ty.toNat? with
    | some t => if Gen.HandlePacket_route t == "default" then "res unhandled" else "res handled"
    | none => "bad-case"
  | _ => "bad-case"

/-- `loop <hex> ch …` ## `loop pk <n> ret <b> closed <b> conns <k>` -/
def parseLoopObs : List String → Option LoopObs
  | ["loop", "pk", n, "ret", r, "closed", cl, "conns", k] => do
    let n ← n.toNat?
    let k ← k.toNat?
    pure ⟨n, r == "1", cl == "1", k⟩
  | _ => none

def runModel (ts : List String) : String :=
  match ts with
  | "disp" :: rest => dispModel rest
  | _ => Tunnox.Drv.C01.runRawModel ts

/-- Dispatcher observation: the property only asks for "an error or a reply rather than crashing". -/
def holdsDisp (obsToks : List String) : Bool :=
  match obsToks with
  | ["res", "handled"] => true
  | ["res", "unhandled"] => true
  | _ => false          -- panic …, timeout, crash

def runHolds (caseToks obsToks : List String) : String :=
  match caseToks with
  | "disp" :: _ => boolStr (holdsDisp obsToks)
  | "retain" :: _ =>
    -- live-heap growth per refused packet after warm-up: bounded by a small constant (see `retainBound`)
    match obsToks with
    | ["retain", "perop", n] => match n.toNat? with
      | some k => boolStr (holdsRetain k)
      | none => "false"
    | _ => "false"
  | "loop" :: st :: _ =>
    match bytesOfHex st, parseLoopObs obsToks with
    | some bs, some o => boolStr (holdsLoop bs o)
    | _, _ => "false"
  | _ => boolStr (holds (parseObs obsToks))

end Tunnox.Drv.C05
