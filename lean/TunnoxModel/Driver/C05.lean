import TunnoxModel.Driver.Util
import TunnoxModel.Driver.C01
import TunnoxModel.Model.C05
namespace Tunnox.Drv.C05
open Tunnox.C05

/-- Observation tokens: `pk <n> … stop <stage> left <k> alloc <a>`; anything else
(panic, timeout, crash) is an unparsed observation. -/
def parseObs (ts : List String) : Obs :=
  match ts with
  | "pk" :: n :: rest =>
    match n.toNat?, (rest.dropWhile (· != "alloc")) with
    | some n, "alloc" :: a :: _ =>
      match a.toNat? with
      | some a => ⟨rest.contains "stop", n, a⟩
      | none => ⟨false, 0, 0⟩
    | _, _ => ⟨false, 0, 0⟩
  | _ => ⟨false, 0, 0⟩

def runModel (ts : List String) : String := Tunnox.Drv.C01.runRawModel ts

def runHolds (_caseToks obsToks : List String) : String := boolStr (holds (parseObs obsToks))

end Tunnox.Drv.C05
