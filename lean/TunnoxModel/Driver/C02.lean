import TunnoxModel.Driver.Util
import TunnoxModel.Spec.C02
/-!
Line protocol for C02 (see harness/c02/main.go):
  copy   lim <L|-> rd <n> (<hex> <n|t|f> <canc>)* wr <m> (<accept> <err>)*
         obs: del <hex> total <n> counter <n>
  bridge lim <L|-> src <n> (<hex> <n|t|f> <after>)* tgt <n> (…)* sw <m> (…)* tw <m> (…)*
         obs: tt <hex> ts <hex> s2teof <b> t2seof <b> ret <b> sc <b> tc <b> rem <b> sent <n> recv <n>
Bridge runs are concurrent in the implementation: only `holds` is applied to them (no model line).
-/
namespace Tunnox.Drv.C02
open Tunnox.C02

def errOf : String → Option (Option RErr)
  | "n" => some none | "t" => some (some .timeout) | "f" => some (some .fatal) | _ => none

def parseReads (bridge : Bool) : Nat → List String → Option (List ReadEv × List String)
  | 0, ts => some ([], ts)
  | n + 1, d :: e :: x :: ts => do
    let d ← bytesOfHex d
    let e ← errOf e
    let x ← x.toNat?
    let (r, ts') ← parseReads bridge n ts
    pure ((if bridge then ⟨d, e, false, x⟩ else ⟨d, e, x == 1, 0⟩) :: r, ts')
  | _, _ => none

def parseWrites : Nat → List String → Option (List WriteEv × List String)
  | 0, ts => some ([], ts)
  | n + 1, a :: e :: ts => do
    let (r, ts') ← parseWrites n ts
    if a == "b" then pure (⟨0, false, true⟩ :: r, ts')     -- blocking write (back-pressure)
    else do
      let a ← a.toNat?
      pure (⟨a, e == "1", false⟩ :: r, ts')
  | _, _ => none

/-- bandwidth limit `L` bytes/s ↦ limiter burst `2·L` (NewBridge: `rate.NewLimiter(L, 2L)`). -/
def limOf (s : String) : Option Limiter :=
  if s == "-" then some none else s.toNat?.map (fun l => some (2 * l))

structure CopyCase where
  lim : Limiter
  rd : List ReadEv
  wr : List WriteEv

def parseCopy : List String → Option CopyCase
  | "lim" :: l :: "rd" :: n :: ts => do
    let lim ← limOf l
    let n ← n.toNat?
    let (rd, ts) ← parseReads false n ts
    match ts with
    | "wr" :: m :: ts => do
      let m ← m.toNat?
      let (wr, _) ← parseWrites m ts
      pure ⟨lim, rd, wr⟩
    | _ => none
  | _ => none

structure BridgeCase where
  lim : Limiter
  src : List ReadEv
  tgt : List ReadEv
  sw : List WriteEv := []
  tw : List WriteEv := []

def parseBridge : List String → Option BridgeCase
  | "lim" :: l :: "src" :: n :: ts => do
    let lim ← limOf l
    let n ← n.toNat?
    let (src, ts) ← parseReads true n ts
    match ts with
    | "tgt" :: m :: ts => do
      let m ← m.toNat?
      let (tgt, ts) ← parseReads true m ts
      match ts with
      | "sw" :: k :: ts => do
        let k ← k.toNat?
        let (sw, ts) ← parseWrites k ts
        match ts with
        | "tw" :: j :: ts => do
          let j ← j.toNat?
          let (tw, _) ← parseWrites j ts
          pure ⟨lim, src, tgt, sw, tw⟩
        | _ => pure ⟨lim, src, tgt, sw, []⟩
      | _ => pure ⟨lim, src, tgt, [], []⟩
    | _ => none
  | _ => none

def copyObsStr (o : CopyObs) : String :=
  s!"del {hexOfBytes o.delivered} total {o.total} counter {o.counter}"

def parseCopyObs : List String → Option CopyObs
  | ["del", d, "total", t, "counter", c] => do
    let d ← bytesOfHex d
    let t ← t.toNat?
    let c ← c.toNat?
    pure ⟨d, t, c⟩
  | _ => none

def bit : String → Option Bool
  | "1" => some true | "0" => some false | _ => none

def parseBridgeObs : List String → Option BridgeObs
  | ["tt", tt, "ts", ts, "s2teof", a, "t2seof", b, "ret", r, "sc", sc, "tc", tc, "rem", rm, "sent", s, "recv", rv] => do
    let tt ← bytesOfHex tt
    let ts ← bytesOfHex ts
    pure ⟨tt, ts, ← bit a, ← bit b, ← bit r, ← bit sc, ← bit tc, ← bit rm, ← s.toNat?, ← rv.toNat?⟩
  | _ => none

/-! reattach lim <L|-> gens <g> (at <a> src <n> …)*g tgt <m> …
    obs: tt <hex> ret <b> sc <b> tc <b> rem <b> sent <n> | ps <g> <hex>*g recv <n> -/
structure ReattachCase where
  lim : Limiter
  gens : List SrcGen
  tgt : List ReadEv

def parseGens : Nat → List String → Option (List SrcGen × List String)
  | 0, ts => some ([], ts)
  | k + 1, "at" :: a :: "src" :: n :: ts => do
    let a ← a.toNat?
    let n ← n.toNat?
    let (rd, ts) ← parseReads true n ts
    let (r, ts') ← parseGens k ts
    pure (⟨rd, a⟩ :: r, ts')
  | _, _ => none

def parseReattach : List String → Option ReattachCase
  | "lim" :: l :: "gens" :: g :: ts => do
    let lim ← limOf l
    let g ← g.toNat?
    let (gens, ts) ← parseGens g ts
    match ts with
    | "tgt" :: m :: ts => do
      let m ← m.toNat?
      let (tgt, _) ← parseReads true m ts
      pure ⟨lim, gens, tgt⟩
    | _ => none
  | _ => none

def parseHexes : Nat → List String → Option (List Bytes × List String)
  | 0, ts => some ([], ts)
  | k + 1, h :: ts => do
    let b ← bytesOfHex h
    let (r, ts') ← parseHexes k ts
    pure (b :: r, ts')
  | _, _ => none

def parseReattachObs : List String → Option ReattachObs
  | "tt" :: tt :: "ret" :: r :: "sc" :: sc :: "tc" :: tc :: "rem" :: rm :: "sent" :: s :: "|" :: "ps" :: k :: ts => do
    let tt ← bytesOfHex tt
    let k ← k.toNat?
    let (ps, ts) ← parseHexes k ts
    match ts with
    | ["recv", rv] => pure ⟨tt, ps, ← bit r, ← bit sc, ← bit tc, ← bit rm, ← s.toNat?, ← rv.toNat?⟩
    | _ => none
  | _ => none

/-! xnode dl <ms> via <m|p> gap <ms> down <k> <hex>*k up <l> <hex>*l
    obs: tt <hex> ts <hex> teof <b> seof <b> -/
def parseXnode : List String → Option (List Bytes × List Bytes)
  | "dl" :: _ :: "via" :: _ :: "gap" :: _ :: "down" :: k :: ts => do
    let k ← k.toNat?
    let (down, ts) ← parseHexes k ts
    match ts with
    | "up" :: l :: ts => do
      let l ← l.toNat?
      let (up, _) ← parseHexes l ts
      pure (down, up)
    | _ => none
  | _ => none

def parseXnodeObs : List String → Option XnodeObs
  | ["tt", tt, "ts", ts, "teof", a, "seof", b] => do
    pure ⟨← bytesOfHex tt, ← bytesOfHex ts, ← bit a, ← bit b⟩
  | _ => none

def b01 (b : Bool) : String := if b then "1" else "0"

def runModel (ts : List String) : String :=
  match ts with
  | "reattach" :: rest =>
    match parseReattach rest with
    | some c =>
      let o := reattachObs c.lim c.gens c.tgt
      s!"tt {hexOfBytes o.toTarget} ret {b01 o.returned} sc {b01 o.curSrcClosed} tc {b01 o.tgtClosed} rem {b01 o.removed} sent {o.sent}"
    | none => "bad-case"
  | "xnode" :: rest =>
    match parseXnode rest with
    | some (down, up) =>
      -- the segmentation by the cross-node connection does not show in the observation (`C02_xnode_main`)
      let o := xnodeObs down up (fun d => [d]) (fun d => [d])
      s!"tt {hexOfBytes o.toTarget} ts {hexOfBytes o.toSource} teof {b01 o.tgtEof} seof {b01 o.srcEof}"
    | none => "bad-case"
  | "copy" :: rest =>
    match parseCopy rest with
    | some c =>
      let r := copy c.lim c.rd c.wr {}
      copyObsStr ⟨r.1.delivered, r.1.total, r.1.counter⟩
    | none => "bad-case"
  | _ => "bad-case"

def runHolds (caseToks obsToks : List String) : String :=
  match caseToks with
  | "copy" :: rest =>
    match parseCopy rest, parseCopyObs obsToks with
    | some c, some o => boolStr (holdsCopy c.rd c.wr o)
    | _, _ => "false"
  | "reattach" :: rest =>
    match parseReattach rest, parseReattachObs obsToks with
    | some c, some o => boolStr (holdsReattach c.gens c.tgt (pausePoints c.lim c.gens [] {}) o)
    | _, _ => "false"
  | "xnode" :: rest =>
    match parseXnode rest, parseXnodeObs obsToks with
    | some (down, up), some o => boolStr (holdsXnode down up o)
    | _, _ => "false"
  | "closerace" :: _ =>
    -- the bridge is closed while its target attaches: it must end and be forgotten (`C02_lifecycle`: a closed
    -- bridge finishes both directions, then the entry is deleted)
    boolStr (obsToks == ["ret", "1", "rem", "1"])
  | "reattachfree" :: rest =>
    match parseReattach rest, parseReattachObs obsToks with
    | some c, some o => boolStr (holdsReattachFree c.gens c.tgt o)
    | _, _ => "false"
  | "bridgestall" :: rest =>
    -- obs: <bridge obs> cds <b> stalled <b>: while the statistics backend was stalled, both ends were closed
    match parseBridge rest, parseBridgeObs (obsToks.takeWhile (· != "cds")), obsToks.dropWhile (· != "cds") with
    | some c, some o, ["cds", cds, "stalled", st] =>
      boolStr (holdsBridge c.src c.tgt o && holdsNoSpontaneousClose c.src c.tgt c.sw c.tw o && (st != "1" || cds == "1")
        && (cds == "1" || cds == "0"))
    | _, _, _ => "false"
  | "bridgedup" :: rest =>
    -- obs: <bridge obs> t2c <b> t2n <n>: a second target connection attached to the live bridge: the
    -- established pipe keeps all its guarantees, the newcomer receives nothing and is closed as well
    match parseBridge rest, parseBridgeObs (obsToks.takeWhile (· != "t2c")), obsToks.dropWhile (· != "t2c") with
    | some c, some o, ["t2c", t2c, "t2n", t2n] =>
      boolStr (holdsBridge c.src c.tgt o && holdsNoSpontaneousClose c.src c.tgt c.sw c.tw o && t2c == "1" && t2n == "0")
    | _, _, _ => "false"
  | "bridgeadp" :: rest =>
    -- the source end is served through streamDataForwarderAdapter (idle polls between its reads): same predicate
    match parseBridge rest, parseBridgeObs obsToks with
    | some c, some o => boolStr (holdsBridge c.src c.tgt o && holdsNoSpontaneousClose c.src c.tgt c.sw c.tw o)
    | _, _ => "false"
  | "bridgereal" :: rest =>
    match parseBridge rest, parseBridgeObs obsToks with
    | some c, some o => boolStr (holdsBridge c.src c.tgt o && holdsNoSpontaneousClose c.src c.tgt c.sw c.tw o)
    | _, _ => "false"
  | "bridge" :: rest =>
    match parseBridge rest, parseBridgeObs obsToks with
    | some c, some o => boolStr (holdsBridge c.src c.tgt o && holdsNoSpontaneousClose c.src c.tgt c.sw c.tw o)
    | _, _ => "false"
  | _ => "bad-case"

end Tunnox.Drv.C02
