import TunnoxModel.Driver.Util
import TunnoxModel.Spec.C20
/-!
Line protocol for C20.  `T` = the measured library tables of the case:
    t6 <k> (<addr16> <text>)*k pt <m> (<host> <parsed|!>)*m
Cases:
    hs <tail> T st <stream> ch <n> <size>*n                      Listener.Handshake
    ad <0|1> <user> <pass> <tail> T st <stream> ch <n> <size>*n  SocksAdapter.handleHandshake + handleRequest
    adc <0|1> <user> <pass> <tail> T st <stream> ch <n> <size>*n SocksAdapter.handleSocksConnection (no session): obs  w <written> left <n> closed <0|1>
    udp T d <datagram>                                           parseUDPHeader, then build + parse again
    ubp T h <host> p <port> pl <payload>                         buildUDPHeader, then parseUDPHeader
    conn|live <tail> cfg <mapping> <target> <secret> <hasTunnel> <tunnelOk> <hasRelay> <relayOk> <bindIP> <bindPort> T st <stream> ch <n> <size>*n
                                                                 Listener.handleConnection with creator doubles (live: via Manager + TCP)
    relay <paced|burst|gated> <dns 0|1> T ds <n> <datagram>*n    real UDPRelay (readLoop, handlePacket goroutines, receiveLoop, DNS handler) with doubles
Observations (same for implementation and model):
    hs:  ok <cmd> <host> <port> w <written> left <n>   |  err <stage> w <written> left <n>
    ad:  ok <target> w <written> left <n>              |  err <stage> w <written> left <n>
    udp: err <stage>  |  ok <host> <port> <payload> rb <rebuilt> (ok <host> <port> <payload> | err <stage>)
    ubp: b <built> (ok <host> <port> <payload> | err <stage>)
    conn/live: ev <k> (tunnel <mapping> <target> <host> <port> <secret> <data> | relay <mapping> <target> <secret>)*k w <written> closed <0|1>
    relay: fw <m> (<host> <port> <payload>)*m dq <k> (<server> <query>)*k rx <j> <datagram>*j    each list sorted as text
-/
namespace Tunnox.Drv.C20
open Tunnox.C20

def tblText (tbl : List (Bytes × Bytes)) (k : Bytes) : Bytes :=
  match tbl.find? (fun e => e.1 == k) with
  | some e => e.2
  | none => [63, 63]

def tblParse (tbl : List (Bytes × Option Bytes)) (k : Bytes) : Option Bytes :=
  match tbl.find? (fun e => e.1 == k) with
  | some e => e.2
  | none => none

def parsePairs : Nat → List String → Option (List (Bytes × Bytes) × List String)
  | 0, ts => some ([], ts)
  | n + 1, a :: b :: ts => do
    let x ← bytesOfHex a
    let y ← bytesOfHex b
    let (r, ts') ← parsePairs n ts
    pure ((x, y) :: r, ts')
  | _, _ => none

def parseOptPairs : Nat → List String → Option (List (Bytes × Option Bytes) × List String)
  | 0, ts => some ([], ts)
  | n + 1, a :: b :: ts => do
    let x ← bytesOfHex a
    let y ← (if b == "!" then some none else (bytesOfHex b).map some)
    let (r, ts') ← parseOptPairs n ts
    pure ((x, y) :: r, ts')
  | _, _ => none

/-- `t6 … pt …` -/
def parseTables : List String → Option (IPText × List String)
  | "t6" :: k :: ts => do
    let k ← k.toNat?
    let (t6, ts) ← parsePairs k ts
    match ts with
    | "pt" :: m :: ts => do
      let m ← m.toNat?
      let (pt, ts) ← parseOptPairs m ts
      pure (⟨dotted, tblText t6, tblParse pt⟩, ts)
    | _ => none
  | _ => none

def parseStream : List String → Option (Bytes × List Nat)
  | "st" :: st :: "ch" :: n :: ts => do
    let st ← bytesOfHex st
    let n ← n.toNat?
    let (sz, _) ← takeN n ts
    let sz ← natList sz
    pure (st, sz)
  | _ => none

/-! ### stage names -/

def hsStage : HsErr → String
  | .readVersion => "rdver" | .badVersion => "badver" | .noMethods => "nomethods"
  | .readMethods => "rdmethods" | .noAcceptable => "noaccept" | .readRequest => "rdreq"
  | .badReqVersion => "badreqver" | .badCmd => "badcmd" | .readIPv4 => "rdip4"
  | .readDomLen => "rddomlen" | .readDomain => "rddom" | .readIPv6 => "rdip6"
  | .badAtyp => "badatyp" | .readPort => "rdport"

def hsStageOf : String → Option HsErr
  | "rdver" => some .readVersion | "badver" => some .badVersion | "nomethods" => some .noMethods
  | "rdmethods" => some .readMethods | "noaccept" => some .noAcceptable | "rdreq" => some .readRequest
  | "badreqver" => some .badReqVersion | "badcmd" => some .badCmd | "rdip4" => some .readIPv4
  | "rddomlen" => some .readDomLen | "rddom" => some .readDomain | "rdip6" => some .readIPv6
  | "badatyp" => some .badAtyp | "rdport" => some .readPort | _ => none

def adStage : AdErr → String
  | .readHandshake => "rdhs" | .badVersion => "badver" | .readMethods => "rdmethods"
  | .noAcceptable => "noaccept" | .readAuthHeader => "rdauth" | .badAuthVersion => "badauthver"
  | .readUser => "rduser" | .readPassLen => "rdplen" | .readPass => "rdpass" | .badCreds => "badcreds"
  | .readRequest => "rdreq" | .badReqVersion => "badreqver" | .badCmd => "badcmd"
  | .readIPv4 => "rdip4" | .readDomLen => "rddomlen" | .readDomain => "rddom" | .readIPv6 => "rdip6"
  | .badAtyp => "badatyp" | .readPort => "rdport"

def adStageOf : String → Option AdErr
  | "rdhs" => some .readHandshake | "badver" => some .badVersion | "rdmethods" => some .readMethods
  | "noaccept" => some .noAcceptable | "rdauth" => some .readAuthHeader | "badauthver" => some .badAuthVersion
  | "rduser" => some .readUser | "rdplen" => some .readPassLen | "rdpass" => some .readPass
  | "badcreds" => some .badCreds | "rdreq" => some .readRequest | "badreqver" => some .badReqVersion
  | "badcmd" => some .badCmd | "rdip4" => some .readIPv4 | "rddomlen" => some .readDomLen
  | "rddom" => some .readDomain | "rdip6" => some .readIPv6 | "badatyp" => some .badAtyp
  | "rdport" => some .readPort | _ => none

def uStage : UErr → String
  | .tooShort => "short" | .frag => "frag" | .shortIPv4 => "short4" | .shortDomain => "shortdom"
  | .shortDomainName => "shortname" | .shortIPv6 => "short6" | .badAtyp => "badatyp"

def uStageOf : String → Option UErr
  | "short" => some .tooShort | "frag" => some .frag | "short4" => some .shortIPv4
  | "shortdom" => some .shortDomain | "shortname" => some .shortDomainName | "short6" => some .shortIPv6
  | "badatyp" => some .badAtyp | _ => none

/-! ### hs -/

structure StreamCase where
  tail : Tail
  ip : IPText
  stream : Bytes
  chunks : List Nat

def parseHsCase : List String → Option StreamCase
  | tl :: ts => do
    let tail ← tailOfString tl
    let (ip, ts) ← parseTables ts
    let (st, sz) ← parseStream ts
    pure ⟨tail, ip, st, sz⟩
  | _ => none

def hsObsStr (hs : Hs) (left : Nat) : String :=
  let h := match hs.out with
    | .ok r => s!"ok {r.cmd} {hexOfBytes r.host} {r.port}"
    | .fail e => s!"err {hsStage e}"
  s!"{h} w {hexOfBytes hs.written} left {left}"

/-- Returns the observation and `left`. -/
def parseHsObs : List String → Option (Hs × Nat)
  | "ok" :: cmd :: host :: port :: "w" :: w :: "left" :: n :: [] => do
    pure (⟨.ok ⟨← cmd.toNat?, ← bytesOfHex host, ← port.toNat?⟩, ← bytesOfHex w⟩, ← n.toNat?)
  | "err" :: st :: "w" :: w :: "left" :: n :: [] => do
    pure (⟨.fail (← hsStageOf st), ← bytesOfHex w⟩, ← n.toNat?)
  | _ => none

def modelHs (c : StreamCase) : String :=
  let r := handshake c.ip ⟨chunkBy c.chunks c.stream, c.tail⟩
  hsObsStr r.1 r.2.flat.length

/-! ### ad -/

def parseAdCase : List String → Option (AdCfg × StreamCase)
  | a :: u :: p :: ts => do
    let u ← bytesOfHex u
    let p ← bytesOfHex p
    let sc ← parseHsCase ts
    pure (⟨a == "1", u, p⟩, sc)
  | _ => none

def adObsStr (ad : Ad) (left : Nat) : String :=
  let h := match ad.out with
    | .ok t => s!"ok {hexOfBytes t}"
    | .fail e => s!"err {adStage e}"
  s!"{h} w {hexOfBytes ad.written} left {left}"

def parseAdObs : List String → Option (Ad × Nat)
  | "ok" :: t :: "w" :: w :: "left" :: n :: [] => do
    pure (⟨.ok (← bytesOfHex t), ← bytesOfHex w⟩, ← n.toNat?)
  | "err" :: st :: "w" :: w :: "left" :: n :: [] => do
    pure (⟨.fail (← adStageOf st), ← bytesOfHex w⟩, ← n.toNat?)
  | _ => none

def modelAd (cfg : AdCfg) (c : StreamCase) : String :=
  let r := adNegotiate c.ip cfg ⟨chunkBy c.chunks c.stream, c.tail⟩
  adObsStr r.1 r.2.flat.length

/-! ### udp / ubp -/

def uOutStr : UOut → String
  | .ok d => s!"ok {hexOfBytes d.host} {d.port} {hexOfBytes d.payload}"
  | .fail e => s!"err {uStage e}"

/-- Parses one `ok h p pl` / `err st` group, returning the remaining tokens. -/
def parseUOut : List String → Option (UOut × List String)
  | "ok" :: h :: p :: pl :: ts => do
    pure (.ok ⟨← bytesOfHex h, ← p.toNat?, ← bytesOfHex pl⟩, ts)
  | "err" :: st :: ts => do pure (.fail (← uStageOf st), ts)
  | _ => none

def parseUdpCase : List String → Option (IPText × Bytes)
  | ts => do
    let (ip, ts) ← parseTables ts
    match ts with
    | "d" :: d :: [] => do pure (ip, ← bytesOfHex d)
    | _ => none

def udpObsStr (o : UObs) : String :=
  match o.again with
  | none => uOutStr o.first
  | some (b2, second) => s!"{uOutStr o.first} rb {hexOfBytes b2} {uOutStr second}"

def parseUdpObs (ts : List String) : Option UObs := do
  let (first, ts) ← parseUOut ts
  match ts with
  | [] => pure ⟨first, none⟩
  | "rb" :: b2 :: ts => do
    let b2 ← bytesOfHex b2
    let (second, ts) ← parseUOut ts
    if ts.isEmpty then pure ⟨first, some (b2, second)⟩ else none
  | _ => none

structure BuildCase where
  ip : IPText
  host : Text
  port : Nat
  payload : Bytes

def parseUbpCase : List String → Option BuildCase
  | ts => do
    let (ip, ts) ← parseTables ts
    match ts with
    | "h" :: h :: "p" :: p :: "pl" :: pl :: [] => do
      pure ⟨ip, ← bytesOfHex h, ← p.toNat?, ← bytesOfHex pl⟩
    | _ => none

def modelUbp (c : BuildCase) : BObs := buildObs c.ip c.host c.port c.payload

def parseUbpObs : List String → Option BObs
  | "b" :: b :: ts => do
    let b ← bytesOfHex b
    let (p, ts) ← parseUOut ts
    if ts.isEmpty then pure ⟨b, p⟩ else none
  | _ => none

/-! ### conn / live -/

def b01 (s : String) : Bool := s == "1"

def parseConnCase : List String → Option (ConnCfg × StreamCase)
  | tl :: "cfg" :: m :: t :: sk :: ht :: tok :: hr :: rok :: bip :: bp :: ts => do
    let cfg : ConnCfg := ⟨← bytesOfHex m, ← t.toNat?, ← bytesOfHex sk, b01 ht, b01 tok, b01 hr, b01 rok,
      ← bytesOfHex bip, ← bp.toNat?⟩
    let sc ← parseHsCase (tl :: ts)
    pure (cfg, sc)
  | _ => none

def connEvStr : ConnEv → String
  | .tunnel m t h p sk d => s!" tunnel {hexOfBytes m} {t} {hexOfBytes h} {p} {hexOfBytes sk} {hexOfBytes d}"
  | .relay m t sk => s!" relay {hexOfBytes m} {t} {hexOfBytes sk}"

def connObsStr (o : ConnObs) : String :=
  o.events.foldl (fun acc e => acc ++ connEvStr e) s!"ev {o.events.length}" ++
    s!" w {hexOfBytes o.written} closed {if o.closed then 1 else 0}"

def parseConnEvs : Nat → List String → Option (List ConnEv × List String)
  | 0, ts => some ([], ts)
  | n + 1, "tunnel" :: m :: t :: h :: p :: sk :: d :: ts => do
    let (r, ts') ← parseConnEvs n ts
    pure (.tunnel (← bytesOfHex m) (← t.toNat?) (← bytesOfHex h) (← p.toNat?) (← bytesOfHex sk) (← bytesOfHex d) :: r, ts')
  | n + 1, "relay" :: m :: t :: sk :: ts => do
    let (r, ts') ← parseConnEvs n ts
    pure (.relay (← bytesOfHex m) (← t.toNat?) (← bytesOfHex sk) :: r, ts')
  | _, _ => none

def parseConnObs : List String → Option ConnObs
  | "ev" :: k :: ts => do
    let (evs, ts) ← parseConnEvs (← k.toNat?) ts
    match ts with
    | "w" :: w :: "closed" :: cl :: [] => pure ⟨evs, ← bytesOfHex w, b01 cl⟩
    | _ => none
  | _ => none

def modelConn (cfg : ConnCfg) (c : StreamCase) : String :=
  connObsStr (handleConnection c.ip cfg ⟨chunkBy c.chunks c.stream, c.tail⟩)

/-! ### relay -/

structure RelayCase where
  mode : String
  dns : Bool
  ip : IPText
  ds : List Bytes

def parseHexN : Nat → List String → Option (List Bytes)
  | 0, _ => some []
  | n + 1, t :: ts => do
    let b ← bytesOfHex t
    let r ← parseHexN n ts
    pure (b :: r)
  | _, _ => none

def parseRelayCase : List String → Option RelayCase
  | mode :: dns :: ts => do
    let (ip, ts) ← parseTables ts
    match ts with
    | "ds" :: n :: ts => do
      let n ← n.toNat?
      if ts.length != n then none else
      let ds ← parseHexN n ts
      pure ⟨mode, dns == "1", ip, ds⟩
    | _ => none
  | _ => none

/-- The schedule the harness forces for a mode: `paced` = every goroutine runs before the next
read; `burst` = the reader consumes the whole burst first, goroutines then run last-started first;
`gated` = the reader consumes everything, goroutines are released in starting order. -/
def relaySchedule (mode : String) (n : Nat) : List RStep :=
  if mode == "paced" then (List.replicate n [RStep.read, RStep.run 0]).flatten
  else if mode == "burst" then List.replicate n RStep.read ++ (List.range n).reverse.map RStep.run
  else List.replicate n RStep.read ++ List.replicate n (RStep.run 0)

/-- How the harness doubles answer: the tunnel `A5 ++ payload`, the DNS handler `D5 ++ query`. -/
def harnessAnswer (isDns : Bool) (p : Bytes) : Bytes := (if isDns then 213 else 165) :: p

def destStr (d : UDest) : String := s!"{hexOfBytes d.host} {d.port} {hexOfBytes d.payload}"

def sortedJoin (hdr : String) (xs : List String) : String :=
  (xs.mergeSort (fun a b => !decide (b < a))).foldl (fun acc x => acc ++ " " ++ x) s!"{hdr} {xs.length}"

def relayIOStr (o : RelayIO) : String :=
  sortedJoin "fw" (o.fw.map destStr) ++ " " ++
  sortedJoin "dq" (o.dq.map (fun q => s!"{hexOfBytes q.1} {hexOfBytes q.2}")) ++ " " ++
  sortedJoin "rx" (o.rx.map hexOfBytes)

def modelRelay (c : RelayCase) : String :=
  relayIOStr (relayIO c.ip c.dns harnessAnswer
    ((Relay.init c.ds).exec c.ip .copyAtRead (relaySchedule c.mode c.ds.length)).sent)

def parseDests : Nat → List String → Option (List UDest × List String)
  | 0, ts => some ([], ts)
  | n + 1, h :: p :: pl :: ts => do
    let (r, ts') ← parseDests n ts
    pure (⟨← bytesOfHex h, ← p.toNat?, ← bytesOfHex pl⟩ :: r, ts')
  | _, _ => none

def parseQueries : Nat → List String → Option (List (Text × Bytes) × List String)
  | 0, ts => some ([], ts)
  | n + 1, sv :: q :: ts => do
    let (r, ts') ← parseQueries n ts
    pure ((← bytesOfHex sv, ← bytesOfHex q) :: r, ts')
  | _, _ => none

def parseRelayObs : List String → Option RelayIO
  | "fw" :: m :: ts => do
    let (fw, ts) ← parseDests (← m.toNat?) ts
    match ts with
    | "dq" :: k :: ts => do
      let (dq, ts) ← parseQueries (← k.toNat?) ts
      match ts with
      | "rx" :: j :: ts => do
        let j ← j.toNat?
        if ts.length != j then none else
        pure ⟨fw, dq, ← parseHexN j ts⟩
      | _ => none
    | _ => none
  | _ => none

/-! ### entry points -/

def runModel (ts : List String) : String :=
  match ts with
  | "hs" :: rest =>
    match parseHsCase rest with
    | some c => modelHs c
    | none => "bad-case"
  | "ad" :: rest =>
    match parseAdCase rest with
    | some (cfg, c) => modelAd cfg c
    | none => "bad-case"
  | "udp" :: rest =>
    match parseUdpCase rest with
    | some (ip, d) => udpObsStr (udpObs ip d)
    | none => "bad-case"
  | "ubp" :: rest =>
    match parseUbpCase rest with
    | some c => let o := modelUbp c; s!"b {hexOfBytes o.built} {uOutStr o.parsed}"
    | none => "bad-case"
  | "adc" :: rest =>
    match parseAdCase rest with
    | some (cfg, c) =>
      let r := adConnection c.ip cfg ⟨chunkBy c.chunks c.stream, c.tail⟩
      s!"w {hexOfBytes r.1} left {r.2.flat.length} closed 1"
    | none => "bad-case"
  | "conn" :: rest =>
    match parseConnCase rest with
    | some (cfg, c) => modelConn cfg c
    | none => "bad-case"
  | "live" :: rest =>
    match parseConnCase rest with
    | some (cfg, c) => modelConn cfg c
    | none => "bad-case"
  | "relay" :: rest =>
    match parseRelayCase rest with
    | some c => modelRelay c
    | none => "bad-case"
  | _ => "bad-case"

/-- The theorems' predicates on an implementation observation; anything unparsable is `false`. -/
def runHolds (caseToks obsToks : List String) : String :=
  match caseToks with
  | "hs" :: rest =>
    match parseHsCase rest, parseHsObs obsToks with
    | some c, some (hs, left) =>
      boolStr (decide (left ≤ c.stream.length) && holdsHs c.ip c.stream (hsObs c.stream hs left))
    | some _, none => "false"
    | none, _ => "bad-case"
  | "ad" :: rest =>
    match parseAdCase rest, parseAdObs obsToks with
    | some (cfg, c), some (ad, left) =>
      boolStr (decide (left ≤ c.stream.length) && holdsAd c.ip cfg c.stream (adObs c.stream ad left))
    | some _, none => "false"
    | none, _ => "bad-case"
  | "udp" :: rest =>
    match parseUdpCase rest, parseUdpObs obsToks with
    | some (ip, d), some o => boolStr (holdsUdp ip d o)
    | some _, none => "false"
    | none, _ => "bad-case"
  | "ubp" :: rest =>
    match parseUbpCase rest, parseUbpObs obsToks with
    | some c, some o => boolStr (holdsBuild c.ip c.host c.port c.payload o)
    | some _, none => "false"
    | none, _ => "bad-case"
  | "adc" :: rest =>
    match parseAdCase rest, obsToks with
    | some (cfg, c), ["w", w, "left", n, "closed", cl] =>
      match bytesOfHex w, n.toNat? with
      | some w, some left =>
        boolStr (decide (left ≤ c.stream.length) && holdsAdConn cfg c.stream w (c.stream.length - left) (cl == "1"))
      | _, _ => "false"
    | some _, _ => "false"
    | none, _ => "bad-case"
  | "conn" :: rest =>
    match parseConnCase rest, parseConnObs obsToks with
    | some (cfg, c), some o => boolStr (holdsConn c.ip cfg c.stream o)
    | some _, none => "false"
    | none, _ => "bad-case"
  | "live" :: rest =>
    match parseConnCase rest, parseConnObs obsToks with
    | some (cfg, c), some o => boolStr (holdsConn c.ip cfg c.stream o)
    | some _, none => "false"
    | none, _ => "bad-case"
  | "relay" :: rest =>
    match parseRelayCase rest, parseRelayObs obsToks with
    | some c, some o => boolStr (holdsRelayIO c.ip c.dns harnessAnswer c.ds o)
    | some _, none => "false"
    | none, _ => "bad-case"
  | _ => "bad-case"

end Tunnox.Drv.C20
