import TunnoxModel.Driver.Util
import TunnoxModel.Spec.C19
import TunnoxModel.Model.C19Fault
import TunnoxModel.Model.C19Reg
import TunnoxModel.Model.C19Sys
/-!
  Line protocol for C19 (see harness/c19/main.go for the case / observation grammar).
  The current tree corresponds to the `.repaired` variant of `DeleteMapping`.
-/
namespace Tunnox.Drv.C19
open Tunnox.C19

def strOfHex (h : String) : Option String :=
  match bytesOfHex h with
  | some bs => String.fromUTF8? (ByteArray.mk bs.toArray)
  | none => none

def hexOfStr (s : String) : String := hexOfBytes s.toUTF8.toList

def fields (tok : String) : List String := tok.splitOn ":"

def parseOp (tok : String) : Option Op :=
  match fields tok with
  | ["c", c, sub, base, th, tp] => do
    pure (.create (← c.toNat?) (← strOfHex sub) (← strOfHex base) (← strOfHex th) (← tp.toNat?))
  | ["d", n, c] => do pure (.del (← n.toNat?) (← c.toNat?))
  | ["u", n, st, e, th, tp] => do
    pure (.upd (← n.toNat?) (← strOfHex st) (← e.toNat?) (← strOfHex th) (← tp.toNat?))
  | ["l", h] => do pure (.look (← strOfHex h))
  | _ => none

def parseExt (tok : String) : Option PM :=
  match fields tok with
  | [sub, base, c, th, tp, st, rv, e, id] => do
    pure ⟨← strOfHex id, ← c.toNat?, ← strOfHex th, ← tp.toNat?, ← strOfHex sub, ← strOfHex base, ← strOfHex st,
          rv == "1", ← e.toNat?⟩
  | _ => none

/-- `<n> item*n` -/
def takeCounted (ts : List String) : Option (List String × List String) :=
  match ts with
  | n :: rest => do takeN (← n.toNat?) rest
  | [] => none

def parseThreads : Nat → List String → Option (List (List Op) × List String)
  | 0, ts => some ([], ts)
  | k + 1, "T" :: ts => do
    let (ops, rest) ← takeCounted ts
    let ops ← ops.mapM parseOp
    let (more, rest) ← parseThreads k rest
    pure (ops :: more, rest)
  | _, _ => none

def parseCase (ts : List String) : Option Input :=
  match ts with
  | "c19" :: "now" :: now :: "bases" :: ts => do
    let now ← now.toNat?
    let (bases, ts) ← takeCounted ts
    let bases ← bases.mapM strOfHex
    match ts with
    | "reg" :: ts => do
      let (reg, ts) ← takeCounted ts
      let reg ← reg.mapM parseExt
      match ts with
      | "cloud" :: ts => do
        let (cloud, ts) ← takeCounted ts
        let cloud ← cloud.mapM parseExt
        match ts with
        | "thr" :: k :: ts => do
          let (threads, ts) ← parseThreads (← k.toNat?) ts
          match ts with
          | "S" :: ts => do
            let (sch, rest) ← takeCounted ts
            if !rest.isEmpty then none
            let sch ← natList sch
            pure ⟨⟨.repaired, now, bases, cloud⟩, reg, threads, sch⟩
          | _ => none
        | _ => none
      | _ => none
    | _ => none
  | _ => none

/-! ### rendering -/

def resStr : Res → String
  | .okId n => s!"ok:{n}"
  | .ok => "ok"
  | .err c => "e:" ++ c
  | .route pid c th tp => s!"r:{hexOfStr pid}:{c}:{hexOfStr th}:{tp}"

def slotStr (s : Slot) : String :=
  match s.ret with
  | some (_, r) => resStr r
  | none => if s.ran then "." else "-"

def idsStr (l : List Nat) : String := if l.isEmpty then "-" else ".".intercalate (l.map toString)

def finalToks (f : Final) : List String :=
  [s!"n{f.next}"] ++
  f.idx.map (fun p => s!"i:{hexOfStr p.1}={p.2}") ++
  f.recs.map (fun p => s!"m:{p.1}:{hexOfStr p.2.FullDomain}:{p.2.ClientID}:{hexOfStr p.2.TargetHost}:{p.2.TargetPort}:{hexOfStr p.2.Status}:{p.2.ExpiresAt}") ++
  f.claims.map (fun n => "?key:" ++ hexOfStr (Gen.repos.KeyPrefixHTTPDomainDeleting ++ mappingID n)) ++
  f.clists.map (fun p => s!"cl:{p.1}={idsStr p.2}") ++
  (match f.glist with | some l => ["gl=" ++ idsStr l] | none => []) ++
  f.reg.map (fun p => s!"rg:{hexOfStr p.1}={hexOfStr p.2.ID}:{p.2.client}")

def obsStr (o : Obs) : String := " ".intercalate (o.slots.map slotStr ++ ["|"] ++ finalToks o.final)

/-! ### single storage-failure cases: `c19f now N bases k … pre n op… F k <create-op>` -/

structure FaultCase where
  i : Input
  uni : Input
  cl : Nat
  sub : String
  base : String
  th : String
  tp : Nat
  k : Nat

def parseFaultCase (ts : List String) : Option FaultCase :=
  match ts with
  | "c19f" :: "now" :: now :: "bases" :: ts => do
    let now ← now.toNat?
    let (bases, ts) ← takeCounted ts
    let bases ← bases.mapM strOfHex
    match ts with
    | "pre" :: ts => do
      let (pre, ts) ← takeCounted ts
      let pre ← pre.mapM parseOp
      match ts with
      | ["F", k, op] => do
        let k ← k.toNat?
        match ← parseOp op with
        | .create cl sub base th tp =>
          let cf : Config := ⟨.repaired, now, bases, []⟩
          pure ⟨⟨cf, [], [pre], []⟩, ⟨cf, [], [pre ++ [.create cl sub base th tp]], []⟩, cl, sub, base, th, tp, k⟩
        | _ => none
      | _ => none
    | _ => none
  | _ => none

def runFaultModel (fc : FaultCase) : String :=
  let o := modelFault fc.i fc.uni fc.cl fc.sub fc.base fc.th fc.tp fc.k
  " ".intercalate (finalToks o.before ++ ["|", resStr o.res, "|"] ++ finalToks o.after)

/-! ### registry cases
  `c19q bases k … ops n <op>…`            sequential history on the real DomainRegistry (model compared by equality)
  `c19r bases k … cl n <ext>… hold h round j`   n simultaneous Register calls (only `holdsReg` is evaluated)
  ops: `r:<ext>` Register, `x:<domhex>` Unregister, `l:<hosthex>` LookupByHost -/

def parseROp (tok : String) : Option ROp :=
  if tok.startsWith "r:" then (parseExt (tok.drop 2).toString).map .register
  else if tok.startsWith "rb=" then
    let body := (tok.drop 3).toString
    if body == "" then some (.rebuild []) else ((body.splitOn ",").mapM parseExt).map .rebuild
  else match fields tok with
    | ["xi", id] => (strOfHex id).map .unregId
    | ["av", sub, base] => do pure (.avail (← strOfHex sub) (← strOfHex base))
    | ["x", d] => (strOfHex d).map .unregister
    | ["l", h] => (strOfHex h).map .lookup
    | _ => none

def rresStr : RRes → String
  | .ok => "ok"
  | .err c => "e:" ++ c
  | .found id cl => s!"f:{hexOfStr id}:{cl}"
  | .notFound => "nf"
  | .flag b => if b then "b:1" else "b:0"

def parseRRes (tok : String) : Option RRes :=
  if tok == "ok" then some .ok
  else if tok == "nf" then some .notFound
  else match fields tok with
    | ["e", c] => some (.err c)
    | ["f", id, cl] => do pure (.found (← strOfHex id) (← cl.toNat?))
    | ["b", b] => some (.flag (b == "1"))
    | _ => none

def parseRegSeq (ts : List String) : Option RInput :=
  match ts with
  | "c19q" :: "bases" :: ts => do
    let (bases, ts) ← takeCounted ts
    let bases ← bases.mapM strOfHex
    match ts with
    | "ops" :: ts => do
      let (ops, rest) ← takeCounted ts
      if !rest.isEmpty then none else
      let ops ← ops.mapM parseROp
      pure ⟨⟨false, bases⟩, [ops], []⟩
    | _ => none
  | _ => none

def runRegSeqModel (i : RInput) : String :=
  " ".intercalate ((modelReg i).filterMap (fun s => s.ret.map (fun p => rresStr p.2)))

/-- sequential observation: one result token per operation, in order -/
def regSeqSlots (ops : List ROp) (toks : List String) : Option (List RSlot) :=
  if ops.length != toks.length then none
  else (ops.zip toks).mapM (fun p => (parseRRes p.2).map (fun r => (⟨0, true, some p.1, some (p.1, r)⟩ : RSlot)))

/-- late-unregister race: `c19u bases k … old <ext> new <ext> third <ext> round j`;
obs `S=<res>` then `U1=ok U2=ok R=<res>` in order of return, then `L=… R3=… L2=…` -/
structure URace where
  old : PM
  nw : PM
  third : PM

def parseURace (ts : List String) : Option URace :=
  match ts with
  | "c19u" :: "bases" :: ts => do
    let (_, ts) ← takeCounted ts
    match ts with
    | "old" :: a :: "new" :: b :: "third" :: c :: _ => do pure ⟨← parseExt a, ← parseExt b, ← parseExt c⟩
    | _ => none
  | _ => none

def uraceSlots (u : URace) (toks : List String) : Option (List RSlot) := do
  let d := u.old.fullDomain
  let op (name : String) : Option (Nat × ROp) :=
    if name == "U1" then some (0, .unregId u.old.ID) else if name == "U2" then some (1, .unregId u.old.ID)
    else if name == "R" then some (2, .register u.nw) else none
  match toks with
  | s :: a :: b :: c :: l :: r3 :: l2 :: [] => do
    let sres ← match s.splitOn "=" with | ["S", r] => parseRRes r | _ => none
    let setup : RSlot := ⟨4, true, some (.register u.old), some (.register u.old, sres)⟩
    let invs : List RSlot := [⟨0, true, some (.unregId u.old.ID), none⟩, ⟨1, true, some (.unregId u.old.ID), none⟩,
                              ⟨2, true, some (.register u.nw), none⟩]
    let rets ← [a, b, c].mapM (fun tok =>
      match tok.splitOn "=" with
      | [nm, r] => do
        let (t, o) ← op nm
        let res ← parseRRes r
        pure (⟨t, true, none, some (o, res)⟩ : RSlot)
      | _ => none)
    -- each of the three must have returned exactly once
    if (rets.map (·.tid)).eraseDups.length != 3 then none else
    let seq ← [(l, "L", ROp.lookup (d ++ ":443")), (r3, "R3", ROp.register u.third), (l2, "L2", ROp.lookup d)].mapM (fun p =>
      match p.1.splitOn "=" with
      | [nm, r] => if nm != p.2.1 then none else (parseRRes r).map (fun res => (⟨3, true, some p.2.2, some (p.2.2, res)⟩ : RSlot))
      | _ => none)
    pure (setup :: invs ++ rets ++ seq)
  | _ => none

structure RaceCase where
  pms : List PM

def parseRace (ts : List String) : Option RaceCase :=
  match ts with
  | "c19r" :: "bases" :: ts => do
    let (_, ts) ← takeCounted ts
    match ts with
    | "cl" :: ts => do
      let (cls, _) ← takeCounted ts
      let pms ← cls.mapM parseExt
      pure ⟨pms⟩
    | _ => none
  | _ => none

/-- race observation: `<tid>=<res>` in order of return, then `L=<res>` (LookupByHost of the first claimant's name) -/
def raceSlots (rc : RaceCase) (toks : List String) : Option (List RSlot) := do
  let n := rc.pms.length
  let invs : List RSlot := (List.range n).filterMap (fun t => (rc.pms[t]?).map (fun pm => ⟨t, true, some (.register pm), none⟩))
  let rets ← toks.mapM (fun tok =>
    match tok.splitOn "=" with
    | ["L", r] => do
      let pm ← rc.pms.head?
      let res ← parseRRes r
      pure (⟨n, true, some (.lookup pm.fullDomain), some (.lookup pm.fullDomain, res)⟩ : RSlot)
    | [t, r] => do
      let t ← t.toNat?
      let pm ← rc.pms[t]?
      let res ← parseRRes r
      pure (⟨t, true, none, some (.register pm, res)⟩ : RSlot)
    | _ => none)
  if rets.length != n + 1 then none else pure (invs ++ rets)

/-! ### parsing an observation of the implementation -/

def parseRes (tok : String) : Option Res :=
  if tok == "ok" then some .ok
  else match fields tok with
    | ["ok", n] => n.toNat?.map .okId
    | ["e", c] => some (.err c)
    | ["r", pid, c, th, tp] => do pure (.route (← strOfHex pid) (← c.toNat?) (← strOfHex th) (← tp.toNat?))
    | _ => none

/-- Decoder state: remaining operations and "current operation already invoked" per thread. -/
structure Dec where
  todo : List (List Op)
  started : List Bool

def Dec.get (d : Dec) (t : Nat) : List Op := d.todo.getD t []

/-- Decode one slot token of thread `t`. -/
def decSlot (d : Dec) (t : Nat) (tok : String) : Option (Dec × Slot) :=
  match d.get t with
  | [] => if tok == "-" then some (d, ⟨t, false, none, none⟩) else none
  | o :: rest =>
    let inv := if d.started.getD t false then none else some o
    if tok == "." then some ({ d with started := d.started.set t true }, ⟨t, true, inv, none⟩)
    else match parseRes tok with
      | some r => some ({ todo := d.todo.set t rest, started := d.started.set t false }, ⟨t, true, inv, some (o, r)⟩)
      | none => none

def decSched (d : Dec) : List Nat → List String → Option (Dec × List Slot × List String)
  | [], toks => some (d, [], toks)
  | _ :: _, [] => none
  | t :: ts, tok :: toks => do
    let (d1, s) ← decSlot d t tok
    let (d2, ss, rest) ← decSched d1 ts toks
    pure (d2, s :: ss, rest)

def decPending (d : Dec) : List Nat := (List.range d.todo.length).filter (fun t => !(d.get t).isEmpty)

def decDrain : Nat → Dec → List String → Option (List Slot)
  | 0, _, _ => none
  | fuel + 1, d, toks =>
    if (decPending d).isEmpty then (if toks.isEmpty then some [] else none)
    else do
      let (d1, ss, rest) ← decSched d (decPending d) toks
      let more ← decDrain fuel d1 rest
      pure (ss ++ more)

def parseIds (s : String) : Option (List Nat) :=
  if s == "-" then some [] else (s.splitOn ".").mapM String.toNat?

def parseFinal (toks : List String) : Final :=
  { next := 0
    idx := toks.filterMap (fun tok =>
      if tok.startsWith "i:" then
        match (tok.drop 2).toString.splitOn "=" with
        | [d, n] => do pure (← strOfHex d, ← n.toNat?)
        | _ => none
      else none)
    recs := toks.filterMap (fun tok =>
      match fields tok with
      | ["m", n, d, c, th, tp, st, e] => do
        let n ← n.toNat?
        pure (n, ⟨mappingID n, "", "", ← strOfHex d, ← c.toNat?, ← strOfHex th, ← tp.toNat?, ← strOfHex st, ← e.toNat?⟩)
      | _ => none)
    claims := []
    clists := toks.filterMap (fun tok =>
      if tok.startsWith "cl:" then
        match (tok.drop 3).toString.splitOn "=" with
        | [c, ids] => do pure (← c.toNat?, ← parseIds ids)
        | _ => none
      else none)
    glist := (toks.find? (·.startsWith "gl=")).bind (fun tok => parseIds (tok.drop 3).toString)
    reg := [] }

def parseObs (i : Input) (toks : List String) : Option Obs := do
  let slotToks := toks.takeWhile (· != "|")
  if !(toks.contains "|") then none
  let d0 : Dec := ⟨i.threads, i.threads.map (fun _ => false)⟩
  let (d1, ss, rest) ← decSched d0 i.sched slotToks
  let more ← decDrain (drainFuel i) d1 rest
  pure ⟨ss ++ more, parseFinal ((toks.dropWhile (· != "|")).drop 1)⟩

/-! ### entry-point histories: `c19h now N bases k … ops n <hop>…`  (sequential; see Model/C19Sys.lean) -/

def parseHOp (tok : String) : Option HOp :=
  match fields tok with
  | ["hc", c, sub, base, sch, host, port, ttl] => do
    pure (.hcreate (← c.toNat?) (← strOfHex sub) (← strOfHex base) (← strOfHex sch) (← strOfHex host) (← port.toNat?) (← ttl.toNat?))
  | ["hd", c, n] => do pure (.hdelete (← c.toNat?) (← n.toNat?))
  | ["cu"] => some .cleanup
  | ["ls", c] => c.toNat?.map .listClient
  | ["la"] => some .listAll
  | ["av", sub, base] => do pure (.avail (← strOfHex sub) (← strOfHex base))
  | ["s", h] => (strOfHex h).map .serve
  | _ => (parseOp tok).map .op

def delsStr (l : List (Nat × Nat × Nat)) : String :=
  if l.isEmpty then "-" else ",".intercalate (l.map (fun d => s!"{d.1}/{d.2.1}/{d.2.2}"))

def hresStr : HRes → String
  | .res r => resStr r
  | .refused why => "x:" ++ why
  | .cleaned n del => s!"cu:{n}:{delsStr del}"
  | .ids l => "ids:" ++ idsStr l
  | .flag b => if b then "b:1" else "b:0"
  | .served c url => s!"sv:{c}:{hexOfStr url}"
  | .status code => s!"st:{code}"

def parseDels (s : String) : Option (List (Nat × Nat × Nat)) :=
  if s == "-" then some [] else
  (s.splitOn ",").mapM (fun t =>
    match t.splitOn "/" with
    | [a, b, c] => do pure (← a.toNat?, ← b.toNat?, ← c.toNat?)
    | _ => none)

def parseHRes (tok : String) : Option HRes :=
  match fields tok with
  | ["x", why] => some (.refused why)
  | ["cu", n, del] => do pure (.cleaned (← n.toNat?) (← parseDels del))
  | ["ids", l] => (parseIds l).map .ids
  | ["b", b] => some (.flag (b == "1"))
  | ["sv", c, url] => do pure (.served (← c.toNat?) (← strOfHex url))
  | ["st", code] => code.toNat?.map .status
  | _ => (parseRes tok).map .res

structure SysCase where
  cf : Config
  ops : List HOp

def parseSys (ts : List String) : Option SysCase :=
  match ts with
  | "c19h" :: "now" :: now :: "bases" :: ts => do
    let now ← now.toNat?
    let (bases, ts) ← takeCounted ts
    let bases ← bases.mapM strOfHex
    match ts with
    | "ops" :: ts => do
      let (ops, rest) ← takeCounted ts
      if !rest.isEmpty then none else
      let ops ← ops.mapM parseHOp
      pure ⟨⟨.repaired, now, bases, []⟩, ops⟩
    | _ => none
  | _ => none

def opsOfH : List HOp → List Op
  | [] => []
  | .hcreate c sub base sch host port _ :: r => .create c sub base host (targetPort sch port) :: opsOfH r
  | .hdelete c n :: r => .del n c :: opsOfH r
  | .op o :: r => o :: opsOfH r
  | _ :: r => opsOfH r

/-- the Input used only to enumerate the digest (names and clients that occur in the history) -/
def sysUni (sc : SysCase) : Input := ⟨sc.cf, [], [opsOfH sc.ops], []⟩

def runSysModel (sc : SysCase) : String :=
  let r := runH sc.cf (initStore (sysUni sc)) sc.ops
  " ".intercalate (r.2.map hresStr ++ ["|"] ++ finalToks (finalOf (sysUni sc) r.1))

/-- `http://host:port/p` ↦ (host, port) -/
def splitURL (url : String) : Option (String × Nat) :=
  let body := (url.drop 7).toString
  let hp := (body.splitOn "/").headD ""
  match hp.splitOn ":" with
  | [h, p] => p.toNat?.map (fun p => (h, p))
  | _ => none

/-- what the monitor is shown for a history of entry-point calls and their observed results -/
def sysPairs (cf : Config) : List HOp → List HRes → List (Op × Res) → List (Op × Res)
  | .serve host :: hs, r :: rs, acc =>
    let shown : List (Op × Res) :=
      match r with
      | .served c url =>
        match splitURL url with
        | some (th, tp) =>
          -- the mapping id is not visible at this boundary: the latest created mapping of that client for a name the Host denotes
          let pid := (acc.reverse.findSome? (fun p =>
            match p with
            | (.create c' sub base _ _, .okId n) => if c' == c && nameOK host (sub ++ "." ++ base) then some (mappingID n) else none
            | _ => none)).getD "?"
          [(.look host, .route pid c th tp)]
        | none => [(.look host, .route "?" c "?" 0)]
      | .status code => [(.look host, .err (toString code))]
      | _ => []
    sysPairs cf hs rs (acc ++ shown)
  | h :: hs, r :: rs, acc => sysPairs cf hs rs (acc ++ expandH cf h r)
  | _, _, acc => acc

def runSysHolds (sc : SysCase) (toks : List String) : String :=
  let resToks := toks.takeWhile (· != "|")
  if !(toks.contains "|") || resToks.length != sc.ops.length then "false" else
  match resToks.mapM parseHRes with
  | none => "false"
  | some rs =>
    let pairs := sysPairs sc.cf sc.ops rs []
    let i : Input := ⟨sc.cf, [], [pairs.map (·.1)], []⟩
    let slots : List Slot := pairs.map (fun p => ⟨0, true, some p.1, some p⟩)
    let o : Obs := ⟨slots, parseFinal ((toks.dropWhile (· != "|")).drop 1)⟩
    boolStr (holds i o && ((sc.ops.zip rs).all (fun p => entryOK sc.cf p.1 p.2)))

def runModel (ts : List String) : String :=
  if ts.head? == some "c19h" then
    match parseSys ts with
    | some sc => runSysModel sc
    | none => "bad-case"
  else
  if ts.head? == some "c19q" then
    match parseRegSeq ts with
    | some i => runRegSeqModel i
    | none => "bad-case"
  else
  if ts.head? == some "c19f" then
    match parseFaultCase ts with
    | some fc => runFaultModel fc
    | none => "bad-case"
  else
  match parseCase ts with
  | some i => obsStr (model i)
  | none => "bad-case"

def parseFaultObs (toks : List String) : Option FaultObs :=
  let a := toks.takeWhile (· != "|")
  let rest := (toks.dropWhile (· != "|")).drop 1
  let b := rest.takeWhile (· != "|")
  let c := (rest.dropWhile (· != "|")).drop 1
  match b with
  | [r] => if !(rest.contains "|") then none else (parseRes r).map (fun res => ⟨parseFinal a, res, parseFinal c⟩)
  | _ => none

def runHolds (caseToks obsToks : List String) : String :=
  if caseToks.head? == some "c19h" then
    match parseSys caseToks with
    | some sc => runSysHolds sc obsToks
    | none => "false"
  else
  if caseToks.head? == some "c19q" then
    match parseRegSeq caseToks with
    | some i =>
      match regSeqSlots (i.threads.headD []) obsToks with
      | some sl => boolStr (holdsReg sl)
      | none => "false"
    | none => "false"
  else
  if caseToks.head? == some "c19u" then
    match parseURace caseToks with
    | some u =>
      match uraceSlots u obsToks with
      | some sl => boolStr (holdsReg sl)
      | none => "false"
    | none => "false"
  else
  if caseToks.head? == some "c19r" then
    match parseRace caseToks with
    | some rc =>
      match raceSlots rc obsToks with
      | some sl => boolStr (holdsReg sl)
      | none => "false"
    | none => "false"
  else
  if caseToks.head? == some "c19f" then
    match parseFaultObs obsToks with
    | some o => boolStr (holdsFault o)
    | none => "false"
  else
  match parseCase caseToks with
  | some i =>
    match parseObs i obsToks with
    | some o => boolStr (holds i o)
    | none => "false"
  | none => "false"

end Tunnox.Drv.C19
