import TunnoxModel.Driver.Util
import TunnoxModel.Spec.C16
/-!
Line protocol for C16 (see harness/c16/main.go for the case grammar).
`runModel` runs the executable model of `Model/C16.lean` — for the free-running (spin
barrier) cases under a pseudo-random schedule derived from the case's `ms` seed followed
by the fair drain, for the gated cases (`rep`, `sp`) under exactly the schedule of the case —
and prints the observation in the harness's format.  `runHolds` evaluates `Spec.holds…` on
the observation of the implementation.
-/
namespace Tunnox.Drv.C16
open Tunnox.C16 Tunnox.Sched

/-- Pseudo-random schedule of `len` entries over `n` threads. -/
def lcgSched (seed n : Nat) : Nat → List Nat
  | 0 => []
  | len + 1 =>
    let x := (seed * 1103515245 + 12345) % 2147483648
    (if n = 0 then 0 else (x / 65536) % n) :: lcgSched x n len

def after (key : String) (ts : List String) : List String := (ts.dropWhile (· != key)).drop 1

def natAfter (key : String) (ts : List String) : Option Nat :=
  match after key ts with
  | x :: _ => x.toNat?
  | [] => none

def bitsOf (mask : Nat) : Nat → List Bool
  | 0 => []
  | h + 1 => (mask % 2 == 1) :: bitsOf (mask / 2) h

def spaced (xs : List Nat) : String := " ".intercalate (xs.map toString)

/-! ### disp -/

def dispInput (ts : List String) : Option (Nat × List Bool × Nat) :=
  match natAfter "n" ts, natAfter "h" ts, natAfter "errs" ts, natAfter "ms" ts with
  | some n, some h, some mask, some ms => some (n, bitsOf mask h, ms)
  | _, _, _, _ => none

def dispShow (o : DObs) : String :=
  "h" ++ (if o.runs.isEmpty then "" else " " ++ spaced o.runs) ++ " res " ++
  (match o.res with | some e => toString e | none => "mixed") ++
  " closed " ++ (if o.closed then "1" else "0") ++ " ctx " ++ (if o.ctx then "1" else "0")

def dispParse (ts : List String) : Option DObs :=
  match ts with
  | "h" :: rest =>
    let runs := rest.takeWhile (· != "res")
    match natList runs, after "res" rest, natAfter "closed" rest, natAfter "ctx" rest with
    | some rs, r :: _, some c, some x => some ⟨rs, r.toNat?, c == 1, x == 1⟩
    | _, _, _, _ => none
  | _ => none

/-! ### tun -/

/-- closer token ↦ reason the model's thread uses. -/
def closerReason (c : String) : Option Nat :=
  match c.toList with
  | ['c', d] => if '0' ≤ d ∧ d ≤ '5' then some (d.toNat - 48) else none
  | ['t', d] => if '0' ≤ d ∧ d ≤ '5' then some (d.toNat - 48) else none   -- manager.CloseTunnel(id, reason)
  | ['p'] => some Gen.ctunnel.CloseReasonPeerClosed
  | ['a'] => some Gen.ctunnel.CloseReasonContextCanceled
  | ['x'] => some Gen.ctunnel.CloseReasonError
  | ['e'] => some Gen.ctunnel.CloseReasonNormal
  | _ => none

/-- Reasons the implementation may legitimately report for a closer (`e`: the copy loop
classifies the end of the streams itself). -/
def closerAllowed (c : String) : List Nat :=
  if c == "e" then [Gen.ctunnel.CloseReasonNormal, Gen.ctunnel.CloseReasonLocalClosed, Gen.ctunnel.CloseReasonError]
  else match closerReason c with
    | some r => [r]
    | none => []

structure TunInput where
  init : Nat
  cfg : TCfg
  closers : List String
  ms : Nat

def tunInput (ts : List String) : Option TunInput :=
  match natAfter "init" ts, natAfter "role" ts, natAfter "tgt" ts, natAfter "cl" ts, natAfter "ms" ts with
  | some i, some r, some t, some k, some ms =>
    let cl := ((after "cl" ts).drop 1).take k
    if cl.length = k ∧ k ≥ 1 ∧ i ≤ 1 ∧ cl.all (fun c => (closerReason c).isSome) then
      some ⟨i, ⟨r, t == 1⟩, cl, ms⟩
    else none
  | _, _, _, _, _ => none

def tunShow (o : TObs) : String :=
  s!"closed {o.closed} reason {o.reason} notify {o.notify} disposed {o.disposed} state {o.state} reg {o.reg} leak {o.leak}"

def tunParse (ts : List String) : Option TObs :=
  match ts with
  | ["closed", a, "reason", b, "notify", c, "disposed", d, "state", e, "reg", f, "leak", g] =>
    match natList [a, b, c, d, e, f, g] with
    | some [a, b, c, d, e, f, g] => some ⟨a, b, c, d, e, f, g⟩
    | _ => none
  | _ => none

/-! ### rep -/

/-- Optional `<key> <k> <tid…>` list in front of `ts`. -/
def optIds (key : String) (ts : List String) : List Nat × List String :=
  match ts with
  | k0 :: k :: rest =>
    if k0 == key then
      match k.toNat? with
      | some k => match natList (rest.take k) with
        | some ids => (ids, rest.drop k)
        | none => ([], ts)
      | none => ([], ts)
    else ([], ts)
  | _ => ([], ts)

def repRounds : Nat → List String → Option (List Round)
  | 0, [] => some []
  | 0, _ => none
  | r + 1, "a" :: s :: rr :: "t" :: n :: "s" :: k :: rest =>
    match natList [s, rr, n, k] with
    | some [s, rr, n, k] =>
      match takeN k rest with
      | some (ids, rest') =>
        -- optional storage faults: `g <k> <tid…>` GetPortMapping fails, `u <k> <tid…>` UpdatePortMappingStats fails
        let fg := optIds "g" rest'
        let fu := optIds "u" fg.2
        match natList ids, repRounds r fu.2 with
        | some ids, some more => some (⟨s, rr, n, ids, fg.1, fu.1⟩ :: more)
        | _, _ => none
      | none => none
    | _ => none
  | _, _ => none

def repInput (ts : List String) : Option (List Round) :=
  match ts with
  | "rep" :: "r" :: r :: rest => match r.toNat? with
    | some r => repRounds r rest
    | none => none
  | _ => none

def repShow (os : List RObs) : String :=
  " ".intercalate (os.map fun o => s!"r {o.statS} {o.statR} {o.updates} {o.lastS} {o.lastR}")

def repParse : List String → Option (List RObs)
  | [] => some []
  | "r" :: a :: b :: c :: d :: e :: rest =>
    match natList [a, b, c, d, e], repParse rest with
    | some [a, b, c, d, e], some more => some (⟨a, b, c, d, e⟩ :: more)
    | _, _ => none
  | _ => none

/-! ### brg -/

structure BrgInput where
  bs : Nat
  br : Nat
  n : Nat
  ms : Nat

def brgInput (ts : List String) : Option BrgInput :=
  match after "b" ts, natAfter "start" ts, natAfter "cl" ts, natAfter "ms" ts with
  | s :: r :: _, some st, some k, some ms =>
    match s.toNat?, r.toNat? with
    | some s, some r => if k ≥ 1 then some ⟨s, r, k + st, ms⟩ else none
    | _, _ => none
  | _, _, _, _ => none

def brgModel (i : BrgInput) : BObs :=
  let c := bFinal i.n (lcgSched i.ms i.n (3 * i.n))
  -- cleanup's report and the periodic goroutine's final report: two reporters
  let rep := rRound .repaired rInit (mkRound i.bs i.br (2 * c.sh.cleanups) (lcgSched (i.ms + 1) 2 6))
  bObs c rep

def brgShow (o : BObs) : String :=
  s!"sc {o.sc} tc {o.tc} stc {o.stc} ttc {o.ttc} stats {o.statS} {o.statR} active {o.active} leak {o.leak}"

def brgParse (ts : List String) : Option BObs :=
  match ts with
  | ["sc", a, "tc", b, "stc", c, "ttc", d, "stats", e, f, "active", g, "leak", h] =>
    match natList [a, b, c, d, e, f, g, h] with
    | some [a, b, c, d, e, f, g, h] => some ⟨a, b, c, d, e, f, g, h⟩
    | _ => none
  | _ => none

/-! ### sp -/

structure SpInput where
  ops : List (Bool × Nat)
  cut : Option Nat          -- none: the operation completes before the closers start
  n : Nat

def spInput (ts : List String) : Option SpInput :=
  match after "op" ts, natAfter "chunks" ts, after "cut" ts, natAfter "n" ts with
  | op :: _, some ch, cut :: _, some n =>
    let ops := if op == "r" then [(false, ch)] else if op == "w" then [(true, 3)] else []
    if n ≥ 1 then some ⟨ops, if cut == "-1" then none else cut.toNat?, n⟩ else none
  | _, _, _, _ => none

/-- The forced schedule: the I/O thread passes its check and `cut+1` transport calls, every
closer runs to completion, then everything drains. -/
def spSched (i : SpInput) : Schedule :=
  match i.ops with
  | [] => []
  | o :: _ =>
    let own := match i.cut with
      | none => List.replicate (o.2 + 2) 0
      | some j => List.replicate (j + 2) 0
    own ++ ((List.range i.n).map fun k => [k + 1, k + 1, k + 1]).flatten

def opName : Nat → String
  | 0 => "none" | 1 => "ok" | 2 => "fail" | _ => "panic"

def spShow (o : SObs) : String :=
  s!"rclose {o.rclose} wclose {o.wclose} op {opName o.op} after r eof/eof w closed/closed leak {o.leak}"

def spParse (ts : List String) : Option SObs :=
  match ts with
  | ["rclose", a, "wclose", b, "op", o, "after", "r", r, "w", w, "leak", g] =>
    match natList [a, b, g] with
    | some [a, b, g] =>
      let op := if o == "none" then 0 else if o == "ok" then 1 else if o == "fail" then 2 else 3
      let parts := (r.splitOn "/") ++ (w.splitOn "/")
      some ⟨a, b, op, parts.all (fun p => p == "eof" || p == "closed" || p == "err"), g⟩
    | _ => none
  | _ => none

/-! ### mgr -/

def mgrInput (ts : List String) : Option (Nat × Nat) :=
  match natAfter "n" ts, natAfter "ms" ts with
  | some n, some ms => if n ≥ 1 then some (n, ms) else none
  | _, _ => none

def mgrShow (o : MObs) : String :=
  s!"closed {if o.closed then 1 else 0} after {if o.afterOk then "ok" else "bad"} leak {o.leak}"

def mgrParse (ts : List String) : Option MObs :=
  match ts with
  | ["closed", c, "after", a, "leak", g] =>
    match c.toNat?, g.toNat? with
    | some c, some g => some ⟨c == 1, a == "ok", g⟩
    | _, _ => none
  | _ => none

/-! ### flow -/

structure FlowCase where
  mode : String
  inp : FlowIn

def flowInput (ts : List String) : Option FlowCase :=
  match after "mode" ts, natAfter "chunk" ts, natAfter "at" ts with
  | m :: _, some c, some k =>
    if k = 0 then none else
    let d : C02.ReadEv := { data := List.replicate c 0, err := none }
    let pre := List.replicate (k - 1) d
    if m == "eof" then some ⟨m, ⟨pre, []⟩⟩
    else if m == "err" || m == "close" then some ⟨m, ⟨pre ++ [{ data := [], err := some .fatal }], []⟩⟩
    else if m == "werr" then
      some ⟨m, ⟨List.replicate k d, List.replicate (k - 1) { accept := c, err := false } ++ [{ accept := 0, err := true }]⟩⟩
    else if m == "ctx" then
      some ⟨m, ⟨pre ++ [{ d with cancelled := true }] ++
        List.replicate (Gen.cloudconst.ContextCheckInterval + 5) d, []⟩⟩
    else none
  | _, _, _ => none

def flowShow (m : String) (o : FObs) (upd : Nat) : String :=
  s!"del {o.del} cnt {o.cnt} {if m == "close" then "cstats" else "stats"} {o.statS} {o.statR} upd {upd} leak {o.leak}"

def flowParse (ts : List String) : Option FObs :=
  match ts with
  | ["del", a, "cnt", b, _, c, d, "upd", _, "leak", g] =>
    match natList [a, b, c, d, g] with
    | some [a, b, c, d, g] => some ⟨a, b, c, d, g⟩
    | _ => none
  | _ => none

/-! ### tst -/

/-- `closer@gate` tokens ↦ gate per closer (thread ids 1…k in case order). -/
def tstInput (ts : List String) : Option (List Nat) :=
  match natAfter "cl" ts with
  | some k =>
    let cl := ((after "cl" ts).drop 1).take k
    if cl.length = k ∧ k ≥ 1 then
      cl.mapM fun c => match c.splitOn "@" with
        | [_, g] => g.toNat?
        | _ => none
    else none
  | none => none

/-- The forced schedule: closers of gate 0; Start parked before `manager.Ctx()`; closers of gate 1;
Start's `manager.Ctx()`, `SetCtx`, CAS; closers of gate 2; Start's spawn; closers of gate 3. -/
def tstSched (gates : List Nat) : Schedule :=
  let ids : Nat → List Nat := fun g => ((List.range gates.length).filter fun i => gates[i]? == some g).map (· + 1)
  let grp : Nat → List Nat := fun g => (List.replicate 8 (ids g)).flatten
  grp 0 ++ grp 1 ++ [0, 0, 0] ++ grp 2 ++ [0] ++ grp 3

def tstShow (o : UObs) : String :=
  s!"state {o.state} closes {o.closes} start {if o.startOk then "ok" else "err"} live {o.live} ctx {if o.ctxDone then 1 else 0} isclosed {if o.isClosed then 1 else 0}"

def tstParse (ts : List String) : Option UObs :=
  match ts with
  | ["state", a, "closes", b, "start", st, "live", c, "ctx", d, "isclosed", e] =>
    match natList [a, b, c, d, e] with
    | some [a, b, c, d, e] =>
      if st == "ok" || st == "err" then some ⟨a, b, st == "ok", c, d == 1, e == 1⟩ else none
    | _ => none
  | _ => none

/-! ### bg -/

def bgInput (ts : List String) : Option (Bool × Nat) :=
  match after "order" ts, natAfter "n" ts with
  | o :: _, some n => if n ≥ 1 then some (o == "close", n) else none
  | _, _ => none

/-- Cleaner enters a tick and queues for the lock, the closers take the latch / queue for the lock,
the reader unblocks; then `StopCleanup` first (`closeFirst`) or the tick body first. -/
def bgSched (closeFirst : Bool) (n : Nat) : Schedule :=
  let closers := (List.range n).map (· + 2)
  [1, 1, 1] ++ closers ++ closers ++ [0] ++
    (if closeFirst then closers ++ [1, 1, 1] else [1, 1, 1] ++ closers ++ [1])

def bgShow (o : GObs) : String := s!"live {o.live} closed {if o.closed then 1 else 0}"

def bgParse (ts : List String) : Option GObs :=
  match ts with
  | ["live", a, "closed", b] =>
    match a.toNat?, b.toNat? with
    | some a, some b => some ⟨a, b == 1⟩
    | _, _ => none
  | _ => none

/-! ### bat -/

/-- History tokens: `c` Close, `t`/`s` attach target/source, `ct`/`cs` Close ‖ attach, `cc` two
Closes at once.  Returns the thread list and the schedule of everything before the last `c`. -/
def batPlan (ms : Nat) : List String → List APc → Schedule → Option (List APc × Schedule)
  | [], pcs, s => some (pcs, s)
  | op :: rest, pcs, s =>
    let k := pcs.length
    if op == "c" then batPlan ms rest (pcs ++ [.a1]) (s ++ [k, k, k])
    else if op == "t" then batPlan ms rest (pcs ++ [.attT]) (s ++ [k])
    else if op == "s" then batPlan ms rest (pcs ++ [.attS]) (s ++ [k])
    else if op == "cc" then batPlan ms rest (pcs ++ [.a1, .a1]) (s ++ (lcgSched (ms + k) 2 8).map (· + k) ++ [k, k, k, k + 1, k + 1, k + 1])
    else if op == "ct" || op == "cs" then
      batPlan ms rest (pcs ++ [.a1, if op == "ct" then .attT else .attS])
        (s ++ (lcgSched (ms + k) 2 4).map (· + k) ++ [k, k, k, k + 1])
    else none

def batInput (ts : List String) : Option (List APc × Schedule) :=
  match natAfter "h" ts, natAfter "ms" ts with
  | some k, some ms =>
    let ops := ((after "h" ts).drop 1).take k
    if ops.length = k ∧ k ≥ 1 ∧ ops.getLast? == some "c" then batPlan ms ops.dropLast [] [] else none
  | _, _ => none

def batShow (o : AObs) : String :=
  s!"satt {o.satt} stc {o.stc} tatt {o.tatt} ttc {o.ttc} lost {o.lostS} {o.lostT} open {o.open_}"

def batParse (ts : List String) : Option AObs :=
  match ts with
  | ["satt", a, "stc", b, "tatt", c, "ttc", d, "lost", e, f, "open", g] =>
    match natList [a, b, c, d, e, f, g] with
    | some [a, b, c, d, e, f, g] => some ⟨a, b, c, d, e, f, g⟩
    | _ => none
  | _ => none

/-! ### cst -/

structure CstInput where
  a : Nat
  b : Nat
  fails : List Bool
  sched : Schedule

/-- `cst a <S> <R> th <k> <kind…> s <m> <tid…>`; kinds: `P` real ticker tick, `r` reportStats call,
`rf` reportStats whose TrackTraffic fails, `c` Close (final report).  One harness entry = two model
steps of that thread (claim both counters / TrackTraffic and its rollback). -/
def cstInput (ts : List String) : Option CstInput :=
  match after "a" ts, natAfter "th" ts with
  | a :: b :: _, some k =>
    let kinds := ((after "th" ts).drop 1).take k
    let rest := (after "th" ts).drop (1 + k)
    match a.toNat?, b.toNat?, rest with
    | some a, some b, "s" :: m :: ids =>
      match m.toNat? with
      | some m =>
        match natList (ids.take m) with
        | some ids =>
          if kinds.length = k ∧ (ids.take m).length = m ∧ kinds.all (fun x => x == "P" || x == "r" || x == "rf" || x == "c") then
            -- the harness drains with the same two-step entries, thread by thread, three passes
            some ⟨a, b, kinds.map (· == "rf"),
              ((ids ++ (List.replicate 3 (List.range k)).flatten).map fun t => [t, t]).flatten⟩
          else none
        | none => none
      | none => none
    | _, _, _ => none
  | _, _ => none

def cstShow (o : PObs) : String :=
  s!"rep {o.repS} {o.repR} pend {o.pendS} {o.pendR} calls {o.calls} leak {o.leak}"

def cstParse (ts : List String) : Option PObs :=
  match ts with
  | ["rep", a, b, "pend", c, d, "calls", e, "leak", g] =>
    match a.toInt?, b.toInt?, c.toInt?, d.toInt?, e.toNat?, g.toNat? with
    | some a, some b, some c, some d, some e, some g => some ⟨a, b, c, d, e, g⟩
    | _, _, _, _, _, _ => none
  | _ => none

/-! ### rep2 / rm -/

/-- `rep2 a <d…> … s <k> <tid…>`: one reporter per bridge, all on one mapping. -/
def rep2Input (ts : List String) : Option (List Nat × Schedule) :=
  match natAfter "b" ts, natAfter "s" ts with
  | some nb, some k =>
    match natList (((after "b" ts).drop 1).take nb), natList (((after "s" ts).drop 1).take k) with
    | some ds, some ids => if ds.length = nb ∧ ids.length = k ∧ nb ≥ 1 then some (ds, ids) else none
    | _, _ => none
  | _, _ => none

/-- `rm pre <p> ops <k> <r|d…> s <m> <tid…>`. -/
def rmInput (ts : List String) : Option (Nat × List MPc × Schedule) :=
  match natAfter "pre" ts, natAfter "ops" ts, natAfter "s" ts with
  | some pre, some k, some m =>
    let ops := ((after "ops" ts).drop 1).take k
    match natList (((after "s" ts).drop 1).take m) with
    | some ids =>
      if ops.length = k ∧ ids.length = m ∧ ops.all (fun o => o == "r" || o == "d") then
        some (pre, ops.map (fun o => if o == "r" then MPc.reg else MPc.d1), ids)
      else none
    | none => none
  | _, _, _ => none

def rmShow (o : RmObs) : String :=
  s!"registered {o.registered} disposed {o.disposed} pending {o.pending} twice {o.twice}"

def rmParse (ts : List String) : Option RmObs :=
  match ts with
  | ["registered", a, "disposed", b, "pending", c, "twice", d] =>
    match natList [a, b, c, d] with
    | some [a, b, c, d] => some ⟨a, b, c, d⟩
    | _ => none
  | _ => none

/-! ### entry points -/

def runModel (ts : List String) : String :=
  match ts with
  | "disp" :: _ =>
    match dispInput ts with
    | some (n, errs, ms) => dispShow (dObs (dFinal errs n (lcgSched ms n (2 * n))))
    | none => "bad-case"
  | "tun" :: _ =>
    match tunInput ts with
    | some i =>
      let reasons := i.closers.filterMap closerReason
      tunShow (tObs (tFinal .repaired i.cfg i.init reasons (lcgSched i.ms reasons.length (4 * reasons.length))))
    | none => "bad-case"
  | "rep" :: _ =>
    match repInput ts with
    | some rs => repShow ((rRounds .repaired rInit rs).map rObs)
    | none => "bad-case"
  | "brg" :: _ =>
    match brgInput ts with
    | some i => brgShow (brgModel i)
    | none => "bad-case"
  | "sp" :: _ =>
    match spInput ts with
    | some i => spShow (sObs (sFinal .repaired i.ops i.n (spSched i)))
    | none => "bad-case"
  | "flow" :: _ =>
    match flowInput ts, natAfter "ms" ts with
    | some f, some ms =>
      -- = fObs f.inp s₂ (by definition), with the copy loop evaluated once
      let st := flowCopy f.inp
      let rep := flowReportOf st.counter (lcgSched ms 2 6)
      flowShow f.mode (fObsOf st rep) rep.updates
    | _, _ => "bad-case"
  | "tst" :: _ =>
    match tstInput ts with
    | some gates => tstShow (uObs (uFinal .setCtxFirst gates.length (tstSched gates)))
    | none => "bad-case"
  | "bg" :: _ =>
    match bgInput ts with
    | some (cf, n) => bgShow (gObs (gFinal .keep 1 n (bgSched cf n)))
    | none => "bad-case"
  | "bat" :: _ =>
    match batInput ts with
    | some (pcs, s) => batShow (aObs (closeSeq false (run (aProg false true) s (aInit pcs)).sh))
    | none => "bad-case"
  | "cst" :: _ =>
    match cstInput ts with
    | some i => cstShow (pObs (pFinal .swap i.a i.b i.fails i.sched))
    | none => "bad-case"
  | "rep2" :: _ =>
    match rep2Input ts with
    | some (ds, ids) => s!"stats {(xFinal ds ids).sh}"
    | none => "bad-case"
  | "rm" :: _ =>
    match rmInput ts with
    | some (pre, pcs, ids) => rmShow (rmObs (mFinal pre pcs ids))
    | none => "bad-case"
  | "api" :: _ =>
    -- closers, then (after) or interleaved with (during) a writer and a reader of the component's tables
    match after "when" ts, natAfter "ms" ts with
    | w :: _, some ms =>
      let pcs := [KPc.close, .close, .close, .write, .read]
      let s := if w == "during" then lcgSched ms 5 12 ++ [0, 1, 2, 3, 4] else [0, 1, 2, 3, 4]
      s!"panics {(run (kProg false) s (kInit pcs)).sh.panics} first - called 0"
    | _, _ => "bad-case"
  | "rmt" :: _ =>
    -- slow 1: the deadline fires and the caller returns before the resource is unblocked; slow 0: the disposal wins
    match natAfter "slow" ts with
    | some sl =>
      let o := hObs (hFinal true (if sl == 1 then [1, 2, 0, 3, 3] else [0, 3, 3, 2, 1]))
      s!"timedout {if o.timedOut then 1 else 0} disposed {o.disposed} live {o.live}"
    | none => "bad-case"
  | "mgr" :: _ =>
    -- two clean handlers: ResourceBase.onClose and the component's own onClose
    match mgrInput ts with
    | some (n, ms) => mgrShow (mObs (dFinal [false, false] n (lcgSched ms n (2 * n))))
    | none => "bad-case"
  | _ => "bad-case"

def runHolds (caseToks obsToks : List String) : String :=
  boolStr <|
  match caseToks with
  | "disp" :: _ =>
    match dispInput caseToks, dispParse obsToks with
    | some (_, errs, _), some o => holdsD errs o
    | _, _ => false
  | "tun" :: _ =>
    match tunInput caseToks, tunParse obsToks with
    | some i, some o => holdsT i.cfg (i.closers.map closerAllowed).flatten o
    | _, _ => false
  | "rep" :: _ =>
    match repInput caseToks, repParse obsToks with
    | some rs, some os => holdsR 0 0 rs os
    | _, _ => false
  | "brg" :: _ =>
    match brgInput caseToks, brgParse obsToks with
    | some i, some o => holdsB i.bs i.br o
    | _, _ => false
  | "sp" :: _ =>
    match spInput caseToks, spParse obsToks with
    | some _, some o => holdsS o
    | _, _ => false
  | "flow" :: _ =>
    match flowInput caseToks, flowParse obsToks with
    | some f, some o => holdsF (f.mode == "close") o
    | _, _ => false
  | "tst" :: _ =>
    match tstInput caseToks, tstParse obsToks with
    | some _, some o => holdsU o
    | _, _ => false
  | "bg" :: _ =>
    match bgInput caseToks, bgParse obsToks with
    | some _, some o => holdsG o
    | _, _ => false
  | "bat" :: _ =>
    match batInput caseToks, batParse obsToks with
    | some _, some o => holdsA o
    | _, _ => false
  | "cst" :: _ =>
    match cstInput caseToks, cstParse obsToks with
    | some i, some o => holdsP i.a i.b i.fails o
    | _, _ => false
  | "rep2" :: _ =>
    match rep2Input caseToks, obsToks with
    | some (ds, _), ["stats", x] => (match x.toNat? with | some x => holdsX ds x | none => false)
    | _, _ => false
  | "rm" :: _ =>
    match rmInput caseToks, rmParse obsToks with
    | some _, some o => holdsM2 o
    | _, _ => false
  | "api" :: _ =>
    match obsToks with
    | ["panics", p, "first", _, "called", _] => (match p.toNat? with | some p => holdsK p | none => false)
    | _ => false
  | "rmt" :: _ =>
    match obsToks with
    | ["timedout", t, "disposed", d, "live", g] =>
      (match t.toNat?, d.toNat?, g.toNat? with
       | some t, some d, some g => holdsH ⟨t == 1, d, g⟩
       | _, _, _ => false)
    | _ => false
  | "mgr" :: _ =>
    match mgrInput caseToks, mgrParse obsToks with
    | some _, some o => holdsM o
    | _, _ => false
  | _ => false

end Tunnox.Drv.C16
