import TunnoxModel.Driver.Util
import TunnoxModel.Spec.C12
/-!
Line protocol for C12.

  tcp A [<kind cw|same|split|none>] <eof|err|hold> <fused 0|1> <wfail n|-> <closeOnTail 0|1> <k> <bytes>*k  B … (same) …  s <schedule over a,b,A,B,x,y | ->
  udp U <eof|err|hold> <k> (<bytes>|t)*k  T <eof|err|hold> <fused> tds <k> <bytes>*k cut <n> junk <bytes> ch <k> <size>*k  s <schedule over u,t,U,T,w,v | ->
  (capital = the Write issued by this step stays in progress; x/y resp. w/v = it completes)

`<bytes>`: lowercase hex, `-` empty, or `z<len>x<seed>` (pattern bytes `seed + 31*i`).
Observations:
  tcp: ret <b> toB <hex> toA <hex> wfB <b> wfA <b> bad <b> cwB <b> cwA <b> cl <b> sent <n> recv <n> serr <e> rerr <e>
  udp: ret <b> tun <hex> udp <k> <hex>*k nread <n> wfu <b> serr <b> rerr <b> sent <n> recv <n>
  anything else (timeout, panic …) is an unparsed observation.
-/
namespace Tunnox.Drv.C12
open Tunnox.C12

def patBytes (len seed : Nat) : Bytes := (List.range len).map (fun i => UInt8.ofNat (seed + 31 * i))

def bytesOfTok (s : String) : Option Bytes :=
  match s.toList with
  | 'z' :: rest =>
    match (String.ofList rest).splitOn "x" with
    | [a, b] => do
      let n ← a.toNat?
      let sd ← b.toNat?
      pure (patBytes n sd)
    | _ => none
  | _ => bytesOfHex s

def bit (b : Bool) : String := if b then "1" else "0"

def bitOf : String → Option Bool
  | "1" => some true | "0" => some false | _ => none

def errStr : DErr → String
  | .none => "none" | .read => "read" | .write => "write"

def errOf : String → Option DErr
  | "none" => some .none | "read" => some .read | "write" => some .write | _ => none

def tlOf : String → Option Tl
  | "eof" => some .eof | "err" => some .err | "hold" => some .hold | _ => none

def parseBytesN : Nat → List String → Option (List Bytes × List String)
  | 0, ts => some ([], ts)
  | n + 1, t :: ts => do
    let b ← bytesOfTok t
    let (r, ts') ← parseBytesN n ts
    pure (b :: r, ts')
  | _, _ => none

def kindOf : String → Option Kind
  | "cw" => some .cw | "same" => some .same | "split" => some .split | "none" => some .none
  | "prod" => some .prod | "wcw" => some .wcw | _ => none

def parseEPk (kind : Kind) : List String → Option (EP × List String)
  | tl :: fu :: wf :: cot :: k :: ts => do
    let tail ← tlOf tl
    let fused ← bitOf fu
    let wfail ← (if wf == "-" then some none else wf.toNat?.map some)
    let cot ← bitOf cot
    let k ← k.toNat?
    let (rs, ts') ← parseBytesN k ts
    pure (⟨rs, tail, fused, wfail, cot, kind⟩, ts')
  | _ => none

/-- `[<kind>] <tail> <fused> <wfail> <closeOnTail> <k> <bytes>*k`; the kind defaults to `cw`. -/
def parseEP : List String → Option (EP × List String)
  | t :: ts =>
    match kindOf t with
    | some k => parseEPk k ts
    | none => parseEPk .cw (t :: ts)
  | [] => none

def tcpSched (s : String) : Option (List TTok) :=
  if s == "-" then some [] else
  s.toList.mapM (fun c => match c with
    | 'a' => some TTok.a | 'b' => some TTok.b | 'A' => some TTok.ah | 'B' => some TTok.bh
    | 'x' => some TTok.ax | 'y' => some TTok.bx | _ => none)

def udpSched (s : String) : Option (List UTok) :=
  if s == "-" then some [] else
  s.toList.mapM (fun c => match c with
    | 'u' => some UTok.u | 't' => some UTok.t | 'U' => some UTok.uh | 'T' => some UTok.th
    | 'w' => some UTok.w | 'v' => some UTok.v | 's' => some UTok.s | _ => none)

structure TcpCase where
  a : EP
  b : EP
  sched : List TTok

def parseTcpBody : List String → Option TcpCase
  | "A" :: ts => do
    let (a, ts) ← parseEP ts
    match ts with
    | "B" :: ts => do
      let (b, ts) ← parseEP ts
      match ts with
      | ["s", s] => do
        let σ ← tcpSched s
        pure ⟨a, b, σ⟩
      | _ => none
    | _ => none
  | _ => none

/-- `tcp …`: the relay is called directly; `tcpt …`: it is run by a real `tunnel.Tunnel` (`Start` → `runDataCopy` →
`Close`), the observation additionally carries the close reason, the tunnel's byte statistics and how often `OnClosed` ran. -/
def parseTcp : List String → Option TcpCase
  | "tcp" :: ts => parseTcpBody ts
  | "tcpt" :: ts => parseTcpBody ts
  | _ => none

def tcpObsStr (o : TcpObs) : String :=
  if !o.ret then "timeout" else
  s!"ret 1 toB {hexOfBytes o.toB} toA {hexOfBytes o.toA} wfB {bit o.wfB} wfA {bit o.wfA} bad {bit o.bad} " ++
  s!"cwB {bit o.cwB} cwA {bit o.cwA} cl {bit o.closed} sent {o.sent} recv {o.recv} serr {errStr o.serr} rerr {errStr o.rerr}"

def parseTcpObs : List String → Option TcpObs
  | ["ret", r, "toB", tb, "toA", ta, "wfB", wb, "wfA", wa, "bad", bd, "cwB", cb, "cwA", ca, "cl", cl,
     "sent", sn, "recv", rc, "serr", se, "rerr", re] => do
    pure { ret := ← bitOf r, toB := ← bytesOfHex tb, toA := ← bytesOfHex ta, wfB := ← bitOf wb, wfA := ← bitOf wa,
           bad := ← bitOf bd, cwB := ← bitOf cb, cwA := ← bitOf ca, closed := ← bitOf cl,
           sent := ← sn.toNat?, recv := ← rc.toNat?, serr := ← errOf se, rerr := ← errOf re }
  | _ => none

def parseUEvs : Nat → List String → Option (List UEv × List String)
  | 0, ts => some ([], ts)
  | n + 1, t :: ts => do
    let e ← (if t == "t" then some UEv.tick else (bytesOfTok t).map UEv.dgram)
    let (r, ts') ← parseUEvs n ts
    pure (e :: r, ts')
  | _, _ => none

structure UdpLine where
  spec : UdpSpecCase
  sizes : List Nat
  sched : List UTok
  uwfail : Option Nat := none

def parseUdpBody0 : List String → Option UdpLine
  | "U" :: ut :: k :: ts => do
    let utail ← tlOf ut
    let k ← k.toNat?
    let (uevs, ts) ← parseUEvs k ts
    match ts with
    | "T" :: tt :: fu :: "tds" :: m :: ts => do
      let ttail ← tlOf tt
      let fused ← bitOf fu
      let m ← m.toNat?
      let (tds, ts) ← parseBytesN m ts
      match ts with
      | "cut" :: c :: "junk" :: j :: "ch" :: n :: ts => do
        let cut ← c.toNat?
        let junk ← bytesOfTok j
        let n ← n.toNat?
        let (sz, ts) ← takeN n ts
        let sz ← natList sz
        match ts with
        | ["s", s] => do
          let σ ← udpSched s
          pure ⟨⟨uevs, utail, tds, cut, junk, ttail, fused⟩, sz, σ, none⟩
        | _ => none
      | _ => none
    | _ => none
  | _ => none

/-- `U <tail> [wf<n>] <k> …`: `wf<n>` = the UDP socket refuses its Write number n. -/
def parseUdpBody : List String → Option UdpLine
  | "U" :: ut :: w :: ts =>
    match w.toList with
    | 'w' :: 'f' :: rest =>
      match (String.ofList rest).toNat? with
      | some n => (parseUdpBody0 ("U" :: ut :: ts)).map (fun l => { l with uwfail := some n })
      | none => none
    | _ => parseUdpBody0 ("U" :: ut :: w :: ts)
  | _ => none

/-- `udp …`: scripted doubles on both sides; `udpv …`: the local side is the real asynchronous
`mapping.UDPVirtualConn` (token `s` = its send loop sends the next queued datagram). -/
def parseUdp : List String → Option UdpLine
  | "udp" :: ts => parseUdpBody ts
  | "udpv" :: ts => parseUdpBody ts
  | "udpr" :: ts => parseUdpBody ts
  | _ => none

def UdpLine.case (l : UdpLine) : UdpCase :=
  ⟨l.spec.uevs, l.spec.utail, chunkBy l.sizes l.spec.stream, l.spec.ttail, l.spec.tfused, l.uwfail⟩

def udpObsStr (o : UdpObs) : String :=
  if !o.ret then "timeout" else
  let pk := o.udp.foldl (fun acc p => acc ++ " " ++ hexOfBytes p) ""
  s!"ret 1 tun {hexOfBytes o.tun} udp {o.udp.length}{pk} nread {o.nread} wfu {bit o.wfU} serr {bit o.serr} rerr {bit o.rerr} sent {o.sent} recv {o.recv}"

def parseUdpObs : List String → Option UdpObs
  | "ret" :: r :: "tun" :: tn :: "udp" :: k :: ts => do
    let k ← k.toNat?
    let (pk, ts) ← takeN k ts
    let pk ← pk.mapM bytesOfHex
    match ts with
    | ["nread", nr, "wfu", wu, "serr", se, "rerr", re, "sent", sn, "recv", rc] =>
      pure { ret := ← bitOf r, tun := ← bytesOfHex tn, udp := pk, nread := ← nr.toNat?, wfU := ← bitOf wu, serr := ← bitOf se,
             rerr := ← bitOf re, sent := ← sn.toNat?, recv := ← rc.toNat? }
    | _ => none
  | _ => none

/-! `s5 <eof|err> ds <k> <bytes>*k cut <n> ch <k> <size>*k`
    observation: `wire <hex> pk <m> <hex>*m stop <len|data|toolarge>` -/

structure S5Line where
  tail : Tail
  ds : List Bytes
  cut : Nat
  sizes : List Nat

def parseS5Line : List String → Option S5Line
  | "s5" :: tl :: "ds" :: k :: ts => do
    let tail ← tailOfString tl
    let k ← k.toNat?
    let (ds, ts) ← parseBytesN k ts
    match ts with
    | "cut" :: c :: "ch" :: n :: ts => do
      let cut ← c.toNat?
      let n ← n.toNat?
      let (sz, _) ← takeN n ts
      let sz ← natList sz
      pure ⟨tail, ds, cut, sz⟩
    | _ => none
  | _ => none

def s5StopStr : S5Stop → String
  | .len => "len" | .data => "data" | .tooLarge => "toolarge" | .fuel => "fuel"

def s5StopOf : String → Option S5Stop
  | "len" => some .len | "data" => some .data | "toolarge" => some .tooLarge | _ => none

def s5Wire (l : S5Line) : Bytes := ((l.ds.map sendPacket).flatten).flatten

def s5ObsStr (wire : Bytes) (o : S5Obs) : String :=
  let pk := o.pk.foldl (fun acc p => acc ++ " " ++ hexOfBytes p) ""
  s!"wire {hexOfBytes wire} pk {o.pk.length}{pk} stop {s5StopStr o.stop}"

def parseS5Obs : List String → Option (Bytes × S5Obs)
  | "wire" :: w :: "pk" :: m :: ts => do
    let w ← bytesOfHex w
    let m ← m.toNat?
    let (pk, ts) ← takeN m ts
    let pk ← pk.mapM bytesOfHex
    match ts with
    | ["stop", st] => do
      let st ← s5StopOf st
      pure (w, ⟨pk, st⟩)
    | _ => none
  | _ => none

def runModel (ts : List String) : String :=
  match ts with
  | "tcp" :: _ =>
    match parseTcp ts with
    | some c => tcpObsStr (tcpObs c.a c.b (tcpRunFast c.a c.b c.sched))
    | none => "bad-case"
  | "tcpt" :: _ =>
    match parseTcp ts with
    | some c =>
      let o := tcpObs c.a c.b (tcpRunFast c.a c.b c.sched)
      if !o.ret then "timeout" else
      tcpObsStr o ++ s!" reason {tunnelReason o.serr o.rerr} st {o.sent} {o.recv} closed 1"
    | none => "bad-case"
  | "udp" :: _ =>
    match parseUdp ts with
    | some l => udpObsStr (udpObs (udpRunFast .repaired l.case l.sched))
    | none => "bad-case"
  | "udpr" :: _ =>
    match parseUdp ts with
    | some l => udpObsStr (udpObs (udpRunFast .repaired l.case l.sched))
    | none => "bad-case"
  | "udpv" :: _ =>
    match parseUdp ts with
    | some l => udpObsStr (udpObsV (udpRunFast .repaired l.case l.sched))
    | none => "bad-case"
  | "s5" :: _ =>
    match parseS5Line ts with
    | some l =>
      let wire := s5Wire l
      let stream := wire.take l.cut
      s5ObsStr wire (recvAll (stream.length + 1) ⟨chunkBy l.sizes stream, l.tail⟩)
    | none => "bad-case"
  | _ => "bad-case"

def runHolds (caseToks obsToks : List String) : String :=
  match caseToks with
  | "tcp" :: _ =>
    match parseTcp caseToks with
    | some c =>
      match parseTcpObs obsToks with
      | some o => boolStr (holdsTcp c.a c.b o)
      | none => "false"
    | none => "bad-case"
  | "tcpt" :: _ =>
    match parseTcp caseToks with
    | some c =>
      -- the relay part of the observation must satisfy the property; the tunnel must have closed exactly once
      match parseTcpObs (obsToks.take 26), obsToks.drop 26 with
      | some o, ["reason", _, "st", _, _, "closed", n] => boolStr (holdsTcp c.a c.b o && n == "1")
      | _, _ => "false"
    | none => "bad-case"
  | "udp" :: _ =>
    match parseUdp caseToks with
    | some l =>
      match parseUdpObs obsToks with
      | some o => boolStr (holdsUdp l.spec o)
      | none => "false"
    | none => "bad-case"
  | "udpr" :: _ =>
    match parseUdp caseToks with
    | some l =>
      match parseUdpObs obsToks with
      | some o => boolStr (holdsUdp l.spec o)
      | none => "false"
    | none => "bad-case"
  | "udpv" :: _ =>
    match parseUdp caseToks with
    | some l =>
      match parseUdpObs obsToks with
      | some o => boolStr (holdsUdp l.spec o)
      | none => "false"
    | none => "bad-case"
  | "s5" :: _ =>
    match parseS5Line caseToks with
    | some l =>
      match parseS5Obs obsToks with
      | some (w, o) => boolStr (holdsS5 l.ds l.cut w o)
      | none => "false"
    | none => "bad-case"
  | _ => "bad-case"

end Tunnox.Drv.C12
