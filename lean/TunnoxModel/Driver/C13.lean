import TunnoxModel.Driver.Util
import TunnoxModel.Model.C13
import TunnoxModel.Spec.C13
import TunnoxModel.Spec.C13Alias
/-!
  C13 line protocol.

  case  := "alias" aitem*                    sequential list history with held answers (memory backend)
         | ("mem" | "red") item*            sequential history (memory / Redis backend)
         | "sched" idx* "/" prog (";" prog)*   gated schedule of concurrent callers (memory)
         | "conc" prog (";" prog)*          free-running concurrent callers (memory)
         | "hammer" …                        crash/race stress, expected observation `ok`
         | "burst" item* "/" prog (";" prog)* "/" item*   sequential prefix (with `sl`), free-running burst, sequential probe
         | "sweep" call|tick keys writers rounds   real CleanupExpired vs concurrent re-writes of expired keys;
                                             obs carries one per-key sequential history, judged by holdsSeq
  item  := call | "sl" <ns>                  (`sl` advances the clock; every call advances it by 1)
  call  := set k a ttl | setl k n a… ttl | get k | del k | ex k | nx k a ttl | cas k (nil|a) a ttl
         | exp k ttl | ttl k | getl k | app k a | rem k a | hset k f a | hget k f | hall k | hdel k f
         | incr k d | gc | gck k
  a     := s<hex utf-8> | i<int>         k, f := token, "-" = empty string
  obs   := one token per call (Spec.render); threads separated by ";"
-/
namespace Tunnox.Drv.C13
open Tunnox Tunnox.TTLStore Tunnox.C13

def parseStr (s : String) : Option String :=
  match bytesOfHex s with
  | some bs => String.fromUTF8? (ByteArray.mk bs.toArray)
  | none => none

def parseAtom (t : String) : Option Atom :=
  match t.toList with
  | 's' :: r => (parseStr (String.ofList r)).map Atom.str
  | 'i' :: r => (String.ofList r).toInt?.map Atom.int
  | _ => none

def parseKey (t : String) : String := if t == "-" then "" else t

inductive Item where
  | call (op : Op)
  | sleep (ns : Nat)

/-- Parse one item from the head of the token list. -/
def parseItem (ts : List String) : Option (Item × List String) :=
  match ts with
  | "sl" :: n :: r => n.toNat?.map (fun n => (.sleep n, r))
  -- lifecycle of the periodic sweep and the choice of the Redis client answer nothing and are
  -- invisible to the reference (C13_sweep_split_invisible): parsed as a zero sleep
  | "start" :: r => some (.sleep 0, r)
  | "stop" :: r => some (.sleep 0, r)
  | "cl" :: _ :: r => some (.sleep 0, r)
  | "gc" :: r => some (.call .gc, r)
  | "gck" :: k :: r => some (.call (.gcKey (parseKey k)), r)
  | "get" :: k :: r => some (.call (.get (parseKey k)), r)
  -- Watch (simplified implementation): fires once with the visible value, i.e. answers like Get
  | "watch" :: k :: r => some (.call (.get (parseKey k)), r)
  | "del" :: k :: r => some (.call (.delete (parseKey k)), r)
  | "ex" :: k :: r => some (.call (.exists (parseKey k)), r)
  | "ttl" :: k :: r => some (.call (.ttl (parseKey k)), r)
  | "getl" :: k :: r => some (.call (.getList (parseKey k)), r)
  | "hall" :: k :: r => some (.call (.hall (parseKey k)), r)
  | "set" :: k :: a :: t :: r =>
    match parseAtom a, t.toInt? with
    | some a, some t => some (.call (.set (parseKey k) (.atom a) t), r)
    | _, _ => none
  | "nx" :: k :: a :: t :: r =>
    match parseAtom a, t.toInt? with
    | some a, some t => some (.call (.setNX (parseKey k) (.atom a) t), r)
    | _, _ => none
  | "cas" :: k :: o :: a :: t :: r =>
    match (if o == "nil" then some none else (parseAtom o).map some), parseAtom a, t.toInt? with
    | some o, some a, some t => some (.call (.cas (parseKey k) o (.atom a) t), r)
    | _, _, _ => none
  | "exp" :: k :: t :: r => t.toInt?.map (fun t => (.call (.expire (parseKey k) t), r))
  | "app" :: k :: a :: r => (parseAtom a).map (fun a => (.call (.append (parseKey k) a), r))
  | "rem" :: k :: a :: r => (parseAtom a).map (fun a => (.call (.remove (parseKey k) a), r))
  | "hset" :: k :: f :: a :: r => (parseAtom a).map (fun a => (.call (.hset (parseKey k) (parseKey f) a), r))
  | "hget" :: k :: f :: r => some (.call (.hget (parseKey k) (parseKey f)), r)
  | "hdel" :: k :: f :: r => some (.call (.hdel (parseKey k) (parseKey f)), r)
  | "incr" :: k :: d :: r => d.toInt?.map (fun d => (.call (.incrBy (parseKey k) d), r))
  | "setl" :: k :: n :: r =>
    match n.toNat? with
    | some n =>
      match takeN n r with
      | some (as, t :: r') =>
        match as.mapM parseAtom, t.toInt? with
        | some as, some t => some (.call (.set (parseKey k) (.list as) t), r')
        | _, _ => none
      | _ => none
    | none => none
  | _ => none

def parseItems : Nat → List String → Option (List Item)
  | _, [] => some []
  | 0, _ => none
  | fuel + 1, ts =>
    match parseItem ts with
    | some (it, r) => (parseItems fuel r).map (it :: ·)
    | none => none

/-- Clock: starts at 1000, every call takes 1 ns, `sl n` adds `n`. -/
def toHistory : Nat → List Item → History
  | _, [] => []
  | now, .sleep n :: r => toHistory (now + n) r
  | now, .call op :: r => (now, op) :: toHistory (now + 1) r

/-- Clock after the items. -/
def endClock : Nat → List Item → Nat
  | now, [] => now
  | now, .sleep n :: r => endClock (now + n) r
  | now, .call _ :: r => endClock (now + 1) r

def parseHistory (ts : List String) : Option History :=
  (parseItems (ts.length + 1) ts).map (toHistory 1000)

def calls (its : List Item) : List Op :=
  its.filterMap (fun | .call op => some op | .sleep _ => none)

/-- Split on a separator token. -/
def splitTok (sep : String) (ts : List String) : List (List String) :=
  ts.foldr (fun t acc => if t == sep then [] :: acc else
    match acc with
    | [] => [[t]]
    | a :: r => (t :: a) :: r) [[]]

def parseProgs (ts : List String) : Option (List (List Op)) :=
  (splitTok ";" ts).mapM (fun p => (parseItems (p.length + 1) p).map calls)

/-- Clock of a burst of concurrent callers. -/
def burstNow : Nat := 1000

def renderThreads (rs : List (List String)) : String :=
  " ; ".intercalate (rs.map (fun r => " ".intercalate r))

/-- `alias` items: setlc k extra n a… | hold r k | peek r | setlr k r | getl k | app k a | rem k a | del k -/
def parseAliasItem (ts : List String) : Option (Alias.LOp × List String) :=
  match ts with
  | "setlc" :: k :: e :: n :: r =>
    match e.toNat?, n.toNat? with
    | some e, some n =>
      match takeN n r with
      | some (as, r') => (as.mapM parseAtom).map (fun as => (.setList (parseKey k) as e, r'))
      | none => none
    | _, _ => none
  | "hold" :: r :: k :: rest => r.toNat?.map (fun r => (.hold r (parseKey k), rest))
  | "peek" :: r :: rest => r.toNat?.map (fun r => (.peek r, rest))
  | "setlr" :: k :: r :: rest => r.toNat?.map (fun r => (.setListFrom (parseKey k) r, rest))
  | "getl" :: k :: rest => some (.getList (parseKey k), rest)
  | "app" :: k :: a :: rest => (parseAtom a).map (fun a => (.append (parseKey k) a 0, rest))
  | "rem" :: k :: a :: rest => (parseAtom a).map (fun a => (.remove (parseKey k) a, rest))
  | "del" :: k :: rest => some (.delete (parseKey k), rest)
  | _ => none

def parseAlias : Nat → List String → Option (List Alias.LOp)
  | _, [] => some []
  | 0, _ => none
  | fuel + 1, ts =>
    match parseAliasItem ts with
    | some (op, r) => (parseAlias fuel r).map (op :: ·)
    | none => none

def runModel (ts : List String) : String :=
  match ts with
  | "alias" :: rest =>
    match parseAlias (rest.length + 1) rest with
    | some ops => " ".intercalate ((Alias.run .repaired ops Alias.St.empty).map Alias.renderL)
    | none => "bad-case"
  | "mem" :: rest =>
    match parseHistory rest with
    | some h => " ".intercalate ((C13.run h FMap.empty).map Spec.render)
    | none => "bad-case"
  | "red" :: rest =>
    match parseHistory rest with
    | some h => " ".intercalate (Spec.redisRun h TTLStore.empty)
    | none => "bad-case"
  | "sched" :: rest =>
    match splitTok "/" rest with
    | [sch, ps] =>
      match natList sch, parseProgs ps with
      | some sch, some progs =>
        renderThreads (observeThreads Spec.render progs.length (runSched burstNow sch FMap.empty progs))
      | _, _ => "bad-case"
    | _ => "bad-case"
  | "hammer" :: _ => "ok"
  | "sweep" :: _ => "ok"
  | "burst" :: _ => "-"
  | "repo" :: _ => "-"
  | _ => "bad-case"

def runHolds (caseToks obsToks : List String) : String :=
  match caseToks with
  | "alias" :: rest =>
    match parseAlias (rest.length + 1) rest with
    | some ops => boolStr (Alias.holdsAlias ops obsToks)
    | none => "false"
  | "mem" :: rest =>
    match parseHistory rest with
    | some h => boolStr (Spec.holdsSeq h obsToks)
    | none => "false"
  | "red" :: rest =>
    match parseHistory rest with
    | some h => boolStr (Spec.holdsRepo h obsToks)
    | none => "false"
  | "sched" :: rest =>
    match splitTok "/" rest with
    | [_, ps] =>
      match parseProgs ps with
      | some progs => boolStr (Spec.holdsConc burstNow progs (splitTok ";" obsToks))
      | none => "false"
    | _ => "false"
  | "conc" :: rest =>
    match parseProgs rest with
    | some progs => boolStr (Spec.holdsConc burstNow progs (splitTok ";" obsToks))
    | none => "false"
  | "hammer" :: _ => boolStr (obsToks == ["ok"])
  | "repo" :: _ =>
    -- answers of the real repository-layer components on memory | on Redis
    match splitTok "|" obsToks with
    | [a, b] => boolStr (Spec.holdsSame a b)
    | _ => "false"
  | "burst" :: rest =>
    -- burst <prefix items> / <prog> ; <prog> … / <probe items>      obs: <prefix> / <thr> ; <thr> / <probe>
    match splitTok "/" rest, splitTok "/" obsToks with
    | [pre, ps, suf], [oPre, oThr, oSuf] =>
      match parseItems (pre.length + 1) pre, parseProgs ps, parseItems (suf.length + 1) suf with
      | some pre, some progs, some suf =>
        let now := endClock 1000 pre
        boolStr (Spec.holdsBurst (toHistory 1000 pre) now progs (toHistory now suf) oPre (splitTok ";" oThr) oSuf)
      | _, _, _ => "false"
    | _, _ => "false"
  | "sweep" :: _ =>
    -- obs = keys <n> lost <c> hist <per-key history> obs <its answers>: the reference judges the key
    match obsToks with
    | "keys" :: _ :: "lost" :: _ :: "hist" :: rest =>
      match parseHistory (rest.takeWhile (· != "obs")) with
      | some h => boolStr (Spec.holdsSeq h ((rest.dropWhile (· != "obs")).drop 1))
      | none => "false"
    | _ => "false"
  | _ => "false"

end Tunnox.Drv.C13
