import TunnoxModel.Driver.Util
import TunnoxModel.Spec.C08
/-!
Line protocol for C08.

case  := `<backend> ttl=<ms> nn=<nodes> cl=<x>,<x>,… ev*`
backend := `mem` (memory.Storage) | `red` (redis.Storage over miniredis) | `hyr` (hybrid: local memory per node +
           shared redis) | `hyl` (hybrid, local cache only) | `map` (double answering map[string]interface{}) |
           `byt` (double answering []byte)
ev    := `o:<conn>` open | `h:<conn>` control handshake, auth ok | `f:<conn>` control handshake, auth refused |
         `u:<conn>` tunnel-type handshake, auth ok | `v:<conn>` tunnel-type handshake, auth refused |
         `b:<conn>` heartbeat | `t:<ms>` clock advance (FastForward on the redis-backed stores, a real sleep on the others) |
         `w:<ms>` clock advance in wall time on every backend (real sleep, plus FastForward on the redis-backed stores:
         the records' ExpiresAt is read off the wall clock) |
         the connection ends: `c:<conn>` CloseConnection called directly | `e:<conn>` adapter read loop ended
         (BaseAdapter.cleanupConnection) | `d:<conn>` Disconnect command | `s:<conn>` heartbeat-timeout sweep |
         `k:<conn>` KickOldControlConnection(client, conn) (duplicate-login eviction of the node's other connection) |
         `x:<node>` session manager shutdown |
         `q:<node>.<client>` FindClientNode starts on that node: its index read happens now | `r:<node>.<client>` it
         continues: record read and answer (flag ok = it answered a connection) |
         `y:<node>.<client>` SendHTTPProxyRequest for the client starts on that node: the node-local registry is read now |
         `z:<node>.<client>` it continues: FindClientNode, decision (flag ok = it was sent on the node's own connection) |
         `m:` / `n:` the same for SendCommandToClient
conn  := `<node>.<client>.<serial>`
obs   := one token per event: `<ok|er>|<x>=<ans>/<route>/<state>,…(one per node)…;<x>=…`   (ok = the entry point returned nil; for `d:`/`s:`: the call closed the connection)
ans   := `-` not connected | `inv` invalid client id | `bad` decode error | `<node>@<conn>`
state := what the cloud runtime state (client.Service / ClientStateRepository.GetState) names: `-` | `<node>@<conn>`
route := `L` local | `R<node>` forward | `N` not connected | `I` inconsistent | `X` the asking node was shut down (not asked)
-/
namespace Tunnox.Drv.C08
open Tunnox.C08

def shapeOf : String → Option Shape
  | "mem" => some .ptr
  | "hyl" => some .ptr
  | "red" => some .str
  | "hyr" => some .str
  | "map" => some .jsonMap
  | "byt" => some .bytes
  | _ => none

def parseConn (s : String) : Option Conn :=
  match s.splitOn "." with
  | [n, x, k] => do let n ← n.toNat?; let x ← x.toNat?; let k ← k.toNat?; pure ⟨n, x, k⟩
  | _ => none

def renderConn (c : Conn) : String := s!"{c.node}.{c.client}.{c.k}"

def parseEv (tok : String) : Option Ev :=
  match tok.splitOn ":" with
  | ["o", c] => (parseConn c).map .open
  | ["h", c] => (parseConn c).map (fun c => .hs c true)
  | ["f", c] => (parseConn c).map (fun c => .hs c false)
  | ["u", c] => (parseConn c).map (fun c => .hsTunnel c true)
  | ["v", c] => (parseConn c).map (fun c => .hsTunnel c false)
  | ["b", c] => (parseConn c).map .hb
  | ["c", c] => (parseConn c).map (fun c => .close c .direct)
  | ["e", c] => (parseConn c).map (fun c => .close c .eof)
  | ["d", c] => (parseConn c).map (fun c => .close c .disconnect)
  | ["s", c] => (parseConn c).map (fun c => .close c .sweep)
  | ["k", c] => (parseConn c).map .kick
  | ["x", n] => n.toNat?.map .shutdown
  | ["q", a] =>
    match a.splitOn "." with
    | [j, x] => do let j ← j.toNat?; let x ← x.toNat?; pure (.lookBegin j x)
    | _ => none
  | ["y", a] =>
    match a.splitOn "." with
    | [j, x] => do let j ← j.toNat?; let x ← x.toNat?; pure (.reqBegin .http j x)
    | _ => none
  | ["z", a] =>
    match a.splitOn "." with
    | [j, x] => do let j ← j.toNat?; let x ← x.toNat?; pure (.reqEnd .http j x)
    | _ => none
  | ["m", a] =>
    match a.splitOn "." with
    | [j, x] => do let j ← j.toNat?; let x ← x.toNat?; pure (.reqBegin .cmd j x)
    | _ => none
  | ["n", a] =>
    match a.splitOn "." with
    | [j, x] => do let j ← j.toNat?; let x ← x.toNat?; pure (.reqEnd .cmd j x)
    | _ => none
  | ["r", a] =>
    match a.splitOn "." with
    | [j, x] => do let j ← j.toNat?; let x ← x.toNat?; pure (.lookEnd j x)
    | _ => none
  | ["t", d] => d.toNat?.map .tick
  | ["w", d] => d.toNat?.map .tick
  | _ => none

def kv (key tok : String) : Option String :=
  match tok.splitOn "=" with
  | [k, v] => if k == key then some v else none
  | _ => none

structure Case where
  shape : Shape
  ttl : Nat
  nn : Nat
  clients : List Nat
  evs : List Ev

/-- `sched <01-string> <case>`: the last two events ran concurrently (storage-call schedule); for `holds` the
case is the same history (handshake first), the two events share the observation taken after both. -/
def stripSched (ts : List String) : List String :=
  match ts with
  | "sched" :: _ :: r => r
  | _ => ts

def parseCase (ts : List String) : Option Case :=
  match stripSched ts with
  | b :: t :: n :: cl :: evs => do
    let shape ← shapeOf b
    let ttl ← (← kv "ttl" t).toNat?
    let nn ← (← kv "nn" n).toNat?
    let clients ← ((← kv "cl" cl).splitOn ",").mapM String.toNat?
    let evs ← evs.mapM parseEv
    pure ⟨shape, ttl, nn, clients, evs⟩
  | _ => none

def paramsOf (c : Case) : Params := ⟨repaired, c.shape, effTTL c.ttl, 90000⟩

def renderLook : Look → String
  | .found n c => s!"{n}@{renderConn c}"
  | .notFound => "-"
  | .badType => "bad"
  | .invalid => "inv"

def renderRoute : Route → String
  | .loc => "L"
  | .cross n => s!"R{n}"
  | .none_ => "N"
  | .incons => "I"
  | .down => "X"

def renderRS : Option (Nat × Conn) → String
  | none => "-"
  | some v => s!"{v.1}@{renderConn v.2}"

def renderView (v : List (Look × Route × Option (Nat × Conn))) : String :=
  ",".intercalate (v.map (fun p => renderLook p.1 ++ "/" ++ renderRoute p.2.1 ++ "/" ++ renderRS p.2.2))

def renderObs1 (o : List (Nat × List (Look × Route × Option (Nat × Conn)))) : String :=
  ";".intercalate (o.map (fun p => toString p.1 ++ "=" ++ renderView p.2))

def renderObs (o : Obs) : String :=
  " ".intercalate (o.map (fun p => (if p.1 then "ok|" else "er|") ++ renderObs1 p.2))

def parseLook (s : String) : Option Look :=
  if s == "-" then some .notFound
  else if s == "inv" then some .invalid
  else if s == "bad" then some .badType
  else
    match s.splitOn "@" with
    | [n, c] => do let n ← n.toNat?; let c ← parseConn c; pure (.found n c)
    | _ => none

def parseRoute (s : String) : Option Route :=
  if s == "L" then some .loc
  else if s == "N" then some .none_
  else if s == "I" then some .incons
  else if s == "X" then some .down
  else
    match s.toList with
    | 'R' :: r => (String.ofList r).toNat?.map .cross
    | _ => none

def parseRS (s : String) : Option (Option (Nat × Conn)) :=
  if s == "-" then some none
  else
    match s.splitOn "@" with
    | [n, c] => do let n ← n.toNat?; let c ← parseConn c; pure (some (n, c))
    | _ => none

def parsePair (s : String) : Option (Look × Route × Option (Nat × Conn)) :=
  match s.splitOn "/" with
  | [a, r, t] => do let a ← parseLook a; let r ← parseRoute r; let t ← parseRS t; pure (a, r, t)
  | _ => none

def parseClientView (s : String) : Option (Nat × List (Look × Route × Option (Nat × Conn))) :=
  match s.splitOn "=" with
  | [x, v] => do let x ← x.toNat?; let v ← (v.splitOn ",").mapM parsePair; pure (x, v)
  | _ => none

def parseObs1 (s : String) : Option (List (Nat × List (Look × Route × Option (Nat × Conn)))) :=
  (s.splitOn ";").mapM parseClientView

def parseObsTok (s : String) : Option (Bool × List (Nat × List (Look × Route × Option (Nat × Conn)))) :=
  match s.splitOn "|" with
  | ["ok", r] => (parseObs1 r).map (fun o => (true, o))
  | ["er", r] => (parseObs1 r).map (fun o => (false, o))
  | _ => none

def parseObs (ts : List String) : Option Obs := ts.mapM parseObsTok

def runModel (ts : List String) : String :=
  match parseCase ts with
  | none => "bad-case"
  | some c => renderObs (run (paramsOf c) c.nn c.clients c.evs)

def runHolds (caseToks obsToks : List String) : String :=
  match parseCase caseToks, parseObs obsToks with
  | some c, some o => boolStr (holds (effTTL c.ttl) c.nn c.clients c.evs o)
  | _, _ => "false"

end Tunnox.Drv.C08
