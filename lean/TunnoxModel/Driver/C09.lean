import TunnoxModel.Driver.Util
import TunnoxModel.Spec.C09
/-!
Line protocol for C09 (see harness/c09/main.go).

case:  [X] <backend> <ttl0,ttl1,…> <event>…        backend ∈ memory redis hybridRedis hybridLocal dblMap dblBytes
  reg:<n>:<tid>:<map>:<sec>:<src>:<sc>:<tc>:<host>:<port>     strings hex (UTF-8), `-` = empty; ints decimal
  open:<n>:<tid>:<map>:<sec>:-:<sc>:<tc>:<host>:<port>        startSourceBridge on node n
  look:<n>:<tid>  rem:<n>:<tid>  end:<n>:<tid>  adv:<ms>  advw:<ms>  advs:<ms>  rega:<n>:<nid>:<addr>  geta:<n>:<nid>
  poll:<n>:<tid>:<k>  the polling lookup of node n runs its first k polls (obs found:… | pending | estore)
  pend:<n>:<tid>      it runs one more poll, then its context ends (obs found:… | ptimeout | estore)
  remc:<n>:<tid>  remd:<n>:<tid>   RemoveWaitingTunnel under a cancelled / deadline-exceeded context (obs as rem)
  slook:<n>:<tid>     a lookup of node n starts, the store answers its Get, the reply is held back (obs pending | eparam)
  send:<n>:<tid>      the held reply arrives, that lookup completes (obs as look | skip when none is in flight)
  restart:<n>         node n loses all in-process state (bridges, node-local cache)
  fwd:<n>:<tid>     a target connection for <tid> arrives on node n: lookup, then CreateDedicatedConnection (obs fwd:<src>:<addr> | enoaddr)
obs:   one token per event:
  ok eparam nf exp eint estore edata exists skip addr:<hex> found:<tid>:<map>:<sec>:<src>:<sc>:<tc>:<host>:<port>:<ttl ms>
A leading `X` marks an excluded-point case (a string that is not valid UTF-8, …): it is run on the
real code and reported, but neither compared with the model nor judged.
-/
namespace Tunnox.Drv.C09
open Tunnox.C09

def strOfHex (s : String) : Option String := do
  let bs ← bytesOfHex s
  String.fromUTF8? (ByteArray.mk bs.toArray)

def hexOfStr (s : String) : String := hexOfBytes s.toUTF8.toList

def backendOf : String → Option Backend
  | "memory" => some .memory
  | "redis" => some .redis
  | "hybridRedis" => some .hybridRedis
  | "hybridLocal" => some .hybridLocal
  | "dblMap" => some .dblMap
  | "dblBytes" => some .dblBytes
  | _ => none

def parseRec : List String → Option Rec
  | [tid, mp, sec, src, sc, tc, host, port] => do
    pure ⟨← strOfHex tid, ← strOfHex mp, ← strOfHex sec, ← strOfHex src, ← sc.toInt?, ← tc.toInt?,
          ← strOfHex host, ← port.toInt?, 0, 0⟩
  | _ => none

def parseEv (tok : String) : Option Ev :=
  match tok.splitOn ":" with
  | "reg" :: n :: rest => do pure (.reg (← n.toNat?) (← parseRec rest))
  | "open" :: n :: rest => do pure (.open_ (← n.toNat?) (← parseRec rest))
  | ["look", n, tid] => do pure (.look (← n.toNat?) (← strOfHex tid))
  | ["rem", n, tid] => do pure (.rem (← n.toNat?) (← strOfHex tid))
  | ["remc", n, tid] => do pure (.remDead (← n.toNat?) (← strOfHex tid))
  | ["remd", n, tid] => do pure (.remDead (← n.toNat?) (← strOfHex tid))
  | ["end", n, tid] => do pure (.endB (← n.toNat?) (← strOfHex tid))
  | ["adv", d] => do pure (.adv (← d.toNat?))
  | ["advw", d] => do pure (.advWall (← d.toNat?))
  | ["advs", d] => do pure (.advStore (← d.toNat?))
  | ["rega", n, nid, a] => do pure (.regAddr (← n.toNat?) (← strOfHex nid) (← strOfHex a))
  | ["geta", n, nid] => do pure (.getAddr (← n.toNat?) (← strOfHex nid))
  | ["fwd", n, tid] => do pure (.fwd (← n.toNat?) (← strOfHex tid))
  | ["poll", n, tid, k] => do pure (.pollStart (← n.toNat?) (← strOfHex tid) (← k.toNat?))
  | ["pend", n, tid] => do pure (.pollEnd (← n.toNat?) (← strOfHex tid))
  | ["restart", n] => do pure (.restart (← n.toNat?))
  | ["slook", n, tid] => do pure (.slowBegin (← n.toNat?) (← strOfHex tid))
  | ["send", n, tid] => do pure (.slowEnd (← n.toNat?) (← strOfHex tid))
  | _ => none

def parseCase : List String → Option (Cfg × List Ev)
  | "X" :: rest => parseCase rest
  | b :: ttls :: evs => do
    let b ← backendOf b
    let ttls ← natList (ttls.splitOn ",")
    let evs ← evs.mapM parseEv
    pure (⟨b, ttls⟩, evs)
  | _ => none

def resStr : Res → String
  | .ok => "ok"
  | .errParam => "eparam"
  | .notFound => "nf"
  | .expired => "exp"
  | .errInternal => "eint"
  | .errStorage => "estore"
  | .errData => "edata"
  | .exists_ => "exists"
  | .skip => "skip"
  | .errNoAddr => "enoaddr"
  | .pending => "pending"
  | .localAttached => "local"
  | .localWait => "localwait"
  | .timeout => "ptimeout"
  | .forwarded src a => "fwd:" ++ hexOfStr src ++ ":" ++ hexOfStr a
  | .addr s => "addr:" ++ hexOfStr s
  | .found r =>
    ":".intercalate ["found", hexOfStr r.tunnelID, hexOfStr r.mappingID, hexOfStr r.secretKey, hexOfStr r.sourceNodeID,
      toString r.sourceClientID, toString r.targetClientID, hexOfStr r.targetHost, toString r.targetPort,
      toString (r.expiresAt - r.createdAt)]

def parseRes (tok : String) : Option Res :=
  match tok.splitOn ":" with
  | ["ok"] => some .ok
  | ["eparam"] => some .errParam
  | ["nf"] => some .notFound
  | ["exp"] => some .expired
  | ["eint"] => some .errInternal
  | ["estore"] => some .errStorage
  | ["edata"] => some .errData
  | ["exists"] => some .exists_
  | ["skip"] => some .skip
  | ["addr", a] => do pure (.addr (← strOfHex a))
  | ["enoaddr"] => some .errNoAddr
  | ["pending"] => some .pending
  | ["local"] => some .localAttached
  | ["localwait"] => some .localWait
  | ["ptimeout"] => some .timeout
  | ["fwd", src, a] => do pure (.forwarded (← strOfHex src) (← strOfHex a))
  | ["found", tid, mp, sec, src, sc, tc, host, port, ttl] => do
    let r ← parseRec [tid, mp, sec, src, sc, tc, host, port]
    pure (.found { r with expiresAt := ← ttl.toNat? })
  | _ => none

def runModel (ts : List String) : String :=
  match parseCase ts with
  | some (cfg, evs) => " ".intercalate ((run cfg evs).map resStr)
  | none => "bad-case"

def runHolds (caseToks obsToks : List String) : String :=
  match parseCase caseToks, obsToks.mapM parseRes with
  | some (cfg, evs), some obs => boolStr (holdsWF cfg evs obs)
  | none, _ => if caseToks.head? == some "X" then "true" else "false"
  | _, _ => "false"

end Tunnox.Drv.C09
