import TunnoxModel.Driver.Util
import TunnoxModel.Spec.C04
/-!
Line protocol for C04 (see harness/c04/main.go):
  open pl <ok|junk|empty> maps <k> (<id> <listen> <target> <secret|-> <a|i> <rev 0|1> <exp 0|1|2>)*
       conn <hs 0|1|2> <cid> req <mid|-> <secret|-> <token|-> ts <none | bridge <mid> <served> | remote <mid> | local <mid>>
       (conn may be followed by `asserts <scid> <0|1>`: what the transport object asserts; ts may also be `expired <mid>`;
        the line may end in `cfg norouting` or `cfg nodedown`)
       [late <bridge <mid> | route <mid> | remote <mid>>]      (only with ts none: what appears while the request polls)
  obs: ack <none|ok|fail> acks <n> att <none|src|tgt|fwd> on <mapping of the bridge holding the requester|-> … att <none|src|tgt|fwd> data <0|1> ret <switch|err|pending>
The clock is 1000; exp 1 = expired at 500, exp 2 = expires at 2000, e-k / e+k = ExpiresAt k seconds before / after
the moment the request is sent (k < 1000).  This node is node-A, the other node-B.
`ret` is compared between model and implementation but is not part of the property.
  rmw <usage|usage-read1|usage-read2|stats|stats-read1|status|status-read1>   obs: revoked <0|1> ack <..> att <..> data <0|1>
    a whole-record update of mapping M is between its read and its write (gated store) when the target client revokes M;
    afterwards the target client presents M's secret for the waiting tunnel.
  twonode <plain|lead-space|lead-tab|lead-nl|lead-cr|trail-space|trail-nl|bar|case|hdr16>
           obs: srcack <ack> fwdack <ack> sees <none|own|victim|both> victimready <0|1>
    node-A holds the victim's waiting tunnel (mapping M) and the attacker's own tunnel (mapping F) whose id is a variant
    spelling of the victim's; the attacker's target opens that id on node-B and is forwarded to node-A.
  e2e      obs: secret <set|empty> src <ack> pushed <0|1> leak <0|1> tgt <ack> data <0|1>
A mapping created through the real PortMappingService without a secret, then listen client (mapping id) and target
client (the generated secret) open the same tunnel: compared with the fixed expectation "both admitted, bytes flow".
-/
namespace Tunnox.Drv.C04
open Tunnox.C04

def undash (s : String) : String := if s == "-" then "" else s

def parseMaps : Nat → List String → Option (List PortMapping × List String)
  | 0, ts => some ([], ts)
  | n + 1, i :: l :: t :: s :: st :: rv :: ex :: ts => do
    let l ← l.toNat?
    let t ← t.toNat?
    let status ← (if st == "a" then some "active" else if st == "i" then some "inactive" else none)
    let exp ← (if ex == "0" then some none else if ex == "1" then some (some 500) else if ex == "2" then some (some 2000)
               else if ex.startsWith "e-" then (ex.drop 2).toNat?.map (fun k => some (1000 - k))
               else if ex.startsWith "e+" then (ex.drop 2).toNat?.map (fun k => some (1000 + k))
               else none)
    let (r, ts') ← parseMaps n ts
    pure (⟨i, l, t, undash s, status, rv == "1", exp⟩ :: r, ts')
  | _, _ => none

structure Case where
  w : World
  id : ConnIdent
  req : Req
  ts : TunnelState
  late : Late

def parseTs : List String → Option TunnelState
  | ["none"] => some .none
  | ["bridge", m, sv] => some (.bridge m (sv == "1"))
  | ["remote", m] => some (.remote m "node-B")
  | ["expired", _] => some .none   -- a waiting route whose TTL ran out counts as no route
  | ["local", m] => some (.remote m "node-A")
  | _ => none

/-- what appears while the request polls: `late bridge <mid>` = the listen client of <mid> opens the tunnel on
this node (bridge + route to node-A), `late route <mid>` = only a route naming this node, `late remote <mid>` = a
route naming node-B, `late window <mid>` = the listen client of <mid> opens the tunnel in the window between the
dispatcher's bridge look-up and handleTargetBridge's (the requester's ack write is held meanwhile).  Absent = nothing. -/
def parseLate : List String → Option Late
  | [] => some .none
  | ["late", "bridge", m] => some (.route m "node-A" true)
  | ["late", "route", m] => some (.route m "node-A" false)
  | ["late", "remote", m] => some (.route m "node-B" false)
  | ["late", "window", m] => some (.window m)
  | ["late", "early", m] => some (.early m)
  | _ => none

/-- `conn <hs> <cid> [asserts <scid> <temp 0|1>]`: the optional part is what the transport object behind the
stream asserts (`GetClientID`, `CanCreateTemporaryControlConn`). -/
def parseConn : List String → Option (ConnIdent × List String)
  | "conn" :: hs :: cid :: rest => do
    let cid ← cid.toNat?
    let (scid, temp, rest) ← (match rest with
      | "asserts" :: sc :: t :: rest' => do
        let sc ← sc.toNat?
        pure (sc, t == "1", rest')
      | _ => some (0, false, rest))
    let id : ConnIdent ← (if hs == "0" then some ⟨false, 0, false, temp, scid⟩
      else if hs == "1" then some ⟨true, cid, true, temp, scid⟩
      else if hs == "2" then some ⟨true, 0, false, temp, scid⟩ else none)
    pure (id, rest)
  | _ => none

def parseCase : List String → Option Case
  | "open" :: "pl" :: pl :: "maps" :: k :: rest => do
    let k ← k.toNat?
    let (ms, rest) ← parseMaps k rest
    let (id, rest) ← parseConn rest
    match rest with
    | "req" :: mid :: sec :: tok :: "ts" :: tail => do
      -- optional trailing `cfg norouting` (this node has no routing table) / `cfg nodedown` (node-B unreachable)
      let cfg := (tail.dropWhile (· != "cfg")).drop 1
      let tsToks := tail.takeWhile (· != "cfg")
      let ts ← parseTs (tsToks.takeWhile (· != "late"))
      let late ← parseLate (tsToks.dropWhile (· != "late"))
      let late ← (if cfg == ["norouting"] then (if late == .none then some Late.noRouting else none)
                  else if cfg == [] || cfg == ["nodedown"] then some late else none)
      let w : World := { mappings := ms, now := 1000, nodeID := "node-A",
                         unreachable := if cfg == ["nodedown"] then ["node-B"] else [] }
      if pl == "ok" then
        pure ⟨w, id, ⟨true, undash mid, "verif-tunnel-01", undash sec, undash tok⟩, ts, late⟩
      else if pl == "junk" then
        pure ⟨w, id, ⟨false, "", "", "", ""⟩, ts, late⟩
      else if pl == "empty" then
        -- an empty payload names the empty tunnel id: it addresses no existing tunnel
        pure ⟨w, id, ⟨true, "", "", "", ""⟩, .none, if late == .noRouting then late else .none⟩
      else none
    | _ => none
  | _ => none

def ackStr : Ack → String
  | .none => "none" | .ok => "ok" | .fail => "fail"
def attStr : Attach → String
  | .none => "none" | .source => "src" | .target => "tgt" | .forward _ => "fwd"
def retStr : Ret → String
  | .switch => "switch" | .err => "err" | .pending => "pending"

def parseObs : List String → Option Obs
  | ["ack", a, "acks", n, "att", t, "on", on, "data", d, "ret", _] => do
    let n ← n.toNat?
    let a ← (if a == "none" then some Ack.none else if a == "ok" then some .ok else if a == "fail" then some .fail else none)
    let t ← (if t == "none" then some Attach.none else if t == "src" then some .source else if t == "tgt" then some .target
             else if t == "fwd" then some (.forward "node-B") else none)
    let d ← (if d == "0" then some false else if d == "1" then some true else none)
    pure ⟨a, t, d, n, undash on⟩
  | _ => none

/-- `rmw <usage|stats|status>`: the writer's pending whole-record write and a revocation; under the per-mapping
lock the revocation waits for the pending write, so the order is writer, then revocation. -/
def rmwWriter : String → Option Update
  | "usage" => some .usage | "usage-read1" => some .usage | "usage-read2" => some .usage | "stats" => some .stats | "stats-read1" => some .stats | "status-read1" => some (.status "active") | "status" => some (.status "active") | _ => none

def rmwWorld (u : Update) : World :=
  { mappings := [runSerial [u, .revoke] ⟨"M", 11, 22, "s3cretM", "active", false, none⟩], now := 1000, nodeID := "node-A" }

def runRmwModel (u : Update) : String :=
  let w := rmwWorld u
  let ts := TunnelState.bridge "M" false
  let ob := (openTunnel w ⟨true, 22, true, false, 0⟩ ⟨true, "M", "verif-tunnel-01", "s3cretM", ""⟩ ts).obs ⟨true, "M", "verif-tunnel-01", "s3cretM", ""⟩ ts
  let rv := match w.mappings with | m :: _ => m.IsRevoked | [] => false
  s!"revoked {if rv then "1" else "0"} ack {ackStr ob.ack} att {attStr ob.att} data {if ob.data then "1" else "0"}"

def parseRmwObs : List String → Option (Bool × Obs)
  | ["revoked", r, "ack", a, "att", t, "data", d] => do
    let o ← parseObs ["ack", a, "acks", (if a == "none" then "0" else "1"), "att", t, "on", "-", "data", d, "ret", "-"]
    let r ← (if r == "1" then some true else if r == "0" then some false else none)
    pure (r, o)
  | _ => none

/-- `twonode <variant>`: two real nodes; the attacker's forwarded target must join its own tunnel only. -/
def parseTwoNodeObs : List String → Option TwoNodeObs
  | ["srcack", _, "fwdack", _, "sees", s, "victimready", v] =>
    if v == "0" || v == "1" then some ⟨s == "victim" || s == "both", v == "1"⟩ else none
  | _ => none

def runModel (ts : List String) : String :=
  match ts with
  | ["twonode", _] => "srcack ok fwdack ok sees own victimready 0"
  | ["rmw", wr] => (match rmwWriter wr with | some u => runRmwModel u | none => "bad-case")
  | _ =>
  if ts == ["e2e"] then "secret set src ok pushed 1 leak 0 tgt ok data 1" else
  match parseCase ts with
  | some c =>
    let o := openTunnelDyn c.w c.id c.req c.ts c.late
    let ob := o.obsDyn c.req c.ts c.late
    s!"ack {ackStr ob.ack} acks {ob.acks} att {attStr ob.att} on {if ob.on == "" then "-" else ob.on} data {if ob.data then "1" else "0"} ret {retStr o.ret}"
  | none => "bad-case"

def runHolds (caseToks obsToks : List String) : String :=
  -- `e2e` (legitimate parties are still served) is compared with the model line only; it is not the property
  if caseToks.head? == some "twonode" then
    (match parseTwoNodeObs obsToks with | some o => boolStr (holdsTwoNode o) | none => "false") else
  if caseToks.head? == some "rmw" then
    (match parseRmwObs obsToks with | some (r, o) => boolStr (holdsRevoked r o) | none => "false") else
  if caseToks == ["e2e"] then boolStr (obsToks.head? == some "secret") else
  match parseCase caseToks, parseObs obsToks with
  | some c, some o => boolStr (holdsDyn c.w c.id c.req c.ts c.late o)
  | _, _ => "false"

end Tunnox.Drv.C04
