import TunnoxModel.Model.Src
/-! Line-protocol helpers for the driver (core-only). Bytes are lowercase hex, `-` = empty. -/
namespace Tunnox.Drv

def hexDigit (n : Nat) : Char :=
  if n < 10 then Char.ofNat (48 + n) else Char.ofNat (87 + n)

def hexOfBytes (bs : Bytes) : String :=
  if bs.isEmpty then "-" else
  String.ofList (bs.foldr (fun b acc => hexDigit (b.toNat / 16) :: hexDigit (b.toNat % 16) :: acc) [])

def hexVal (c : Char) : Option Nat :=
  if '0' ≤ c ∧ c ≤ '9' then some (c.toNat - 48)
  else if 'a' ≤ c ∧ c ≤ 'f' then some (c.toNat - 87)
  else if 'A' ≤ c ∧ c ≤ 'F' then some (c.toNat - 55)
  else none

def bytesOfHexAux : List Char → Bytes → Option Bytes
  | [], acc => some acc.reverse
  | [_], _ => none
  | a :: b :: rest, acc =>
    match hexVal a, hexVal b with
    | some x, some y => bytesOfHexAux rest (UInt8.ofNat (x * 16 + y) :: acc)
    | _, _ => none

def bytesOfHex (s : String) : Option Bytes :=
  if s == "-" then some [] else bytesOfHexAux s.toList []

def tailOfString : String → Option Tail
  | "eof" => some .eof
  | "err" => some .err
  | _ => none

/-- Split `xs` into chunks of the given sizes; whatever remains is one last chunk.
A zero size is an empty message of a message transport: an empty chunk (`Read` returns `(0, nil)`). -/
def chunkBy : List Nat → Bytes → List Bytes
  | [], bs => if bs.isEmpty then [] else [bs]
  | n :: ns, bs =>
    if bs.isEmpty then []
    else bs.take n :: chunkBy ns (bs.drop n)

/-- Take `n` tokens. -/
def takeN {α} (n : Nat) (xs : List α) : Option (List α × List α) :=
  if n ≤ xs.length then some (xs.take n, xs.drop n) else none

def natList (xs : List String) : Option (List Nat) := xs.mapM String.toNat?

def boolStr (b : Bool) : String := if b then "true" else "false"

end Tunnox.Drv
