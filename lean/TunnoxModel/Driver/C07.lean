import TunnoxModel.Driver.Util
import TunnoxModel.Spec.C07
/-!
Line protocol for C07 (see harness/c07/main.go):
  (seq|strict) n <N> m <M> cap <C> ops <op>*           model + holds
  adp n <N> m <M> cap <C> ops <op>*                    the same ops through the adapter's read loops (runAdp, holdsAdp)
  par n <N> m <M> cap <C> ops <op>* (th <op>*)+         holds only (concurrent block, no model line)
  race n <N> m <M> cap <C> ops <op>* th <op>* th <op>*  holds only: block 1 parked inside UpdateAuth, then block 2 (holdsRace)
  op: A c | H c x t | Q c t | F c | HS c x t | QS c t | K x c | S | O c | B c | X c | R c | U c | T c | P c
      | XF c | RF c | SF | BF c   (X/R/S/B while the cloud-control store fails)
      | G c x   RegisterControlConnection of a new object for c (x = 0 unauthenticated, x > 0 pre-authenticated)
  obs: cl (<conn> <clientID> <auth> <same> | - - - -){M} cn ((<clientID> <auth> | - -) <inS> <inT> <closed>){N}
       la <k> <conn>{k} ct <Count> <Total> <Control> <Tunnel> <Active>
       alt <len List()> <len ListConnections()> <GetActiveConnections()> (<conn>|-){M} <GetClientIDByConnectionID>{N}
-/
namespace Tunnox.Drv.C07
open Tunnox.C07

def ctlOf : String → Option Bool
  | "c" => some true | "t" => some false | _ => none

/-- parse ops until a non-op token; returns the ops, each with its cloud-control fault flag
(`XF c`, `RF c`, `SF`, `BF c` = `X c`, `R c`, `S`, `B c` while the cloud-control store fails), and the rest -/
def parseFOps : Nat → List String → Option (List FOp × List String)
  | 0, ts => some ([], ts)
  | fuel + 1, ts =>
    match ts with
    | "S" :: r => do let (o, r') ← parseFOps fuel r; pure ((Op.sweep, false) :: o, r')
    | "SF" :: r => do let (o, r') ← parseFOps fuel r; pure ((Op.sweep, true) :: o, r')
    | "H" :: c :: x :: t :: r => do
      let c ← c.toNat?; let x ← x.toNat?; let t ← ctlOf t
      let (o, r') ← parseFOps fuel r
      pure (((if x = 0 then Op.hsFail c else Op.hsAuth c x t), false) :: o, r')
    | "HS" :: c :: x :: t :: r => do
      let c ← c.toNat?; let x ← x.toNat?; let t ← ctlOf t
      let (o, r') ← parseFOps fuel r
      pure (((if x = 0 then Op.hsFail c else Op.hsAuth c x t), false) :: (Op.hsFin c, false) :: o, r')
    | "Q" :: c :: t :: r => do
      let c ← c.toNat?; let t ← ctlOf t
      let (o, r') ← parseFOps fuel r
      pure ((Op.hsChal c t, false) :: o, r')
    | "QS" :: c :: t :: r => do
      let c ← c.toNat?; let t ← ctlOf t
      let (o, r') ← parseFOps fuel r
      pure ((Op.hsChal c t, false) :: (Op.hsFin c, false) :: o, r')
    | "K" :: x :: c :: r => do
      let x ← x.toNat?; let c ← c.toNat?
      let (o, r') ← parseFOps fuel r
      pure ((Op.kick x c, false) :: o, r')
    | "G" :: c :: x :: r => do
      let c ← c.toNat?; let x ← x.toNat?
      let (o, r') ← parseFOps fuel r
      pure ((Op.reg c x, false) :: o, r')
    | k :: c :: r =>
      match (match k with
             | "A" => some (Op.accept, false) | "F" => some (Op.hsFin, false) | "O" => some (Op.age, false)
             | "B" => some (Op.beat, false) | "X" => some (Op.close, false) | "R" => some (Op.remove, false)
             | "U" => some (Op.unreg, false) | "T" => some (Op.treg, false) | "P" => some (Op.brk, false)
             | "PF" => some (Op.brk, true) | "BF" => some (Op.beat, true) | "XF" => some (Op.close, true) | "RF" => some (Op.remove, true)
             | _ => none) with
      | some (mk, f) => do
        let c ← c.toNat?
        let (o, r') ← parseFOps fuel r
        pure ((mk c, f) :: o, r')
      | none => some ([], ts)
    | _ => some ([], ts)

/-- the same without the fault flags (concurrent blocks and fine cases only need the operations) -/
def parseOps (fuel : Nat) (ts : List String) : Option (List Op × List String) :=
  (parseFOps fuel ts).map (fun p => (p.1.map Prod.fst, p.2))

structure Case where
  kind : String
  n : Nat
  m : Nat
  cap : Nat
  pre : List Op
  fpre : List FOp
  threads : List (List Op)

def parseThreads : Nat → List String → Option (List (List Op))
  | 0, _ => none
  | _, [] => some []
  | fuel + 1, "th" :: r => do
    let (o, r') ← parseOps (r.length + 1) r
    let rest ← parseThreads fuel r'
    pure (o :: rest)
  | _, _ => none

def parseCase : List String → Option Case
  | kind :: "n" :: n :: "m" :: m :: "cap" :: cap :: "ops" :: r => do
    let n ← n.toNat?; let m ← m.toNat?; let cap ← cap.toNat?
    if n > 16 || m > 16 then none
    let (fpre, r') ← parseFOps (r.length + 1) r
    let ths ← parseThreads (r'.length + 1) r'
    pure ⟨kind, n, m, cap, fpre.map Prod.fst, fpre, ths⟩
  | _ => none

def bit : String → Option Bool
  | "1" => some true | "0" => some false | _ => none

def bstr (b : Bool) : String := if b then "1" else "0"

def cliStr : Option CliRes → String
  | none => " - - - -"
  | some r => s!" {r.conn} {r.clientID} {bstr r.auth} {bstr r.same}"

def connStr (r : ConnRes) : String :=
  (match r.reg with
   | none => " - -"
   | some (x, a) => s!" {x} {bstr a}") ++ s!" {bstr r.inS} {bstr r.inT} {bstr r.closed}"

def obsStr (o : Obs) : String :=
  "cl" ++ String.join (o.cl.map cliStr) ++ " cn" ++ String.join (o.cn.map connStr) ++
  s!" la {o.la.length}" ++ String.join (o.la.map (fun c => s!" {c}")) ++
  s!" ct {o.count} {o.total} {o.control} {o.tunnel} {o.active}" ++
  s!" alt {o.altList} {o.altConns} {o.altActive}" ++
  String.join (o.ifc.map (fun x => match x with | none => " -" | some c => s!" {c}")) ++
  String.join (o.gid.map (fun x => s!" {x}"))

def parseCl : Nat → List String → Option (List (Option CliRes) × List String)
  | 0, ts => some ([], ts)
  | k + 1, "-" :: "-" :: "-" :: "-" :: r => do
    let (l, r') ← parseCl k r
    pure (none :: l, r')
  | k + 1, c :: x :: a :: s :: r => do
    let c ← c.toNat?; let x ← x.toNat?; let a ← bit a; let s ← bit s
    let (l, r') ← parseCl k r
    pure (some ⟨c, x, a, s⟩ :: l, r')
  | _, _ => none

def parseCn : Nat → List String → Option (List ConnRes × List String)
  | 0, ts => some ([], ts)
  | k + 1, x :: a :: s :: t :: cl :: r => do
    let reg ← (if x == "-" && a == "-" then some none
               else do let x ← x.toNat?; let a ← bit a; pure (some (x, a)))
    let s ← bit s; let t ← bit t; let cl ← bit cl
    let (l, r') ← parseCn k r
    pure (⟨reg, s, t, cl⟩ :: l, r')
  | _, _ => none

def parseObs (n m : Nat) : List String → Option Obs
  | "cl" :: r => do
    let (cl, r) ← parseCl m r
    match r with
    | "cn" :: r => do
      let (cn, r) ← parseCn n r
      match r with
      | "la" :: k :: r => do
        let k ← k.toNat?
        let (la, r) ← takeN k r
        let la ← natList la
        match r with
        | "ct" :: a :: b :: c :: d :: e :: "alt" :: x :: y :: z :: r => do
          let (ifc, r) ← takeN m r
          let ifc ← ifc.mapM (fun t => if t == "-" then some none else t.toNat?.map some)
          let (gid, r) ← takeN n r
          let gid ← natList gid
          if !r.isEmpty then none
          pure { cl := cl, cn := cn, la := la, count := ← a.toNat?, total := ← b.toNat?, control := ← c.toNat?,
                 tunnel := ← d.toNat?, active := ← e.toNat?, altList := ← x.toNat?, altConns := ← y.toNat?,
                 altActive := ← z.toNat?, ifc := ifc, gid := gid }
        | _ => none
      | _ => none
    | _ => none
  | _ => none

/-- `fine` cases: ops as above plus `Kb x c` (kick up to the unlock) and `Ke c` (its I/O part on connection c) -/
def parseFine : Nat → List String → Option (List FineOp)
  | 0, _ => none
  | _, [] => some []
  | fuel + 1, "Kb" :: x :: c :: r => do
    let x ← x.toNat?; let c ← c.toNat?
    let rest ← parseFine fuel r
    pure (FineOp.kickLock x c :: rest)
  | fuel + 1, "Ke" :: c :: r => do
    let c ← c.toNat?
    let rest ← parseFine fuel r
    pure (FineOp.kickIO c :: rest)
  | fuel + 1, ts => do
    let (o, r) ← parseOps (ts.length + 1) ts
    if o.isEmpty then none
    let rest ← parseFine fuel r
    pure (o.map FineOp.op ++ rest)

structure FineCase where
  n : Nat
  m : Nat
  cap : Nat
  ops : List FineOp

def parseFineCase : List String → Option FineCase
  | "fine" :: "n" :: n :: "m" :: m :: "cap" :: cap :: "ops" :: r => do
    let n ← n.toNat?; let m ← m.toNat?; let cap ← cap.toNat?
    if n > 16 || m > 16 then none
    let ops ← parseFine (r.length + 1) r
    pure ⟨n, m, cap, ops⟩
  | _ => none

def runModel (ts : List String) : String :=
  match parseFineCase ts with
  | some c => obsStr (obsOf (runFine .repaired (init c.n c.cap) c.ops) c.m)
  | none =>
  match parseCase ts with
  | some c =>
    if c.kind == "adp" then
      if c.threads.isEmpty then obsStr (obsOf (runAdp .repaired (init c.n c.cap) c.fpre) c.m) else "bad-case"
    else if c.kind == "seq" || c.kind == "strict" then
      if c.threads.isEmpty then obsStr (obsOf (runF .repaired (init c.n c.cap) c.fpre) c.m) else "bad-case"
    else "bad-case"
  | none => "bad-case"

def runHolds (caseToks obsToks : List String) : String :=
  match parseFineCase caseToks with
  | some c =>
    match parseObs c.n c.m obsToks with
    | none => "false"
    | some o => boolStr (holdsFine c.n c.m c.cap c.ops o)
  | none =>
  match parseCase caseToks with
  | some c =>
    match parseObs c.n c.m obsToks with
    | none => "false"
    | some o =>
      if c.kind == "seq" && c.threads.isEmpty then boolStr (holdsF c.n c.m c.cap c.fpre false o)
      else if c.kind == "strict" && c.threads.isEmpty then boolStr (holdsF c.n c.m c.cap c.fpre true o)
      else if c.kind == "adp" && c.threads.isEmpty then boolStr (holdsAdp c.n c.m c.cap c.fpre o)
      else if c.kind == "race" then
        match c.threads with
        | [a, b] => boolStr (holdsRace c.n c.m c.cap c.pre a b o)
        | _ => "bad-case"
      else if c.kind == "par" then boolStr (holdsPar c.n c.m (c.pre ++ c.threads.flatten) o)
      else "bad-case"
  | none => "bad-case"

end Tunnox.Drv.C07
