import TunnoxModel.Driver.Util
import TunnoxModel.Spec.C15
/-!
Line protocol for C15.

case  := `st <store> cas <0|1> ttl <ms> pre <n> (<kind> <id> <expMs>)* thr <n> (<inst> <nops> op*)* sch <n> (<0 tid | 1 dt | 2 tid>)*`   (2 = the storage call of this step fails)
op    := `g <kind> <plen> <p>*` | `r <kind> <id>` | `o` (release own) | `w` (renew own) | `c` (CleanupExpired pass)
         candidate of attempt a = p[a % plen]; kind 0: p = raw 64-bit random value (id = clientCand p);
         kinds 1..3: p = the id as a number (base-|Charset| reading of the 8 random characters);
         kind 9 (node slot): candidate = NodeIDMin + a.
obs   := event* `|` viewkey*
event := `ok.<tid>.<kind>.<id>` | `exh.<tid>.<kind>` | `rel.<tid>.<kind>.<id>` | `relo.<tid>.<kind>.<id>` (release-own) | `rnw.<tid>.<kind>.<id>` | `nop.<tid>` | `err.<tid>` | `swp.<tid>` | `dead.<tid>.<kind>.<id>` (heartbeat tick without heartbeat) | `tick.<dt>`
ids are printed as the real code prints them (`10000002`, `pmap_AAAAAAAB`, `node-0001`).
-/
namespace Tunnox.Drv.C15
open Tunnox.C15 Gen

def nodeKind : Nat := 9

def ttlOf (ttl : Nat) (kind : Nat) : Nat :=
  if kind = nodeKind then node.NodeIDLockTTL / 1000000 else ttl

def maxOf (kind : Nat) : Nat :=
  if kind = nodeKind then node.NodeIDMax - node.NodeIDMin + 1 else idgen.MaxAttempts

def prefixOf (kind : Nat) : String :=
  if kind = 1 then idgen.PrefixNodeID else if kind = 2 then idgen.PrefixPortMappingID
  else if kind = 3 then idgen.PrefixUserID else ""

def charsetL : List Char := random.Charset.toList

/-- digits of `n` in base `b`, exactly `len` of them, most significant first. -/
def digitsFixed (b : Nat) : Nat → Nat → List Nat
  | 0, _ => []
  | len + 1, n => digitsFixed b len (n / b) ++ [n % b]

def pad4 (n : Nat) : String :=
  let s := toString n
  String.ofList (List.replicate (4 - s.length) '0') ++ s

def renderId (kind id : Nat) : String :=
  if kind = 0 then toString id
  else if kind = nodeKind then "node-" ++ pad4 id
  else prefixOf kind ++ String.ofList ((digitsFixed charsetL.length idgen.RandomPartLength id).map (fun d => charsetL.getD d '?'))

def dropPrefix (p s : List Char) : Option (List Char) :=
  if p.isPrefixOf s then some (s.drop p.length) else none

def parseId (kind : Nat) (s : String) : Option Nat :=
  if kind = 0 then s.toNat?
  else if kind = nodeKind then
    match dropPrefix "node-".toList s.toList with
    | some r => if r.length = 4 then (String.ofList r).toNat? else none
    | none => none
  else
    match dropPrefix (prefixOf kind).toList s.toList with
    | some r =>
      if r.length = idgen.RandomPartLength then
        match r.mapM (fun ch => charsetL.findIdx? (· == ch)) with
        | some idxs => some (strCand idxs)
        | none => none
      else none
    | none => none

def renderEv : Ev → String
  | .ok t k i => s!"ok.{t}.{k}.{renderId k i}"
  | .exh t k => s!"exh.{t}.{k}"
  | .rel t k i => s!"rel.{t}.{k}.{renderId k i}"
  | .relo t k i => s!"relo.{t}.{k}.{renderId k i}"
  | .rnw t k i => s!"rnw.{t}.{k}.{renderId k i}"
  | .nop t => s!"nop.{t}"
  | .err t => s!"err.{t}"
  | .swp t => s!"swp.{t}"
  | .dead t k i => s!"dead.{t}.{k}.{renderId k i}"
  | .tick d => s!"tick.{d}"

def keyLe (a b : Key) : Bool := a.1 < b.1 || (a.1 == b.1 && a.2 ≤ b.2)

def sortKeys (ks : List Key) : List Key := (ks.mergeSort keyLe).eraseDups

def renderObs (tr : List Ev) (view : List Key) : String :=
  " ".intercalate (tr.map renderEv ++ ["|"] ++ (sortKeys view).map (fun k => s!"{k.1}.{renderId k.1 k.2}"))

def parseEv (tok : String) : Option Ev :=
  match tok.splitOn "." with
  | ["ok", t, k, i] => do let t ← t.toNat?; let k ← k.toNat?; let i ← parseId k i; pure (.ok t k i)
  | ["exh", t, k] => do let t ← t.toNat?; let k ← k.toNat?; pure (.exh t k)
  | ["rel", t, k, i] => do let t ← t.toNat?; let k ← k.toNat?; let i ← parseId k i; pure (.rel t k i)
  | ["relo", t, k, i] => do let t ← t.toNat?; let k ← k.toNat?; let i ← parseId k i; pure (.relo t k i)
  | ["rnw", t, k, i] => do let t ← t.toNat?; let k ← k.toNat?; let i ← parseId k i; pure (.rnw t k i)
  | ["nop", t] => do let t ← t.toNat?; pure (.nop t)
  | ["err", t] => do let t ← t.toNat?; pure (.err t)
  | ["swp", t] => do let t ← t.toNat?; pure (.swp t)
  | ["dead", t, k, i] => do let t ← t.toNat?; let k ← k.toNat?; let i ← parseId k i; pure (.dead t k i)
  | ["tick", d] => do let d ← d.toNat?; pure (.tick d)
  | _ => none

def parseViewKey (tok : String) : Option Key :=
  match tok.splitOn "." with
  | [k, i] => do let k ← k.toNat?; let i ← parseId k i; pure (k, i)
  | _ => none

def parseObs (ts : List String) : Option (List Ev × List Key) := do
  let evs ← (ts.takeWhile (· != "|")).mapM parseEv
  if ts.contains "|" then
    let view ← ((ts.dropWhile (· != "|")).drop 1).mapM parseViewKey
    pure (evs, view)
  else none

/-! ### case parsing -/

structure Case where
  cas : Bool
  ttl : Nat
  pre : Store
  progs : List (Nat × List Op)
  sched : List Sch

def candsOf (kind : Nat) (pat : List Nat) : Nat → Nat :=
  if kind = nodeKind then fun a => node.NodeIDMin + a
  else if kind = 0 then fun a => clientCand (pat.getD (a % pat.length) 0)
  else fun a => pat.getD (a % pat.length) 0

def parseOps : Nat → List String → Option (List Op × List String)
  | 0, ts => some ([], ts)
  | n + 1, "g" :: k :: pl :: ts => do
    let k ← k.toNat?; let pl ← pl.toNat?
    let (ps, rest) ← takeN pl ts
    let pat ← natList ps
    let (ops, rest) ← parseOps n rest
    pure (.gen k (candsOf k pat) :: ops, rest)
  | n + 1, "r" :: k :: i :: ts => do
    let k ← k.toNat?; let i ← i.toNat?
    let (ops, rest) ← parseOps n ts
    pure (.rel k i :: ops, rest)
  | n + 1, "o" :: ts => do
    let (ops, rest) ← parseOps n ts
    pure (.relOwn :: ops, rest)
  | n + 1, "w" :: ts => do
    let (ops, rest) ← parseOps n ts
    pure (.renewOwn :: ops, rest)
  | n + 1, "c" :: ts => do
    let (ops, rest) ← parseOps n ts
    pure (.sweep :: ops, rest)
  | _, _ => none

def parseThreads : Nat → List String → Option (List (Nat × List Op) × List String)
  | 0, ts => some ([], ts)
  | n + 1, inst :: nops :: ts => do
    let inst ← inst.toNat?; let nops ← nops.toNat?
    let (ops, rest) ← parseOps nops ts
    let (thrs, rest) ← parseThreads n rest
    pure ((inst, ops) :: thrs, rest)
  | _, _ => none

def parsePre : Nat → List String → Option (Store × List String)
  | 0, ts => some ([], ts)
  | n + 1, k :: i :: e :: ts => do
    let k ← k.toNat?; let i ← i.toNat?; let e ← e.toNat?
    let (s, rest) ← parsePre n ts
    pure (((k, i), e) :: s, rest)
  | _, _ => none

def parseSched : Nat → List String → Option (List Sch)
  | 0, [] => some []
  | n + 1, "0" :: t :: ts => do let t ← t.toNat?; let r ← parseSched n ts; pure (.step t :: r)
  | n + 1, "1" :: d :: ts => do let d ← d.toNat?; let r ← parseSched n ts; pure (.tick d :: r)
  | n + 1, "2" :: t :: ts => do let t ← t.toNat?; let r ← parseSched n ts; pure (.fault t :: r)
  | _, _ => none

def parseCase (ts : List String) : Option Case :=
  match ts with
  | "st" :: _ :: "cas" :: c :: "ttl" :: ttl :: "pre" :: np :: rest => do
    let ttl ← ttl.toNat?; let np ← np.toNat?
    let (pre, rest) ← parsePre np rest
    match rest with
    | "thr" :: nt :: rest => do
      let nt ← nt.toNat?
      let (progs, rest) ← parseThreads nt rest
      match rest with
      | "sch" :: ns :: rest => do
        let ns ← ns.toNat?
        let sched ← parseSched ns rest
        pure ⟨c == "1", ttl, pre, progs, sched⟩
      | _ => none
    | _ => none
  | _ => none

def paramsOf (c : Case) : Params := ⟨c.cas, ttlOf c.ttl, maxOf, true, true⟩

/-- Capabilities of the shipped stores and the constants, as the extractor saw them. -/
def capsLine : String :=
  s!"mem=1 red=1 hyb=1 hybrt=1 legacy=10 maxatt={idgen.MaxAttempts} ttlms={idgen.DefaultIDTTL / 1000000} " ++
  s!"min={idgen.ClientIDMin} max={idgen.ClientIDMax} rlen={idgen.RandomPartLength} " ++
  s!"nodettlms={node.NodeIDLockTTL / 1000000} nodemin={node.NodeIDMin} nodemax={node.NodeIDMax}"

def stripFree (ts : List String) : List String :=
  match ts with
  | "free" :: r => r
  | "strict" :: r => r
  | _ => ts

/-- `strict` cases are judged under the literal reading "live until released": markers handed out by
the generators never expire in the reference live-set (witnesses of the known finding
marker-ttl-shorter-than-entity; pre-existing markers keep their own expiry). -/
def specTtl (caseToks : List String) (c : Case) : Nat → Nat :=
  if caseToks.head? = some "strict" then fun _ => 0 else ttlOf c.ttl

def runModel (ts : List String) : String :=
  if ts = ["caps"] then capsLine else
  match parseCase (stripFree ts) with
  | none => "bad-case"
  | some c =>
    let fin := run (paramsOf c) (init c.pre c.progs) c.sched
    renderObs fin.trace (liveKeys fin.store fin.now)

def runHolds (caseToks obsToks : List String) : String :=
  if caseToks = ["caps"] then
    -- every store the server factory can build takes the atomic path
    boolStr (obsToks.take 4 == ["mem=1", "red=1", "hyb=1", "hybrt=1"])
  else
  match parseCase (stripFree caseToks), parseObs obsToks with
  | some c, some (tr, view) => boolStr (holds (specTtl caseToks c) c.pre tr view)
  | _, _ => "false"

end Tunnox.Drv.C15
