import TunnoxModel.Driver.Util
import TunnoxModel.Spec.C03
/-!
Line protocol for C03 (see harness/c03/main.go):
  case: seq ips <i0,i1,..> nc <n> rl <B> : <ev> ; <ev> ; …
        ev: fc <c> <ty> | hs <c> <ty> <k|z> <-|j|h<key>.L<d>|h<key>.P<d>> | mal <c> | emp <c>
            | ban/unban/bl/unbl/refill <ip> | blr/unblr <range> | restart | wl/unwl <ip> | unexp/claim/bind/ext <k> | issue <fail|ok> | exp/del/strip <k> | sec <k> <u|d|e|l>     ty: c | t | e | x | a
        nc: a number (all usable) or one letter per client u|d|e|l; key: <k> | E | C<k> | P<k>
  obs:  per event  <ok|new<k>|ch<n>|fail|none|-> c <conn>… r <lookup>… b <bits> l <bits>   joined by ` ; `
        conn: - | <0|1>/<id|->/<pending|->      lookup: <conn> | -
-/
namespace Tunnox.Drv.C03
open Tunnox.C03

def splitSemi (ts : List String) : List (List String) :=
  (ts.foldr (fun t (acc : List String × List (List String)) =>
    if t == ";" then ([], acc.1 :: acc.2) else (t :: acc.1, acc.2)) ([], [])).1 ::
  (ts.foldr (fun t (acc : List String × List (List String)) =>
    if t == ";" then ([], acc.1 :: acc.2) else (t :: acc.1, acc.2)) ([], [])).2

def tyOf : String → Option Ty
  | "c" => some .control | "a" => some .control | "b" => some .control | "t" => some .tunnel | "e" => some .empty | "x" => some .weird
  | _ => none

def crefOf (s : String) : Option CRef :=
  if s == "z" || s == "y" then some .zero          -- id 0 with a token that is not a first-connection token
  else if s == "m" then some (.idx 1000000000)     -- a negative id: no such client
  else s.toNat?.map .idx

def nrefOf (s : String) : Option NRef :=
  match s.toList with
  | 'L' :: d => (String.ofList d).toNat?.map .last
  | 'P' :: d => (String.ofList d).toNat?.map .prev
  | _ => none

def keyOf (s : String) : Option Key :=
  if s == "E" then some .empty
  else match s.toList with
    | 'C' :: k => (String.ofList k).toNat?.map .cipher
    | 'P' :: k => (String.ofList k).toNat?.map .plain
    | _ => s.toNat?.map .client

def secOf : Char → Option SecState
  | 'u' => some .usable | 'd' => some .undec | 'e' => some .empty | 'l' => some .legacy | _ => none

def respRefOf (s : String) : Option RespRef :=
  if s == "-" then some .none
  else if s == "j" then some .junk
  else if s.startsWith "eL" || s.startsWith "eP" then some .junk     -- the challenge echoed back: not an HMAC
  else match s.toList with
    | 'h' :: rest =>
      match (String.ofList rest).splitOn "." with
      | [k, r] => do
        let k ← keyOf k
        let r ← nrefOf r
        pure (.hmac k r)
      | _ => none
    | _ => none

def eventOf : List String → Option Event
  | ["fc", c, ty] => do pure (.fc (← c.toNat?) (← tyOf ty))
  | ["hs", c, ty, k, r] => do pure (.hs (← c.toNat?) (← tyOf ty) (← crefOf k) (← respRefOf r))
  | ["mal", c] => c.toNat?.map .mal
  | ["emp", c] => c.toNat?.map (fun c => .hs c .empty .zero .none)
  | ["ban", i] => i.toNat?.map .ban
  | ["unban", i] => i.toNat?.map .unban
  | ["banp", i] => i.toNat?.map .banp
  -- a lapsed ban, then a new ban placed before the asynchronous unban of the lapsed one runs: the new ban stands
  | ["reban", i, "p"] => i.toNat?.map .banp
  | ["reban", i, "t"] => i.toNat?.map .ban
  | ["bans", i] => i.toNat?.map .bans
  | ["bl", i] => i.toNat?.map .bl
  | ["unbl", i] => i.toNat?.map .unbl
  | ["blr", i] => i.toNat?.map .blr
  | ["unblr", i] => i.toNat?.map .unblr
  | ["restart"] => some .restart
  | ["wl", i] => i.toNat?.map .wl
  | ["unwl", i] => i.toNat?.map .unwl
  | ["unexp", k] => k.toNat?.map .unexp
  | ["claim", k] => k.toNat?.map .claim
  | ["bind", k] => k.toNat?.map .bind
  | ["ext", k] => k.toNat?.map .ext
  | ["issue", b] => if b == "fail" then some (.issue true) else if b == "ok" then some (.issue false) else none
  | ["refill", i] => i.toNat?.map .refill
  | ["exp", k] => k.toNat?.map .exp
  | ["del", k] => k.toNat?.map .del
  | ["strip", k] => k.toNat?.map (fun k => .strip k .empty)
  | ["sec", k, st] => do
    let st ← match st.toList with | [c] => secOf c | _ => none
    pure (.strip (← k.toNat?) st)
  | _ => none

def now0 : Nat := 1000000000000000000

def parseCase : List String → Option (Hdr × List Event)
  | "seq" :: "ips" :: ips :: "nc" :: nc :: "rl" :: b :: ":" :: rest => do
    let ips ← (ips.splitOn ",").mapM (fun t => (String.ofList (t.toList.filter Char.isDigit)).toNat?)
    let secs ← match nc.toNat? with | some _ => some [] | none => nc.toList.mapM secOf
    let nc := match nc.toNat? with | some n => n | none => nc.length
    let b ← b.toNat?
    let evs ← ((splitSemi rest).filter (fun l => !l.isEmpty)).mapM eventOf
    pure (⟨now0, ips, nc, b, secs⟩, evs)
  | _ => none

def optStr : Option Nat → String
  | none => "-" | some n => toString n

def respStr : RespObs → String
  | .ok => "ok" | .new k => s!"new{k}" | .ch n => s!"ch{n}" | .fail => "fail" | .none => "none" | .na => "-"

def connStr : Option ConnObs → String
  | none => "-"
  | some o => s!"{if o.auth then "1" else "0"}/{optStr o.id}/{optStr o.pending}"

def bitsStr (bs : List Bool) : String := String.ofList (bs.map (fun b => if b then '1' else '0'))

def stepStr (o : StepObs) : String :=
  " ".intercalate ([respStr o.resp, "c"] ++ o.st.conns.map connStr ++ ["r"] ++ o.st.lookups.map optStr ++
    ["b", bitsStr o.st.bans, "l", bitsStr o.st.bls])

def optOf (s : String) : Option (Option Nat) := if s == "-" then some none else s.toNat?.map some

def respOfStr (s : String) : Option RespObs :=
  if s == "ok" then some .ok else if s == "fail" then some .fail else if s == "none" then some .none
  else if s == "-" then some .na
  else match s.toList with
    | 'n' :: 'e' :: 'w' :: k => (String.ofList k).toNat?.map .new
    | 'c' :: 'h' :: n => (String.ofList n).toNat?.map .ch
    | _ => none

def connOfStr (s : String) : Option (Option ConnObs) :=
  if s == "-" then some none
  else match s.splitOn "/" with
    | [a, i, p] => do
      let a ← if a == "1" then some true else if a == "0" then some false else none
      pure (some ⟨a, ← optOf i, ← optOf p⟩)
    | _ => none

def bitsOf (s : String) : Option (List Bool) :=
  s.toList.mapM (fun c => if c == '1' then some true else if c == '0' then some false else none)

def stepOfToks : List String → Option StepObs
  | r :: "c" :: rest => do
    let r ← respOfStr r
    let cs := rest.takeWhile (· != "r")
    let rest := (rest.dropWhile (· != "r")).drop 1
    let ls := rest.takeWhile (· != "b")
    let rest := (rest.dropWhile (· != "b")).drop 1
    let bs := rest.takeWhile (· != "l")
    let lbits := (rest.dropWhile (· != "l")).drop 1
    let conns ← cs.mapM connOfStr
    let lookups ← ls.mapM optOf
    let b ← match bs with | [] => some [] | [x] => bitsOf x | _ => none
    let l ← match lbits with | [] => some [] | [x] => bitsOf x | _ => none
    pure ⟨r, ⟨conns, lookups, b, l⟩⟩
  | _ => none

def parseObs (ts : List String) : Option (List StepObs) :=
  ((splitSemi ts).filter (fun l => !l.isEmpty)).mapM stepOfToks

def runModel (ts : List String) : String :=
  match parseCase ts with
  | some (h, evs) => " ; ".intercalate ((run h.init evs).map stepStr)
  | none => "bad-case"

def runHolds (caseToks obsToks : List String) : String :=
  match parseCase caseToks, parseObs obsToks with
  | some (h, evs), some os => boolStr (holds h evs os)
  | _, _ => "false"

end Tunnox.Drv.C03
