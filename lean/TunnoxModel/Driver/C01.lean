import TunnoxModel.Driver.Util
import TunnoxModel.Spec.C01
/-!
Line protocol for C01 / C05.

  rt  <tail> tbl <n> (<body> <gz>)*n pk <m> (<ty> <comp> <body>)*m ch <k> <size>*k
  raw <tail> tbl <n> (<gz> <inflated|!>)*n st <hexstream> ch <k> <size>*k

Observation format (same for implementation and model):
  pk <m> (<ty> <body>)*m stop <stage> left <n> [wire <hex>]
-/
namespace Tunnox.Drv.C01
open Tunnox.C01

def lookup (tbl : List (Bytes × Bytes)) (k : Bytes) : Option Bytes :=
  (tbl.find? (fun e => e.1 == k)).map (·.2)

/-- Codec given by the finite table measured by the harness from the real gzip. -/
def codecOfTable (tbl : List (Bytes × Bytes)) : Codec where
  compress b := (lookup tbl b).getD b
  inflate z := (tbl.find? (fun e => e.2 == z)).map (·.1)
  jsonNorm b := some b

/-- Codec for raw streams: the table maps compressed bodies to what real gzip returned. -/
def codecOfInflate (tbl : List (Bytes × Option Bytes)) (badJson : List Bytes) : Codec where
  compress b := b
  inflate z := ((tbl.find? (fun e => e.1 == z)).map (·.2)).join
  jsonNorm b := if badJson.contains b then none else some b

def stageStr : RErr → String
  | .type => "type" | .shortType => "shorttype" | .size => "size" | .tooLarge => "toolarge"
  | .body => "body" | .encrypted => "encrypted" | .decompress => "decompress" | .json => "json"

def stageOf : String → Option RErr
  | "type" => some .type | "shorttype" => some .shortType | "size" => some .size
  | "toolarge" => some .tooLarge | "body" => some .body | "encrypted" => some .encrypted
  | "decompress" => some .decompress | "json" => some .json | _ => none

def obsStr (o : Obs) : String :=
  let pk := o.pkts.foldl (fun acc p => acc ++ s!" {p.1} {hexOfBytes p.2}") ""
  s!"pk {o.pkts.length}{pk} stop {stageStr o.stop} left {o.leftover.length}"

def parsePairs : Nat → List String → Option (List (Bytes × Bytes) × List String)
  | 0, ts => some ([], ts)
  | n + 1, a :: b :: ts => do
    let x ← bytesOfHex a
    let y ← bytesOfHex b
    let (r, ts') ← parsePairs n ts
    pure ((x, y) :: r, ts')
  | _, _ => none

def parsePkts : Nat → List String → Option (List Pkt × List String)
  | 0, ts => some ([], ts)
  | n + 1, t :: c :: b :: ts => do
    let ty ← t.toNat?
    let body ← bytesOfHex b
    let (r, ts') ← parsePkts n ts
    pure (⟨ty, body, c == "1"⟩ :: r, ts')
  | _, _ => none

def parseObsPkts : Nat → List String → Option (List (Nat × Bytes) × List String)
  | 0, ts => some ([], ts)
  | n + 1, t :: b :: ts => do
    let ty ← t.toNat?
    let body ← bytesOfHex b
    let (r, ts') ← parseObsPkts n ts
    pure ((ty, body) :: r, ts')
  | _, _ => none

def parseObs : List String → Option Obs
  | "pk" :: m :: ts => do
    let m ← m.toNat?
    let (pk, ts) ← parseObsPkts m ts
    match ts with
    | "stop" :: st :: "left" :: n :: _ => do
      let st ← stageOf st
      let n ← n.toNat?
      pure ⟨pk, st, List.replicate n 0⟩
    | _ => none
  | _ => none

structure RtCase where
  tail : Tail
  codec : Codec
  pkts : List Pkt
  chunks : List Nat
  eager : Bool := false     -- tail token `eof+` / `err+`: the end of the stream arrives with the last bytes

/-- `eof` / `err`, with `+` appended when the transport reports the end together with the last bytes. -/
def tailE (s : String) : Option (Tail × Bool) :=
  if s.endsWith "+" then (tailOfString (s.dropRight 1)).map (·, true) else (tailOfString s).map (·, false)

def parseRt : List String → Option RtCase
  | tl :: "tbl" :: n :: ts => do
    let (tail, eager) ← tailE tl
    let n ← n.toNat?
    let (tbl, ts) ← parsePairs n ts
    match ts with
    | "pk" :: m :: ts => do
      let m ← m.toNat?
      let (pk, ts) ← parsePkts m ts
      match ts with
      | "ch" :: k :: ts => do
        let k ← k.toNat?
        let (sz, _) ← takeN k ts
        let sz ← natList sz
        pure ⟨tail, codecOfTable tbl, pk, sz, eager⟩
      | _ => none
    | _ => none
  | _ => none

def modelRt (c : RtCase) : Obs × Bytes :=
  let wire := encodeAll c.codec c.pkts
  let src : Src := ⟨chunkBy c.chunks wire, c.tail⟩
  (readAllG c.eager c.codec (wire.length + 1) src, wire)

/-- `rt` line: model observation (with the wire bytes the model writer produced).  `limited`: the
packets were written with a rate limit (`rtl <rate> …`), i.e. through `writeRateLimitedData`. -/
def runModelRt (ts : List String) (limited : Bool := false) : String :=
  match ts with
  | "rt" :: rest =>
    match parseRt rest with
    | some c =>
      let (o, w) := modelRt c
      let calls := (c.pkts.map (if limited then writeCallsLimited c.codec else writeCalls c.codec)).flatten.map (·.length)
      obsStr o ++ " wire " ++ hexOfBytes w ++ " wc " ++ ",".intercalate (calls.map toString)
    | none => "bad-case"
  | _ => "bad-case"

/-- `cw hold <k> pk <m> … tbl <n> …`: concurrent writers; the first packet holds `writeLock` when the second
writer starts, so the lock order is packet 0, then the others: an `rt` case read byte by byte. -/
def cwToRt (ts : List String) : Option (List String) :=
  match ts with
  | "hold" :: _ :: rest =>
    let pkPart := rest.takeWhile (· != "tbl")
    let tblPart := rest.dropWhile (· != "tbl")
    some (["rt", "eof"] ++ tblPart ++ pkPart ++ ["ch", "0"])
  | _ => none

/-- `rtcap <ty> <comp> <size>`: one packet with a body of `size` bytes followed by a heartbeat.  The
body is too large for this driver's list representation, so the harness compares the bytes and
reports a summary; what the summary must be is the conclusion of `C01_main` for a well-formed
packet (`size ≤ MaxPacketBodySize`): the reader returns exactly that packet, then the trailer. -/
def capExpected (ts : List String) : Option String :=
  match ts with
  | [ty, _, size] =>
    match ty.toNat?, size.toNat? with
    | some t, some n =>
      if t < 64 ∧ ¬ Gen.packet.Type.IsHeartbeat t ∧ n ≤ Gen.constants.MaxPacketBodySize then some s!"ok {n} same trailer 1" else none
    | _, _ => none
  | _ => none

/-- `dx <rt case tokens…> out <n> (<ty> <comp> <body>)*n`: one processor reads the inbound stream while
it writes the outbound packets (one during each inbound `Read` call).  The model has no shared state
between the directions: the inbound observation is `readAll` of the inbound stream, the outbound wire
is the encoding of the outbound packets. -/
def splitOut (ts : List String) : List String × List String :=
  (ts.takeWhile (· != "out"), (ts.dropWhile (· != "out")).drop 1)

def runModelDx (ts : List String) : String :=
  let inb := (splitOut ts).1
  let out := (splitOut ts).2
  match parseRt inb, out with
  | some c, n :: rest =>
    match n.toNat? with
    | some n =>
      match parsePkts n rest with
      | some (ops, _) =>
        let o := (modelRt c).1
        obsStr o ++ " owire " ++ hexOfBytes (encodeAll c.codec ops)
      | none => "bad-case"
    | none => "bad-case"
  | _, _ => "bad-case"

/-- `rtw <side> …` is an `rt` case whose chunks were real WebSocket messages: the model does not
care which transport produced the chunks (`C01_main` quantifies over all chunkings). -/
def runModel (ts : List String) : String :=
  match ts with
  | "dx" :: rest => runModelDx rest
  | "rtcap" :: rest => (capExpected rest).getD "unconstrained"
  | "rtl" :: _ :: rest => runModelRt ("rt" :: rest) true
  | "cw" :: rest =>
    match cwToRt rest with
    | some rt =>
      let full := runModelRt rt
      " ".intercalate ((full.splitOn " ").takeWhile (· != "wire"))
    | none => "bad-case"
  | "rtw" :: _ :: rest =>
    -- no `wire`/`wc` part in the WebSocket observation: compare the decoded side only
    let full := runModelRt ("rt" :: rest)
    " ".intercalate ((full.splitOn " ").takeWhile (· != "wire"))
  | _ => runModelRt ts

/-- `holds` line: `<case tokens> ## <obs tokens>`: the theorem's predicate on an observation. -/
def runHoldsRt (caseToks obsToks : List String) : String :=
  match caseToks with
  | "rt" :: rest =>
    match parseRt rest, parseObs obsToks with
    | some c, some o => boolStr (holdsSeq c.codec c.pkts o)   -- = `holds` unless a packet carries the rejected flag
    | _, _ => "false"      -- unparsable observation (panic, timeout, …) never satisfies the property
  | _ => "bad-case"

def runHolds (caseToks obsToks : List String) : String :=
  match caseToks with
  | "dx" :: rest =>
    -- the inbound side must satisfy the round-trip predicate; the outbound wire must be the encoding
    match parseRt (splitOut rest).1, parseObs (obsToks.takeWhile (· != "owire")) with
    | some c, some o =>
      boolStr (holds c.pkts o && (" ".intercalate obsToks == runModelDx rest))
    | _, _ => "false"
  | "rtcap" :: rest =>
    match capExpected rest with
    | some e => boolStr (" ".intercalate obsToks == e)
    | none => boolStr (obsToks.head? != some "panic" && obsToks.head? != some "timeout")
  | "cw" :: rest =>
    match cwToRt rest with
    | some rt => runHoldsRt rt obsToks
    | none => "bad-case"
  | "rtw" :: _ :: rest => runHoldsRt ("rt" :: rest) obsToks
  | "rtl" :: _ :: rest => runHoldsRt ("rt" :: rest) obsToks
  | _ => runHoldsRt caseToks obsToks

/-! ### raw streams (C05) -/

/-- `<key> <!|=hex>` pairs. -/
def parseOptPairs : Nat → List String → Option (List (Bytes × Option Bytes) × List String)
  | 0, ts => some ([], ts)
  | n + 1, a :: b :: ts => do
    let x ← bytesOfHex a
    let y ← (if b == "!" then some none else (bytesOfHex (b.drop 1).toString).map some)
    let (r, ts') ← parseOptPairs n ts
    pure ((x, y) :: r, ts')
  | _, _ => none

def optLookup (tbl : List (Bytes × Option Bytes)) (k : Bytes) : Option Bytes :=
  ((tbl.find? (fun e => e.1 == k)).map (·.2)).join

structure RawCase where
  tail : Tail
  codec : Codec
  stream : Bytes
  chunks : List Nat
  eager : Bool := false

def parseRaw : List String → Option RawCase
  | tl :: "ztbl" :: n :: ts => do
    let (tail, eager) ← tailE tl
    let n ← n.toNat?
    let (ztbl, ts) ← parseOptPairs n ts
    match ts with
    | "jtbl" :: m :: ts => do
      let m ← m.toNat?
      let (jtbl, ts) ← parseOptPairs m ts
      match ts with
      | "st" :: st :: "ch" :: k :: ts => do
        let st ← bytesOfHex st
        let k ← k.toNat?
        let (sz, _) ← takeN k ts
        let sz ← natList sz
        pure ⟨tail, ⟨id, optLookup ztbl, optLookup jtbl⟩, st, sz, eager⟩
      | _ => none
    | _ => none
  | _ => none

def runRawModel (ts : List String) : String :=
  match ts with
  | "raw" :: rest =>
    match parseRaw rest with
    | some c => obsStr (readAllG c.eager c.codec (c.stream.length + 1) ⟨chunkBy c.chunks c.stream, c.tail⟩)
    | none => "bad-case"
  | _ => "bad-case"

end Tunnox.Drv.C01
