import TunnoxModel.Driver.Util
import TunnoxModel.Spec.C17
import TunnoxModel.Model.C17Slot
/-!
Line protocol for C17.

case  := `p <proto> lim <L> pre <k> [dead <d>] thr <n> (<inst> <nops> (a|r|o)*)*   (a = admission, r = release own, o = admission of another client, v = revoke own through the service, v<k> = revoke whose storage call k fails; mapq: u = usage update of mapping 0, w = revocation of mapping 0 - their threads carry the record lock as `inst`) sch <m> <tid>*`
proto := `conn` | `conng` (connections without an id of their own: one step) | `ctrl` | `ctrlx` (Register with gated stream Close) | `tun` | `map` | `mapu` | `code` | `mapq`   (the instances of Model/C17; `mapu` = `map` with the limit taken from the user quota)
obs   := event* `|` item*
event := `stp.<tid>.<n>` | `blk.<tid>.<n>` | `adm.<tid>.<item>.<victim or ->.<n>` | `ref.<tid>.<dirty>.<n>`
       | `rel.<tid>.<item>.<n>` | `nop.<tid>.<n>`
free  := `free p <proto> lim <L> pre <k> n <N> [it <rounds>]`  with obs  `adm <a> ref <r> max <m> fin <f> dirty <0|1>`
caps  := `caps` with obs `maxconn=<n> maxctrl=<n> codes=<n> mappings=<n>` (defaults of the compiled code)
-/
namespace Tunnox.Drv.C17
open Tunnox.C17 Gen

def protoOf : String → Option Proto
  | "conn" => some protoConn
  | "conng" => some protoTun
  | "ctrl" => some protoCtrl
  | "ctrlx" => some protoCtrlX
  | "tun" => some protoTun
  | "map" => some protoMap
  | "mapu" => some protoMap
  | "code" => some protoCode
  | "mapq" => some protoMapq
  | _ => none

def renderEv : Ev → String
  | .stp t n => s!"stp.{t}.{n}"
  | .blk t n => s!"blk.{t}.{n}"
  | .adm t i none n => s!"adm.{t}.{i}.-.{n}"
  | .adm t i (some v) n => s!"adm.{t}.{i}.{v}.{n}"
  | .ref t d n => s!"ref.{t}.{if d then 1 else 0}.{n}"
  | .rel t i n => s!"rel.{t}.{i}.{n}"
  | .nop t n => s!"nop.{t}.{n}"
  | .evi t v n => s!"evi.{t}.{v}.{n}"

def renderObs (tr : List Ev) (fin : List Nat) : String :=
  " ".intercalate (tr.map renderEv ++ ["|"] ++ fin.map toString)

def parseEv (tok : String) : Option Ev :=
  match tok.splitOn "." with
  | ["stp", t, n] => do let t ← t.toNat?; let n ← n.toNat?; pure (.stp t n)
  | ["blk", t, n] => do let t ← t.toNat?; let n ← n.toNat?; pure (.blk t n)
  | ["nop", t, n] => do let t ← t.toNat?; let n ← n.toNat?; pure (.nop t n)
  | ["rel", t, i, n] => do let t ← t.toNat?; let i ← i.toNat?; let n ← n.toNat?; pure (.rel t i n)
  | ["evi", t, v, n] => do let t ← t.toNat?; let v ← v.toNat?; let n ← n.toNat?; pure (.evi t v n)
  | ["ref", t, d, n] => do
    let t ← t.toNat?; let n ← n.toNat?
    if d == "0" then pure (.ref t false n) else if d == "1" then pure (.ref t true n) else none
  | ["adm", t, i, v, n] => do
    let t ← t.toNat?; let i ← i.toNat?; let n ← n.toNat?
    if v == "-" then pure (.adm t i none n) else do let v ← v.toNat?; pure (.adm t i (some v) n)
  | _ => none

def parseObs (ts : List String) : Option (List Ev × List Nat) := do
  let evs ← (ts.takeWhile (· != "|")).mapM parseEv
  if ts.contains "|" then
    let fin ← natList ((ts.dropWhile (· != "|")).drop 1)
    pure (evs, fin)
  else none

structure Case where
  dead : Nat := 0      -- entries in the client's index that are not active (connection codes only)
  proto : Proto
  limit : Nat
  pre : Nat
  progs : List (Nat × List Op)
  sched : List Nat

def parseOps : Nat → List String → Option (List Op × List String)
  | 0, ts => some ([], ts)
  | n + 1, "a" :: ts => do let (ops, rest) ← parseOps n ts; pure (.acquire :: ops, rest)
  | n + 1, "r" :: ts => do let (ops, rest) ← parseOps n ts; pure (.release :: ops, rest)
  | n + 1, "o" :: ts => do let (ops, rest) ← parseOps n ts; pure (.other :: ops, rest)
  | n + 1, "u" :: ts => do let (ops, rest) ← parseOps n ts; pure (.touch :: ops, rest)
  | n + 1, "w" :: ts => do let (ops, rest) ← parseOps n ts; pure (.mrevoke :: ops, rest)
  | n + 1, "v" :: ts => do let (ops, rest) ← parseOps n ts; pure (.revoke none :: ops, rest)
  | n + 1, "v0" :: ts => do let (ops, rest) ← parseOps n ts; pure (.revoke (some 0) :: ops, rest)
  | n + 1, "v1" :: ts => do let (ops, rest) ← parseOps n ts; pure (.revoke (some 1) :: ops, rest)
  | n + 1, "v2" :: ts => do let (ops, rest) ← parseOps n ts; pure (.revoke (some 2) :: ops, rest)
  | n + 1, "v3" :: ts => do let (ops, rest) ← parseOps n ts; pure (.revoke (some 3) :: ops, rest)
  | n + 1, "v4" :: ts => do let (ops, rest) ← parseOps n ts; pure (.revoke (some 4) :: ops, rest)
  | _, _ => none

def parseThreads : Nat → List String → Option (List (Nat × List Op) × List String)
  | 0, ts => some ([], ts)
  | n + 1, inst :: nops :: ts => do
    let inst ← inst.toNat?; let nops ← nops.toNat?
    let (ops, rest) ← parseOps nops ts
    let (thrs, rest) ← parseThreads n rest
    pure ((inst, ops) :: thrs, rest)
  | _, _ => none

def parseCase (ts : List String) : Option Case :=
  match ts with
  | "p" :: p :: "lim" :: l :: "pre" :: k :: "dead" :: d :: "thr" :: nt :: rest => do
    let d ← d.toNat?
    let c ← parseCase ("p" :: p :: "lim" :: l :: "pre" :: k :: "thr" :: nt :: rest)
    if p == "code" then pure { c with dead := d } else if p == "mapq" then pure c else none
  | "p" :: p :: "lim" :: l :: "pre" :: k :: "thr" :: nt :: rest => do
    let P ← protoOf p; let l ← l.toNat?; let k ← k.toNat?; let nt ← nt.toNat?
    let (progs, rest) ← parseThreads nt rest
    match rest with
    | "sch" :: ns :: rest => do
      let ns ← ns.toNat?
      let sched ← natList rest
      if sched.length = ns then pure ⟨0, P, l, k, progs, sched⟩ else none
    | _ => none
  | _ => none

structure FreeCase where
  proto : Proto
  limit : Nat
  pre : Nat
  n : Nat

def parseFree (ts : List String) : Option FreeCase :=
  match ts with
  | ["free", "p", p, "lim", l, "pre", k, "n", n] => do
    let P ← protoOf p; let l ← l.toNat?; let k ← k.toNat?; let n ← n.toNat?
    pure ⟨P, l, k, n⟩
  | ["free", "p", p, "lim", l, "pre", k, "n", n, "it", i] => do
    let P ← protoOf p; let l ← l.toNat?; let k ← k.toNat?; let n ← n.toNat?; let _ ← i.toNat?
    pure ⟨P, l, k, n⟩
  | _ => none

def parseFreeObs (ts : List String) : Option (Nat × Nat × Nat × Nat × Bool) :=
  match ts with
  | ["adm", a, "ref", r, "max", m, "fin", f, "dirty", d] => do
    let a ← a.toNat?; let r ← r.toNat?; let m ← m.toNat?; let f ← f.toNat?
    if d == "0" then pure (a, r, m, f, false) else if d == "1" then pure (a, r, m, f, true) else none
  | _ => none

/-- Defaults as the extractor saw them in the source. -/
def capsLine : String :=
  s!"maxconn={lim_session.DefaultMaxConnections} maxctrl={lim_session.DefaultMaxControlConnections} " ++
  s!"codes={lim_conncode.MaxActiveCodesPerClient} mappings={lim_conncode.MaxActiveMappingsPerClient}"

/-! ### slot scenarios: `slot lim <L> sch <m> (s<i> | c<i> | f<i>)*` (f = step whose injectable call fails), obs `acq.i.n ref.i.n reg.i.n sta.i.n fal.i.n cls.i.n ncl.i.n* |` -/

def parseSch (tok : String) : Option C17Slot.Sch :=
  match tok.toList with
  | 's' :: r => (String.ofList r).toNat?.map C17Slot.Sch.step
  | 'c' :: r => (String.ofList r).toNat?.map C17Slot.Sch.close
  | 'f' :: r => (String.ofList r).toNat?.map C17Slot.Sch.stepFail
  | _ => none

def parseSlot (ts : List String) : Option (Nat × List C17Slot.Sch) :=
  match ts with
  | "slot" :: "lim" :: l :: "sch" :: m :: rest => do
    let l ← l.toNat?; let m ← m.toNat?
    let σ ← rest.mapM parseSch
    if σ.length = m then pure (l, σ) else none
  | _ => none

def renderSlotEv : C17Slot.Ev → String
  | .acq i n => s!"acq.{i}.{n}"
  | .ref i n => s!"ref.{i}.{n}"
  | .reg i n => s!"reg.{i}.{n}"
  | .sta i n => s!"sta.{i}.{n}"
  | .fal i n => s!"fal.{i}.{n}"
  | .cls i n => s!"cls.{i}.{n}"
  | .ncl i n => s!"ncl.{i}.{n}"
  | .dfl i n => s!"dfl.{i}.{n}"
  | .rfl i n => s!"rfl.{i}.{n}"

def parseSlotEv (tok : String) : Option C17Slot.Ev :=
  match tok.splitOn "." with
  | [k, i, n] => do
    let i ← i.toNat?; let n ← n.toNat?
    match k with
    | "acq" => pure (.acq i n) | "ref" => pure (.ref i n) | "reg" => pure (.reg i n) | "sta" => pure (.sta i n)
    | "fal" => pure (.fal i n) | "cls" => pure (.cls i n) | "ncl" => pure (.ncl i n)
    | "dfl" => pure (.dfl i n) | "rfl" => pure (.rfl i n) | _ => none
  | _ => none

def runModel (ts : List String) : String :=
  if ts = ["caps"] then capsLine else
  if ts.head? = some "slot" then
    match parseSlot ts with
    | none => "bad-case"
    | some (l, σ) => " ".intercalate ((C17Slot.run true l C17Slot.init σ).trace.map renderSlotEv ++ ["|"])
  else
  match parseCase ts with
  | none => "bad-case"
  | some c =>
    let fin := run c.proto c.limit (initDead c.dead c.pre c.progs) c.sched
    renderObs fin.trace fin.occ

def runHolds (caseToks obsToks : List String) : String :=
  if caseToks = ["caps"] then
    -- the defaults are positive bounds, and the constructors use the named constants
    boolStr (" ".intercalate obsToks == capsLine && 0 < lim_session.DefaultMaxConnections &&
             lim_session.DefaultMaxControlConnections ≤ lim_session.DefaultMaxConnections &&
             lim_sessioncfg.MaxConnections == lim_session.DefaultMaxConnections &&
             lim_sessioncfg.MaxControlConnections == lim_session.DefaultMaxControlConnections)
  else
  match caseToks with
  | "slot" :: _ =>
    match parseSlot caseToks, (obsToks.takeWhile (· != "|")).mapM parseSlotEv with
    | some (l, _), some evs => boolStr (obsToks.contains "|" && C17Slot.holds l evs)
    | _, _ => "false"
  | ["free", "slot", "lim", l, "thr", _, "it", _] =>
    -- counter stress: never more than `limit` holders; afterwards not more than `limit` slots are free
    match l.toNat?, obsToks with
    | some l, ["max", m, "fin", f] =>
      match m.toNat?, f.toNat? with
      | some m, some f => boolStr (decide (m ≤ l) && decide (f ≤ l))
      | _, _ => "false"
    | _, _ => "false"
  | ["free", "race", "lim", l, "it", _] =>
    match l.toNat?, obsToks with
    | some l, ["max", m] => match m.toNat? with | some m => boolStr (decide (m ≤ l)) | none => "false"
    | _, _ => "false"
  | "free" :: _ =>
    match parseFree caseToks, parseFreeObs obsToks with
    | some c, some (a, r, m, f, d) => boolStr (holdsFree c.proto.zeroUnl c.limit c.pre c.n a r m f d)
    | _, _ => "false"
  | _ =>
    match parseCase caseToks, parseObs obsToks with
    | some c, some (tr, fin) => boolStr (holds c.proto.zeroUnl c.limit c.pre tr fin)
    | _, _ => "false"

end Tunnox.Drv.C17
