import TunnoxModel.Driver.Util
import TunnoxModel.Spec.C11
/-!
Line protocol for C11 (see harness/c11/main.go):
  case: c <cmdType> p <0|1> f <conn#> s <snd> r <rcv> t <tok|-> b <0|1> m <ref> g <int> k <ref> d <ref> [e <v> <keys>] [z <conn#>] [y <conn#> <rounds>] [q <fault plan>]
        W [br <0|1>] [ne <0|1>] [xn <0|1>] conns <n> (<step>[><step>…][@<node>])*   (step = <N|U|A|P|F><clientID>; histories run in list order, `Model.connsOf`) maps <n> (<listen>:<target>:<s|t>:<a|i>)* codes <n> (<target>:<0|1|activator>)* doms <n> (<owner>)*
  obs:  <run> ~ <run>,  run = ret <0|1> rsp <n|o|f> view <…|-> chg <…|-> dlv <…|-> gone <…|-> [dig <…|->]
        (dig = digests of delivered payloads / stored records; stripped before the comparison with the model)
The driver runs the `.repaired` variant of the model.
-/
namespace Tunnox.Drv.C11
open Tunnox.C11

def parseStep (s : String) : Option Step :=
  match s.toList with
  | 'N' :: _ => some .accept
  | 'U' :: _ => some .refused
  | 'P' :: r => (String.ofList r).toNat?.map (fun c => if c == 0 then .refused else .pending c)
  | 'F' :: r => (String.ofList r).toNat?.map (fun c => if c == 0 then .refused else .failed c)
  | 'A' :: r => (String.ofList r).toNat?.map (fun c => if c == 0 then .refused else .login c)
  | _ => none

/-- `<step>[><step>…][@<node>]`, step = `<N|U|A|P|F><clientID>`: the history of one connection -/
def parseConn (s : String) : Option (Nat × List Step) :=
  match s.splitOn "@" with
  | [h] => (h.splitOn ">").mapM parseStep |>.map (fun st => (0, st))
  | [h, n] => do pure (← n.toNat?, ← (h.splitOn ">").mapM parseStep)
  | _ => none

/-- A code `t:a` with `a ≥ 2` was activated by client `a` through the real service: the mapping `a → t` it created is
part of the world, after the listed mappings, in the order of the codes. -/
def derivedMaps (codes : List Code) : List Mapping :=
  codes.filterMap (fun c => c.actBy.map (fun a => ⟨a, c.target, false, true⟩))

def parseMap (s : String) : Option Mapping :=
  match s.splitOn ":" with
  | [l, t, p, a] => do pure ⟨← l.toNat?, ← t.toNat?, p == "s", a == "a"⟩
  | _ => none

def parseCode (s : String) : Option Code :=
  match s.splitOn ":" with
  | [t, a] => do
    let a ← a.toNat?
    pure ⟨← t.toNat?, a != 0, if a ≥ 2 then some a else none⟩
  | _ => none

def section_ {α} (tag : String) (p : String → Option α) : List String → Option (List α × List String)
  | t :: n :: rest =>
    if t != tag then none else do
      let n ← n.toNat?
      let (xs, rest) ← takeN n rest
      let ys ← xs.mapM p
      pure (ys, rest)
  | _ => none

/-- `Gen.c11.identityKeys` in the harness' notation -/
def keysStr : String :=
  ",".intercalate (Gen.c11.identityKeys.map (fun kv => kv.1 ++ (if kv.2 then ":s" else ":n")))

structure Case where
  w : World
  f : Nat
  c : Cmd

def parseCase' : List String → Option Case
  | "c" :: ct :: "p" :: p :: "f" :: f :: "s" :: s :: "r" :: r :: "t" :: t :: "b" :: b :: "m" :: m :: "g" :: g ::
    "k" :: k :: "d" :: d :: rest00 => do
    -- optional `e <foreign value> <key:n|key:s,…>`: extra identity-like keys added to the body
    let extra ← (match rest00 with | "e" :: v :: _ :: _ => v.toNat? | _ => some 0)
    let keys := (match rest00 with | "e" :: _ :: ks :: _ => ks | _ => "")
    let rest01 := (match rest00 with | "e" :: _ :: _ :: r => r | r => r)
    -- optional `z <conn#>`: the handler outlives the RPC wait and resumes while a command of that connection is in flight
    let late := (match rest01 with | "z" :: v :: _ => v.toNat? | _ => none)
    let rest02 := (match rest01 with | "z" :: _ :: r => r | r => r)
    -- optional `y <conn#> <rounds>`: the command runs concurrently with commands of that connection (a schedule as well)
    let late := (match rest02 with | "y" :: v :: _ :: _ => v.toNat? | _ => late)
    let rest02 := (match rest02 with | "y" :: _ :: _ :: r => r | r => r)
    -- optional `q <fault plan>`: which reads of the named mapping's record fail
    let faults ← (match rest02 with | "q" :: v :: _ => v.toNat? | _ => some 0)
    let rest0 ← (match rest02 with | "q" :: _ :: "W" :: r => some r | "W" :: r => some r | _ => none)
    -- the harness must have used exactly the keys the current source yields
    if extra != 0 && keys != keysStr then none
    let bridge := (match rest0 with | "br" :: "1" :: _ => true | _ => false)
    let rest1 := (match rest0 with | "br" :: _ :: r => r | r => r)
    -- optional `ne <0|1>`: no command executor installed
    let noExec := (match rest1 with | "ne" :: "1" :: _ => true | _ => false)
    let rest2 := (match rest1 with | "ne" :: _ :: r => r | r => r)
    -- optional `xn <0|1>`: cross-node machinery (state store, pool, listener) on every node
    let xnode := (match rest2 with | "xn" :: "1" :: _ => true | _ => false)
    let rest := (match rest2 with | "xn" :: _ :: r => r | r => r)
    let (conns, rest) ← section_ "conns" parseConn rest
    let (maps, rest) ← section_ "maps" parseMap rest
    let (codes, rest) ← section_ "codes" parseCode rest
    let (doms, rest) ← section_ "doms" String.toNat? rest
    if !rest.isEmpty then none
    let f ← f.toNat?
    if f ≥ conns.length then none
    pure ⟨⟨connsOf conns, maps ++ derivedMaps codes, codes, doms, noExec, xnode, bridge⟩, f,
      ⟨← ct.toNat?, p == "1", s, r, t, b == "1", ← m.toInt?, ← g.toInt?, ← k.toInt?, ← d.toInt?, 0, extra, faults, late⟩⟩
  | _ => none

/-- `x …` marks an excluded point of the correspondence (ambiguous default DNS target: the implementation's choice
depends on Go's map iteration order); such cases are judged by `holds` only. -/
def parseCase : List String → Option Case
  | "x" :: rest => parseCase' ("c" :: rest)
  | ts => parseCase' ts

/-! rendering -/

def insertSorted (x : String) : List String → List String
  | [] => [x]
  | y :: ys => if x < y || x == y then x :: y :: ys else y :: insertSorted x ys

def sortStrs (xs : List String) : List String := xs.foldr insertSorted []

def joinOr (xs : List String) : String :=
  if xs.isEmpty then "-" else ",".intercalate (sortStrs xs)

def objStr : Obj → String
  | .map i => s!"m{i}" | .code i => s!"c{i}" | .dom i => s!"d{i}"

def chgStr : Chg → String
  | .mod o => objStr o ++ "~"
  | .del o => objStr o ++ "-"
  | .newMap l t => s!"+m:{l}:{t}"
  | .newCode t => s!"+c:{t}"
  | .newDom o => s!"+d:{o}"
  | .alien => "?"

def dlvStr (d : Dlv) : String :=
  s!"{d.conn}:{d.ctype}:" ++ (match d.sender with | some s => toString s | none => "-")

def runStr (r : Run) : String :=
  s!"ret {if r.ret then 1 else 0} rsp " ++ (match r.rsp with | .none => "n" | .ok => "o" | .fail => "f") ++
  " view " ++ joinOr (r.view.map objStr) ++ " chg " ++ joinOr (r.chg.map chgStr) ++
  " dlv " ++ joinOr (r.dlv.map dlvStr) ++ " gone " ++ joinOr (r.gone.map toString)

/-! parsing observations -/

def listOf (s : String) : List String := if s == "-" then [] else s.splitOn ","

def parseObj (s : String) : Option Obj :=
  match s.toList with
  | 'm' :: r => (String.ofList r).toNat?.map Obj.map
  | 'c' :: r => (String.ofList r).toNat?.map Obj.code
  | 'd' :: r => (String.ofList r).toNat?.map Obj.dom
  | _ => none

def parseChg (s : String) : Chg :=
  match s.splitOn ":" with
  | ["+m", l, t] => (match l.toNat?, t.toNat? with | some l, some t => .newMap l t | _, _ => .alien)
  | ["+c", t] => (match t.toNat? with | some t => .newCode t | none => .alien)
  | ["+d", o] => (match o.toNat? with | some o => .newDom o | none => .alien)
  | _ =>
    let cs := s.toList
    match cs.getLast?, parseObj (String.ofList cs.dropLast) with
    | some '~', some o => .mod o
    | some '-', some o => .del o
    | _, _ => .alien

def parseDlv (s : String) : Option Dlv :=
  match s.splitOn ":" with
  | [c, t, snd] => do
    let c ← c.toNat?
    -- an unknown packet class (e.g. a response pushed to a connection that did not ask) gets type 0: never allowed
    let t := t.toNat?.getD 0
    let snd ← (if snd == "-" then some none else snd.toNat?.map some)
    pure ⟨c, t, snd⟩
  | _ => none

def parseRun : List String → Option Run
  | ["ret", r, "rsp", p, "view", v, "chg", c, "dlv", d, "gone", g] => do
    let ret ← (if r == "1" then some true else if r == "0" then some false else none)
    let rsp ← (match p with | "n" => some Rsp.none | "o" => some Rsp.ok | "f" => some Rsp.fail | _ => none)
    let view ← (listOf v).mapM parseObj
    let dlv ← (listOf d).mapM parseDlv
    let gone ← (listOf g).mapM String.toNat?
    pure ⟨ret, rsp, view, (listOf c).map parseChg, dlv, gone⟩
  | _ => none

def runModel (ts : List String) : String :=
  match parseCase ts with
  | some k => runStr (exec .repaired k.w k.f k.c) ++ " ~ " ++ runStr (exec .repaired k.w k.f k.c.strip)
  | none => "bad-case"

/-- `<run> [dig <d,…|->]` -/
def parseRunDig (ts : List String) : Option (Run × List String) :=
  match ts.takeWhile (· != "dig"), (ts.dropWhile (· != "dig")).drop 1 with
  | r, [] => (parseRun r).map (·, [])
  | r, [d] => (parseRun r).map (·, listOf d)
  | _, _ => none

def runHolds (caseToks obsToks : List String) : String :=
  match parseCase caseToks, parseRunDig (obsToks.takeWhile (· != "~")), parseRunDig ((obsToks.dropWhile (· != "~")).drop 1) with
  | some k, some a, some b => boolStr (holdsObs k.w k.f k.c ⟨a.1, b.1, a.2, b.2⟩)
  | _, _, _ => "false"

end Tunnox.Drv.C11
