import TunnoxModel.Driver.Util
import TunnoxModel.Spec.C06
/-!
Line protocol for C06 (see harness/c06/main.go):
  sched code <tc> <ta> key <0|1> max <M> pre <client> <n> th <n> (<a|r> <listener> <laddr> <fault>)* ev <m> (C|X|t<i>)*
  fine  seed <s> code <tc> <ta> max <M> pre <client> <n> th <n> (<a|r> <listener> <laddr> <fault>)*
  obs:  res <n> (<result>)* maps <k> (<l>:<a>:<tc>:<ta>)* rec <absent | a<b>r<b>:by<id|->:m<tuple|x|->>
`fine` runs interleave single storage operations in the implementation: only `holdsCore` is applied to them.
-/
namespace Tunnox.Drv.C06
open Tunnox.C06

/-- Name of the failing storage operation (phase:operation:key class[#occurrence]) ↦ its effect in the model.
Operations whose failure the code absorbs (ID-generator retry, client-index appends) or that run only after
another failure (roll-back, ID release) map to `.none`; an unknown name is a parse error (loud). -/
def faultOf : String → Option Fault
  | "-" => some .none
  | "claim:SetNX:claim" => some .claim
  | "get:Get:code" => some .get
  | "create:Set:pm" => some .createFail
  | "create:AppendToList:list" => some .createFail
  | "create:SetNX:idkey" => some .none
  | "create:SetNX:idkey#1" => some .none
  | "create:AppendToList:client" => some .none
  | "create:AppendToList:client#1" => some .none
  | "create:Delete:idkey" => some .none
  | "create:Delete:pm" => some .none
  | "update:w0" => some .updCode
  | "update:w1" => some .updId
  | "update:w2" => some .updLast
  | "rollback:RemoveFromList:client" => some .none
  | "rollback:RemoveFromList:client#1" => some .none
  | "rollback:RemoveFromList:list" => some .none
  | "rollback:Delete:pm" => some .none
  | "rollback:Delete:idkey" => some .none
  | "release:Delete:claim" => some .release
  | _ => none

def parseThreads : Nat → List String → Option (List Thread × List String)
  | 0, ts => some ([], ts)
  | n + 1, k :: l :: a :: f :: ts => do
    -- kind letter, optionally followed by the spelling number of the code in the request ("a", "r2", …)
    let kind ← (match k.toList with
      | 'a' :: _ => some Kind.activate | 'r' :: _ => some Kind.revoke | 'p' :: _ => some Kind.revoke | _ => none)
    let sp ← (if k.length == 1 then some 0 else (String.ofList (k.toList.drop 1)).toNat?)
    let l ← l.toNat?
    let a ← a.toNat?
    let f ← faultOf f
    let (r, ts') ← parseThreads n ts
    pure ({ kind := kind, listener := l, laddr := a, fault := f, spell := sp, poll := k.toList.head? == some 'p' } :: r, ts')
  | _, _ => none

def parseEv (s : String) : Option Ev :=
  if s == "C" then some .create
  else if s == "X" then some .expire
  else if s == "Z" then some .stall
  else match s.toList with
    | 't' :: ds => (String.ofList ds).toNat?.map Ev.th
    | _ => none

structure Case where
  p : Params
  preC : Nat
  preN : Nat
  ths : List Thread
  evs : List Ev
  fine : Bool

def parseTail (tc ta : Nat) (sticky : Bool) (fine : Bool) : List String → Option Case
  | "max" :: m :: "pre" :: pc :: pn :: "th" :: n :: ts => do
    let m ← m.toNat?
    let pc ← pc.toNat?
    let pn ← pn.toNat?
    let n ← n.toNat?
    let (ths, ts) ← parseThreads n ts
    -- the claim's lifetime in stalls of 3.5 s, from the regenerated codeClaimTTL
    let p : Params := { tc := tc, ta := ta, max := m, sticky := sticky,
                        lease := (Gen.conncode.codeClaimTTL + 3500000000 - 1) / 3500000000 }
    if fine then
      if ts.isEmpty then pure ⟨p, pc, pn, ths, [.create], true⟩ else none
    else match ts with
      | "ev" :: k :: es => do
        let k ← k.toNat?
        let evs ← es.mapM parseEv
        if evs.length == k then pure ⟨p, pc, pn, ths, evs, false⟩ else none
      | _ => none
  | _ => none

def parseCase : List String → Option Case
  | "sched" :: "code" :: tc :: ta :: "key" :: k :: ts => do
    let tc ← tc.toNat?
    let ta ← ta.toNat?
    let k ← k.toNat?
    parseTail tc ta (k == 0) false ts
  | "fine" :: "seed" :: _ :: "code" :: tc :: ta :: ts => do
    let tc ← tc.toNat?
    let ta ← ta.toNat?
    parseTail tc ta false true ts

  | _ => none

def tupStr (t : Tup) : String := s!"{t.1}:{t.2.1}:{t.2.2.1}:{t.2.2.2}"

def insertSorted (s : String) : List String → List String
  | [] => [s]
  | x :: xs => if s < x then s :: x :: xs else x :: insertSorted s xs

def sortStrings (xs : List String) : List String := xs.foldr insertSorted []

def oresStr : ORes → String
  | .ok t i => s!"ok:{tupStr t}:{if i then "in" else "out"}"
  | .rok => "rok"
  | .err c => c
  | .running => "running"

def obsStr (o : Obs) : String :=
  let res := " ".intercalate (s!"res {o.results.length}" :: o.results.map oresStr)
  let maps := " ".intercalate (s!"maps {o.maps.length}" :: sortStrings (o.maps.map tupStr))
  let rec_ := match o.orec with
    | none => "rec absent"
    | some r =>
      let by_ := match r.by_ with | some b => toString b | none => "-"
      let mp := match r.mapping with | none => "-" | some none => "x" | some (some t) => tupStr t
      s!"rec a{if r.activated then 1 else 0}r{if r.revoked then 1 else 0}:by{by_}:m{mp}"
  s!"{res} {maps} {rec_}"

def parseTup : List String → Option Tup
  | [l, a, tc, ta] => do pure (← l.toNat?, ← a.toNat?, ← tc.toNat?, ← ta.toNat?)
  | _ => none

def errClasses : List String :=
  ["missing", "notfound", "forbidden", "conflict", "expired", "badaddr", "quota", "storage", "internal",
   "seen:a0r0", "seen:a1r0", "seen:a0r1", "seen:a1r1"]

def parseORes (s : String) : Option ORes :=
  if s == "rok" then some .rok
  else if errClasses.contains s then some (.err s)
  else match s.splitOn ":" with
    | ["ok", l, a, tc, ta, i] => do
      let t ← parseTup [l, a, tc, ta]
      if i == "in" then pure (.ok t true) else if i == "out" then pure (.ok t false) else none
    | _ => none

def dropPrefix (pre s : String) : Option String :=
  if pre.toList.isPrefixOf s.toList then some (String.ofList (s.toList.drop pre.length)) else none

def parseORec (s : String) : Option (Option ORec) :=
  if s == "absent" then some none else
  match s.splitOn ":" with
  | ar :: by_ :: m :: rest => do
    let (act, rev) ← (match ar with
      | "a0r0" => some (false, false) | "a1r0" => some (true, false)
      | "a0r1" => some (false, true) | "a1r1" => some (true, true) | _ => none)
    let b ← dropPrefix "by" by_
    let by' ← (if b == "-" then some none else b.toNat?.map some)
    let m0 ← dropPrefix "m" m
    let mp ← (if rest.isEmpty then
                (if m0 == "-" then some none else if m0 == "x" then some (some none) else none)
              else (parseTup (m0 :: rest)).map (fun t => some (some t)))
    pure (some ⟨act, rev, by', mp⟩)
  | _ => none

def parseObs : List String → Option Obs
  | "res" :: n :: ts => do
    let n ← n.toNat?
    let (rs, ts) ← takeN n ts
    let rs ← rs.mapM parseORes
    match ts with
    | "maps" :: k :: ts => do
      let k ← k.toNat?
      let (ms, ts) ← takeN k ts
      let ms ← ms.mapM (fun s => parseTup (s.splitOn ":"))
      match ts with
      | ["rec", r] => do
        let r ← parseORec r
        pure ⟨rs, ms, r⟩
      | _ => none
    | _ => none
  | _ => none

/-- `nodes` / `nfine`: the same histories with every call on its own cluster node (HybridStorage); the model
does not change. -/
def normKind : List String → List String
  | "nodes" :: rest => "sched" :: rest
  | "snode" :: rest => "sched" :: rest
  | "nfine" :: rest => "fine" :: rest
  | ts => ts

def fullEvs (c : Case) : List Ev := c.evs ++ drain c.ths.length

def runModel (ts : List String) : String :=
  if ts.head? == some "uniq" then "not-compared" else
  match parseCase (normKind ts) with
  | some c =>
    if c.fine then "not-compared" else
    obsStr (obs (run .repaired c.p (init c.preC c.preN c.ths) (fullEvs c)))
  | none => "bad-case"

/-- `uniq cs <n> ops <k> …  ##  res <k> <r>* percode <m> <count>*` -/
def runHoldsUniq (caseToks obsToks : List String) : String :=
  match caseToks, obsToks with
  | "uniq" :: "cs" :: n :: "ops" :: k :: _, "res" :: k' :: rest =>
    match n.toNat?, k.toNat?, k'.toNat? with
    | some n, some k, some k' =>
      if k != k' then "false" else
      match takeN k rest with
      | some (rs, "percode" :: m :: cs) =>
        match m.toNat?, cs.mapM String.toNat? with
        | some m, some cs => if cs.length == m then boolStr (holdsUniq n rs cs) else "false"
        | _, _ => "false"
      | _ => "false"
    | _, _, _ => "false"
  | _, _ => "false"

def runHolds (caseToks obsToks : List String) : String :=
  if caseToks.head? == some "uniq" then runHoldsUniq caseToks obsToks else
  match parseCase (normKind caseToks), parseObs obsToks with
  | some c, some o =>
    if c.fine then boolStr (holdsCore c.p (c.ths.map callOf) o)
    else boolStr (holds c.p (c.ths.map callOf) (fullEvs c) o)
  | _, _ => "false"

end Tunnox.Drv.C06
