import TunnoxModel.Spec.C12
/-! Helper lemmas for C12 (core Lean only). -/
namespace Tunnox.C12
open Gen Gen.iocopy.UDP

/-! ### scripted reads -/

/-- Size of a script: every Read removes a chunk or a non-empty piece of one. -/
def meas (p : List Bytes) : Nat := p.flatten.length + p.length

theorem stepsFor_eq (p : List Bytes) : stepsFor p = meas p + 1 := rfl

theorem rdNext_data_rest (p : List Bytes) (f : Bool) (room : Nat) :
    (rdNext p f room).data ++ (rdNext p f room).rest.flatten = p.flatten := by
  cases p with
  | nil => simp [rdNext]
  | cons c cs =>
    simp only [rdNext]
    split
    · simp
    · simp [← List.append_assoc]

theorem rdNext_fin_rest (p : List Bytes) (f : Bool) (room : Nat)
    (h : (rdNext p f room).fin = true) : (rdNext p f room).rest = [] := by
  cases p with
  | nil => simp [rdNext]
  | cons c cs =>
    simp only [rdNext] at h ⊢
    split
    · rename_i hc
      simp only [hc, if_true] at h
      simp at h
      exact h.1
    · rename_i hc
      simp [hc] at h

theorem rdNext_meas (p : List Bytes) (f : Bool) (room : Nat) (hroom : 0 < room) (hp : p ≠ []) :
    meas (rdNext p f room).rest < meas p := by
  cases p with
  | nil => exact absurd rfl hp
  | cons c cs =>
    simp only [rdNext]
    split
    · simp [meas]; omega
    · rename_i hc
      simp [meas]
      omega

theorem rdNext_nil (f : Bool) (room : Nat) : rdNext [] f room = ⟨[], true, []⟩ := rfl

/-! ### one copy goroutine -/

structure DirInv (src : EP) (d : Dir) : Prop where
  pre : d.delivered <+: src.reads.flatten
  full : d.wfEnv = false → d.delivered ++ d.pending.flatten = src.reads.flatten
  fin : d.done = true → d.wfEnv = false → d.pending = []
  wfd : d.wfEnv = true → d.done = true

theorem dirInv_init (src : EP) : DirInv src { pending := src.reads } :=
  ⟨by simp, by simp, by simp, by simp⟩

theorem copyBuf_pos : 0 < cloudconstants.CopyBufferSize := by decide

theorem dirStep_inv (src dst : EP) (b : Bool) (d : Dir) (h : DirInv src d) : DirInv src (dirStep src dst b d) := by
  unfold dirStep
  by_cases hd : d.done = true
  · simp only [hd, if_true]; exact h
  · simp only [hd]
    have hw : d.wfEnv = false := by
      cases hwe : d.wfEnv with
      | false => rfl
      | true => exact absurd (h.wfd hwe) hd
    have hdr := rdNext_data_rest d.pending src.fused cloudconstants.CopyBufferSize
    have hfr := rdNext_fin_rest d.pending src.fused cloudconstants.CopyBufferSize
    generalize rdNext d.pending src.fused cloudconstants.CopyBufferSize = r at hdr hfr
    by_cases he : r.data.isEmpty = true
    · have he' : r.data = [] := List.isEmpty_iff.mp he
      simp only [he, if_true]
      rw [he', List.nil_append] at hdr
      by_cases hf : r.fin = true
      · simp only [hf, if_true, Dir.finishRead]
        exact ⟨h.pre, fun hw => by simpa [hdr] using h.full hw, fun _ _ => hfr hf, fun h' => by simp [hw] at h'⟩
      · simp only [hf]
        exact ⟨h.pre, fun hw => by simpa [hdr] using h.full hw, fun hdone => by simp at hdone,
          fun h' => by simp [hw] at h'⟩
    · simp only [he]
      by_cases hr : sinkRefuses dst b d.nw = true
      · simp only [hr, if_true]
        exact ⟨h.pre, fun hw => by simp at hw, fun _ hw => by simp at hw, fun _ => rfl⟩
      · simp only [hr]
        have hfull := h.full hw
        have hnew : (d.delivered ++ r.data) ++ r.rest.flatten = src.reads.flatten := by
          rw [List.append_assoc, hdr]; exact hfull
        have hpre : (d.delivered ++ r.data) <+: src.reads.flatten := ⟨r.rest.flatten, hnew⟩
        by_cases hf : r.fin = true
        · simp only [hf, if_true, Dir.finishRead]
          exact ⟨hpre, fun _ => hnew, fun _ _ => hfr hf, fun h' => by simp [hw] at h'⟩
        · simp only [hf]
          exact ⟨hpre, fun _ => hnew, fun hdone => by simp at hdone, fun h' => by simp [hw] at h'⟩

/-- Iterations a goroutine still needs at most. -/
def Dir.rem (d : Dir) : Nat := if d.done then 0 else meas d.pending + 1

theorem dirStep_rem (src dst : EP) (b : Bool) (d : Dir) : (dirStep src dst b d).rem ≤ d.rem - 1 := by
  unfold dirStep
  by_cases hd : d.done = true
  · simp [hd, Dir.rem]
  · have hd' : d.done = false := by simpa using hd
    simp only [hd]
    have hm := rdNext_meas d.pending src.fused cloudconstants.CopyBufferSize copyBuf_pos
    have hnil := rdNext_nil src.fused cloudconstants.CopyBufferSize
    have hrem : d.rem = meas d.pending + 1 := by simp [Dir.rem, hd']
    rw [hrem]
    cases hp : d.pending with
    | nil =>
      simp [hnil, Dir.rem, Dir.finishRead]
    | cons c cs =>
      have hm' := hm (by simp [hp])
      rw [hp] at hm'
      generalize rdNext (c :: cs) src.fused cloudconstants.CopyBufferSize = r at hm'
      by_cases he : r.data.isEmpty = true
      · simp only [he, if_true]
        by_cases hf : r.fin = true
        · simp [hf, Dir.rem, Dir.finishRead]
        · simp [hf, Dir.rem]; omega
      · simp only [he]
        by_cases hr : sinkRefuses dst b d.nw = true
        · simp [hr, Dir.rem]
        · simp only [hr]
          by_cases hf : r.fin = true
          · simp [hf, Dir.rem, Dir.finishRead]
          · simp [hf, Dir.rem]; omega

theorem dirStep_done_mono (src dst : EP) (b : Bool) (d : Dir) (h : d.done = true) :
    dirStep src dst b d = d := by
  simp [dirStep, h]

theorem Dir.rem_zero_iff (d : Dir) : d.rem = 0 ↔ d.done = true := by
  unfold Dir.rem; split <;> simp_all

/-! ### both goroutines under a schedule -/

structure TcpInv (A B : EP) (s : TcpSt) : Prop where
  ab : DirInv A s.ab
  ba : DirInv B s.ba

theorem tcpStep_inv (A B : EP) (s : TcpSt) (t : Bool) (h : TcpInv A B s) : TcpInv A B (tcpStep A B s t) := by
  unfold tcpStep
  cases t with
  | true => exact ⟨dirStep_inv A B _ _ h.ab, h.ba⟩
  | false => exact ⟨h.ab, dirStep_inv B A _ _ h.ba⟩

theorem tcpFold_inv (A B : EP) (σ : List Bool) (s : TcpSt) (h : TcpInv A B s) :
    TcpInv A B (σ.foldl (tcpStep A B) s) := by
  induction σ generalizing s with
  | nil => exact h
  | cons t σ ih => exact ih _ (tcpStep_inv A B s t h)

theorem tcpRun_inv (A B : EP) (σ : List Bool) : TcpInv A B (tcpRun A B σ) :=
  tcpFold_inv A B σ _ ⟨dirInv_init A, dirInv_init B⟩

theorem tcpFold_rem_ab (A B : EP) (σ : List Bool) (s : TcpSt) :
    (σ.foldl (tcpStep A B) s).ab.rem ≤ s.ab.rem - σ.count true := by
  induction σ generalizing s with
  | nil => simp
  | cons t σ ih =>
    have := ih (tcpStep A B s t)
    cases t with
    | true =>
      have h1 : (tcpStep A B s true).ab.rem ≤ s.ab.rem - 1 := by
        simp only [tcpStep, if_true]; exact dirStep_rem A B _ _
      simp only [List.foldl_cons, List.count_cons_self]
      omega
    | false =>
      have h1 : (tcpStep A B s false).ab = s.ab := by simp [tcpStep]
      simp only [List.foldl_cons]
      rw [h1] at this
      simpa using this

theorem tcpFold_rem_ba (A B : EP) (σ : List Bool) (s : TcpSt) :
    (σ.foldl (tcpStep A B) s).ba.rem ≤ s.ba.rem - σ.count false := by
  induction σ generalizing s with
  | nil => simp
  | cons t σ ih =>
    have := ih (tcpStep A B s t)
    cases t with
    | false =>
      have h1 : (tcpStep A B s false).ba.rem ≤ s.ba.rem - 1 := by
        simp only [tcpStep]; exact dirStep_rem B A _ _
      simp only [List.foldl_cons, List.count_cons_self]
      omega
    | true =>
      have h1 : (tcpStep A B s true).ba = s.ba := by simp [tcpStep]
      simp only [List.foldl_cons]
      rw [h1] at this
      simpa using this

theorem tcpInit_rem_ab (A B : EP) : (tcpInit A B).ab.rem = stepsFor A.reads := by
  simp [tcpInit, Dir.rem, stepsFor_eq]

theorem tcpInit_rem_ba (A B : EP) : (tcpInit A B).ba.rem = stepsFor B.reads := by
  simp [tcpInit, Dir.rem, stepsFor_eq]

/-- Enough turns for both goroutines: both finish, `wg.Wait()` passes. -/
theorem tcpRun_returned (A B : EP) (σ : List Bool)
    (ha : stepsFor A.reads ≤ σ.count true) (hb : stepsFor B.reads ≤ σ.count false) :
    (tcpRun A B σ).returned = true := by
  have h1 := tcpFold_rem_ab A B σ (tcpInit A B)
  have h2 := tcpFold_rem_ba A B σ (tcpInit A B)
  rw [tcpInit_rem_ab] at h1
  rw [tcpInit_rem_ba] at h2
  have d1 : (tcpRun A B σ).ab.done = true := (Dir.rem_zero_iff _).mp (by unfold tcpRun; omega)
  have d2 : (tcpRun A B σ).ba.done = true := (Dir.rem_zero_iff _).mp (by unfold tcpRun; omega)
  simp [TcpSt.returned, d1, d2]

theorem tcpComplete_counts (A B : EP) (σ : List Bool) :
    stepsFor A.reads ≤ (tcpComplete A B σ).count true ∧ stepsFor B.reads ≤ (tcpComplete A B σ).count false := by
  simp [tcpComplete, List.count_append, List.count_replicate]

theorem dir_final (src : EP) (d : Dir) (h : DirInv src d) (hd : d.done = true) :
    (d.wfEnv || d.delivered == src.reads.flatten) = true := by
  cases hw : d.wfEnv with
  | true => rfl
  | false =>
    have h1 := h.full hw
    rw [h.fin hd hw] at h1
    simp at h1
    simp [h1]

theorem holdsTcp_of (A B : EP) (s : TcpSt) (inv : TcpInv A B s) (ret : s.returned = true) :
    holdsTcp A B (tcpObs s) = true := by
  have hd : s.ab.done = true ∧ s.ba.done = true := by simpa [TcpSt.returned] using ret
  have p1 : s.ab.delivered.isPrefixOf A.reads.flatten = true := List.isPrefixOf_iff_prefix.mpr inv.ab.pre
  have p2 : s.ba.delivered.isPrefixOf B.reads.flatten = true := List.isPrefixOf_iff_prefix.mpr inv.ba.pre
  have f1 := dir_final A s.ab inv.ab hd.1
  have f2 := dir_final B s.ba inv.ba hd.2
  simp only [holdsTcp, tcpObs, ret, p1, p2, f1, f2]
  rfl

/-! ### the record codec -/

theorem drain_fuel (f : Nat) : ∀ (g : Nat) (bs : Bytes), bs.length ≤ f → bs.length ≤ g → drain f bs = drain g bs := by
  induction f with
  | zero =>
    intro g bs hf _
    have : bs = [] := List.eq_nil_of_length_eq_zero (by omega)
    subst this
    cases g <;> rfl
  | succ f ih =>
    intro g bs hf hg
    match bs, hf, hg with
    | [], _, _ => cases g <;> rfl
    | [b], _, _ => cases g <;> rfl
    | hi :: lo :: body, hf, hg =>
      cases g with
      | zero => simp at hg
      | succ g =>
        simp only [List.length_cons] at hf hg
        simp only [drain]
        rw [ih g (body.drop (hi.toNat * 256 + lo.toNat)) (by simp; omega) (by simp; omega)]

theorem drainAll_nil : drainAll [] = ⟨[], [], false⟩ := rfl
theorem drainAll_single (b : Byte) : drainAll [b] = ⟨[], [b], false⟩ := rfl

theorem drainAll_cons2 (hi lo : Byte) (body : Bytes) :
    drainAll (hi :: lo :: body) =
      if hi.toNat * 256 + lo.toNat = 0 ∨ hi.toNat * 256 + lo.toNat > maxPacketLen then ⟨[], hi :: lo :: body, true⟩
      else if body.length < hi.toNat * 256 + lo.toNat then ⟨[], hi :: lo :: body, false⟩
      else ⟨body.take (hi.toNat * 256 + lo.toNat) :: (drainAll (body.drop (hi.toNat * 256 + lo.toNat))).pk,
            (drainAll (body.drop (hi.toNat * 256 + lo.toNat))).rest,
            (drainAll (body.drop (hi.toNat * 256 + lo.toNat))).ill⟩ := by
  unfold drainAll
  simp only [List.length_cons, drain]
  rw [drain_fuel (body.length + 1) (body.drop (hi.toNat * 256 + lo.toNat)).length _ (by simp; omega) (Nat.le_refl _)]

/-- Parsing a window that is extended by more bytes: parse the old window, then continue from its
unprocessed tail — the algebra behind "compaction + next Read". -/
def comb (d : DrainRes) (y : Bytes) : DrainRes :=
  if d.ill then ⟨d.pk, d.rest ++ y, true⟩
  else ⟨d.pk ++ (drainAll (d.rest ++ y)).pk, (drainAll (d.rest ++ y)).rest, (drainAll (d.rest ++ y)).ill⟩

theorem drainAll_append_aux (y : Bytes) (n : Nat) : ∀ x : Bytes, x.length ≤ n → drainAll (x ++ y) = comb (drainAll x) y := by
  induction n with
  | zero =>
    intro x hx
    have : x = [] := List.eq_nil_of_length_eq_zero (by omega)
    subst this
    simp [comb, drainAll_nil]
  | succ n ih =>
    intro x hx
    match x, hx with
    | [], _ => simp [comb, drainAll_nil]
    | [b], _ => simp [comb, drainAll_single]
    | hi :: lo :: body, hx =>
      simp only [List.length_cons] at hx
      rw [List.cons_append, List.cons_append, drainAll_cons2, drainAll_cons2]
      generalize hm : hi.toNat * 256 + lo.toNat = m
      by_cases h1 : m = 0 ∨ m > maxPacketLen
      · rw [if_pos h1, if_pos h1]; simp [comb]
      · rw [if_neg h1, if_neg h1]
        by_cases h2 : body.length < m
        · rw [if_pos h2]
          simp only [comb, Bool.false_eq_true, if_false, List.nil_append, List.cons_append]
          rw [drainAll_cons2, hm, if_neg h1]
        · rw [if_neg h2]
          have hle : m ≤ body.length := Nat.le_of_not_lt h2
          have h3 : ¬ (body ++ y).length < m := by simp; omega
          rw [if_neg h3]
          rw [List.take_append_of_le_length hle, List.drop_append_of_le_length hle]
          rw [ih (body.drop m) (by simp; omega)]
          simp only [comb]
          by_cases h4 : (drainAll (body.drop m)).ill = true
          · simp [h4]
          · simp [h4]

theorem drainAll_append (x y : Bytes) : drainAll (x ++ y) = comb (drainAll x) y :=
  drainAll_append_aux y x.length x (Nat.le_refl _)

/-- A window content from which the unpack loop extracts nothing and which is not illegal:
fewer than two bytes, or an incomplete record. -/
def Stuck (r : Bytes) : Prop := drainAll r = ⟨[], r, false⟩

theorem stuck_nil : Stuck [] := drainAll_nil

theorem drainAll_rest_stuck_aux (n : Nat) : ∀ x : Bytes, x.length ≤ n → (drainAll x).ill = false → Stuck (drainAll x).rest := by
  induction n with
  | zero =>
    intro x hx _
    have : x = [] := List.eq_nil_of_length_eq_zero (by omega)
    subst this
    exact stuck_nil
  | succ n ih =>
    intro x hx
    match x, hx with
    | [], _ => intro _; exact stuck_nil
    | [b], _ => intro _; exact drainAll_single b
    | hi :: lo :: body, hx =>
      simp only [List.length_cons] at hx
      rw [drainAll_cons2]
      generalize hm : hi.toNat * 256 + lo.toNat = m
      by_cases h1 : m = 0 ∨ m > maxPacketLen
      · rw [if_pos h1]; intro h; cases h
      · rw [if_neg h1]
        by_cases h2 : body.length < m
        · rw [if_pos h2]
          intro _
          show Stuck (hi :: lo :: body)
          unfold Stuck
          rw [drainAll_cons2, hm, if_neg h1, if_pos h2]
        · rw [if_neg h2]
          exact ih _ (by simp; omega)

theorem drainAll_rest_stuck (x : Bytes) (h : (drainAll x).ill = false) : Stuck (drainAll x).rest :=
  drainAll_rest_stuck_aux x.length x (Nat.le_refl _) h

theorem stuck_len (r : Bytes) (h : Stuck r) : r.length ≤ maxPacketLen + 1 := by
  match r, h with
  | [], _ => simp
  | [b], _ => simp [maxPacketLen]
  | hi :: lo :: body, h =>
    unfold Stuck at h
    rw [drainAll_cons2] at h
    generalize hi.toNat * 256 + lo.toNat = m at h
    by_cases h1 : m = 0 ∨ m > maxPacketLen
    · rw [if_pos h1] at h; cases h
    · rw [if_neg h1] at h
      by_cases h2 : body.length < m
      · simp only [List.length_cons]
        have : ¬ m > maxPacketLen := fun hh => h1 (Or.inr hh)
        omega
      · rw [if_neg h2] at h; cases h

theorem stuck_drain (r : Bytes) (h : Stuck r) : (drainAll r).pk = [] ∧ (drainAll r).rest = r ∧ (drainAll r).ill = false := by
  rw [h]; exact ⟨rfl, rfl, rfl⟩

/-! ### encoding -/

theorem encodeAll_cons (d : Bytes) (ds : List Bytes) : encodeAll (d :: ds) = encode1 d ++ encodeAll ds := by
  simp [encodeAll]

theorem encodeAll_nil : encodeAll [] = [] := rfl

theorem encodeAll_append (a b : List Bytes) : encodeAll (a ++ b) = encodeAll a ++ encodeAll b := by
  simp [encodeAll]

theorem encode1_length (d : Bytes) : (encode1 d).length = 2 + d.length := by
  simp [encode1]; omega

theorem prefix_val (d : Bytes) (h : d.length ≤ 65535) :
    (UInt8.ofNat (d.length / 256)).toNat * 256 + (UInt8.ofNat d.length).toNat = d.length := by
  simp
  omega

/-- One whole record at the front of the window is extracted. -/
theorem drainAll_encode1 (d rest : Bytes) (hwf : wfDgram d = true) :
    drainAll (encode1 d ++ rest) = ⟨d :: (drainAll rest).pk, (drainAll rest).rest, (drainAll rest).ill⟩ := by
  have hw : 1 ≤ d.length ∧ d.length ≤ 65535 := by simpa [wfDgram] using hwf
  show drainAll (UInt8.ofNat (d.length / 256) :: UInt8.ofNat d.length :: (d ++ rest)) = _
  rw [drainAll_cons2, prefix_val d hw.2]
  have h1 : ¬ (d.length = 0 ∨ d.length > maxPacketLen) := by (have hmx : maxPacketLen = 65535 := rfl); omega
  have h2 : ¬ (d ++ rest).length < d.length := by simp
  rw [if_neg h1, if_neg h2]
  simp

/-- A proper prefix of one record: nothing is extracted, nothing is illegal. -/
theorem drainAll_partial (d : Bytes) (hwf : wfDgram d = true) (k : Nat) (hk : k < 2 + d.length) :
    Stuck ((encode1 d).take k) := by
  have hw : 1 ≤ d.length ∧ d.length ≤ 65535 := by simpa [wfDgram] using hwf
  match k, hk with
  | 0, _ => exact stuck_nil
  | 1, _ => exact drainAll_single _
  | k + 2, hk =>
    show Stuck (UInt8.ofNat (d.length / 256) :: UInt8.ofNat d.length :: d.take k)
    unfold Stuck
    rw [drainAll_cons2, prefix_val d hw.2]
    have h1 : ¬ (d.length = 0 ∨ d.length > maxPacketLen) := by (have hmx : maxPacketLen = 65535 := rfl); omega
    have h2 : (d.take k).length < d.length := by rw [List.length_take]; omega
    rw [if_neg h1, if_pos h2]

theorem completeBefore_all (ds : List Bytes) (cut : Nat) (h : (encodeAll ds).length ≤ cut) : completeBefore ds cut = ds := by
  induction ds generalizing cut with
  | nil => rfl
  | cons d ds ih =>
    rw [encodeAll_cons, List.length_append, encode1_length] at h
    simp only [completeBefore]
    rw [if_pos (by omega), ih _ (by omega)]

/-- **Cut theorem for the parser**: the encoding of well-formed datagrams, ended at ANY byte
offset, parses to exactly the datagrams that were complete before the cut, is never illegal, and
leaves an unfinished record (or nothing). -/
theorem drainAll_cut (ds : List Bytes) (hwf : ds.all wfDgram = true) (cut : Nat) :
    (drainAll ((encodeAll ds).take cut)).pk = completeBefore ds cut ∧
    (drainAll ((encodeAll ds).take cut)).ill = false := by
  induction ds generalizing cut with
  | nil => simp [encodeAll_nil, drainAll_nil, completeBefore]
  | cons d ds ih =>
    have hd : wfDgram d = true := by simp at hwf; exact hwf.1
    have hds : ds.all wfDgram = true := by simp at hwf ⊢; exact hwf.2
    rw [encodeAll_cons]
    simp only [completeBefore]
    by_cases hc : 2 + d.length ≤ cut
    · rw [if_pos hc]
      have : (encode1 d ++ encodeAll ds).take cut = encode1 d ++ (encodeAll ds).take (cut - (2 + d.length)) := by
        rw [List.take_append, encode1_length, List.take_of_length_le (by rw [encode1_length]; exact hc)]
      rw [this, drainAll_encode1 _ _ hd]
      have := ih hds (cut - (2 + d.length))
      exact ⟨by simp [this.1], this.2⟩
    · rw [if_neg hc]
      have hlt : cut < 2 + d.length := Nat.lt_of_not_le hc
      have : (encode1 d ++ encodeAll ds).take cut = (encode1 d).take cut := by
        rw [List.take_append_of_le_length (by rw [encode1_length]; omega)]
      rw [this]
      have := stuck_drain _ (drainAll_partial d hd cut hlt)
      exact ⟨this.1, this.2.2⟩

/-- Complete records followed by anything: the records come out first, in order. -/
theorem drainAll_encodeAll_append (ds : List Bytes) (hwf : ds.all wfDgram = true) (junk : Bytes) :
    (drainAll (encodeAll ds ++ junk)).pk = ds ++ (drainAll junk).pk := by
  induction ds with
  | nil => simp [encodeAll_nil]
  | cons d ds ih =>
    have hd : wfDgram d = true := by simp at hwf; exact hwf.1
    have hds : ds.all wfDgram = true := by simp at hwf ⊢; exact hwf.2
    rw [encodeAll_cons, List.append_assoc, drainAll_encode1 _ _ hd]
    simp [ih hds]

end Tunnox.C12
